// Package rig assembles real chain33 test nodes for the block-chain families
// (C25-C27 here; C28, C29, C14 build on it): a *receiver* node with mining off that
// gets blocks through the production entry points, and a *factory* node that
// manufactures valid blocks on any parent (executing them on the parent's state, so
// that StateHash / TxHash are the real ones and children can be built on top).
//
// Everything here runs the real modules (queue, executor, mavl store on LevelDB in a
// temp dir, mempool, solo consensus with mining off, BlockChain); nothing is mocked
// except the p2p module (testnode's mockP2P, as in chain33's own tests).
package rig

import (
	"bytes"
	"errors"
	"fmt"
	"math/big"
	"os"
	"strings"
	"sync"
	"time"

	"github.com/33cn/chain33/blockchain"
	"github.com/33cn/chain33/common"
	"github.com/33cn/chain33/common/address"
	"github.com/33cn/chain33/common/crypto"
	"github.com/33cn/chain33/common/difficulty"
	"github.com/33cn/chain33/common/log"
	"github.com/33cn/chain33/common/log/log15"
	"github.com/33cn/chain33/common/merkle"
	"github.com/33cn/chain33/queue"
	_ "github.com/33cn/chain33/system" // register system plugins (solo, coins, none, mavl, timeline)
	"github.com/33cn/chain33/types"
	"github.com/33cn/chain33/util"
	"github.com/33cn/chain33/util/testnode"
)

// Margin is the hard-coded finalisation margin of connectBestChain (node.height < finalized+12).
const Margin = 12

func init() {
	Quiet()
}

// Quiet silences chain33's console logging (testnode's init sets it to "info").
func Quiet() {
	log.SetLogLevel("crit")
	log15.Root().SetHandler(log15.DiscardHandler())
}

var fastTmp string

// UseFastTmp points the process's temp dir (where testnode puts its LevelDB data dirs) to a
// private directory on tmpfs when /dev/shm exists: block connection writes with fsync, which
// dominates the cost of a delivery on a disk-backed /tmp. Returns a cleanup function.
func UseFastTmp() func() {
	if st, err := os.Stat("/dev/shm"); err != nil || !st.IsDir() {
		return func() {}
	}
	d, err := os.MkdirTemp("/dev/shm", fmt.Sprintf("verif-chain-%d-", os.Getpid()))
	if err != nil {
		return func() {}
	}
	fastTmp = d
	os.Setenv("TMPDIR", d)
	return func() { os.RemoveAll(d) }
}

// Opts configures a node.
type Opts struct {
	RecordSeq bool // blockchain.isRecordBlockSequence (C26)
	Miner     bool // consensus.minerstart; receivers and the factory run with false
	// Mutate lets a family adjust the configuration before the node starts.
	Mutate func(cfg *types.Chain33Config)
}

// Config builds the node configuration from chain33's default test configuration.
func Config(o Opts) *types.Chain33Config {
	s := types.GetDefaultCfgstring()
	if !o.Miner {
		s = strings.Replace(s, "minerstart=true", "minerstart=false", 1)
	}
	if !o.RecordSeq {
		s = strings.Replace(s, "isRecordBlockSequence=true", "isRecordBlockSequence=false", 1)
		s = strings.Replace(s, "enablePushSubscribe=true", "enablePushSubscribe=false", 1)
	}
	cfg := types.NewChain33Config(s)
	m := cfg.GetModuleConfig()
	m.Consensus.Minerstart = o.Miner
	m.BlockChain.IsRecordBlockSequence = o.RecordSeq
	if !o.RecordSeq {
		m.BlockChain.EnablePushSubscribe = false
	}
	if o.Mutate != nil {
		o.Mutate(cfg)
	}
	return cfg
}

// Node is one running chain33 test node.
type Node struct {
	Mock  *testnode.Chain33Mock
	Chain *blockchain.BlockChain
	Cfg   *types.Chain33Config
	Opts  Opts
}

var startMu sync.Mutex

// Start starts a node and waits (bounded polling) until the genesis block is stored
// and the node left the start-up "fast download" mode (SingleMode leaves it at once;
// while in it EventAddBlock messages are parked in a temp table instead of processed).
func Start(o Opts) (*Node, error) {
	cfg := Config(o)
	// module start-up touches process-wide registries (address drivers, crypto, executor
	// types); starting nodes one at a time keeps that race-free. Running nodes are independent.
	startMu.Lock()
	mock := testnode.NewWithConfig(cfg, nil)
	startMu.Unlock()
	if mock == nil {
		return nil, errors.New("rig: testnode did not start")
	}
	n := &Node{Mock: mock, Chain: mock.GetBlockChain(), Cfg: cfg, Opts: o}
	deadline := time.Now().Add(60 * time.Second)
	for {
		if n.Chain.GetBlockHeight() >= 0 && n.Chain.GetDownloadSyncStatus() == 0 {
			break
		}
		if time.Now().After(deadline) {
			n.Close()
			return nil, fmt.Errorf("rig: node not ready (height %d, download mode %d)", n.Chain.GetBlockHeight(), n.Chain.GetDownloadSyncStatus())
		}
		time.Sleep(2 * time.Millisecond)
	}
	return n, nil
}

// Close stops the node and removes its data directory.
func (n *Node) Close() {
	if n != nil && n.Mock != nil {
		n.Mock.Close()
		n.Mock = nil
	}
}

// Client returns a queue client of the node.
func (n *Node) Client() queue.Client { return n.Mock.GetClient() }

// Hash of a block under this node's configuration.
func (n *Node) Hash(b *types.Block) []byte { return b.Hash(n.Cfg) }

// Genesis returns the stored genesis block.
func (n *Node) Genesis() (*types.Block, error) {
	d, err := n.Chain.GetBlock(0)
	if err != nil {
		return nil, err
	}
	return d.Block, nil
}

// ---------------------------------------------------------------------------------
// delivery

// Result of one delivery through ProcessBlock.
type Result struct {
	Main   bool
	Orphan bool
	Err    error
}

// Class is the error class of a delivery result ("ok" when accepted without error).
func (r Result) Class() string { return ErrClass(r.Err) }

// ErrClass maps a chain33 error to a stable short name.
func ErrClass(err error) string {
	switch err {
	case nil:
		return "ok"
	case types.ErrBlockExist:
		return "ErrBlockExist"
	case types.ErrCheckTxHash:
		return "ErrCheckTxHash"
	case types.ErrCheckStateHash:
		return "ErrCheckStateHash"
	case types.ErrSign:
		return "ErrSign"
	case types.ErrTxDup:
		return "ErrTxDup"
	case types.ErrBlockExec:
		return "ErrBlockExec"
	case types.ErrBlockHeightNoMatch:
		return "ErrBlockHeightNoMatch"
	case types.ErrParentBlockNoExist:
		return "ErrParentBlockNoExist"
	case types.ErrBlockHashNoMatch:
		return "ErrBlockHashNoMatch"
	case types.ErrParentTdNoExist:
		return "ErrParentTdNoExist"
	case types.ErrEmptyTx:
		return "ErrEmptyTx"
	case types.ErrBlockTime:
		return "ErrBlockTime"
	case types.ErrParentHash:
		return "ErrParentHash"
	case types.ErrBlockHeight:
		return "ErrBlockHeight"
	}
	return "err:" + err.Error()
}

// Deliver hands a copy of the block to BlockChain.ProcessBlock (what ProcAddBlockMsg calls),
// so that (isMain, isOrphan, err) are observable. broadcast/pid as a peer would set them.
func (n *Node) Deliver(b *types.Block, broadcast bool, pid string) Result {
	cp := types.Clone(b).(*types.Block)
	_, main, orphan, err := n.Chain.ProcessBlock(broadcast, &types.BlockDetail{Block: cp}, pid, true, -1)
	return Result{Main: main, Orphan: orphan, Err: err}
}

// DeliverMsg uses BlockChain.ProcAddBlockMsg (only the error is observable).
func (n *Node) DeliverMsg(b *types.Block, broadcast bool, pid string) error {
	cp := types.Clone(b).(*types.Block)
	_, err := n.Chain.ProcAddBlockMsg(broadcast, &types.BlockDetail{Block: cp}, pid)
	return err
}

// DeliverBus sends the block as the p2p module does: EventBroadcastAddBlock (broadcast)
// or EventSyncBlock (reply to a sync request) to the "blockchain" topic, and waits for the reply.
// It returns the reply's ok flag and message (the error text of ProcAddBlockMsg).
func (n *Node) DeliverBus(b *types.Block, broadcast bool, pid string) (bool, string, error) {
	cp := types.Clone(b).(*types.Block)
	cli := n.Client()
	ty := int64(types.EventSyncBlock)
	if broadcast {
		ty = types.EventBroadcastAddBlock
	}
	msg := cli.NewMessage("blockchain", ty, &types.BlockPid{Pid: pid, Block: cp})
	if err := cli.Send(msg, true); err != nil {
		return false, "", err
	}
	resp, err := cli.WaitTimeout(msg, 120*time.Second)
	if err != nil {
		return false, "", err
	}
	r, ok := resp.GetData().(*types.Reply)
	if !ok {
		return false, "", fmt.Errorf("rig: unexpected reply %T", resp.GetData())
	}
	return r.IsOk, string(r.Msg), nil
}

// ---------------------------------------------------------------------------------
// observation

// Tip returns the last header's hash and height.
func (n *Node) Tip() ([]byte, int64, error) {
	h, err := n.Chain.ProcGetLastHeaderMsg()
	if err != nil {
		return nil, -1, err
	}
	return h.Hash, h.Height, nil
}

// HashAt is GetBlockHashByHeight through the public query.
func (n *Node) HashAt(height int64) ([]byte, error) {
	r, err := n.Chain.ProcGetBlockHash(&types.ReqInt{Height: height})
	if err != nil {
		return nil, err
	}
	return r.Hash, nil
}

// BlockByHash loads a block (main or side chain) by hash.
func (n *Node) BlockByHash(hash []byte) (*types.BlockDetail, error) {
	return n.Chain.ProcGetBlockByHashMsg(hash)
}

// Td returns the stored total difficulty of a block.
func (n *Node) Td(hash []byte) (*big.Int, error) {
	return n.Chain.GetStore().GetTdByBlockHash(hash)
}

// Sequences returns the whole block sequence log and the stored last sequence number
// (-1 and an empty log when nothing was recorded).
func (n *Node) Sequences() ([]*types.BlockSequence, int64, error) {
	last, err := n.Chain.GetStore().LoadBlockLastSequence()
	if err != nil {
		if err == types.ErrHeightNotExist {
			return nil, -1, nil
		}
		return nil, -1, err
	}
	var out []*types.BlockSequence
	for s := int64(0); s <= last; s += 1000 {
		e := s + 999
		if e > last {
			e = last
		}
		r, err := n.Chain.GetBlockSequences(&types.ReqBlocks{Start: s, End: e})
		if err != nil {
			return nil, last, err
		}
		out = append(out, r.Items...)
	}
	return out, last, nil
}

// TxRecord is what the transaction index says about a transaction.
type TxRecord struct {
	Found  bool
	Height int64
	Index  int64
	Ty     int32 // receipt type
	TxHex  string
}

// ChainSnapshot is the persisted best chain as read through the public queries:
// height index, headers, bodies (transactions + receipts), total difficulties,
// transaction index, and the state at the tip (coins accounts of the given addresses).
type ChainSnapshot struct {
	Height   int64
	TipHash  string
	Hashes   []string            // height -> hash
	Headers  []string            // height -> hex(header proto)
	Bodies   []string            // height -> digests of the persisted block (header + transactions) and receipts
	Served   []string            // height -> the same as served by the query API (MainHash/MainHeight cleared)
	Tds      []string            // height -> total difficulty (decimal)
	Txs      map[string]TxRecord // tx hash -> index record
	State    map[string]string   // address -> balance/frozen at the tip
	LastHdr  string
	LastBlk  string
	StateErr string
}

// Snapshot reads the whole best chain. txs lists transaction hashes to look up in the
// index in addition to those on the chain (e.g. transactions of losing branches, which
// must be absent); addrs are the accounts whose tip-state balances are read.
func (n *Node) Snapshot(extraTxs [][]byte, addrs []string) (*ChainSnapshot, error) {
	s := &ChainSnapshot{Txs: map[string]TxRecord{}, State: map[string]string{}}
	tipHash, height, err := n.Tip()
	if err != nil {
		return nil, err
	}
	s.Height, s.TipHash = height, common.ToHex(tipHash)
	lb, err := n.Chain.ProcGetLastBlockMsg()
	if err != nil {
		return nil, err
	}
	s.LastBlk = common.ToHex(lb.Hash(n.Cfg))
	s.LastHdr = s.TipHash
	var lookup [][]byte
	for h := int64(0); h <= height; h++ {
		hash, err := n.HashAt(h)
		if err != nil {
			return nil, fmt.Errorf("hash at %d: %v", h, err)
		}
		s.Hashes = append(s.Hashes, common.ToHex(hash))
		hs, err := n.Chain.ProcGetHeadersMsg(&types.ReqBlocks{Start: h, End: h})
		if err != nil || len(hs.Items) != 1 {
			return nil, fmt.Errorf("header at %d: %v", h, err)
		}
		s.Headers = append(s.Headers, common.ToHex(types.Encode(hs.Items[0])))
		ds, err := n.Chain.ProcGetBlockDetailsMsg(&types.ReqBlocks{Start: h, End: h, IsDetail: true})
		if err != nil || len(ds.Items) != 1 || ds.Items[0] == nil {
			return nil, fmt.Errorf("block at %d: %v", h, err)
		}
		d := ds.Items[0]
		// what the query API serves (possibly from the block cache). MainHash / MainHeight are not
		// compared here: a block connected directly is cached as delivered (fields empty), one
		// connected by a reorganisation as loaded from the database (fields = own hash / height);
		// the persisted form, compared below, is the same in both cases.
		api := types.Clone(d.Block).(*types.Block)
		api.MainHash, api.MainHeight = nil, 0
		s.Served = append(s.Served, digest(&types.BlockDetail{Block: api, Receipts: d.Receipts}))
		byHash, err := n.BlockByHash(hash)
		if err != nil {
			return nil, fmt.Errorf("block by hash at %d: %v", h, err)
		}
		bh := types.Clone(byHash.Block).(*types.Block)
		bh.MainHash, bh.MainHeight = nil, 0
		if x := digest(&types.BlockDetail{Block: bh, Receipts: byHash.Receipts}); x != s.Served[len(s.Served)-1] {
			return nil, fmt.Errorf("block at height %d differs between height and hash lookup: %s / %s", h, s.Served[len(s.Served)-1], x)
		}
		// the persisted block: header + body + receipts tables, read from the database
		pd, err := n.Chain.GetStore().LoadBlock(h, hash)
		if err != nil || pd == nil {
			return nil, fmt.Errorf("persisted block at %d: %v", h, err)
		}
		s.Bodies = append(s.Bodies, digest(&types.BlockDetail{Block: pd.Block, Receipts: pd.Receipts}))
		if os.Getenv("VERIF_CHAIN_DEBUG") != "" {
			js, _ := types.PBToJSON(&types.BlockDetail{Block: pd.Block, Receipts: pd.Receipts})
			fmt.Fprintf(os.Stderr, "SNAP h=%d %s\n", h, js)
		}
		td, err := n.Td(hash)
		if err != nil {
			return nil, fmt.Errorf("td at %d: %v", h, err)
		}
		s.Tds = append(s.Tds, td.String())
		for _, tx := range d.Block.Txs {
			lookup = append(lookup, tx.Hash())
		}
	}
	lookup = append(lookup, extraTxs...)
	for _, th := range lookup {
		k := common.ToHex(th)
		if _, ok := s.Txs[k]; ok {
			continue
		}
		d, err := n.Chain.ProcQueryTxMsg(th)
		if err != nil || d == nil {
			s.Txs[k] = TxRecord{}
			continue
		}
		s.Txs[k] = TxRecord{Found: true, Height: d.Height, Index: d.Index, Ty: d.GetReceipt().GetTy(), TxHex: common.ToHex(types.Encode(d.Tx))}
	}
	if len(addrs) > 0 {
		api := n.Mock.GetAPI()
		hdr, err := api.GetLastHeader()
		if err != nil {
			return nil, err
		}
		for _, a := range addrs {
			acc := n.Mock.GetAccount(hdr.StateHash, a)
			s.State[a] = fmt.Sprintf("%d/%d", acc.GetBalance(), acc.GetFrozen())
		}
	}
	return s, nil
}

func digest(d *types.BlockDetail) string {
	rc := &types.BlockDetail{Receipts: d.Receipts}
	return fmt.Sprintf("block:%s receipts:%s(%d)", common.ToHex(common.Sha256(types.Encode(d.Block)))[:18],
		common.ToHex(common.Sha256(types.Encode(rc)))[:18], len(d.Receipts))
}

// Diff lists the fields in which two snapshots differ (empty when identical).
func (s *ChainSnapshot) Diff(o *ChainSnapshot) []string {
	var d []string
	add := func(f string, a, b any) { d = append(d, fmt.Sprintf("%s: %v != %v", f, a, b)) }
	if s.Height != o.Height {
		add("height", s.Height, o.Height)
	}
	if s.TipHash != o.TipHash {
		add("tip", s.TipHash, o.TipHash)
	}
	if s.LastBlk != o.LastBlk {
		add("lastblock", s.LastBlk, o.LastBlk)
	}
	cmp := func(f string, a, b []string) {
		if len(a) != len(b) {
			add(f+".len", len(a), len(b))
			return
		}
		for i := range a {
			if a[i] != b[i] {
				add(fmt.Sprintf("%s[%d]", f, i), a[i], b[i])
			}
		}
	}
	cmp("hashes", s.Hashes, o.Hashes)
	cmp("headers", s.Headers, o.Headers)
	cmp("bodies", s.Bodies, o.Bodies)
	cmp("served", s.Served, o.Served)
	cmp("tds", s.Tds, o.Tds)
	keys := map[string]bool{}
	for k := range s.Txs {
		keys[k] = true
	}
	for k := range o.Txs {
		keys[k] = true
	}
	for k := range keys {
		if s.Txs[k] != o.Txs[k] {
			add("tx["+k[:12]+"]", s.Txs[k], o.Txs[k])
		}
	}
	for k, v := range s.State {
		if o.State[k] != v {
			add("state["+k+"]", v, o.State[k])
		}
	}
	return d
}

// ---------------------------------------------------------------------------------
// factory

// Factory manufactures valid blocks on arbitrary parents.
type Factory struct {
	N     *Node
	mu    sync.Mutex // serialises executions on the factory node
	nmu   sync.Mutex
	nonce int64
	// Priv signs the factory's transactions. It is a key of its own, funded from the genesis account by
	// FundTx: testnode's wallet holds all of util.TestPrivkeyList and rescans their transactions in the
	// background, which must not race with reorganisations of the blocks under test.
	Priv    crypto.PrivKey
	Genesis crypto.PrivKey // genesis key: owns the coins at height 0
	Addrs   []string       // receivers of coins transfers (no wallet key either)
}

// NewFactory starts the factory node (mining off; its own chain stays at genesis: blocks are
// only executed on its state store, never added to its chain).
func NewFactory(seed int64) (*Factory, error) {
	n, err := Start(Opts{RecordSeq: false, Miner: false})
	if err != nil {
		return nil, err
	}
	f := &Factory{N: n, nonce: seed<<20 + 1, Genesis: n.Mock.GetGenesisKey()}
	cr, err := crypto.Load(types.GetSignName("", types.SECP256K1), -1)
	if err != nil {
		n.Close()
		return nil, err
	}
	key := func(tag string) (crypto.PrivKey, error) {
		return cr.PrivKeyFromBytes(common.Sha256([]byte("verif-chain-" + tag)))
	}
	if f.Priv, err = key("sender"); err != nil {
		n.Close()
		return nil, err
	}
	for i := 0; i < 4; i++ {
		k, err := key(fmt.Sprintf("receiver-%d", i))
		if err != nil {
			n.Close()
			return nil, err
		}
		f.Addrs = append(f.Addrs, address.PubKeyToAddr(address.DefaultID, k.PubKey().Bytes()))
	}
	return f, nil
}

// SenderAddr is the address of the factory's own key.
func (f *Factory) SenderAddr() string {
	return address.PubKeyToAddr(address.DefaultID, f.Priv.PubKey().Bytes())
}

// FundTx transfers amount from the genesis account to the factory's key; put it into an early trunk block.
func (f *Factory) FundTx(amount int64) *types.Transaction {
	f.nmu.Lock()
	f.nonce++
	nonce := f.nonce
	f.nmu.Unlock()
	tx := util.CreateCoinsTx(f.N.Cfg, nil, f.SenderAddr(), amount)
	tx.Nonce = nonce
	tx.Expire = 0
	tx.Sign(types.SECP256K1, f.Genesis)
	return tx
}

// Close stops the factory node.
func (f *Factory) Close() { f.N.Close() }

// GenesisAddr is the address that owns the genesis coins.
func (f *Factory) GenesisAddr() string { return f.N.Mock.GetGenesisAddress() }

// CoinsTx makes a signed coins transfer (unique nonce) of amount to address index `to`.
func (f *Factory) CoinsTx(to int, amount int64) *types.Transaction {
	f.nmu.Lock()
	f.nonce++
	nonce := f.nonce
	f.nmu.Unlock()
	tx := util.CreateCoinsTx(f.N.Cfg, nil, f.Addrs[to%len(f.Addrs)], amount)
	tx.Nonce = nonce
	tx.Expire = 0
	tx.Sign(types.SECP256K1, f.Priv)
	return tx
}

// NoneTx makes a signed transaction of the "none" executor.
func (f *Factory) NoneTx() *types.Transaction {
	f.nmu.Lock()
	f.nonce++
	nonce := f.nonce
	f.nmu.Unlock()
	tx := util.CreateNoneTx(f.N.Cfg, nil)
	tx.Nonce = nonce
	tx.Expire = 0
	tx.Sign(types.SECP256K1, f.Priv)
	return tx
}

// Make builds a valid block on parent with the given transactions and difficulty bits
// (0 = parent's); see MakeOn.
func (f *Factory) Make(parent *types.Block, txs []*types.Transaction, bits uint32) (*types.Block, error) {
	if bits == 0 {
		bits = parent.Difficulty
	}
	return f.MakeOn(parent.Hash(f.N.Cfg), parent.StateHash, parent.Height+1, parent.BlockTime+1, txs, bits)
}

// MakeOn builds a valid block whose parent has hash parentHash and state prevState, executing
// it on that state in the factory's store (util.ExecBlock with errReturn=false, sync=true,
// checkblock=false): StateHash and TxHash are the real ones and the new state is committed
// there, so children can be built on it. The parent need not be a block the factory made
// (e.g. an invalid sibling whose children are to look genuine): only its hash and a state matter.
func (f *Factory) MakeOn(parentHash, prevState []byte, height, blockTime int64, txs []*types.Transaction, bits uint32) (*types.Block, error) {
	if len(txs) == 0 {
		return nil, errors.New("rig: solo consensus rejects empty blocks")
	}
	cfg := f.N.Cfg
	in := make([]*types.Transaction, len(txs))
	for i, tx := range txs {
		in[i] = types.Clone(tx).(*types.Transaction)
	}
	blk := &types.Block{Height: height, BlockTime: blockTime, ParentHash: append([]byte{}, parentHash...), Difficulty: bits}
	blk.Txs = in
	if cfg.IsFork(height, "ForkRootHash") {
		blk.Txs = types.TransactionSort(blk.Txs)
	}
	blk.TxHash = merkle.CalcMerkleRoot(cfg, height, blk.Txs)
	f.mu.Lock()
	defer f.mu.Unlock()
	detail, del, err := util.ExecBlock(f.N.Client(), prevState, blk, false, true, false)
	if err != nil {
		return nil, fmt.Errorf("rig: factory exec: %v", err)
	}
	if len(del) != 0 || len(detail.Block.Txs) != len(txs) {
		return nil, fmt.Errorf("rig: factory dropped %d of %d transactions", len(del), len(txs))
	}
	for _, r := range detail.Receipts {
		// ExecPack (fee taken, no effect) is a legitimate on-chain outcome, e.g. for the "none" executor
		if r.Ty != types.ExecOk && r.Ty != types.ExecPack {
			return nil, fmt.Errorf("rig: factory transaction receipt type %d", r.Ty)
		}
	}
	out := detail.Block
	if !bytes.Equal(out.TxHash, merkle.CalcMerkleRoot(cfg, out.Height, out.Txs)) {
		return nil, errors.New("rig: factory tx root mismatch")
	}
	return types.Clone(out).(*types.Block), nil
}

// SignBlock puts the producer's signature (factory key over the block hash) into the block.
// The signature is not part of the block hash; a nil signature is accepted by VerifySignature.
func (f *Factory) SignBlock(b *types.Block) {
	b.Signature = &types.Signature{Ty: types.SECP256K1, Pubkey: f.Priv.PubKey().Bytes(), Signature: f.Priv.Sign(b.Hash(f.N.Cfg)).Bytes()}
}

// Pool submits a transaction to the node's mempool (as a wallet / peer would); the error is returned.
func (n *Node) Pool(tx *types.Transaction) error {
	r, err := n.Mock.GetAPI().SendTx(types.Clone(tx).(*types.Transaction))
	if err != nil {
		return err
	}
	if !r.GetIsOk() {
		return errors.New(string(r.GetMsg()))
	}
	return nil
}

// ChainOf builds n blocks in a row on parent, one coins transfer each; directly on genesis the
// first block carries the funding of the factory's key instead.
func (f *Factory) ChainOf(parent *types.Block, n int, bits uint32) ([]*types.Block, error) {
	var out []*types.Block
	for i := 0; i < n; i++ {
		tx := f.CoinsTx(i, int64(1+i)*1e5)
		if parent.Height == 0 {
			tx = f.FundTx(1e15)
		}
		b, err := f.Make(parent, []*types.Transaction{tx}, bits)
		if err != nil {
			return nil, err
		}
		out = append(out, b)
		parent = b
	}
	return out, nil
}

// WorkBits returns compact difficulty bits whose work (difficulty.CalcWork) is exactly
// w * 2^240 for w in {1, 2, 4}: targets 2^16-1, 2^15-1, 2^14-1, for which 2^256/(target+1)
// is exact, so sums of works compare exactly like sums of the small integers.
func WorkBits(w int) (uint32, error) {
	switch w {
	case 1:
		return 0x0300ffff, nil
	case 2:
		return 0x03007fff, nil
	case 4:
		return 0x03003fff, nil
	}
	return 0, fmt.Errorf("rig: no exact difficulty bits for work %d (use 1, 2, 4)", w)
}

// Work is the work of a block as the chain computes it.
func Work(b *types.Block) *big.Int { return difficulty.CalcWork(b.Difficulty) }

// KnownOrphan tells whether the hash is in the node's orphan pool.
func (n *Node) KnownOrphan(hash []byte) bool { return n.Chain.GetOrphanPool().IsKnownOrphan(hash) }
