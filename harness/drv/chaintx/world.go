package main

import (
	"bytes"
	"fmt"
	"math/rand"
	"sync"

	"github.com/33cn/chain33/common"
	"github.com/33cn/chain33/common/address"
	"github.com/33cn/chain33/common/crypto"
	"github.com/33cn/chain33/common/merkle"
	cty "github.com/33cn/chain33/system/dapp/coins/types"
	"github.com/33cn/chain33/types"
	"github.com/33cn/chain33/util"
	"verif/harness/drv/chain/rig"
)

// world: the process-wide block factory (Chain family rig), the 12-block trunk every receiver
// gets first, and the keys of the model's senders.
//
// The TxHeight window (types.LowAllowPackHeight / HighAllowPackHeight) is process-global in
// chain33 and is set from the node configuration when a BlockChain starts: one process of this
// driver uses one window (options lo / hi of the first behaviour).
type world struct {
	once   sync.Once
	err    error
	f      *rig.Factory
	trunk  []*types.Block
	lo, hi int64
	dcs    int64 // blockchain.defCacheSize of the receivers (0 = default)
	mu     sync.Mutex // serialises executions on the factory's store
	priv   []crypto.PrivKey
	addr   []string // sender addresses (index = tx id, 0 unused)
	recv   []string
	nonce  int64
	t0     int64 // block time of the trunk tip
}

const (
	trunkH  = 12
	maxIDs  = 8
	feeUnit = 100000
)

var w = &world{}

func (w *world) mutate(cfg *types.Chain33Config) {
	m := cfg.GetModuleConfig()
	m.BlockChain.LowAllowPackHeight = w.lo
	m.BlockChain.HighAllowPackHeight = w.hi
	if w.dcs > 0 {
		m.BlockChain.DefCacheSize = w.dcs
	}
}

func (w *world) init(seed int64, lo, hi int64) error {
	w.once.Do(func() {
		w.lo, w.hi = lo, hi
		cr, err := crypto.Load(types.GetSignName("", types.SECP256K1), -1)
		if err != nil {
			w.err = err
			return
		}
		w.priv = make([]crypto.PrivKey, maxIDs+1)
		w.addr = make([]string, maxIDs+1)
		w.recv = make([]string, maxIDs+1)
		for i := 1; i <= maxIDs; i++ {
			k, err := cr.PrivKeyFromBytes(common.Sha256([]byte(fmt.Sprintf("verif-chaintx-sender-%d", i))))
			if err != nil {
				w.err = err
				return
			}
			w.priv[i] = k
			w.addr[i] = address.PubKeyToAddr(address.DefaultID, k.PubKey().Bytes())
			r, _ := cr.PrivKeyFromBytes(common.Sha256([]byte(fmt.Sprintf("verif-chaintx-receiver-%d", i))))
			w.recv[i] = address.PubKeyToAddr(address.DefaultID, r.PubKey().Bytes())
		}
		// the factory node is started through the rig; the window must be in force before any
		// BlockChain of this process starts (initAllowPackHeight writes process-wide variables)
		types.LowAllowPackHeight, types.HighAllowPackHeight = lo, hi
		f, err := rig.NewFactory(seed)
		if err != nil {
			w.err = err
			return
		}
		w.f = f
		w.nonce = seed<<24 + 7
		g, err := f.N.Genesis()
		if err != nil {
			w.err = err
			return
		}
		bits, _ := rig.WorkBits(1)
		w.trunk = []*types.Block{g}
		parent := g
		for h := 1; h <= trunkH; h++ {
			txs := []*types.Transaction{f.CoinsTx(h, int64(h)*100000)}
			if h == 1 {
				txs = []*types.Transaction{f.FundTx(1e15)}
				for i := 1; i <= maxIDs; i++ {
					txs = append(txs, w.coins(f.Genesis, w.addr[i], 1e12, feeUnit, 0, w.nextNonce(), f.N.Cfg.GetChainID(), nil))
				}
			}
			b, err := f.Make(parent, txs, bits)
			if err != nil {
				w.err = err
				return
			}
			w.trunk = append(w.trunk, b)
			parent = b
		}
		w.t0 = parent.BlockTime
	})
	if w.err == nil && (w.lo != lo || w.hi != hi) {
		return fmt.Errorf("one process of this driver serves one TxHeight window (have %d/%d, asked %d/%d)", w.lo, w.hi, lo, hi)
	}
	return w.err
}

func (w *world) close() {
	if w.f != nil {
		w.f.Close()
	}
}

func (w *world) nextNonce() int64 {
	w.mu.Lock()
	defer w.mu.Unlock()
	w.nonce++
	return w.nonce
}

// coins makes a signed coins transfer.
func (w *world) coins(priv crypto.PrivKey, to string, amount, fee, expire, nonce int64, chainID int32, note []byte) *types.Transaction {
	v := &cty.CoinsAction_Transfer{Transfer: &types.AssetsTransfer{Amount: amount, Note: note}}
	tx := &types.Transaction{Execer: []byte("coins"), Payload: types.Encode(&cty.CoinsAction{Value: v, Ty: cty.CoinsActionTransfer}),
		To: to, Fee: fee, Nonce: nonce, ChainID: chainID, Expire: expire}
	tx.Sign(types.SECP256K1, priv)
	return tx
}

// attr is the model's attribute record of a transaction id.
type attr struct {
	K string `json:"k"`
	P int64  `json:"p"`
}

// ctx is one transaction id made concrete for one behaviour.
type ctx struct {
	id     int
	a      attr
	g      *types.Transaction // genuine signature
	b      *types.Transaction // same hash, corrupted signature (the twin)
	shadow func() *types.Transaction
	hash   []byte
}

// concretise builds the transactions of a behaviour: a coins transfer of sender id with the
// attribute's expiry / fee / chain id. twin says how variant "b" differs: sig (signature bytes
// corrupted), key (another funded account's public key with a signature that is not its own).
func (w *world) concretise(prof []attr, rnd *rand.Rand, twin string) ([]*ctx, error) {
	cfg := w.f.N.Cfg
	out := make([]*ctx, len(prof)+1)
	for i, a := range prof {
		id := i + 1
		if id > maxIDs {
			return nil, fmt.Errorf("at most %d transaction ids", maxIDs)
		}
		amount := int64(1000 + rnd.Intn(100000))
		fee := int64(feeUnit)
		expire := int64(0)
		chainID := cfg.GetChainID()
		var note []byte
		switch a.K {
		case "none":
		case "height":
			expire = trunkH + a.P
		case "time":
			expire = w.t0 + a.P
		case "txh":
			expire = types.TxHeightFlag + trunkH + a.P
		case "lowfee":
			// 1100 bytes of note: the size-dependent minimum is 2 units, the fee offered is 1
			note = bytes.Repeat([]byte{'n'}, 1100)
		case "chainid":
			chainID = cfg.GetChainID() + 1 + int32(rnd.Intn(5))
		default:
			return nil, fmt.Errorf("unknown attribute kind %q", a.K)
		}
		nonce := rnd.Int63()
		c := &ctx{id: id, a: a}
		c.g = w.coins(w.priv[id], w.recv[id], amount, fee, expire, nonce, chainID, note)
		c.hash = c.g.Hash()
		c.b = types.Clone(c.g).(*types.Transaction)
		switch twin {
		case "key":
			other := id%maxIDs + 1
			c.b.Signature = &types.Signature{Ty: types.SECP256K1, Pubkey: w.priv[other].PubKey().Bytes(),
				Signature: w.priv[other].Sign([]byte("not this transaction")).Bytes()}
		default:
			s := append([]byte{}, c.g.Signature.Signature...)
			s[len(s)-1-rnd.Intn(8)] ^= byte(1 + rnd.Intn(255))
			c.b.Signature = &types.Signature{Ty: c.g.Signature.Ty, Pubkey: c.g.Signature.Pubkey, Signature: s}
		}
		if !bytes.Equal(c.b.Hash(), c.hash) {
			return nil, fmt.Errorf("twin of transaction %d has another hash", id)
		}
		if c.b.CheckSign(trunkH + 1) {
			return nil, fmt.Errorf("twin of transaction %d still verifies", id)
		}
		idc, amountc := id, amount
		// a valid transaction with the same effect on the state (same sender, receiver, amount and fee):
		// what a block producer that does not apply the violated rule would have executed
		c.shadow = func() *types.Transaction {
			return w.coins(w.priv[idc], w.recv[idc], amountc, feeUnit, 0, w.nextNonce(), cfg.GetChainID(), nil)
		}
		out[id] = c
	}
	return out, nil
}

// makeBlock manufactures a block with exactly the transactions txs on the given parent. exec[i]
// is what the factory executes in place of txs[i] (nil: txs[i] itself): the header's state hash is
// that of a producer which does not apply the rule txs[i] violates, so a node lacking the rule
// would accept the block completely, and a node applying it rejects the block for that rule.
func (w *world) makeBlock(parent *types.Block, blockTime int64, txs, exec []*types.Transaction, bits uint32) (*types.Block, error) {
	cfg := w.f.N.Cfg
	in := make([]*types.Transaction, len(txs))
	for i := range txs {
		x := txs[i]
		if exec != nil && exec[i] != nil {
			x = exec[i]
		}
		in[i] = types.Clone(x).(*types.Transaction)
	}
	blk := &types.Block{Height: parent.Height + 1, BlockTime: blockTime, ParentHash: parent.Hash(cfg), Difficulty: bits}
	blk.Txs = in
	blk.TxHash = merkle.CalcMerkleRoot(cfg, blk.Height, blk.Txs)
	w.mu.Lock()
	detail, del, err := util.ExecBlock(w.f.N.Client(), parent.StateHash, blk, false, true, false)
	w.mu.Unlock()
	if err != nil {
		return nil, fmt.Errorf("factory exec: %v", err)
	}
	if len(del) != 0 || len(detail.Block.Txs) != len(txs) {
		return nil, fmt.Errorf("factory dropped %d of %d transactions", len(txs)-len(detail.Block.Txs), len(txs))
	}
	for i, r := range detail.Receipts {
		if r.Ty != types.ExecOk {
			return nil, fmt.Errorf("factory: transaction %d has receipt type %d", i, r.Ty)
		}
	}
	out := types.Clone(detail.Block).(*types.Block)
	for i := range txs {
		out.Txs[i] = types.Clone(txs[i]).(*types.Transaction)
	}
	out.TxHash = merkle.CalcMerkleRoot(cfg, out.Height, out.Txs)
	return out, nil
}

// adopt executes a block produced by a receiver on the factory's store, so that children can be
// manufactured on it (execution is deterministic: the state hash must come out the same).
func (w *world) adopt(parent, blk *types.Block) error {
	cp := types.Clone(blk).(*types.Block)
	w.mu.Lock()
	detail, del, err := util.ExecBlock(w.f.N.Client(), parent.StateHash, cp, false, true, false)
	w.mu.Unlock()
	if err != nil {
		return fmt.Errorf("factory re-execution of a produced block: %v", err)
	}
	if len(del) != 0 || !bytes.Equal(detail.Block.StateHash, blk.StateHash) {
		return fmt.Errorf("factory re-execution of a produced block differs (dropped %d, state %x / %x)", len(del), detail.Block.StateHash, blk.StateHash)
	}
	return nil
}

// workBits: target ((2^16-1) >> k) - j in the lowest mantissa bytes: the work doubles with k; j < 16
// only makes blocks that would otherwise be byte-identical (same parent, transactions and time, e.g. a
// block offered again after a failed reorganisation detached it) distinct, as a real peer's would be.
// Every such block outweighs a block produced by the solo consensus (powLimitBits 0x1f00ffff).
func workBits(k, j int) uint32 { return 0x03000000 | (uint32(0xffff>>uint(k)) - uint32(j&15)) }

func workExp(bits uint32) int {
	if bits>>24 != 3 {
		return -1 // produced by solo: lighter than any factory block
	}
	m := (bits & 0xffff) + 15
	k := 0
	for k < 11 && m < uint32(0xffff>>uint(k)) {
		k++
	}
	return k
}
