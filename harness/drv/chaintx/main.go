// Driver for the ChainTx family (C28): a gated real producer (solo consensus of a testnode) and
// factory-made peer blocks feed one receiver; after every step the property is evaluated on the
// node's REAL best chain and the node's state is compared with the mechanism model.
package main

import (
	"fmt"
	"os"
	"path/filepath"
	"strconv"
	"strings"

	"verif/harness/core"
	"verif/harness/drv/chain/rig"
)

// sweep removes tmpfs data dirs left by dead processes of the node-based drivers (rig.UseFastTmp
// names them verif-chain-<pid>-*).
func sweep() {
	ds, _ := filepath.Glob("/dev/shm/verif-chain-*")
	for _, d := range ds {
		p := strings.Split(filepath.Base(d), "-")
		if len(p) < 3 {
			continue
		}
		pid, err := strconv.Atoi(p[2])
		if err != nil {
			continue
		}
		if _, err := os.Stat(fmt.Sprintf("/proc/%d", pid)); err != nil {
			os.RemoveAll(d)
		}
	}
}

func main() {
	sweep()
	if len(os.Args) > 1 && os.Args[1] == "sweep" {
		return
	}
	cleanup := rig.UseFastTmp()
	defer cleanup()
	defer w.close()
	core.Main(&core.Family{
		Name:      "chaintx",
		NewDriver: newDriver,
		Recorders: map[string]core.Recorder{"default": recordDefault},
		Extra:     map[string]func(*core.Env, []string) int{"sweep": func(*core.Env, []string) int { return 0 }},
	})
}
