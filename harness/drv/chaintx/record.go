package main

import (
	"fmt"
	"math/rand"
	"sort"

	"verif/harness/core"
)

// recordDefault: binding B. A seeded random walk on a real gated node over more transaction ids,
// longer histories and longer blocks than TLC enumerates: submissions, producer iterations, peer
// blocks on the tip and heavier siblings of the tip, each recorded with the node's reply, best
// chain, pool, duplicate lookups and the property evaluated on the real chain. Validated by
// ChainTx_Trace.
//
// options: n (traces), len (events per trace), ids (transaction ids), lo / hi (TxHeight window),
// dcs (defCacheSize of the node). About one event in eleven is the start-up cache rebuild (Reinit).
func recordDefault(env *core.Env, emit func(map[string]any)) (*core.Summary, error) {
	sum := &core.Summary{Counters: map[string]int{}}
	ntr := env.OptInt("n", 4)
	length := env.OptInt("len", 10)
	ids := env.OptInt("ids", 6)
	lo, hi := int64(env.OptInt("lo", 1)), int64(env.OptInt("hi", 1))
	w.dcs = int64(env.OptInt("dcs", 0))
	if err := w.init(env.Seed, lo, hi); err != nil {
		return nil, err
	}
	r := rand.New(rand.NewSource(env.Seed*1543 + int64(env.OptInt("salt", 0))*977 + lo*31 + hi))
	kinds := []string{"none", "none", "height", "txh", "txh", "time", "lowfee", "chainid"}
	for t := 0; t < ntr; t++ {
		prof := make([]attr, ids)
		profJ := make([]any, ids)
		for i := range prof {
			prof[i] = attr{K: kinds[r.Intn(len(kinds))]}
			switch prof[i].K {
			case "height", "time":
				prof[i].P = int64(1 + r.Intn(4))
			case "txh":
				prof[i].P = int64(r.Intn(6))
			}
			profJ[i] = map[string]any{"k": prof[i].K, "p": prof[i].P}
		}
		d := &drv{env: env, twin: []string{"sig", "key"}[r.Intn(2)], via: []string{"process", "msg"}[r.Intn(2)], src: map[string]string{}}
		d.rnd = rand.New(rand.NewSource(r.Int63()))
		n, err := startNode()
		if err != nil {
			return nil, err
		}
		d.n = n
		emit(map[string]any{"ev": "Reset", "prof": profJ, "twin": d.twin, "via": d.via})
		if _, _, err := d.Apply(core.Step{"op": "Cfg", "prof": profJ}); err != nil {
			d.Close()
			return nil, err
		}
		inst := func() []any {
			v := "g"
			if r.Intn(5) == 0 {
				v = "b"
			}
			return []any{1 + r.Intn(ids), v}
		}
		list := func() []any {
			k := 1 + r.Intn(3)
			var l [][]any
			for i := 0; i < k; i++ {
				l = append(l, inst())
			}
			key := func(x []any) int {
				k := 2 * x[0].(int)
				if x[1] == "b" {
					k++
				}
				return k
			}
			sort.SliceStable(l, func(i, j int) bool { return key(l[i]) < key(l[j]) })
			out := make([]any, len(l))
			for i := range l {
				out[i] = []any{float64(l[i][0].(int)), l[i][1]}
			}
			return out
		}
		rejected, above := 0, 0
		for e := 0; e < length; e++ {
			var s core.Step
			switch x := r.Intn(11); {
			case x == 10 && above >= 1:
				s = core.Step{"op": "Reinit"}
			case x < 3:
				i := inst()
				s = core.Step{"op": "Submit", "x": []any{float64(i[0].(int)), i[1]}}
			case x < 5:
				s = core.Step{"op": "Mine"}
			case x < 8 || above == 0:
				s = core.Step{"op": "Extend", "txs": list()}
			default:
				s = core.Step{"op": "Fork", "txs": list()}
			}
			ret, chk, err := d.Apply(s)
			if err != nil {
				d.Close()
				return nil, fmt.Errorf("trace %d event %d (%v): %v", t, e, s, err)
			}
			c := chk.(map[string]any)
			ev := map[string]any{"ev": s.Op(), "ret": ret, "best": c["best"], "pool": c["pool"], "dup": c["dup"], "viol": c["viol"]}
			if s.Op() == "Submit" {
				ev["x"] = s["x"]
			}
			if s.Op() == "Extend" || s.Op() == "Fork" {
				ev["txs"] = s["txs"]
			}
			emit(ev)
			above = len(c["best"].([]any))
			if ret == "rej" {
				rejected++
			}
			sum.Steps++
		}
		d.Close()
		sum.Behaviours++
		if rejected > 0 {
			sum.NonTrivial++
		}
		if len(sum.Samples) < 2 {
			sum.Samples = append(sum.Samples, map[string]any{"trace": t, "prof": profJ, "events": length, "rejected_offers": rejected})
		}
	}
	sum.Distinct = sum.Behaviours
	return sum, nil
}
