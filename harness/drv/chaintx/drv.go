package main

import (
	"bytes"
	"encoding/json"
	"fmt"
	"math/rand"
	"os"
	"sort"
	"strings"

	"github.com/33cn/chain33/common"
	"github.com/33cn/chain33/types"
	"verif/harness/core"
)

// drv replays one ChainTx behaviour on a fresh gated receiver.
//
// options: salt (concretisation), twin=sig|key (how variant "b" differs from the genuine
// transaction), via=process|msg (entry point of peer blocks).
type drv struct {
	env  *core.Env
	n    *node
	rnd  *rand.Rand
	txs  []*ctx
	prof []attr
	twin string
	via  string
	// arrival path of every block the node accepted, by block hash
	src map[string]string
	// what the pool held when a block was offered (for signatures)
	lastPool []string
	nblk     int // blocks manufactured for this node
}

func newDriver() core.Driver { return &drv{} }

func (d *drv) Reset(env *core.Env, b *core.Behaviour) error {
	d.env = env
	d.twin = env.Opt("twin", "sig")
	d.via = env.Opt("via", "process")
	h := int64(0)
	for _, c := range b.ID {
		h = h*131 + int64(c)
	}
	d.rnd = rand.New(rand.NewSource(env.Seed*7919 + h + int64(env.OptInt("salt", 0))*104729))
	d.txs, d.prof = nil, nil
	d.src = map[string]string{}
	d.nblk = 0
	lo, hi := int64(1), int64(1)
	if len(b.Steps) > 0 && b.Steps[0].Op() == "Cfg" {
		lo, hi = int64(b.Steps[0].Int("lo")), int64(b.Steps[0].Int("hi"))
	}
	// dcs: blockchain.defCacheSize of the receivers of this process (0 = the default, 128 blocks)
	w.dcs = int64(env.OptInt("dcs", 0))
	if err := w.init(env.Seed, lo, hi); err != nil {
		return err
	}
	n, err := startNode()
	if err != nil {
		return err
	}
	d.n = n
	return nil
}

func (d *drv) Close() {
	if d.n != nil {
		d.n.Close()
		d.n = nil
	}
}

func instOf(v any) (int, string, error) {
	a, ok := v.([]any)
	if !ok || len(a) != 2 {
		return 0, "", fmt.Errorf("malformed instance %v", v)
	}
	return core.ToInt(a[0]), fmt.Sprint(a[1]), nil
}

func (d *drv) inst(v any) (*ctx, string, *types.Transaction, error) {
	id, vr, err := instOf(v)
	if err != nil {
		return nil, "", nil, err
	}
	if id < 1 || id >= len(d.txs) {
		return nil, "", nil, fmt.Errorf("unknown transaction id %d", id)
	}
	c := d.txs[id]
	if vr == "b" {
		return c, vr, c.b, nil
	}
	return c, vr, c.g, nil
}

// expired: the model's rule, evaluated on real heights and times (independent of types.IsExpire)
func (d *drv) expired(c *ctx, height, blockTime int64) bool {
	switch c.a.K {
	case "height":
		return trunkH+c.a.P <= height
	case "time":
		return w.t0+c.a.P <= blockTime
	case "txh":
		H := trunkH + c.a.P
		return !(H-w.lo <= height && height <= H+w.hi)
	}
	return false
}

func (d *drv) Apply(s core.Step) (any, any, error) {
	switch s.Op() {
	case "Cfg":
		raw, _ := json.Marshal(s["prof"])
		if err := json.Unmarshal(raw, &d.prof); err != nil {
			return nil, nil, err
		}
		txs, err := w.concretise(d.prof, d.rnd, d.twin)
		if err != nil {
			return nil, nil, err
		}
		d.txs = txs
		return nil, nil, nil
	case "Submit":
		_, _, tx, err := d.inst(s["x"])
		if err != nil {
			return nil, nil, err
		}
		ok, msg := d.n.submit(tx)
		if os.Getenv("VERIF_CHAINTX_DEBUG") != "" {
			fmt.Fprintf(os.Stderr, "SUBMIT %v -> %v %s\n", s["x"], ok, msg)
		}
		if err := d.n.settle(); err != nil {
			return nil, nil, err
		}
		return d.reply(ok, "ok", "rej")
	case "Mine":
		_, h0, err := d.n.Tip()
		if err != nil {
			return nil, nil, err
		}
		if err := d.n.mineOnce(); err != nil {
			return nil, nil, err
		}
		tip, h1, err := d.n.Tip()
		if err != nil {
			return nil, nil, err
		}
		if h1 > h0 {
			// children are manufactured by the factory: it needs the produced block's state
			det, err := d.n.Chain.GetBlock(h1)
			if err != nil {
				return nil, nil, err
			}
			par, err := d.n.Chain.GetBlock(h1 - 1)
			if err != nil {
				return nil, nil, err
			}
			if err := w.adopt(par.Block, det.Block); err != nil {
				return nil, nil, err
			}
			d.src[string(tip)] = "self"
		}
		return d.reply(h1 > h0, "blk", "none")
	case "Extend", "Fork":
		return d.peer(s)
	case "Reinit":
		// the start-up rebuild of the volatile lookup caches from the database, on the idle node:
		// BlockChain.InitCache is what a restart runs before the node serves anything (chain.go
		// InitBlockChain); the TxHeight duplicate cache exists nowhere else
		_, h, err := d.n.Tip()
		if err != nil {
			return nil, nil, err
		}
		d.n.Chain.InitCache(h)
		if err := d.n.settle(); err != nil {
			return nil, nil, err
		}
		return d.reply(true, "ok", "rej")
	}
	return nil, nil, fmt.Errorf("unknown op %q", s.Op())
}

func (d *drv) reply(ok bool, yes, no string) (any, any, error) {
	chk, err := d.observe()
	if err != nil {
		return nil, nil, err
	}
	// a violation of the property on the real chain is the reply itself (it is compared first)
	if vs := chk["viol"].([]any); len(vs) > 0 {
		return vs[0], chk, nil
	}
	if ok {
		return yes, chk, nil
	}
	return no, chk, nil
}

// peer manufactures the offered block on the tip (Extend) or as a heavier sibling of the tip
// (Fork) and delivers it as a peer would.
func (d *drv) peer(s core.Step) (any, any, error) {
	_, height, err := d.n.Tip()
	if err != nil {
		return nil, nil, err
	}
	fork := s.Op() == "Fork"
	ph := height
	d.nblk++
	bits := workBits(0, d.nblk)
	if fork {
		if height <= trunkH {
			return nil, nil, fmt.Errorf("Fork with no block above the trunk")
		}
		old, err := d.n.Chain.GetBlock(height)
		if err != nil {
			return nil, nil, err
		}
		bits = workBits(workExp(old.Block.Difficulty)+1, d.nblk)
		ph = height - 1
	}
	pd, err := d.n.Chain.GetBlock(ph)
	if err != nil {
		return nil, nil, err
	}
	parent := pd.Block
	bt := parent.BlockTime + 1
	if parent.BlockTime > w.t0+1000000 { // a produced block (wall clock): children keep its time
		bt = parent.BlockTime
	}
	// transactions on the parent's chain (duplicates need a stand-in for the factory's execution only
	// inside one block: the factory's own chain does not hold the receiver's blocks)
	var txs, exec []*types.Transaction
	seen := map[int]bool{}
	for _, v := range s.List("txs") {
		c, _, tx, err := d.inst(v)
		if err != nil {
			return nil, nil, err
		}
		var sh *types.Transaction
		if seen[c.id] || d.expired(c, parent.Height+1, bt) || c.a.K == "lowfee" || c.a.K == "chainid" {
			sh = c.shadow()
		}
		seen[c.id] = true
		txs = append(txs, tx)
		exec = append(exec, sh)
	}
	blk, err := w.makeBlock(parent, bt, txs, exec, bits)
	if err != nil {
		return nil, nil, err
	}
	pool, err := d.n.poolTxs()
	if err != nil {
		return nil, nil, err
	}
	d.lastPool = nil
	for _, tx := range pool {
		d.lastPool = append(d.lastPool, d.name(tx))
	}
	var derr error
	if d.via == "msg" {
		derr = d.n.DeliverMsg(blk, d.rnd.Intn(2) == 0, "peer-1")
	} else {
		derr = d.n.Deliver(blk, d.rnd.Intn(2) == 0, "peer-1").Err
	}
	if os.Getenv("VERIF_CHAINTX_DEBUG") != "" {
		fmt.Fprintf(os.Stderr, "%s %v pool=%v -> %v\n", s.Op(), s["txs"], d.lastPool, derr)
	}
	if err := d.n.settle(); err != nil {
		return nil, nil, err
	}
	// accepted = the block is the tip of the best chain now
	tip, _, err := d.n.Tip()
	if err != nil {
		return nil, nil, err
	}
	ok := bytes.Equal(tip, blk.Hash(d.n.Cfg))
	if ok {
		d.src[string(tip)] = map[bool]string{false: "peer", true: "fork"}[fork]
	}
	return d.reply(ok, "ok", "rej")
}

// name: "<id><variant>" of a known transaction (by full bytes), "?" otherwise
func (d *drv) name(tx *types.Transaction) string {
	h := tx.Hash()
	for _, c := range d.txs {
		if c == nil || !bytes.Equal(c.hash, h) {
			continue
		}
		switch {
		case bytes.Equal(types.Encode(tx), types.Encode(c.g)):
			return fmt.Sprintf("%dg", c.id)
		case bytes.Equal(types.Encode(tx), types.Encode(c.b)):
			return fmt.Sprintf("%db", c.id)
		}
		return fmt.Sprintf("%d?", c.id)
	}
	return "?"
}

// sortNames orders instance names as the model does: by id, genuine before twin.
func sortNames(xs []string) {
	key := func(n string) int {
		id := 0
		if len(n) >= 2 {
			fmt.Sscanf(n[:len(n)-1], "%d", &id)
		}
		k := 2 * id
		if !strings.HasSuffix(n, "g") {
			k++
		}
		return k
	}
	sort.SliceStable(xs, func(i, j int) bool { return key(xs[i]) < key(xs[j]) })
}

func instJSON(name string) any {
	if len(name) < 2 || name == "?" {
		return []any{0, name}
	}
	id := 0
	fmt.Sscanf(name[:len(name)-1], "%d", &id)
	return []any{id, name[len(name)-1:]}
}

// observe reads the node: the best chain above the trunk, the pool, the duplicate lookup for every
// id, and evaluates the property on the REAL best chain (every block from height 1).
func (d *drv) observe() (map[string]any, error) {
	cfg := d.n.Cfg
	blocks, err := d.n.chainBlocks()
	if err != nil {
		return nil, err
	}
	best := []any{}
	var viol []string
	firstAt := map[string]int64{}
	onchain := map[string][2]int64{}
	minFee := cfg.GetMinTxFeeRate()
	for _, bd := range blocks {
		b := bd.Block
		h := b.Height
		var row []string
		path := d.src[string(b.Hash(cfg))]
		if path == "" {
			path = "trunk"
		}
		for i, tx := range b.Txs {
			nm := d.name(tx)
			if h > trunkH {
				row = append(row, nm)
			}
			hk := string(tx.Hash())
			kind := "trunk"
			var c *ctx
			if nm != "?" {
				id := 0
				fmt.Sscanf(nm[:len(nm)-1], "%d", &id)
				c = d.txs[id]
				kind = c.a.K
			}
			at := fmt.Sprintf("path=%s|tx=%s", path, kind)
			// correctly signed: the real verifier, and the harness's own record of what it signed
			if !tx.CheckSign(h) || (c != nil && !strings.HasSuffix(nm, "g")) {
				viol = append(viol, fmt.Sprintf("C28|bad-signature-on-chain|%s|twin=%s|pool-had-genuine=%v", at, d.twin, d.poolHad(nm)))
			}
			// unexpired at the block's height and time: the real rule and the model's rule on real numbers
			if tx.IsExpire(cfg, h, b.BlockTime) || (c != nil && d.expired(c, h, b.BlockTime)) {
				viol = append(viol, fmt.Sprintf("C28|expired-on-chain|%s|rel-height=%d", at, h-trunkH))
			}
			if err := tx.Check(cfg, h, minFee, cfg.GetMaxTxFee(h)); err != nil || (c != nil && (c.a.K == "lowfee" || c.a.K == "chainid")) {
				viol = append(viol, fmt.Sprintf("C28|fee-or-chainid-invalid-on-chain|%s|err=%v", at, err))
			}
			if prev, dup := firstAt[hk]; dup {
				viol = append(viol, fmt.Sprintf("C28|duplicate-on-chain|%s|distance=%d", at, h-prev))
			} else {
				firstAt[hk] = h
				onchain[hk] = [2]int64{h, int64(i)}
			}
		}
		if h > trunkH {
			sortNames(row)
			r := make([]any, len(row))
			for i, x := range row {
				r[i] = instJSON(x)
			}
			best = append(best, r)
		}
	}
	// tx lookup by hash agrees with the chain
	for _, c := range d.txs {
		if c == nil {
			continue
		}
		det, err := d.n.Chain.ProcQueryTxMsg(c.hash)
		pos, on := onchain[string(c.hash)]
		switch {
		case on && (err != nil || det == nil):
			viol = append(viol, fmt.Sprintf("C28|tx-lookup|on-chain-but-not-found|tx=%s", c.a.K))
		case on && (det.Height != pos[0] || det.Index != pos[1]):
			viol = append(viol, fmt.Sprintf("C28|tx-lookup|wrong-position|tx=%s", c.a.K))
		case !on && err == nil && det != nil:
			viol = append(viol, fmt.Sprintf("C28|tx-lookup|found-but-not-on-chain|tx=%s", c.a.K))
		}
	}
	pool, err := d.n.poolTxs()
	if err != nil {
		return nil, err
	}
	var pn []string
	for _, tx := range pool {
		pn = append(pn, d.name(tx))
	}
	sortNames(pn)
	pj := make([]any, len(pn))
	for i, x := range pn {
		pj[i] = instJSON(x)
	}
	// the duplicate lookup block validation and the pool use, asked for the next height
	_, height, err := d.n.Tip()
	if err != nil {
		return nil, err
	}
	dup := make([]any, 0, len(d.txs))
	for _, c := range d.txs {
		if c == nil {
			continue
		}
		r, err := d.n.Chain.GetDuplicateTxHashList(&types.TxHashList{Hashes: [][]byte{c.hash}, Expire: []int64{c.g.Expire}, Count: height + 1})
		if err != nil {
			return nil, err
		}
		dup = append(dup, len(r.Hashes) > 0)
	}
	sort.Strings(viol)
	vj := []any{}
	for i, v := range viol {
		if i == 0 || viol[i-1] != v {
			vj = append(vj, v)
		}
	}
	return map[string]any{"best": best, "pool": pj, "dup": dup, "viol": vj}, nil
}

func (d *drv) poolHad(nm string) bool {
	if len(nm) < 2 {
		return false
	}
	g := nm[:len(nm)-1] + "g"
	for _, p := range d.lastPool {
		if p == g {
			return true
		}
	}
	return false
}

// NonTrivial: a duplicate, expired, statically invalid or mis-signed transaction was offered by
// either path (an offer the model rejects, or a producer iteration that left a pooled transaction
// unpacked).
func (d *drv) NonTrivial(env *core.Env, b *core.Behaviour) bool {
	for _, s := range b.Steps {
		if r, ok := s["ret"].(string); ok && r == "rej" {
			return true
		}
		if s.Op() == "Mine" {
			if c, ok := s["chk"].(map[string]any); ok {
				if p, ok := c["pool"].([]any); ok && len(p) > 0 {
					return true
				}
			}
		}
	}
	return false
}

func asMap(v any) map[string]any {
	m, _ := v.(map[string]any)
	return m
}

// offerClass describes what an offered block contains, relative to the model state before it.
func offerClass(s core.Step) string {
	var parts []string
	for _, v := range s.List("txs") {
		_, vr, _ := instOf(v)
		parts = append(parts, vr)
	}
	return strings.Join(parts, "")
}

// Signature: property violations are the strings computed on the real chain; everything else is a
// conformance disagreement named by the step, the kinds of the offered transactions and the field.
func (d *drv) Signature(b *core.Behaviour, idx int, field string, expected, observed any) string {
	s := b.Steps[idx]
	kinds := func() string {
		var ks []string
		add := func(v any) {
			id, vr, err := instOf(v)
			if err == nil && id >= 1 && id <= len(d.prof) {
				ks = append(ks, d.prof[id-1].K+"/"+vr)
			}
		}
		if s.Op() == "Submit" {
			add(s["x"])
		}
		for _, v := range s.List("txs") {
			add(v)
		}
		return strings.Join(ks, "+")
	}
	if field == "panic" {
		return fmt.Sprintf("C28|node-panic|%s|%s", s.Op(), clip(fmt.Sprint(observed), 70))
	}
	if field == "ret" {
		if o, ok := observed.(string); ok && strings.HasPrefix(o, "C28|") {
			return o
		}
		return fmt.Sprintf("conf|%s|offer=%s|exp=%v|got=%v", s.Op(), kinds(), expected, observed)
	}
	e, o := asMap(expected), asMap(observed)
	if e == nil || o == nil {
		return ""
	}
	if vs, ok := o["viol"].([]any); ok && len(vs) > 0 {
		return fmt.Sprint(vs[0])
	}
	for _, k := range []string{"best", "dup", "pool"} {
		if !core.Match(e[k], o[k]) {
			return fmt.Sprintf("conf|%s|offer=%s|%s|exp=%s|got=%s", s.Op(), kinds(), k, clip(core.J(e[k]), 60), clip(core.J(o[k]), 60))
		}
	}
	return ""
}

func clip(s string, n int) string {
	if len(s) > n {
		return s[:n] + "…"
	}
	return s
}

var _ = common.ToHex
