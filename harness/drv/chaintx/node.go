package main

import (
	"fmt"
	"sync"
	"time"

	"github.com/33cn/chain33/queue"
	"github.com/33cn/chain33/system/consensus/solo"
	"github.com/33cn/chain33/types"
	"verif/harness/drv/chain/rig"
)

// The producer of a receiver is its real solo consensus with mining ON, gated at the top of the
// block-creation loop (verif hook solo.VerifSetLoopGate): "Mine" releases exactly one iteration
// (RequestTx -> CheckTxDup -> AddTxsToBlock -> WriteBlock -> ProcessBlock with pid "self") and
// waits until the loop is parked at the top again.
type gateCtl struct {
	run    chan struct{}
	top    chan struct{}
	closed chan struct{}
}

var (
	gateMu   sync.RWMutex
	gates    = map[*types.Chain33Config]*gateCtl{}
	gateOnce sync.Once
)

func installGate() {
	gateOnce.Do(func() {
		solo.VerifSetLoopGate(func(c *solo.Client) {
			cfg := c.GetAPI().GetConfig()
			gateMu.RLock()
			g := gates[cfg]
			gateMu.RUnlock()
			if g == nil {
				return // not a gated node (the factory): the loop runs as in production (mining off)
			}
			select {
			case g.top <- struct{}{}:
			default:
			}
			select {
			case <-g.run:
			case <-g.closed:
			}
		})
	})
}

type node struct {
	*rig.Node
	g   *gateCtl
	cli queue.Client
}

const stepTimeout = 180 * time.Second

// startNode starts a gated receiver and feeds it the trunk.
func startNode() (*node, error) {
	installGate()
	g := &gateCtl{run: make(chan struct{}), top: make(chan struct{}, 1), closed: make(chan struct{})}
	var key *types.Chain33Config
	n, err := rig.Start(rig.Opts{RecordSeq: false, Miner: true, Mutate: func(cfg *types.Chain33Config) {
		w.mutate(cfg)
		key = cfg
		gateMu.Lock()
		gates[cfg] = g
		gateMu.Unlock()
	}})
	drop := func() {
		close(g.closed)
		gateMu.Lock()
		delete(gates, key)
		gateMu.Unlock()
	}
	if err != nil {
		drop()
		return nil, err
	}
	nd := &node{Node: n, g: g, cli: n.Client()}
	// the producer loop is parked at its gate before anything is delivered
	select {
	case <-g.top:
	case <-time.After(stepTimeout):
		nd.Close()
		return nil, fmt.Errorf("producer loop did not reach its gate")
	}
	for h := 1; h <= trunkH; h++ {
		r := n.Deliver(w.trunk[h], false, "trunk")
		if r.Err != nil || !r.Main {
			nd.Close()
			return nil, fmt.Errorf("trunk block %d not connected: main=%v err=%v", h, r.Main, r.Err)
		}
	}
	if err := nd.settle(); err != nil {
		nd.Close()
		return nil, err
	}
	return nd, nil
}

func (n *node) Close() {
	if n.g != nil {
		close(n.g.closed)
		gateMu.Lock()
		delete(gates, n.Cfg)
		gateMu.Unlock()
		n.g = nil
	}
	n.Node.Close()
}

// ask sends a request to a module on the given channel (high = the channel of synchronous
// requests and EventAddBlock, low = the channel of EventDelBlock) and waits for the answer: the
// module has then handled everything queued before on that channel.
func (n *node) ask(topic string, ty int64, data interface{}, high bool) error {
	msg := n.cli.NewMessage(topic, ty, data)
	if err := n.cli.Send(msg, high); err != nil {
		return err
	}
	_, err := n.cli.WaitTimeout(msg, stepTimeout)
	return err
}

// settle waits until the pool and the consensus module have handled the block events of the last
// delivery. A rolled-back block's transactions are re-admitted by the pool's handler of
// EventDelBlock (low channel), which asks the blockchain for duplicates meanwhile: two rounds.
func (n *node) settle() error {
	for round := 0; round < 2; round++ {
		for _, high := range []bool{false, true} {
			if err := n.ask("mempool", types.EventGetMempoolSize, nil, high); err != nil {
				return fmt.Errorf("mempool barrier: %v", err)
			}
			// EventMinerStart on a mining node is answered with ErrMinerIsStared: a harmless request
			if err := n.ask("consensus", types.EventMinerStart, nil, high); err != nil {
				return fmt.Errorf("consensus barrier: %v", err)
			}
		}
	}
	return nil
}

// mineOnce releases one iteration of the producer loop and waits until it is parked again.
func (n *node) mineOnce() error {
	select {
	case n.g.run <- struct{}{}:
	case <-time.After(stepTimeout):
		return fmt.Errorf("producer loop is not at its gate")
	}
	select {
	case <-n.g.top:
	case <-time.After(stepTimeout):
		return fmt.Errorf("producer iteration did not finish")
	}
	return n.settle()
}

func (n *node) submit(tx *types.Transaction) (bool, string) {
	reply, err := n.Mock.GetAPI().SendTx(types.Clone(tx).(*types.Transaction))
	if err != nil {
		return false, err.Error()
	}
	if reply == nil || !reply.GetIsOk() {
		return false, string(reply.GetMsg())
	}
	return true, ""
}

func (n *node) poolTxs() ([]*types.Transaction, error) {
	all, err := n.Mock.GetAPI().GetMempool(&types.ReqGetMempool{IsAll: true})
	if err != nil {
		return nil, err
	}
	return all.GetTxs(), nil
}

// chainBlocks reads the best chain from height 1 to the tip.
func (n *node) chainBlocks() ([]*types.BlockDetail, error) {
	_, height, err := n.Tip()
	if err != nil {
		return nil, err
	}
	out := make([]*types.BlockDetail, 0, height)
	for h := int64(1); h <= height; h++ {
		ds, err := n.Chain.ProcGetBlockDetailsMsg(&types.ReqBlocks{Start: h, End: h, IsDetail: true})
		if err != nil || len(ds.Items) != 1 || ds.Items[0] == nil {
			return nil, fmt.Errorf("block at %d: %v", h, err)
		}
		out = append(out, ds.Items[0])
	}
	return out, nil
}
