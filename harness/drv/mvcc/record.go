package main

import (
	"fmt"
	"math/rand"

	"verif/harness/core"
)

// record: seeded random histories over a larger key set on the real MVCC helper; every
// call is logged with its observed reply in abstract form. Validated by MVCC_Trace.
func record(env *core.Env, emit func(map[string]any)) (*core.Summary, error) {
	sum := &core.Summary{Counters: map[string]int{}}
	n := env.OptInt("n", 20)
	nkeys := env.OptInt("keys", 8)
	maxver := env.OptInt("maxver", 8)
	depth := env.OptInt("depth", 40)
	r := rand.New(rand.NewSource(env.Seed))
	for t := 0; t < n; t++ {
		d := &drv{}
		b := &core.Behaviour{ID: fmt.Sprintf("rec-%d-%d", env.Seed, t)}
		// fabricate a chk shape so that Reset sizes the key table
		b.Steps = []core.Step{{"op": "x", "key": float64(nkeys)}}
		if err := d.Reset(env, b); err != nil {
			return nil, err
		}
		emit(map[string]any{"ev": "Reset"})
		top := 0
		var evs []any
		trash, multi := false, false
		cnt := map[int]int{}
		for i := 0; i < depth; i++ {
			var st core.Step
			switch x := r.Intn(10); {
			case x < 4 && top < maxver:
				ks := []any{float64(1 + r.Intn(nkeys))}
				cnt[core.ToInt(ks[0])]++
				for k := 1; k <= nkeys; k++ {
					if core.ToInt(ks[0]) == k {
						continue
					}
					if r.Intn(3) == 0 {
						ks = append(ks, float64(k))
						cnt[k]++
						if cnt[k] >= 2 {
							multi = true
						}
					}
				}
				st = core.Step{"op": "AddVersion", "ver": float64(top), "keys": ks}
				top++
			case x < 5 && top > 1:
				st = core.Step{"op": "DelTop", "ver": float64(top - 1)}
				top--
			case x < 6 && top > 0:
				st = core.Step{"op": "Trash", "cut": float64(r.Intn(top))}
				if multi {
					trash = true
				}
			default:
				st = core.Step{"op": "GetV", "key": float64(1 + r.Intn(nkeys)), "ver": float64(r.Intn(maxver))}
			}
			if st.Op() == "AddVersion" && st["keys"] == nil {
				st["keys"] = []any{}
			}
			ret, _, err := d.Apply(st)
			if err != nil {
				d.Close()
				return nil, err
			}
			if rs, ok := ret.(string); ok && rs != "ok" {
				// the call failed: the model state did not move either; stop this trace here
				ev := map[string]any{"ev": st.Op(), "ret": ret}
				for k, v := range st {
					if k != "op" {
						ev[k] = v
					}
				}
				emit(ev)
				break
			}
			ev := map[string]any{"ev": st.Op(), "ret": ret}
			for k, v := range st {
				if k != "op" {
					ev[k] = v
				}
			}
			emit(ev)
			sum.Steps++
			if len(evs) < 12 {
				evs = append(evs, ev)
			}
		}
		d.Close()
		sum.Behaviours++
		if trash || len(cnt) >= 2 {
			sum.NonTrivial++
		}
		if len(sum.Samples) < 2 {
			sum.Samples = append(sum.Samples, map[string]any{"trace_prefix": evs})
		}
	}
	return sum, nil
}
