// Driver for the MVCC family (C09): common/db MVCC helper on memdb / LevelDB.
package main

import (
	"encoding/hex"
	"fmt"
	"math/rand"
	"os"
	"sort"
	"strconv"
	"strings"

	dbm "github.com/33cn/chain33/common/db"
	"github.com/33cn/chain33/executor"
	"github.com/33cn/chain33/types"
	"verif/harness/core"
)

// Key pool: prefix-related keys whose continuation bytes sort below, inside and above
// the "." + 20-digit version suffix the implementation appends.
var pool = [][]byte{
	[]byte("a"), []byte("a."), []byte("a-"), []byte("a.0"), []byte("a.-x"),
	[]byte("a.00000000000000000001"), []byte("ab"), []byte("a/"), []byte("a.."),
	[]byte("a.00000000000000000000.b"), []byte("a-.00000000000000000002"), []byte("a.9"),
	[]byte("a.00000000000000000001."), []byte("a\xff"), []byte("a\x00"), []byte("b"),
}

type drv struct {
	env    *core.Env
	dir    string
	db     dbm.DB
	m      *dbm.MVCCHelper
	it     *dbm.MVCCIter // opt iter=1: the iterating variant (maintains a "last value" index)
	sdb    bool          // opt statedb=1: reads below the top go through executor.StateDB
	keys   map[int][]byte // model key -> bytes
	rev    map[string]int
	hashes [][]byte
	ctr    int
	nkeys  int
}

func (d *drv) conc(b *core.Behaviour, nkeys int) {
	h := int64(0)
	for _, c := range b.ID {
		h = h*131 + int64(c)
	}
	r := rand.New(rand.NewSource(d.env.Seed*1000003 + h + int64(d.env.OptInt("salt", 0))*7919))
	perm := r.Perm(len(pool))
	d.keys = map[int][]byte{}
	d.rev = map[string]int{}
	for i := 1; i <= nkeys; i++ {
		k := pool[perm[(i-1)%len(pool)]]
		if i > len(pool) {
			k = append(append([]byte{}, k...), []byte(fmt.Sprintf("~%d", i))...)
		}
		d.keys[i] = k
		d.rev[string(k)] = i
	}
	d.nkeys = nkeys
}

func maxKey(b *core.Behaviour) int {
	n := 0
	for _, s := range b.Steps {
		if cm, ok := s["chk"].(map[string]any); ok {
			if c, ok := cm["t"].([]any); ok && len(c) > n {
				n = len(c)
			}
		}
		for _, k := range s.Ints("keys") {
			if k > n {
				n = k
			}
		}
		if k := s.Int("key"); k > n {
			n = k
		}
	}
	return n
}

func (d *drv) Reset(env *core.Env, b *core.Behaviour) error {
	d.env = env
	d.conc(b, maxKey(b))
	d.hashes = nil
	var err error
	if env.Opt("db", "mem") == "leveldb" {
		d.dir, err = os.MkdirTemp("", "vh-mvcc-")
		if err != nil {
			return err
		}
		d.db, err = dbm.NewGoLevelDB("mvcc", d.dir, 4)
		if err != nil {
			return err
		}
	} else {
		d.db, err = dbm.NewGoMemDB("mvcc", "", 0)
		if err != nil {
			return err
		}
	}
	d.m = dbm.NewMVCC(d.db)
	d.it = nil
	if env.Opt("iter", "0") == "1" {
		d.it = dbm.NewMVCCIter(d.db)
		d.m = d.it.MVCCHelper
	}
	d.sdb = env.Opt("statedb", "0") == "1"
	return nil
}

func (d *drv) Close() {
	if d.db != nil {
		d.db.Close()
	}
	if d.dir != "" {
		os.RemoveAll(d.dir)
		d.dir = ""
	}
}

func val(key []byte, ver int) []byte {
	return []byte("V|" + hex.EncodeToString(key) + "|" + strconv.Itoa(ver))
}

func (d *drv) apply(kvs []*types.KeyValue) error {
	for _, kv := range kvs {
		if len(kv.Value) == 0 {
			if err := d.db.Delete(kv.Key); err != nil && err != types.ErrNotFound && !strings.Contains(strings.ToLower(err.Error()), "not found") {
				return err
			}
		} else if err := d.db.Set(kv.Key, kv.Value); err != nil {
			return err
		}
	}
	return nil
}

func (d *drv) getv(k, u int) ([]byte, error) {
	if d.sdb && u > 0 && u < len(d.hashes) { // (version 0 is stored as an empty record, which the harness KV applier treats as a delete)
		// the executor's state reader: version resolved from the state hash of version u
		kv := executor.NewStateDB(nil, d.hashes[u], dbm.NewKVDB(d.db), &executor.StateDBOption{EnableMVCC: true, Height: int64(u)})
		v, ok := executor.VerifEnableMVCC(kv, d.hashes[u])
		if !ok || v != int64(u) {
			return nil, fmt.Errorf("statedb resolved version %d for hash of version %d", v, u)
		}
		return kv.Get(d.keys[k])
	}
	return d.m.GetV(d.keys[k], int64(u))
}

func (d *drv) read(k, u int) any {
	v, err := d.getv(k, u)
	if err != nil {
		if err == types.ErrNotFound {
			return []any{"none", -1}
		}
		return []any{"err", err.Error()}
	}
	p := strings.Split(string(v), "|")
	if len(p) != 3 || p[0] != "V" {
		return []any{"garbage", string(v)}
	}
	kb, _ := hex.DecodeString(p[1])
	ver, _ := strconv.Atoi(p[2])
	if string(kb) != string(d.keys[k]) {
		return []any{"other", d.rev[string(kb)], ver}
	}
	return []any{"val", ver}
}

// lastView: what the MVCCIter iterator shows per key (newest live value), decoded to record ids
func (d *drv) lastView(exp any) any {
	if d.it == nil {
		return exp // not observed in this mode
	}
	got := map[int]any{}
	it := d.it.Iterator(nil, nil, false)
	for it.Rewind(); it.Valid(); it.Next() {
		k, ok := d.rev[string(it.Key())]
		if !ok {
			got[-1] = []any{"unknown-key", string(it.Key())}
			continue
		}
		p := strings.Split(string(it.Value()), "|")
		if len(p) != 3 {
			got[k] = []any{"garbage", string(it.Value())}
			continue
		}
		kb, _ := hex.DecodeString(p[1])
		ver, _ := strconv.Atoi(p[2])
		if string(kb) != string(d.keys[k]) {
			got[k] = []any{"other", d.rev[string(kb)], ver}
		} else {
			got[k] = []any{"val", ver}
		}
	}
	it.Close()
	var out []any
	for k := 1; k <= d.nkeys; k++ {
		if v, ok := got[k]; ok {
			out = append(out, v)
		} else {
			out = append(out, []any{"none", -1})
		}
	}
	if v, ok := got[-1]; ok {
		out = append(out, v)
	}
	return out
}

func (d *drv) chk(s core.Step) any {
	c, _ := s["chk"].(map[string]any)
	if c == nil {
		return nil
	}
	return map[string]any{"t": d.table(nverOf(s)), "last": d.lastView(c["last"])}
}

func (d *drv) table(nver int) any {
	var out []any
	for k := 1; k <= d.nkeys; k++ {
		var row []any
		for u := 0; u < nver; u++ {
			row = append(row, d.read(k, u))
		}
		out = append(out, row)
	}
	return out
}

func nverOf(s core.Step) int {
	cm, _ := s["chk"].(map[string]any)
	if c, ok := cm["t"].([]any); ok && len(c) > 0 {
		if r, ok := c[0].([]any); ok {
			return len(r)
		}
	}
	return 0
}

func (d *drv) Apply(s core.Step) (any, any, error) {
	switch s.Op() {
	case "AddVersion":
		ver := s.Int("ver")
		var kvs []*types.KeyValue
		ks := s.Ints("keys")
		sort.Ints(ks)
		for _, k := range ks {
			kvs = append(kvs, &types.KeyValue{Key: d.keys[k], Value: val(d.keys[k], ver)})
		}
		d.ctr++
		hash := []byte(fmt.Sprintf("hash-%d-%d", ver, d.ctr))
		var prev []byte
		if ver > 0 {
			if len(d.hashes) != ver {
				return nil, nil, fmt.Errorf("version stack %d != %d", len(d.hashes), ver)
			}
			prev = d.hashes[ver-1]
		}
		var kvl []*types.KeyValue
		var err error
		if d.it != nil {
			kvl, err = d.it.AddMVCC(kvs, hash, prev, int64(ver))
		} else {
			kvl, err = d.m.AddMVCC(kvs, hash, prev, int64(ver))
		}
		if err != nil {
			return "err:" + err.Error(), d.chk(s), nil
		}
		if err := d.apply(kvl); err != nil {
			return nil, nil, err
		}
		d.hashes = append(d.hashes, hash)
		return "ok", d.chk(s), nil
	case "DelTop":
		ver := s.Int("ver")
		if len(d.hashes) != ver+1 {
			return nil, nil, fmt.Errorf("version stack %d != %d", len(d.hashes), ver+1)
		}
		var kvl []*types.KeyValue
		var err error
		if d.it != nil {
			kvl, err = d.it.DelMVCC(d.hashes[ver], int64(ver), true)
		} else {
			kvl, err = d.m.DelMVCC(d.hashes[ver], int64(ver), true)
		}
		if err != nil {
			return "err:" + err.Error(), d.chk(s), nil
		}
		if err := d.apply(kvl); err != nil {
			return nil, nil, err
		}
		d.hashes = d.hashes[:ver]
		return "ok", d.chk(s), nil
	case "Trash":
		if err := d.m.Trash(int64(s.Int("cut"))); err != nil {
			return "err:" + err.Error(), d.chk(s), nil
		}
		return "ok", d.chk(s), nil
	case "GetV":
		return d.read(s.Int("key"), s.Int("ver")), nil, nil
	}
	return nil, nil, fmt.Errorf("unknown op %q", s.Op())
}

// NonTrivial (C09): two distinct keys first written at different versions (so some read sees
// only one of two prefix-related keys), or a Trash after a key has >= 2 records.
func (d *drv) NonTrivial(env *core.Env, b *core.Behaviour) bool {
	first := map[int]int{}
	count := map[int]int{}
	for _, s := range b.Steps {
		switch s.Op() {
		case "AddVersion":
			for _, k := range s.Ints("keys") {
				if _, ok := first[k]; !ok {
					first[k] = s.Int("ver")
				}
				count[k]++
			}
		case "Trash":
			for _, c := range count {
				if c >= 2 {
					return true
				}
			}
		}
	}
	seen := map[int]bool{}
	for _, v := range first {
		seen[v] = true
	}
	return len(seen) >= 2
}

func clipj(v any) string {
	s := core.J(v)
	if len(s) > 80 {
		s = s[:80]
	}
	return s
}

func cls(v any) string {
	if l, ok := v.([]any); ok && len(l) > 0 {
		return fmt.Sprint(l[0])
	}
	return fmt.Sprint(v)
}

// relation of key `other` to key `k`
func rel(k, other []byte) string {
	switch {
	case strings.HasPrefix(string(other), string(k)) && len(other) > len(k):
		c := other[len(k)]
		tail := ""
		if c == '.' && len(other) > len(k)+1 {
			n := other[len(k)+1]
			switch {
			case n < '0':
				tail = "+below-digit"
			case n <= '9':
				tail = "+digit"
			default:
				tail = "+above-digit"
			}
		}
		switch {
		case c == '.':
			return "req-is-prefix,next='.'" + tail
		case c < '.':
			return "req-is-prefix,next<'.'"
		default:
			return "req-is-prefix,next>'.'"
		}
	case strings.HasPrefix(string(k), string(other)) && len(k) > len(other):
		return "other-is-prefix-of-req"
	}
	return "unrelated"
}

// Signature: op | expected class | observed class | relation between the requested key and the
// key involved (whose value was returned, or a longer/shorter key present in the pool).
func (d *drv) Signature(b *core.Behaviour, idx int, field string, exp, obs any) string {
	s := b.Steps[idx]
	if field == "ret" && s.Op() == "GetV" {
		return fmt.Sprintf("GetV|exp=%s|got=%s", cls(exp), cls(obs))
	}
	if field == "chk" {
		em, _ := exp.(map[string]any)
		om, _ := obs.(map[string]any)
		if em != nil && om != nil && core.Match(em["t"], om["t"]) && !core.Match(em["last"], om["last"]) {
			return fmt.Sprintf("%s|last-view|exp=%s|got=%s", s.Op(), clipj(em["last"]), clipj(om["last"]))
		}
		e, _ := em["t"].([]any)
		o, _ := om["t"].([]any)
		for i := range e {
			er, _ := e[i].([]any)
			if i >= len(o) {
				break
			}
			or, _ := o[i].([]any)
			for j := range er {
				if j >= len(or) || core.Match(er[j], or[j]) {
					continue
				}
				k := d.keys[i+1]
				r := "n/a"
				if ol, ok := or[j].([]any); ok && len(ol) == 3 && cls(or[j]) == "other" {
					r = rel(k, d.keys[core.ToInt(ol[1])])
				} else {
					// which other pool keys in this behaviour relate to k?
					var rs []string
					for kk := 1; kk <= d.nkeys; kk++ {
						if kk != i+1 {
							if x := rel(k, d.keys[kk]); x != "unrelated" {
								rs = append(rs, x)
							}
						}
					}
					sort.Strings(rs)
					if len(rs) > 0 {
						r = rs[0]
					}
				}
				return fmt.Sprintf("%s|read|exp=%s|got=%s|%s", s.Op(), cls(er[j]), cls(or[j]), r)
			}
		}
	}
	return fmt.Sprintf("%s|%s|exp=%s|got=%s", s.Op(), field, cls(exp), cls(obs))
}

func main() {
	core.Main(&core.Family{
		Name:      "mvcc",
		NewDriver: func() core.Driver { return &drv{} },
		Recorders: map[string]core.Recorder{"default": record},
	})
}
