package main

import (
	"fmt"
	"math/rand"
	"sort"

	mavl "github.com/33cn/chain33/system/store/mavl/db"
	"verif/harness/core"
)

// record: seeded random commit / reorganisation / no-change / prune / reopen histories on the
// real store with a larger key set (AVL rotations, trees deeper than the node cache threshold)
// and heights crossing the second- and third-level pruning thresholds. Every call is logged
// with the read table of every retained commit as observed on the real store; Prune_Trace
// validates the trace (arguments legal for the model, every retained read as the model says).
//
// The recorder mirrors the model's bookkeeping (chain, tip, floor) only to choose legal
// arguments and the roots to read; the trace specification recomputes all of it.
func record(env *core.Env, emit func(map[string]any)) (*core.Summary, error) {
	sum := &core.Summary{Counters: map[string]int{}}
	n := env.OptInt("n", 10)
	nk := env.OptInt("keys", 12)
	nv := env.OptInt("vals", 3)
	depth := env.OptInt("depth", 40)
	ph := env.OptInt("ph", 2)
	maxw := env.OptInt("maxw", 4)
	r := rand.New(rand.NewSource(env.Seed*7907 + int64(ph)))
	heights := bandHeights(env.OptInt("band", 40))
	for t := 0; t < n; t++ {
		d := &drv{}
		b := &core.Behaviour{ID: fmt.Sprintf("rec-%d-%d-%d", env.Seed, ph, t)}
		ws0 := make([]any, nk)
		for i := range ws0 {
			ws0[i] = float64(0)
		}
		b.Steps = []core.Step{{"op": "x", "ws": ws0}}
		env.Opts["bigkeys"] = "1"
		if err := d.Reset(env, b); err != nil {
			return nil, err
		}
		emit(map[string]any{"ev": "Reset"})
		var commits []int // ascending commit heights of the current chain
		tip, floor := 0, 0
		lo := func() int { return max(floor, tip-ph) }
		commitOf := func(x int) int {
			c := 0
			for _, y := range commits {
				if y <= x {
					c = y
				}
			}
			return c
		}
		retained := func() []int {
			seen := map[int]bool{}
			var out []int
			for x := lo() + 1; x <= tip; x++ {
				if c := commitOf(x); c != 0 && !seen[c] {
					seen[c] = true
					out = append(out, c)
				}
			}
			sort.Ints(out)
			return out
		}
		nextHeights := func(bound, k int) []int {
			var out []int
			for _, h := range heights {
				if h > bound && len(out) < k {
					out = append(out, h)
				}
			}
			return out
		}
		var steps []any
		for i := 0; i < depth; i++ {
			var st core.Step
			x := r.Intn(100)
			// parent: mostly the tip's state, sometimes an older retained one (reorganisation)
			c := 0
			if len(commits) > 0 {
				ps := retained()
				c = ps[len(ps)-1]
				if r.Intn(6) == 0 {
					c = ps[r.Intn(len(ps))]
				}
			}
			bound := 0
			if tip > 0 {
				bound = max(c, lo()+1)
			}
			jump := 3
			if r.Intn(12) == 0 {
				jump = env.OptInt("band", 40) + 2 // may cross into the next band
			}
			hs := nextHeights(bound, jump)
			switch {
			case (x < 62 || len(commits) == 0) && len(hs) > 0:
				h := hs[len(hs)-1]
				if r.Intn(3) > 0 {
					h = hs[0]
				}
				ws := make([]any, nk)
				for k := range ws {
					ws[k] = float64(0)
				}
				for w := 1 + r.Intn(maxw); w > 0; w-- {
					ws[r.Intn(nk)] = float64(1 + r.Intn(nv))
				}
				st = core.Step{"op": "Commit", "c": float64(c), "h": float64(h), "ws": ws}
				var keep []int
				for _, y := range commits {
					if y <= c {
						keep = append(keep, y)
					}
				}
				commits = append(keep, h)
				tip = h
				floor = max(floor, h-ph)
			case x < 70 && len(hs) > 0 && tip > 0:
				h := hs[0]
				var keep []int
				for _, y := range commits {
					if y <= c {
						keep = append(keep, y)
					}
				}
				if len(keep) == len(commits) && h <= tip {
					continue
				}
				st = core.Step{"op": "NoChange", "c": float64(c), "h": float64(h)}
				commits = keep
				tip = h
				floor = max(floor, h-ph)
			case x < 93 && tip > 0:
				cur := tip - r.Intn(ph+2)
				if cur <= 0 {
					cur = tip
				}
				st = core.Step{"op": "Prune", "cur": float64(cur)}
			case tip > 0:
				st = core.Step{"op": "Reopen"}
			default:
				continue
			}
			st["tip"] = float64(tip)
			var tbl []any
			for _, y := range retained() {
				tbl = append(tbl, map[string]any{"h": float64(y)})
			}
			st["chk"] = tbl
			ret, chk, err := d.Apply(st)
			if err != nil {
				d.Close()
				return nil, fmt.Errorf("trace %d step %d %v: %v", t, i, st, err)
			}
			ev := map[string]any{"ev": st.Op(), "ret": ret, "t": chk}
			if chk == nil {
				ev["t"] = []any{}
			}
			for k, v := range st {
				if k != "op" && k != "chk" {
					ev[k] = v
				}
			}
			emit(ev)
			steps = append(steps, st)
			if ret != "ok" {
				break // the model does not move on a failed call
			}
		}
		sum.Behaviours++
		if d.nontrivial {
			sum.NonTrivial++
		}
		sum.Counters["records_deleted_by_prune"] += d.deleted
		sum.Counters["explicit_prune_runs"] += d.pruneRuns
		if len(sum.Samples) < 2 && len(steps) > 0 {
			sum.Samples = append(sum.Samples, map[string]any{"id": b.ID, "steps": steps[:min(len(steps), 12)]})
		}
		d.Close()
	}
	return sum, nil
}

// bandHeights: `band` consecutive heights in each of the bands that make the first-level scan
// move entries to the second level (cur >= h + 500 000), enable the second-level scan
// (cur >= 1 000 000) and reach the third-level threshold (cur >= h + 1 500 000).
func bandHeights(band int) []int {
	var out []int
	for _, base := range []int{1, 500001, 1000001, 1500003, 2000001, 2500001} {
		for i := 0; i < band; i++ {
			out = append(out, base+i)
		}
	}
	return out
}

// memdbProbe: one short linear history (odd heights: Tree.Save starts no background run for
// pruneHeight 2) on the memdb backend with an explicit pruning run under recover. Prints
// {"result": "ok" | "panic: ..."}; always exit 0. memdb reports deleting an absent key and
// memBatch.Write returns the last operation's error, so a pruning batch that ends with the second
// delete of one key panics in dbm.MustWrite (in the store's background goroutine that kills the
// process). The memdb leg of the check therefore only replays histories whose first commit writes
// >= 2 keys (no un-prefixed leaf is ever written twice); this probe documents the reason.
func memdbProbe(env *core.Env, args []string) int {
	env.Opts["db"] = "mem"
	env.Opts["ph"] = "2"
	d := &drv{}
	b := &core.Behaviour{ID: "memdb-probe", Steps: []core.Step{{"op": "x", "ws": []any{float64(0), float64(0)}}}}
	if err := d.Reset(env, b); err != nil {
		fmt.Println(`{"result":"reset failed"}`)
		return 0
	}
	defer d.Close()
	res := "ok"
	func() {
		defer func() {
			if r := recover(); r != nil {
				res = "panic: " + fmt.Sprint(r)
			}
		}()
		// a one-leaf tree written twice with the same value: both old versions are stored under the
		// same un-prefixed leaf key, the pruning batch deletes that key twice
		steps := []core.Step{
			{"op": "Commit", "c": float64(0), "h": float64(1), "ws": []any{float64(1), float64(0)}},
			{"op": "Commit", "c": float64(1), "h": float64(3), "ws": []any{float64(1), float64(0)}},
			{"op": "Commit", "c": float64(3), "h": float64(5), "ws": []any{float64(2), float64(0)}},
			{"op": "Commit", "c": float64(5), "h": float64(7), "ws": []any{float64(0), float64(1)}},
		}
		for _, s := range steps {
			s["chk"] = []any{}
			if ret, _, err := d.Apply(s); err != nil || ret != "ok" {
				res = fmt.Sprintf("commit failed: %v %v", ret, err)
				return
			}
		}
		mavl.PruningTree(d.db, 9, d.cfg)
	}()
	fmt.Printf("{\"result\":%q}\n", res)
	return 0
}
