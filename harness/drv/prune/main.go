// Driver for the Prune family (C05): the real mavl store (system/store/mavl) with
// enableMavlPrune on LevelDB / memdb. Behaviours generated from spec/Prune are replayed
// commit by commit; after every step every key is read at every retained root.
//
// The mavl db package keeps process globals (maxBlockHeight, quit, pruningState,
// secLvlPruningH): one behaviour at a time per process (run with --par 1) and
// VerifResetGlobals() (hook H4) between behaviours.
package main

import (
	"bytes"
	"encoding/hex"
	"fmt"
	"math/rand"
	"os"
	"sort"
	"strings"

	dbm "github.com/33cn/chain33/common/db"
	log "github.com/33cn/chain33/common/log/log15"
	drivers "github.com/33cn/chain33/system/store"
	mavlstore "github.com/33cn/chain33/system/store/mavl"
	mavl "github.com/33cn/chain33/system/store/mavl/db"
	"github.com/33cn/chain33/types"
	"verif/harness/core"
)

// Key pool (sorted by bytes.Compare): state keys that look like the pruning index's own
// prefixes, end in digit runs of the width of the height field, extend each other, or
// contain the separators the index parser trims.
var pool = [][]byte{
	[]byte("\x00"), []byte("..mk.."), []byte("..mk..a0000000001"), []byte("..mok.."), []byte("0000000001"),
	[]byte("_mb_-0000000001-"), []byte("_mrhp_0000000002"), []byte("a"), []byte("a0000000001"), []byte("a0000000002x"),
	[]byte("a1"), []byte("mavl-coins-bty-exec-16htvcBNSEA7fZhAdLJphDwQRQJaHpyHTp"), []byte("mavl-coins-bty-exec-16htvcBNSEA7fZhAdLJphDwQRQJaHpyHTp:1"),
	[]byte("mavl-ticket-"), []byte("z048"), []byte("z\xff\xff"), []byte("\xff"),
}

func init() {
	sort.Slice(pool, func(i, j int) bool { return bytes.Compare(pool[i], pool[j]) < 0 })
}

type drv struct {
	env   *core.Env
	dir   string
	store *mavlstore.Store
	db    dbm.DB
	cfg   *mavl.TreeConfig
	ph    int
	keys  [][]byte       // model key i -> keys[i-1]
	roots map[int][]byte // commit height -> root hash on the current chain
	// bookkeeping for signatures / non-triviality
	rootSeen   map[string]map[int]bool // un-prefixed root hash -> heights it was returned at
	dropped    map[int]bool            // commit heights dropped by a rollback and not re-committed since
	writes     map[int][]int           // commit height on the current chain -> model keys written
	deadWrites map[int][]int           // dropped, never re-committed height -> model keys written there
	deleted    int                     // node/index records deleted by prune runs in this behaviour
	nontrivial bool                    // a run deleted records while >= 2 roots were retained
	pruneRuns  int
}

func seedOf(env *core.Env, id string) int64 {
	h := int64(0)
	for _, c := range id {
		h = h*131 + int64(c)
	}
	return env.Seed*1000003 + h + int64(env.OptInt("salt", 0))*7919
}

func (d *drv) concretise(b *core.Behaviour, nk int) {
	r := rand.New(rand.NewSource(seedOf(d.env, b.ID)))
	idx := r.Perm(len(pool))[:nk]
	sort.Ints(idx)
	d.keys = nil
	for i, p := range idx {
		k := pool[p]
		if d.env.OptInt("bigkeys", 0) > 0 {
			k = append(append([]byte{}, k...), []byte(fmt.Sprintf("/%04d", i))...)
		}
		d.keys = append(d.keys, k)
	}
}

func val(k, v int) []byte {
	// same (key, value) -> same bytes: a state that re-occurs re-occurs byte for byte
	s := fmt.Sprintf("val-%d-%d", k, v)
	if v%2 == 0 {
		s += strings.Repeat("#", 40*v)
	}
	return []byte(s)
}

func nkOf(b *core.Behaviour) int {
	n := 0
	for _, s := range b.Steps {
		if l := len(s.List("ws")); l > n {
			n = l
		}
	}
	if n == 0 {
		n = 3
	}
	return n
}

func (d *drv) open() error {
	drv := "memdb"
	if d.env.Opt("db", "mem") == "leveldb" {
		drv = "leveldb"
	}
	sub := []byte(fmt.Sprintf(`{"enableMavlPrune":true,"pruneHeight":%d}`, d.ph))
	d.store = mavlstore.New(&types.Store{Name: "mavl", Driver: drv, DbPath: d.dir, DbCache: 16}, sub, nil).(*mavlstore.Store)
	d.db = d.store.GetDB()
	// what New derives from the sub-config (pruning forces the prefix on)
	d.cfg = &mavl.TreeConfig{EnableMavlPrefix: true, EnableMavlPrune: true, PruneHeight: int32(d.ph)}
	return nil
}

func (d *drv) Reset(env *core.Env, b *core.Behaviour) error {
	d.env = env
	mavl.VerifResetGlobals()
	d.ph = env.OptInt("ph", 2)
	d.concretise(b, nkOf(b))
	d.roots = map[int][]byte{}
	d.rootSeen = map[string]map[int]bool{}
	d.dropped = map[int]bool{}
	d.writes = map[int][]int{}
	d.deadWrites = map[int][]int{}
	d.deleted, d.nontrivial, d.pruneRuns = 0, false, 0
	var err error
	d.dir, err = os.MkdirTemp("", "vh-prune-")
	if err != nil {
		return err
	}
	return d.open()
}

func (d *drv) Close() {
	if d.store != nil {
		mavl.VerifWaitPrune()
		d.store.Close()
		d.store = nil
	}
	mavl.VerifResetGlobals()
	if d.dir != "" {
		os.RemoveAll(d.dir)
		d.dir = ""
	}
}

// snapshot of all DB keys (the databases of this family stay small)
func (d *drv) snapshot() map[string]bool {
	m := map[string]bool{}
	it := d.db.Iterator(nil, types.EmptyValue, false)
	for it.Rewind(); it.Valid(); it.Next() {
		m[string(it.Key())] = true
	}
	it.Close()
	return m
}

func countDeleted(before, after map[string]bool) int {
	n := 0
	for k := range before {
		if !after[k] {
			n++
		}
	}
	return n
}

// read one key at a root through the package API; -1 = a record on the path is missing
func (d *drv) read(root []byte, k int) (res int) {
	defer func() {
		if r := recover(); r != nil {
			res = -1 // Node.getLeftNode/getRightNode panic on a missing record
		}
	}()
	vals, err := mavl.GetKVPair(d.db, &types.StoreGet{StateHash: root, Keys: [][]byte{d.keys[k-1]}}, d.cfg)
	if err != nil {
		return -1
	}
	if len(vals) != 1 || vals[0] == nil {
		return 0
	}
	for v := 1; v <= 9; v++ {
		if bytes.Equal(vals[0], val(k, v)) {
			return v
		}
	}
	return -2 // a value that was never written under this key
}

// the store module's own Get (cannot tell a missing root from absent keys): cross-check only
func (d *drv) storeRead(root []byte, k int) (res int) {
	defer func() {
		if r := recover(); r != nil {
			res = -1
		}
	}()
	vals := d.store.Get(&types.StoreGet{StateHash: root, Keys: [][]byte{d.keys[k-1]}})
	if len(vals) != 1 || vals[0] == nil {
		return 0
	}
	for v := 1; v <= 9; v++ {
		if bytes.Equal(vals[0], val(k, v)) {
			return v
		}
	}
	return -2
}

func (d *drv) table(s core.Step) (any, error) {
	var exp []any
	if m, ok := s["chk"].(map[string]any); ok {
		exp, _ = m["t"].([]any)
	} else {
		exp, _ = s["chk"].([]any)
	}
	out := []any{}
	for _, e := range exp {
		em, _ := e.(map[string]any)
		h := core.ToInt(em["h"])
		root, ok := d.roots[h]
		if !ok {
			return nil, fmt.Errorf("no root bound for commit height %d", h)
		}
		var vals []any
		for k := 1; k <= len(d.keys); k++ {
			v := d.read(root, k)
			if sv := d.storeRead(root, k); v >= 0 && sv != v {
				v = -3 // the module's Get disagrees with the package API
			}
			vals = append(vals, v)
		}
		out = append(out, map[string]any{"h": h, "vals": vals})
	}
	return out, nil
}

func (d *drv) stats() (nodes, idx, old int) {
	it := d.db.Iterator(nil, types.EmptyValue, false)
	defer it.Close()
	for it.Rewind(); it.Valid(); it.Next() {
		k := it.Key()
		switch {
		case bytes.HasPrefix(k, []byte("..mk..")):
			idx++
		case bytes.HasPrefix(k, []byte("..mok..")):
			old++
		case bytes.HasPrefix(k, []byte("_mrhp_")), bytes.HasPrefix(k, []byte("_..m")):
		default:
			nodes++
		}
	}
	return
}

func (d *drv) observe(s core.Step) (any, error) {
	t, err := d.table(s)
	if err != nil {
		return nil, err
	}
	if d.env.Opt("view", "ref") == "mech" {
		n, i, o := d.stats()
		return map[string]any{"t": t, "nodes": n, "idx": i, "old": o}, nil
	}
	return t, nil
}

func retainedCount(s core.Step) int {
	if m, ok := s["chk"].(map[string]any); ok {
		l, _ := m["t"].([]any)
		return len(l)
	}
	l, _ := s["chk"].([]any)
	return len(l)
}

func (d *drv) noteDeleted(n int, s core.Step) {
	if n > 0 {
		d.deleted += n
		if retainedCount(s) >= 2 {
			d.nontrivial = true
		}
	}
}

func (d *drv) truncate(c int) {
	for y := range d.roots {
		if y > c {
			delete(d.roots, y)
			d.dropped[y] = true
			d.deadWrites[y] = d.writes[y]
			delete(d.writes, y)
		}
	}
}

func (d *drv) commit(s core.Step) (ret string) {
	c, h := s.Int("c"), s.Int("h")
	parent := drivers.EmptyRoot[:]
	if c != 0 {
		parent = d.roots[c]
	}
	var kvs []*types.KeyValue
	for i, v := range s.Ints("ws") {
		if v != 0 {
			kvs = append(kvs, &types.KeyValue{Key: d.keys[i], Value: val(i+1, v)})
		}
	}
	set := &types.StoreSet{StateHash: parent, KV: kvs, Height: int64(h)}
	defer func() {
		if r := recover(); r != nil {
			ret = "panic:" + clip(fmt.Sprint(r))
		}
	}()
	var hash []byte
	var err error
	if d.env.Opt("api", "set") == "memset" {
		hash, err = d.store.MemSet(set, true)
		if err == nil {
			_, err = d.store.Commit(&types.ReqHash{Hash: hash})
		}
	} else {
		hash, err = d.store.Set(set, true)
	}
	mavl.VerifWaitPrune() // the run Tree.Save may have started
	if err != nil {
		return "err:" + clip(err.Error())
	}
	if len(hash) != 32 {
		return fmt.Sprintf("badhash:%d", len(hash))
	}
	d.truncate(c)
	d.roots[h] = hash
	delete(d.dropped, h)
	delete(d.deadWrites, h) // a commit at a used height cleans that height's index entries (DelLeafCountKV)
	var wk []int
	for i, v := range s.Ints("ws") {
		if v != 0 {
			wk = append(wk, i+1)
		}
	}
	d.writes[h] = wk
	if d.rootSeen[string(hash)] == nil {
		d.rootSeen[string(hash)] = map[int]bool{}
	}
	d.rootSeen[string(hash)][h] = true
	return "ok"
}

func clip(s string) string {
	if len(s) > 80 {
		return s[:80]
	}
	return s
}

func (d *drv) Apply(s core.Step) (any, any, error) {
	switch s.Op() {
	case "Commit":
		before := d.snapshot()
		ret := d.commit(s)
		if ret == "ok" {
			d.noteDeleted(countDeleted(before, d.snapshot()), s)
		}
		chk, err := d.observe(s)
		if err != nil {
			if ret != "ok" {
				return ret, nil, nil
			}
			return nil, nil, err
		}
		return ret, chk, nil
	case "NoChange":
		c, h := s.Int("c"), s.Int("h")
		if d.env.Opt("api", "set") == "memset" {
			// what the executor does for a block without state change
			hash, err := d.store.MemSet(&types.StoreSet{StateHash: d.roots[c], Height: int64(h)}, true)
			if err != nil || !bytes.Equal(hash, d.roots[c]) {
				return fmt.Sprintf("err:%v", err), nil, nil
			}
			if _, err := d.store.Commit(&types.ReqHash{Hash: hash}); err != nil {
				return "err:" + clip(err.Error()), nil, nil
			}
		}
		d.truncate(c)
		chk, err := d.observe(s)
		return "ok", chk, err
	case "Prune":
		before := d.snapshot()
		mavl.PruningTree(d.db, int64(s.Int("cur")), d.cfg)
		d.pruneRuns++
		d.noteDeleted(countDeleted(before, d.snapshot()), s)
		chk, err := d.observe(s)
		return "ok", chk, err
	case "Reopen":
		mavl.VerifWaitPrune()
		if d.env.Opt("db", "mem") == "leveldb" {
			d.store.Close()
			mavl.VerifResetGlobals()
			if err := d.open(); err != nil {
				return nil, nil, err
			}
		} else {
			mavl.VerifResetGlobals() // memdb cannot be reopened: only the process state is forgotten
		}
		chk, err := d.observe(s)
		return "ok", chk, err
	}
	return nil, nil, fmt.Errorf("unknown op %q", s.Op())
}

// NonTrivial (C05): a prune run (explicit or started by Tree.Save) actually deleted records
// while at least two roots were retained.
func (d *drv) NonTrivial(env *core.Env, b *core.Behaviour) bool {
	return d.nontrivial
}

// firstMissing walks the stored tree below root towards key k and classifies the first
// record that is absent.
func (d *drv) firstMissing(root []byte, k int) string {
	hash := root
	for depth := 0; depth < 64; depth++ {
		buf, err := d.db.Get(hash)
		if err != nil || len(buf) == 0 {
			kind := "prefixed-inner"
			switch {
			case len(hash) == 32:
				kind = "unprefixed"
			case bytes.HasPrefix(hash, []byte("_mb_")):
				kind = "prefixed-leaf"
			}
			re := "n"
			if hs := d.rootSeen[string(hash)]; len(hs) >= 2 {
				re = "y"
			}
			return kind + "|reoccurred=" + re
		}
		var n types.StoreNode
		if err := types.Decode(buf, &n); err != nil {
			return "undecodable"
		}
		if n.Height == 0 {
			return "none"
		}
		if bytes.Compare(d.keys[k-1], n.Key) < 0 {
			hash = n.LeftHash
		} else {
			hash = n.RightHash
		}
	}
	return "deep"
}

// staleShadow: an abandoned branch wrote key k at a height that was never committed again (its
// version-index entry is still there) and the current chain holds an older version of k: the
// index now lists a dead version as newer than a live one.
func (d *drv) staleShadow() bool {
	for x, ks := range d.deadWrites {
		for _, k := range ks {
			for z, ws := range d.writes {
				if z < x {
					for _, k2 := range ws {
						if k2 == k {
							return true
						}
					}
				}
			}
		}
	}
	return false
}

func cellClass(v int) string {
	switch {
	case v == -1:
		return "missing"
	case v == 0:
		return "absent"
	case v == -2:
		return "foreign-value"
	case v == -3:
		return "module-get-differs"
	}
	return "value"
}

// Signature: op, expected/observed class of the first differing read, what kind of record is
// missing (un-prefixed root-keyed record / height-prefixed leaf / inner node), whether that
// un-prefixed key was the root of two different heights (a state that re-occurred), and
// whether an abandoned branch left heights that were never committed again.
func (d *drv) Signature(b *core.Behaviour, idx int, field string, exp, obs any) string {
	s := b.Steps[idx]
	if field != "chk" {
		return fmt.Sprintf("%s|%s|exp=%s|got=%s", s.Op(), field, clip(core.J(exp)), clip(strings.SplitN(fmt.Sprint(obs), ":", 2)[0]))
	}
	et, ot := tableOf(exp), tableOf(obs)
	for i := range et {
		if i >= len(ot) {
			break
		}
		em, _ := et[i].(map[string]any)
		om, _ := ot[i].(map[string]any)
		ev, _ := em["vals"].([]any)
		ov, _ := om["vals"].([]any)
		for k := range ev {
			if k >= len(ov) || core.Match(ev[k], ov[k]) {
				continue
			}
			h := core.ToInt(em["h"])
			at := "below-tip"
			if h == maxCommit(et) {
				at = "tip"
			}
			got := core.ToInt(ov[k])
			if got == -1 && d.staleShadow() {
				// one narrow class: a record of a retained state is gone while the version index
				// holds an entry of an abandoned branch above a live version of the same key
				return "retained-read|got=missing|stale-branch-entry-above-live-version=y"
			}
			miss := "n/a"
			if got == -1 {
				miss = d.firstMissing(d.roots[h], k+1)
			}
			return fmt.Sprintf("%s|read@%s|exp=%s|got=%s|node=%s|stale-branch-entry-above-live-version=n", s.Op(), at,
				cellClass(core.ToInt(ev[k])), cellClass(got), miss)
		}
	}
	if d.env.Opt("view", "ref") == "mech" {
		return fmt.Sprintf("%s|mech-stats", s.Op())
	}
	return fmt.Sprintf("%s|chk-shape", s.Op())
}

func tableOf(v any) []any {
	if m, ok := v.(map[string]any); ok {
		l, _ := m["t"].([]any)
		return l
	}
	l, _ := v.([]any)
	return l
}

func maxCommit(t []any) int {
	m := 0
	for _, e := range t {
		em, _ := e.(map[string]any)
		if h := core.ToInt(em["h"]); h > m {
			m = h
		}
	}
	return m
}

func main() {
	log.Root().SetHandler(log.DiscardHandler())
	_ = hex.EncodeToString
	core.Main(&core.Family{
		Name:      "prune",
		NewDriver: func() core.Driver { return &drv{} },
		Recorders: map[string]core.Recorder{"default": record},
		Extra:     map[string]func(*core.Env, []string) int{"memdb-probe": memdbProbe},
	})
}
