// Driver for the StateProof family (C03): mavl.GetKVPairProof / VerifyKVPairProof on real
// trees in LevelDB / memdb under the plain, prefix and prefix+prune tree configurations.
//
// A behaviour builds a few trees (Set), then the step Table carries the model's verdict for
// every row of the single-mutation table of every (root, key); the driver performs each row
// on the real proof bytes (decode, mutate one field, encode) and compares the boolean. The
// step Malformed runs the byte-level classes (seeded samples) against the stated oracle.
package main

import (
	"bytes"
	"fmt"
	"math/rand"
	"os"
	"sort"
	"strconv"
	"strings"

	dbm "github.com/33cn/chain33/common/db"
	log "github.com/33cn/chain33/common/log/log15"
	drivers "github.com/33cn/chain33/system/store"
	mavl "github.com/33cn/chain33/system/store/mavl/db"
	"github.com/33cn/chain33/types"
	"github.com/golang/protobuf/proto"
	"verif/harness/core"
)

var pool = [][]byte{
	[]byte("\x00"), []byte("\x00\x00"), []byte("0"), []byte("A"), []byte("a"), []byte("a\x00"), []byte("a\x00b"), []byte("aa"),
	[]byte("ab"), []byte("b"), []byte("mavl-coins-bty-16htvcBNSEA7fZhAdLJphDwQRQJaHpyHTp"), []byte("mavl-coins-bty-16htvcBNSEA7fZhAdLJphDwQRQJaHpyHTq"),
	[]byte("mavl-ticket-"), []byte("z"), []byte("z\xff"), []byte("\xfe"), []byte("\xff"), []byte("\xff\xff"),
}

func init() {
	sort.Slice(pool, func(i, j int) bool { return bytes.Compare(pool[i], pool[j]) < 0 })
}

type drv struct {
	env   *core.Env
	dir   string
	db    dbm.DB
	cfg   *mavl.TreeConfig
	keys  [][]byte
	roots [][]byte // root hash of tree i (index i-1)
	rng   *rand.Rand
	junk  []byte
	// last Table statistics (non-triviality)
	maxProofLen int
	rowsRun     int
}

func seedOf(env *core.Env, id string) int64 {
	h := int64(0)
	for _, c := range id {
		h = h*131 + int64(c)
	}
	return env.Seed*1000003 + h + int64(env.OptInt("salt", 0))*7919
}

func nkOf(b *core.Behaviour) int {
	n := 0
	for _, s := range b.Steps {
		if l := len(s.List("ws")); l > n {
			n = l
		}
	}
	return n
}

func val(k, v int) []byte {
	switch v % 3 {
	case 0:
		return []byte(fmt.Sprintf("v%d.%d", k, v))
	case 1:
		return []byte(fmt.Sprintf("value-%d-%d-%s", k, v, strings.Repeat("x", 100+k)))
	}
	return append([]byte{0, byte(v), 0xff, byte(k)}, []byte(strconv.Itoa(v))...)
}

func (d *drv) Reset(env *core.Env, b *core.Behaviour) error {
	d.env = env
	if env.Opt("cfg", "plain") == "prune" {
		mavl.VerifResetGlobals() // process globals of the pruning code: run this configuration with --par 1
	}
	d.rng = rand.New(rand.NewSource(seedOf(env, b.ID)))
	nk := nkOf(b)
	idx := d.rng.Perm(len(pool))
	if nk > len(pool) {
		return fmt.Errorf("key pool too small for %d keys", nk)
	}
	idx = idx[:nk]
	sort.Ints(idx)
	d.keys = nil
	for _, p := range idx {
		d.keys = append(d.keys, pool[p])
	}
	d.roots = nil
	d.junk = make([]byte, 32)
	d.rng.Read(d.junk)
	d.maxProofLen, d.rowsRun = 0, 0
	switch env.Opt("cfg", "plain") {
	case "plain":
		d.cfg = &mavl.TreeConfig{}
	case "nil":
		d.cfg = nil
	case "prefix":
		d.cfg = &mavl.TreeConfig{EnableMavlPrefix: true}
	case "prune":
		// prune interval far above the heights used: no pruning run is ever started
		d.cfg = &mavl.TreeConfig{EnableMavlPrefix: true, EnableMavlPrune: true, PruneHeight: 1000000}
	default:
		return fmt.Errorf("unknown cfg %q", env.Opt("cfg", ""))
	}
	var err error
	if env.Opt("db", "mem") == "leveldb" {
		d.dir, err = os.MkdirTemp("", "vh-proof-")
		if err != nil {
			return err
		}
		d.db, err = dbm.NewGoLevelDB("proof", d.dir, 16)
	} else {
		d.db, err = dbm.NewGoMemDB("proof", "", 0)
	}
	return err
}

func (d *drv) Close() {
	if d.db != nil {
		mavl.VerifWaitPrune()
		d.db.Close()
		d.db = nil
	}
	if d.env != nil && d.env.Opt("cfg", "plain") == "prune" {
		mavl.VerifResetGlobals()
	}
	if d.dir != "" {
		os.RemoveAll(d.dir)
		d.dir = ""
	}
}

func (d *drv) get(root []byte, k int) int {
	vals, err := mavl.GetKVPair(d.db, &types.StoreGet{StateHash: root, Keys: [][]byte{d.keys[k-1]}}, d.cfg)
	if err != nil {
		return -1
	}
	if len(vals) != 1 || vals[0] == nil {
		return 0
	}
	for v := 1; v <= 9; v++ {
		if bytes.Equal(vals[0], val(k, v)) {
			return v
		}
	}
	return -2
}

// verify calls the real verifier; a panic is an observation, not a harness failure
func (d *drv) verify(root []byte, key, value []byte, proof []byte) (res any) {
	defer func() {
		if r := recover(); r != nil {
			res = "panic:" + fmt.Sprint(r)
		}
	}()
	return mavl.VerifyKVPairProof(d.db, root, &types.KeyValue{Key: key, Value: value}, proof)
}

func (d *drv) honest(ri, k int) (*types.MAVLProof, []byte, error) {
	pb, err := mavl.GetKVPairProof(d.db, d.roots[ri-1], d.keys[k-1], d.cfg)
	if err != nil {
		return nil, nil, err
	}
	var mp types.MAVLProof
	if err := proto.Unmarshal(pb, &mp); err != nil {
		return nil, nil, fmt.Errorf("honest proof does not decode: %v", err)
	}
	return &mp, pb, nil
}

// honestRaw: the store's answer for (root, key) without decoding (nil = no proof)
func (d *drv) honestRaw(ri, k int) (*types.MAVLProof, []byte, error) {
	pb, err := mavl.GetKVPairProof(d.db, d.roots[ri-1], d.keys[k-1], d.cfg)
	return nil, pb, err
}

func cloneNodes(in []*types.InnerNode) []*types.InnerNode {
	out := make([]*types.InnerNode, len(in))
	for i, n := range in {
		c := *n
		out[i] = &types.InnerNode{LeftHash: c.LeftHash, RightHash: c.RightHash, Height: c.Height, Size: c.Size}
	}
	return out
}

// mutate applies the proof mutation (m,i,f,x) to the inner nodes of an honest proof taken at root ri.
func (d *drv) mutate(nodes []*types.InnerNode, ri int, m string, i int, f, x string) ([]*types.InnerNode, error) {
	switch m {
	case "dropInner":
		nodes = append(nodes[:i-1:i-1], nodes[i:]...)
	case "dupInner":
		dup := cloneNodes(nodes[i-1 : i])[0]
		nodes = append(nodes[:i:i], append([]*types.InnerNode{dup}, nodes[i:]...)...)
	case "flipInner":
		n := nodes[i-1]
		hv := func(cur []byte) []byte {
			switch x {
			case "nil":
				return nil
			case "junk":
				return d.junk
			case "root":
				return d.roots[ri-1]
			}
			return cur
		}
		switch f {
		case "l":
			n.LeftHash = hv(n.LeftHash)
		case "r":
			n.RightHash = hv(n.RightHash)
		case "h":
			switch x {
			case "inc":
				n.Height++
			case "dec":
				n.Height--
			case "zero":
				n.Height = 0
			}
		case "s":
			switch x {
			case "inc":
				n.Size++
			case "dec":
				n.Size--
			case "one":
				n.Size = 1
			}
		case "lr":
			n.LeftHash, n.RightHash = n.RightHash, n.LeftHash
		default:
			return nil, fmt.Errorf("unknown field %q", f)
		}
	case "truncated":
		nodes = nodes[:len(nodes)-i]
	case "emptyProof":
		nodes = nil
	case "appendJunk", "appendSelf":
		t := mavl.NewTree(d.db, true, d.cfg)
		if err := t.Load(d.roots[ri-1]); err != nil {
			return nil, err
		}
		n := &types.InnerNode{RightHash: d.junk, Height: t.Height() + 1, Size: t.Size() + 1}
		if m == "appendSelf" {
			n = &types.InnerNode{RightHash: d.roots[ri-1], Height: t.Height() + 1, Size: 2 * t.Size()}
		}
		nodes = append(nodes, n)
	case "none", "honest":
	default:
		return nil, fmt.Errorf("unknown proof mutation %q", m)
	}
	return nodes, nil
}

// present builds what row (m,i,f,x) shows to the verifier: root, key, value, proof bytes
func (d *drv) present(ri, k int, row map[string]any) (root, key, value, proof []byte, err error) {
	mp, _, err := d.honest(ri, k)
	if err != nil {
		return nil, nil, nil, nil, err
	}
	root = d.roots[ri-1]
	key = d.keys[k-1]
	v := d.get(root, k)
	if v <= 0 {
		return nil, nil, nil, nil, fmt.Errorf("key %d not readable at root %d", k, ri)
	}
	value = val(k, v)
	nodes := cloneNodes(mp.InnerNodes)
	m := fmt.Sprint(row["m"])
	i := core.ToInt(row["i"])
	f, x := fmt.Sprint(row["f"]), fmt.Sprint(row["x"])
	switch m {
	case "none":
	case "otherValue":
		ov, _ := strconv.Atoi(x)
		value = val(k, ov)
	case "otherKeySameValue":
		key = d.keys[i-1]
	case "otherKeyItsValue":
		key = d.keys[i-1]
		value = val(i, d.get(root, i))
	case "otherRoot":
		root = d.roots[i-1]
	case "randomRoot":
		root = d.junk
	case "proofOfOtherKey":
		o, _, e := d.honest(ri, i)
		if e != nil {
			return nil, nil, nil, nil, e
		}
		nodes = cloneNodes(o.InnerNodes)
	case "proofFromOtherRoot":
		o, _, e := d.honest(i, k)
		if e != nil {
			return nil, nil, nil, nil, e
		}
		nodes = cloneNodes(o.InnerNodes)
	default:
		nodes, err = d.mutate(nodes, ri, m, i, f, x)
		if err != nil {
			return nil, nil, nil, nil, err
		}
	}
	proof = types.Encode(&types.MAVLProof{InnerNodes: nodes})
	return root, key, value, proof, nil
}

func (d *drv) shape(mp *types.MAVLProof) []any {
	out := []any{}
	for _, n := range mp.InnerNodes {
		side := "R"
		if len(n.LeftHash) == 0 {
			side = "L"
		}
		out = append(out, map[string]any{"side": side, "h": int(n.Height), "s": int(n.Size)})
	}
	return out
}

func (d *drv) table(s core.Step) (any, error) {
	exp, _ := s["chk"].([]any)
	var out []any
	for ri := 1; ri <= len(exp); ri++ {
		perKey, _ := exp[ri-1].([]any)
		var rowOut []any
		for k := 1; k <= len(perKey); k++ {
			cell, _ := perKey[k-1].(map[string]any)
			pb, err := mavl.GetKVPairProof(d.db, d.roots[ri-1], d.keys[k-1], d.cfg)
			if err != nil {
				return nil, err
			}
			present := d.get(d.roots[ri-1], k) > 0
			if !present {
				// Proof is defined iff the key is present: the store answers "no proof"
				o := map[string]any{"present": pb != nil, "shape": []any{}, "rows": []any{}}
				rowOut = append(rowOut, o)
				continue
			}
			mp, _, err := d.honest(ri, k)
			if err != nil {
				return nil, err
			}
			if len(mp.InnerNodes) > d.maxProofLen {
				d.maxProofLen = len(mp.InnerNodes)
			}
			var rows []any
			erows, _ := cell["rows"].([]any)
			for _, er := range erows {
				row, _ := er.(map[string]any)
				root, key, value, proof, err := d.present(ri, k, row)
				if err != nil {
					return nil, fmt.Errorf("root %d key %d row %v: %v", ri, k, row, err)
				}
				d.rowsRun++
				rows = append(rows, map[string]any{"m": row["m"], "i": row["i"], "f": row["f"], "x": row["x"], "ret": d.verify(root, key, value, proof)})
			}
			rowOut = append(rowOut, map[string]any{"present": true, "shape": d.shape(mp), "rows": rows})
		}
		out = append(out, rowOut)
	}
	return out, nil
}

func (d *drv) Apply(s core.Step) (any, any, error) {
	switch s.Op() {
	case "Set":
		p := s.Int("parent")
		parent := drivers.EmptyRoot[:]
		if p != 0 {
			parent = d.roots[p-1]
		}
		var kvs []*types.KeyValue
		for i, v := range s.Ints("ws") {
			if v != 0 {
				kvs = append(kvs, &types.KeyValue{Key: d.keys[i], Value: val(i+1, v)})
			}
		}
		h, err := mavl.SetKVPair(d.db, &types.StoreSet{StateHash: parent, KV: kvs, Height: int64(len(d.roots) + 1)}, true, d.cfg)
		mavl.VerifWaitPrune()
		if err != nil {
			return "err:" + err.Error(), nil, nil
		}
		d.roots = append(d.roots, h)
		t := mavl.NewTree(d.db, true, d.cfg)
		if err := t.Load(h); err != nil {
			return "err:load:" + err.Error(), nil, nil
		}
		var content []any
		for k := 1; k <= len(d.keys); k++ {
			content = append(content, d.get(h, k))
		}
		return len(d.roots), map[string]any{"content": content, "height": int(t.Height()), "size": int(t.Size())}, nil
	case "Table":
		chk, err := d.table(s)
		return "ok", chk, err
	case "Malformed":
		return d.malformed(), nil, nil
	}
	return nil, nil, fmt.Errorf("unknown op %q", s.Op())
}

// NonTrivial (C03): mutation rows other than `none` were evaluated for a tree of height >= 2.
func (d *drv) NonTrivial(env *core.Env, b *core.Behaviour) bool {
	return d.maxProofLen >= 2 && d.rowsRun > 1
}

// Signature: mutation row, expected and observed verdict, tree configuration.
func (d *drv) Signature(b *core.Behaviour, idx int, field string, exp, obs any) string {
	s := b.Steps[idx]
	cfg := d.env.Opt("cfg", "plain")
	if s.Op() == "Table" && field == "chk" {
		e, _ := exp.([]any)
		o, _ := obs.([]any)
		for ri := range e {
			er, _ := e[ri].([]any)
			if ri >= len(o) {
				break
			}
			or, _ := o[ri].([]any)
			for k := range er {
				if k >= len(or) {
					break
				}
				ec, _ := er[k].(map[string]any)
				oc, _ := or[k].(map[string]any)
				if !core.Match(ec["present"], oc["present"]) {
					return fmt.Sprintf("Table|%s|proof-defined|exp=%v|got=%v", cfg, ec["present"], oc["present"])
				}
				if !core.Match(ec["shape"], oc["shape"]) {
					return fmt.Sprintf("Table|%s|honest-proof-shape", cfg)
				}
				erows, _ := ec["rows"].([]any)
				orows, _ := oc["rows"].([]any)
				for j := range erows {
					if j >= len(orows) {
						break
					}
					if !core.Match(erows[j], orows[j]) {
						em, _ := erows[j].(map[string]any)
						om, _ := orows[j].(map[string]any)
						got := fmt.Sprint(om["ret"])
						if strings.HasPrefix(got, "panic") {
							got = "panic"
						}
						return fmt.Sprintf("Table|%s|row=%v/%v/%v|exp=%v|got=%s", cfg, em["m"], em["f"], em["x"], em["ret"], got)
					}
				}
			}
		}
	}
	if s.Op() == "Malformed" {
		om, _ := obs.(map[string]any)
		var bad []string
		for _, k := range []string{"panics", "wrong_accepted", "undecodable_accepted"} {
			if core.ToInt(om[k]) != 0 {
				bad = append(bad, k)
			}
		}
		first, _ := om["first"].(map[string]any)
		return fmt.Sprintf("Malformed|%s|%s|class=%v|presentation=%v", cfg, strings.Join(bad, "+"), first["class"], first["presentation"])
	}
	return fmt.Sprintf("%s|%s|%s", s.Op(), cfg, field)
}

func main() {
	log.Root().SetHandler(log.DiscardHandler())
	core.Main(&core.Family{
		Name:      "stateproof",
		NewDriver: func() core.Driver { return &drv{} },
		Recorders: map[string]core.Recorder{"default": record},
		Extra:     map[string]func(*core.Env, []string) int{"fuzz": fuzz, "replay-fuzz": replayFuzz},
	})
}
