package main

import (
	"fmt"
	"math/rand"

	"github.com/33cn/chain33/types"
	"verif/harness/core"
)

// record: seeded random histories on the real tree code over a larger key set (all four AVL
// rotation cases occur), interleaving batches (any committed root as parent), proof requests
// and verifications of arbitrary presentations: any root (or a junk one), any key (present or
// not), any value, the honest proof of any (root, key) with any single mutation. Each event
// carries the observed reply; StateProof_Trace recomputes every tree and every verdict.
func record(env *core.Env, emit func(map[string]any)) (*core.Summary, error) {
	sum := &core.Summary{Counters: map[string]int{}}
	n := env.OptInt("n", 10)
	nk := env.OptInt("keys", 8)
	nv := env.OptInt("vals", 2)
	depth := env.OptInt("depth", 60)
	maxTrees := env.OptInt("trees", 6)
	r := rand.New(rand.NewSource(env.Seed*104729 + 3))
	muts := []string{"none", "dropInner", "dupInner", "flipInner", "truncated", "emptyProof", "appendJunk", "appendSelf"}
	fields := [][2]string{{"l", "nil"}, {"l", "junk"}, {"l", "root"}, {"r", "nil"}, {"r", "junk"}, {"r", "root"}, {"h", "inc"}, {"h", "dec"}, {"h", "zero"},
		{"s", "inc"}, {"s", "dec"}, {"s", "one"}, {"lr", "swap"}}
	for t := 0; t < n; t++ {
		d := &drv{}
		ws0 := make([]any, nk)
		for i := range ws0 {
			ws0[i] = float64(0)
		}
		b := &core.Behaviour{ID: fmt.Sprintf("rec-%d-%d", env.Seed, t), Steps: []core.Step{{"op": "x", "ws": ws0}}}
		if err := d.Reset(env, b); err != nil {
			return nil, err
		}
		emit(map[string]any{"ev": "Reset"})
		var contents [][]int
		maxLen := 0
		verifies := 0
		var sample []any
		for i := 0; i < depth; i++ {
			x := r.Intn(10)
			switch {
			case (x < 3 || len(d.roots) == 0) && len(d.roots) < maxTrees:
				p := 0
				if len(d.roots) > 0 {
					p = r.Intn(len(d.roots) + 1)
				}
				ws := make([]any, nk)
				cont := make([]int, nk)
				if p > 0 {
					copy(cont, contents[p-1])
				}
				for k := range ws {
					ws[k] = float64(0)
				}
				for w := 1 + r.Intn(4); w > 0; w-- {
					k := r.Intn(nk)
					v := 1 + r.Intn(nv)
					ws[k] = float64(v)
					cont[k] = v
				}
				ret, chk, err := d.Apply(core.Step{"op": "Set", "parent": float64(p), "ws": ws})
				if err != nil {
					d.Close()
					return nil, err
				}
				ev := map[string]any{"ev": "Set", "parent": p, "ws": ws, "ret": ret}
				if m, ok := chk.(map[string]any); ok {
					ev["content"], ev["height"], ev["size"] = m["content"], m["height"], m["size"]
				}
				emit(ev)
				contents = append(contents, cont)
				if len(sample) < 10 {
					sample = append(sample, ev)
				}
			case x < 4:
				ri := 1 + r.Intn(len(d.roots))
				k := 1 + r.Intn(nk)
				if contents[ri-1][k-1] == 0 {
					pb, err := mavlProof(d, ri, k)
					if err != nil {
						d.Close()
						return nil, err
					}
					emit(map[string]any{"ev": "Prove", "root": ri, "key": k, "present": pb != nil, "shape": []any{}})
					continue
				}
				mp, _, err := d.honest(ri, k)
				if err != nil {
					d.Close()
					return nil, err
				}
				emit(map[string]any{"ev": "Prove", "root": ri, "key": k, "present": true, "shape": d.shape(mp)})
			default:
				// honest proof of (rj, k2), one mutation, presented with (root', key', value')
				rj := 1 + r.Intn(len(d.roots))
				var pres []int
				for k := 1; k <= nk; k++ {
					if contents[rj-1][k-1] != 0 {
						pres = append(pres, k)
					}
				}
				k2 := pres[r.Intn(len(pres))]
				mp, _, err := d.honest(rj, k2)
				if err != nil {
					d.Close()
					return nil, err
				}
				if len(mp.InnerNodes) > maxLen {
					maxLen = len(mp.InnerNodes)
				}
				m := muts[r.Intn(len(muts))]
				if r.Intn(3) == 0 {
					m = "none"
				}
				idx, f, xx := 0, "-", "-"
				if m == "dropInner" || m == "dupInner" || m == "flipInner" || m == "truncated" {
					if len(mp.InnerNodes) == 0 {
						m = "none"
					} else {
						idx = 1 + r.Intn(len(mp.InnerNodes))
					}
				}
				if m == "flipInner" {
					fx := fields[r.Intn(len(fields))]
					f, xx = fx[0], fx[1]
				}
				nodes, err := d.mutate(cloneNodes(mp.InnerNodes), rj, m, idx, f, xx)
				if err != nil {
					d.Close()
					return nil, err
				}
				proof := types.Encode(&types.MAVLProof{InnerNodes: nodes})
				// presentation: mostly the right one, else one or more of root/key/value differ
				pr, pk, pv := rj, k2, contents[rj-1][k2-1]
				if r.Intn(2) == 0 {
					switch r.Intn(4) {
					case 0:
						pr = r.Intn(len(d.roots) + 1) // 0 = junk root
					case 1:
						pk = 1 + r.Intn(nk)
					case 2:
						pv = 1 + r.Intn(nv)
					case 3:
						pr, pk, pv = r.Intn(len(d.roots)+1), 1+r.Intn(nk), 1+r.Intn(nv)
					}
				}
				root := d.junk
				if pr > 0 {
					root = d.roots[pr-1]
				}
				res := d.verify(root, d.keys[pk-1], val(pk, pv), proof)
				verifies++
				ev := map[string]any{"ev": "Verify", "root": pr, "key": pk, "val": pv, "of": []any{rj, k2},
					"m": m, "i": idx, "f": f, "x": xx, "ret": retStr(res)}
				emit(ev)
				if len(sample) < 10 {
					sample = append(sample, ev)
				}
			}
		}
		sum.Behaviours++
		if maxLen >= 2 && verifies > 1 {
			sum.NonTrivial++
		}
		sum.Counters["verifications"] += verifies
		if len(sum.Samples) < 2 {
			sum.Samples = append(sum.Samples, map[string]any{"id": b.ID, "steps": sample})
		}
		d.Close()
	}
	return sum, nil
}

func mavlProof(d *drv, ri, k int) ([]byte, error) {
	_, pb, err := d.honestRaw(ri, k)
	return pb, err
}

func retStr(v any) string {
	if b, ok := v.(bool); ok {
		if b {
			return "true"
		}
		return "false"
	}
	return "panic"
}
