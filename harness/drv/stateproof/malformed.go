package main

import (
	"encoding/hex"
	"encoding/json"
	"fmt"
	"math/rand"
	"os"
	"path/filepath"

	mavl "github.com/33cn/chain33/system/store/mavl/db"
	"github.com/33cn/chain33/types"
	"github.com/golang/protobuf/proto"
	"verif/harness/core"
)

// Byte-level malformed proofs. TLC does not decide these: the classes below are SAMPLED with the
// run's seed. Oracle (spec action Malformed):
//   - no presentation makes VerifyKVPairProof panic;
//   - whatever the proof bytes are, a presentation with a wrong value, a key that is not in the
//     tree, or a root that is not the tree's root is rejected;
//   - bytes that do not decode as a MAVLProof are rejected with the right key, value and root too.
// A decodable mutated proof presented with the right key, value and root may verify or not.

type sample struct {
	class string
	b     []byte
}

var hashLens = []int{0, 1, 16, 31, 32, 33, 48, 64, 1000}

func randHash(r *rand.Rand, real [][]byte) []byte {
	switch r.Intn(4) {
	case 0:
		return nil
	case 1:
		if len(real) > 0 {
			h := append([]byte{}, real[r.Intn(len(real))]...)
			if r.Intn(2) == 0 { // a height prefix in front of a real hash
				h = append([]byte(fmt.Sprintf("_mh_-%010d-", r.Intn(100))), h...)
			}
			return h
		}
	}
	b := make([]byte, hashLens[r.Intn(len(hashLens))])
	r.Read(b)
	return b
}

func randInt32(r *rand.Rand) int32 {
	switch r.Intn(6) {
	case 0:
		return 0
	case 1:
		return -1
	case 2:
		return int32(r.Intn(5))
	case 3:
		return 1<<31 - 1
	case 4:
		return -1 << 31
	}
	return int32(r.Uint32())
}

func varint(x uint64) []byte {
	var out []byte
	for x >= 0x80 {
		out = append(out, byte(x)|0x80)
		x >>= 7
	}
	return append(out, byte(x))
}

// samples derives n byte strings of every class from the honest proof bytes.
func samples(r *rand.Rand, honest []byte, real [][]byte, n int) []sample {
	var out []sample
	add := func(c string, b []byte) { out = append(out, sample{c, b}) }
	// truncations: every proper prefix
	for i := 0; i < len(honest); i++ {
		add("truncated", append([]byte{}, honest[:i]...))
	}
	// single bit flips: all of them when the proof is short, else sampled
	bits := len(honest) * 8
	if bits <= 8*n {
		for i := 0; i < bits; i++ {
			b := append([]byte{}, honest...)
			b[i/8] ^= 1 << uint(i%8)
			add("bitflip", b)
		}
	} else {
		for j := 0; j < 8*n; j++ {
			i := r.Intn(bits)
			b := append([]byte{}, honest...)
			b[i/8] ^= 1 << uint(i%8)
			add("bitflip", b)
		}
	}
	for j := 0; j < n; j++ {
		// random bytes
		b := make([]byte, r.Intn(121))
		r.Read(b)
		add("random", b)
		// byte edits of the honest proof
		if len(honest) > 0 {
			e := append([]byte{}, honest...)
			switch r.Intn(3) {
			case 0:
				e[r.Intn(len(e))] = byte(r.Intn(256))
			case 1:
				i := r.Intn(len(e) + 1)
				e = append(e[:i:i], append([]byte{byte(r.Intn(256))}, e[i:]...)...)
			case 2:
				i := r.Intn(len(e))
				e = append(e[:i:i], e[i+1:]...)
			}
			add("byteedit", e)
		}
		// structurally valid proofs with hostile field values
		mp := &types.MAVLProof{}
		if r.Intn(3) == 0 {
			mp.LeafHash = randHash(r, real)
		}
		if r.Intn(3) == 0 {
			mp.RootHash = randHash(r, real)
		}
		for k := r.Intn(7); k > 0; k-- {
			mp.InnerNodes = append(mp.InnerNodes, &types.InnerNode{LeftHash: randHash(r, real), RightHash: randHash(r, real), Height: randInt32(r), Size: randInt32(r)})
		}
		add("validproto", types.Encode(mp))
		// wire-level hostility: oversized length prefixes, unknown fields, wrong wire types, nesting
		var w []byte
		switch r.Intn(5) {
		case 0: // innerNodes entry whose declared length exceeds the input
			w = append([]byte{0x12}, varint(uint64(1)<<uint(20+r.Intn(40)))...)
			w = append(w, honest...)
		case 1: // unknown fields around the honest proof
			w = append([]byte{0x7a, 0x03, 1, 2, 3}, honest...)
			w = append(w, 0x78, 0x01)
		case 2: // innerNodes with varint wire type
			w = append([]byte{0x10}, varint(r.Uint64())...)
		case 3: // start-group / end-group tags
			w = []byte{0x13, 0x0a, 0x01, 0x00, 0x14}
		case 4: // the honest proof nested inside an inner node's left hash
			w = append([]byte{0x12}, varint(uint64(len(honest)+2))...)
			w = append(w, 0x0a)
			w = append(w, varint(uint64(len(honest)))...)
			w = append(w, honest...)
		}
		add("wire", w)
	}
	return out
}

type fuzzStats struct {
	Samples       int            `json:"samples"`
	Presentations int            `json:"presentations"`
	PerClass      map[string]int `json:"per_class"`
	Undecodable   int            `json:"undecodable"`
	DecodableOK   int            `json:"decodable_accepted_with_right_kvr"`
	Panics        int            `json:"panics"`
	WrongAccepted int            `json:"wrong_accepted"`
	UndecAccepted int            `json:"undecodable_accepted"`
	First         map[string]any `json:"first,omitempty"`
}

// attack runs every sample against the right presentation and three wrong ones.
func (d *drv) attack(st *fuzzStats, root, key, value []byte, wrongValue, absentKey, otherRoot []byte, ss []sample) {
	for _, s := range ss {
		st.Samples++
		st.PerClass[s.class]++
		var mp types.MAVLProof
		decodable := proto.Unmarshal(s.b, &mp) == nil
		if !decodable {
			st.Undecodable++
		}
		note := func(kind, pres string, res any) {
			if st.First == nil {
				st.First = map[string]any{"kind": kind, "class": s.class, "presentation": pres, "proof": hex.EncodeToString(s.b), "result": fmt.Sprint(res),
					"root": hex.EncodeToString(root), "key": hex.EncodeToString(key), "value": hex.EncodeToString(value)}
			}
		}
		st.Presentations++
		switch res := d.verify(root, key, value, s.b).(type) {
		case string:
			st.Panics++
			note("panic", "right", res)
		case bool:
			if res && !decodable {
				st.UndecAccepted++
				note("undecodable_accepted", "right", res)
			}
			if res && decodable {
				st.DecodableOK++
			}
		}
		for _, w := range []struct {
			pres    string
			r, k, v []byte
		}{{"wrong-value", root, key, wrongValue}, {"absent-key", root, absentKey, value}, {"other-root", otherRoot, key, value}} {
			st.Presentations++
			switch res := d.verify(w.r, w.k, w.v, s.b).(type) {
			case string:
				st.Panics++
				note("panic", w.pres, res)
			case bool:
				if res {
					st.WrongAccepted++
					note("wrong_accepted", w.pres, res)
				}
			}
		}
	}
}

func (d *drv) realHashes(ri int) [][]byte {
	out := [][]byte{d.roots[ri-1]}
	for k := 1; k <= len(d.keys); k++ {
		if d.get(d.roots[ri-1], k) > 0 {
			if mp, _, err := d.honest(ri, k); err == nil {
				for _, n := range mp.InnerNodes {
					if len(n.LeftHash) > 0 {
						out = append(out, n.LeftHash)
					}
					if len(n.RightHash) > 0 {
						out = append(out, n.RightHash)
					}
				}
			}
		}
	}
	return out
}

// malformed: the replay step - a small sample per (root, key) of the behaviour's trees.
func (d *drv) malformed() any {
	st := &fuzzStats{PerClass: map[string]int{}}
	n := d.env.OptInt("malformed", 6)
	for ri := 1; ri <= len(d.roots); ri++ {
		real := d.realHashes(ri)
		for k := 1; k <= len(d.keys); k++ {
			v := d.get(d.roots[ri-1], k)
			if v <= 0 {
				continue
			}
			_, pb, err := d.honest(ri, k)
			if err != nil {
				continue
			}
			// a root under which (key, value) does NOT hold: another committed root where the key has a
			// different value or is absent, else a root that is no tree's root
			other := d.junk
			if o := d.roots[ri%len(d.roots)]; d.get(o, k) != v {
				other = o
			}
			d.attack(st, d.roots[ri-1], d.keys[k-1], val(k, v), val(k, v+1), append(append([]byte{}, d.keys[k-1]...), '~', '!'), other, samples(d.rng, pb, real, n))
		}
	}
	out := map[string]any{"panics": st.Panics, "wrong_accepted": st.WrongAccepted, "undecodable_accepted": st.UndecAccepted}
	if st.First != nil {
		out["first"] = st.First
	}
	return out
}

// fuzz: the large seeded leg - random trees of `keys` keys, every byte-level class against a few
// keys of each tree. Prints the statistics as JSON; exit 1 when the oracle is violated (a replay
// file with the offending bytes is written), 0 otherwise.
func fuzz(env *core.Env, args []string) int {
	trees := env.OptInt("trees", 4)
	nkeys := env.OptInt("keys", 60)
	per := env.OptInt("per", 20)
	perTreeKeys := env.OptInt("probe", 6)
	st := &fuzzStats{PerClass: map[string]int{}}
	r := rand.New(rand.NewSource(env.Seed*7919 + 17))
	var firstTree map[string]any
	for t := 0; t < trees; t++ {
		d := &drv{}
		b := &core.Behaviour{ID: fmt.Sprintf("fuzz-%d-%d", env.Seed, t), Steps: []core.Step{{"op": "x", "ws": []any{float64(0)}}}}
		if err := d.Reset(env, b); err != nil {
			fmt.Fprintln(os.Stderr, err)
			return 2
		}
		// a tree with random binary / structured keys, written in two batches
		keys := map[string][]byte{}
		for len(keys) < nkeys {
			k := make([]byte, 1+r.Intn(40))
			r.Read(k)
			if r.Intn(3) == 0 {
				k = []byte(fmt.Sprintf("mavl-acc-%d-%x", r.Intn(5), k))
			}
			v := make([]byte, 1+r.Intn(120))
			r.Read(v)
			keys[string(k)] = v
		}
		var kvs []*types.KeyValue
		var klist [][]byte
		for k, v := range keys {
			kvs = append(kvs, &types.KeyValue{Key: []byte(k), Value: v})
		}
		// deterministic order
		sortKVs(kvs)
		for _, kv := range kvs {
			klist = append(klist, kv.Key)
		}
		r.Shuffle(len(kvs), func(i, j int) { kvs[i], kvs[j] = kvs[j], kvs[i] })
		half := len(kvs) / 2
		root1, err := mavl.SetKVPair(d.db, &types.StoreSet{StateHash: make([]byte, 32), KV: kvs[:half], Height: 1}, true, d.cfg)
		if err != nil {
			fmt.Fprintln(os.Stderr, err)
			return 2
		}
		root2, err := mavl.SetKVPair(d.db, &types.StoreSet{StateHash: root1, KV: kvs[half:], Height: 2}, true, d.cfg)
		if err != nil {
			fmt.Fprintln(os.Stderr, err)
			return 2
		}
		d.roots = [][]byte{root1, root2}
		for p := 0; p < perTreeKeys; p++ {
			ki := r.Intn(len(kvs))
			kv := kvs[ki]
			// a root under which (key, value) does not hold: the first batch's root when the key came
			// with the second batch, else a root of no tree
			otherRoot := root1
			if ki < half {
				otherRoot = make([]byte, 32)
				r.Read(otherRoot)
			}
			pb, err := mavl.GetKVPairProof(d.db, root2, kv.Key, d.cfg)
			if err != nil || !isTrue(d.verify(root2, kv.Key, kv.Value, pb)) {
				fmt.Fprintln(os.Stderr, "honest proof does not verify:", err)
				st.First = map[string]any{"kind": "honest_rejected", "key": hex.EncodeToString(kv.Key)}
				st.WrongAccepted++ // surfaced as an oracle violation below
				break
			}
			var mp types.MAVLProof
			_ = proto.Unmarshal(pb, &mp)
			var real [][]byte
			real = append(real, root1, root2)
			for _, n := range mp.InnerNodes {
				if len(n.LeftHash) > 0 {
					real = append(real, n.LeftHash)
				}
				if len(n.RightHash) > 0 {
					real = append(real, n.RightHash)
				}
			}
			wrongV := append(append([]byte{}, kv.Value...), 0)
			absent := append(append([]byte{}, kv.Key...), 0, 1)
			had := st.First != nil
			d.attack(st, root2, kv.Key, kv.Value, wrongV, absent, otherRoot, samples(r, pb, real, per))
			if !had && st.First != nil {
				var ks []any
				for _, x := range kvs {
					ks = append(ks, []string{hex.EncodeToString(x.Key), hex.EncodeToString(x.Value)})
				}
				firstTree = map[string]any{"batch1": ks[:half], "batch2": ks[half:]}
			}
		}
		d.Close()
	}
	bad := st.Panics+st.WrongAccepted+st.UndecAccepted > 0
	if bad && env.Opts["replays"] != "" {
		sig := fmt.Sprintf("Malformed|%s|%v|class=%v|presentation=%v", env.Opt("cfg", "plain"), st.First["kind"], st.First["class"], st.First["presentation"])
		rf := map[string]any{"property": env.Prop, "family": "StateProof", "seed": env.Seed, "tier": env.Tier, "opts": env.Opts,
			"signature": sig, "extra": map[string]any{"kind": "fuzz", "first": st.First, "tree": firstTree}}
		p := filepath.Join(env.Opts["replays"], fmt.Sprintf("%s-StateProof-%d-fuzz-%s.json", env.Prop, env.Seed, env.Opt("cfg", "plain")))
		bb, _ := json.MarshalIndent(rf, "", " ")
		os.MkdirAll(env.Opts["replays"], 0o755)
		os.WriteFile(p, bb, 0o644)
		st.First["replay"] = p
		st.First["signature"] = sig
	}
	bb, _ := json.Marshal(st)
	fmt.Println(string(bb))
	if bad {
		return 1
	}
	return 0
}

func isTrue(v any) bool {
	b, ok := v.(bool)
	return ok && b
}

func sortKVs(kvs []*types.KeyValue) {
	for i := 1; i < len(kvs); i++ {
		for j := i; j > 0 && string(kvs[j].Key) < string(kvs[j-1].Key); j-- {
			kvs[j], kvs[j-1] = kvs[j-1], kvs[j]
		}
	}
}

// replayFuzz re-executes the offending presentation of a fuzz replay file on a rebuilt tree.
func replayFuzz(env *core.Env, args []string) int {
	raw, err := os.ReadFile(args[0])
	if err != nil {
		fmt.Fprintln(os.Stderr, err)
		return 2
	}
	var rf struct {
		Property string
		Opts     map[string]string
		Extra    struct {
			First map[string]string
			Tree  map[string][][]string
		}
	}
	if err := json.Unmarshal(raw, &rf); err != nil {
		fmt.Fprintln(os.Stderr, err)
		return 2
	}
	env.Opts = rf.Opts
	d := &drv{}
	if err := d.Reset(env, &core.Behaviour{ID: "replay", Steps: []core.Step{{"op": "x", "ws": []any{float64(0)}}}}); err != nil {
		fmt.Fprintln(os.Stderr, err)
		return 2
	}
	defer d.Close()
	root := make([]byte, 32)
	for i, name := range []string{"batch1", "batch2"} {
		var kvs []*types.KeyValue
		for _, kv := range rf.Extra.Tree[name] {
			k, _ := hex.DecodeString(kv[0])
			v, _ := hex.DecodeString(kv[1])
			kvs = append(kvs, &types.KeyValue{Key: k, Value: v})
		}
		root, err = mavl.SetKVPair(d.db, &types.StoreSet{StateHash: root, KV: kvs, Height: int64(i + 1)}, true, d.cfg)
		if err != nil {
			fmt.Fprintln(os.Stderr, err)
			return 2
		}
	}
	f := rf.Extra.First
	hx := func(s string) []byte { b, _ := hex.DecodeString(s); return b }
	r, k, v := hx(f["root"]), hx(f["key"]), hx(f["value"])
	switch f["presentation"] {
	case "wrong-value":
		v = append(v, 0)
	case "absent-key":
		k = append(k, 0, 1)
	case "other-root":
		r = make([]byte, 32)
	}
	res := d.verify(r, k, v, hx(f["proof"]))
	fmt.Printf("REPLAY fuzz presentation=%s class=%s result=%v\n", f["presentation"], f["class"], res)
	if s, ok := res.(string); ok || (f["presentation"] != "right" && isTrue(res)) || (f["kind"] == "undecodable_accepted" && isTrue(res)) {
		_ = s
		fmt.Printf("VIOLATION property=%s replay=%s\n", rf.Property, args[0])
		return 1
	}
	fmt.Println("REPLAY agrees (no disagreement)")
	return 0
}
