package main

// Backends: the real mavl store either inside this process ("local") or inside a fresh
// child process of this same binary ("child"), driven over stdin/stdout with one JSON
// request / reply per line. A child gives the store a process of its own (mavl keeps
// process-global caches and flags), and makes Reopen a real restart.

import (
	"bufio"
	"encoding/hex"
	"encoding/json"
	"fmt"
	"io"
	"os"
	"os/exec"
	"sync"

	dbm "github.com/33cn/chain33/common/db"
	mavlstore "github.com/33cn/chain33/system/store/mavl"
	mavldb "github.com/33cn/chain33/system/store/mavl/db"
	"github.com/33cn/chain33/types"
)

// storeCfg is one storage configuration (the store's sub-options).
type storeCfg struct {
	Name        string `json:"name"`
	Prefix      bool   `json:"enableMavlPrefix"`
	MVCC        bool   `json:"enableMVCC"`
	Prune       bool   `json:"enableMavlPrune"`
	PruneHeight int32  `json:"pruneHeight"`
	MemTree     bool   `json:"enableMemTree"`
	MemVal      bool   `json:"enableMemVal"`
	TkCloseLen  int32  `json:"tkCloseCacheLen"`
}

// configurations by name. Pruning implies prefixing (the store forces it). PruneHeight is
// far above every height the harness uses, so no pruning run ever starts here (C05 is a
// separate family): the configuration only changes what Save writes.
var allCfgs = map[string]storeCfg{
	"plain":              {Name: "plain"},
	"prefix":             {Name: "prefix", Prefix: true},
	"prune":              {Name: "prune", Prefix: true, Prune: true, PruneHeight: 1000000},
	"memtree":            {Name: "memtree", MemTree: true},
	"memtree+val":        {Name: "memtree+val", MemTree: true, MemVal: true, TkCloseLen: 64},
	"prefix+memtree":     {Name: "prefix+memtree", Prefix: true, MemTree: true},
	"prefix+memtree+val": {Name: "prefix+memtree+val", Prefix: true, MemTree: true, MemVal: true},
	"prune+memtree":      {Name: "prune+memtree", Prefix: true, Prune: true, PruneHeight: 1000000, MemTree: true},
	"prune+memtree+val":  {Name: "prune+memtree+val", Prefix: true, Prune: true, PruneHeight: 1000000, MemTree: true, MemVal: true},
	"mvcc":               {Name: "mvcc", MVCC: true},
	"mvcc+prefix":        {Name: "mvcc+prefix", MVCC: true, Prefix: true},
	"mvcc+memtree+val":   {Name: "mvcc+memtree+val", MVCC: true, MemTree: true, MemVal: true},
}

func (c storeCfg) tree() *mavldb.TreeConfig {
	return &mavldb.TreeConfig{EnableMavlPrefix: c.Prefix || c.Prune, EnableMVCC: c.MVCC, EnableMavlPrune: c.Prune,
		PruneHeight: c.PruneHeight, EnableMemTree: c.MemTree, EnableMemVal: c.MemVal, TkCloseCacheLen: c.TkCloseLen}
}

type kvb struct {
	K []byte
	V []byte
}

type getRes struct {
	V      []byte
	Exists bool
}

// bound: Nil=true means "no bound" (a nil slice); otherwise B (possibly empty, non-nil).
type bound struct {
	Nil bool
	B   []byte
}

func (b bound) bytes() []byte {
	if b.Nil {
		return nil
	}
	if b.B == nil {
		return []byte{}
	}
	return b.B
}

type backend interface {
	Open(dir string, cfg storeCfg) error
	Set(parent []byte, kvs []kvb, height int64) ([]byte, string)
	MemSet(parent []byte, kvs []kvb, height int64) ([]byte, string)
	Commit(root []byte) string
	Rollback(root []byte) string
	Get(root []byte, keys [][]byte, api string) ([]getRes, string)
	Iter(root []byte, lo, hi bound, asc, incl bool, lim int, api string) ([]kvb, string)
	Shape(root []byte) (height, size int, status string)
	Reopen(kill bool) error
	Close()
}

// ------------------------------------------------------------------------------------
// local backend: the real store object

type local struct {
	dir   string
	cfg   storeCfg
	store *mavlstore.Store
}

func (l *local) Open(dir string, cfg storeCfg) error {
	l.dir, l.cfg = dir, cfg
	sub, _ := json.Marshal(cfg)
	m := mavlstore.New(&types.Store{Name: "mavl", Driver: "leveldb", DbPath: dir, DbCache: 8}, sub, nil)
	s, ok := m.(*mavlstore.Store)
	if !ok {
		return fmt.Errorf("mavl.New returned %T", m)
	}
	l.store = s
	return nil
}

func toKV(kvs []kvb) []*types.KeyValue {
	out := make([]*types.KeyValue, 0, len(kvs))
	for _, kv := range kvs {
		out = append(out, &types.KeyValue{Key: kv.K, Value: kv.V})
	}
	return out
}

func status(err error) string {
	if err == nil {
		return "ok"
	}
	if err == types.ErrHashNotFound {
		return "notfound"
	}
	return "err:" + err.Error()
}

func (l *local) Set(parent []byte, kvs []kvb, height int64) ([]byte, string) {
	h, err := l.store.Set(&types.StoreSet{StateHash: parent, KV: toKV(kvs), Height: height}, true)
	return h, status(err)
}

func (l *local) MemSet(parent []byte, kvs []kvb, height int64) ([]byte, string) {
	h, err := l.store.MemSet(&types.StoreSet{StateHash: parent, KV: toKV(kvs), Height: height}, true)
	return h, status(err)
}

func (l *local) Commit(root []byte) string {
	h, err := l.store.Commit(&types.ReqHash{Hash: root})
	if err == nil && string(h) != string(root) {
		return "err:commit returned another hash " + hex.EncodeToString(h)
	}
	return status(err)
}

func (l *local) Rollback(root []byte) string {
	h, err := l.store.Rollback(&types.ReqHash{Hash: root})
	if err == nil && string(h) != string(root) {
		return "err:rollback returned another hash " + hex.EncodeToString(h)
	}
	return status(err)
}

func (l *local) Get(root []byte, keys [][]byte, api string) ([]getRes, string) {
	out := make([]getRes, len(keys))
	if api == "tree" {
		t := mavldb.NewTree(l.store.GetDB(), true, l.cfg.tree())
		if err := t.Load(root); err != nil {
			return nil, "err:load:" + err.Error()
		}
		for i, k := range keys {
			_, v, ok := t.Get(k)
			out[i] = getRes{V: v, Exists: ok}
			if ok != t.Has(k) {
				return nil, fmt.Sprintf("err:Has(%x)=%v but Get exists=%v", k, t.Has(k), ok)
			}
		}
		return out, "ok"
	}
	vals := l.store.Get(&types.StoreGet{StateHash: root, Keys: keys})
	if len(vals) != len(keys) {
		return nil, fmt.Sprintf("err:Get returned %d values for %d keys", len(vals), len(keys))
	}
	for i, v := range vals {
		out[i] = getRes{V: v, Exists: v != nil}
	}
	return out, "ok"
}

func (l *local) Iter(root []byte, lo, hi bound, asc, incl bool, lim int, api string) ([]kvb, string) {
	var out []kvb
	fn := func(k, v []byte) bool {
		out = append(out, kvb{K: append([]byte{}, k...), V: append([]byte{}, v...)})
		return lim > 0 && len(out) >= lim
	}
	if api == "tree" || incl {
		t := mavldb.NewTree(l.store.GetDB(), true, l.cfg.tree())
		if err := t.Load(root); err != nil {
			return nil, "err:load:" + err.Error()
		}
		switch {
		case incl:
			t.IterateRangeInclusive(lo.bytes(), hi.bytes(), asc, fn)
		case lo.Nil && hi.Nil && asc:
			t.Iterate(fn)
		default:
			t.IterateRange(lo.bytes(), hi.bytes(), asc, fn)
		}
		return out, "ok"
	}
	l.store.IterateRangeByStateHash(root, lo.bytes(), hi.bytes(), asc, fn)
	return out, "ok"
}

func (l *local) Shape(root []byte) (int, int, string) {
	t := mavldb.NewTree(l.store.GetDB(), true, l.cfg.tree())
	if err := t.Load(root); err != nil {
		return 0, 0, "err:load:" + err.Error()
	}
	return int(t.Height()), int(t.Size()), "ok"
}

func (l *local) Reopen(kill bool) error {
	l.store.Close()
	l.store = nil
	return l.Open(l.dir, l.cfg)
}

func (l *local) Close() {
	if l.store != nil {
		l.store.Close()
		l.store = nil
	}
}

func (l *local) db() dbm.DB { return l.store.GetDB() }

// ------------------------------------------------------------------------------------
// child protocol

type req struct {
	Cmd    string   `json:"cmd"`
	Dir    string   `json:"dir,omitempty"`
	Cfg    storeCfg `json:"cfg,omitempty"`
	Root   string   `json:"root,omitempty"`
	KVs    [][2]string
	Keys   []string `json:"keys,omitempty"`
	Height int64    `json:"height,omitempty"`
	API    string   `json:"api,omitempty"`
	Lo     *string  `json:"lo"`
	Hi     *string  `json:"hi"`
	Asc    bool     `json:"asc,omitempty"`
	Incl   bool     `json:"incl,omitempty"`
	Lim    int      `json:"lim,omitempty"`
}

type rep struct {
	Status string      `json:"status"`
	Hash   string      `json:"hash,omitempty"`
	Vals   []string    `json:"vals,omitempty"`
	Exists []bool      `json:"exists,omitempty"`
	KVs    [][2]string `json:"kvs,omitempty"`
	H      int         `json:"h,omitempty"`
	N      int         `json:"n,omitempty"`
}

func hx(b []byte) string { return hex.EncodeToString(b) }
func unhx(s string) []byte {
	b, _ := hex.DecodeString(s)
	if b == nil {
		b = []byte{}
	}
	return b
}

func encKVs(kvs []kvb) [][2]string {
	out := make([][2]string, len(kvs))
	for i, kv := range kvs {
		out[i] = [2]string{hx(kv.K), hx(kv.V)}
	}
	return out
}

func decKVs(x [][2]string) []kvb {
	out := make([]kvb, len(x))
	for i, kv := range x {
		out[i] = kvb{K: unhx(kv[0]), V: unhx(kv[1])}
	}
	return out
}

func encBound(b bound) *string {
	if b.Nil {
		return nil
	}
	s := hx(b.B)
	return &s
}

func decBound(s *string) bound {
	if s == nil {
		return bound{Nil: true}
	}
	return bound{B: unhx(*s)}
}

// childMain serves requests on stdin until EOF or "exit".
func childMain() int {
	in := bufio.NewReaderSize(os.Stdin, 1<<20)
	// replies go to fd 3: chain33's root logger writes to stdout
	out := bufio.NewWriterSize(os.NewFile(3, "replies"), 1<<20)
	l := &local{}
	defer l.Close()
	for {
		line, err := in.ReadBytes('\n')
		if len(line) == 0 && err != nil {
			return 0
		}
		var q req
		if e := json.Unmarshal(line, &q); e != nil {
			fmt.Fprintln(os.Stderr, "child: bad request:", e)
			return 2
		}
		var r rep
		root := unhx(q.Root)
		switch q.Cmd {
		case "open":
			if e := l.Open(q.Dir, q.Cfg); e != nil {
				r.Status = "err:" + e.Error()
			} else {
				r.Status = "ok"
			}
		case "set":
			h, st := l.Set(root, decKVs(q.KVs), q.Height)
			r.Hash, r.Status = hx(h), st
		case "memset":
			h, st := l.MemSet(root, decKVs(q.KVs), q.Height)
			r.Hash, r.Status = hx(h), st
		case "commit":
			r.Status = l.Commit(root)
		case "rollback":
			r.Status = l.Rollback(root)
		case "get":
			keys := make([][]byte, len(q.Keys))
			for i, k := range q.Keys {
				keys[i] = unhx(k)
			}
			res, st := l.Get(root, keys, q.API)
			r.Status = st
			for _, x := range res {
				r.Vals = append(r.Vals, hx(x.V))
				r.Exists = append(r.Exists, x.Exists)
			}
		case "iter":
			kvs, st := l.Iter(root, decBound(q.Lo), decBound(q.Hi), q.Asc, q.Incl, q.Lim, q.API)
			r.Status, r.KVs = st, encKVs(kvs)
		case "shape":
			r.H, r.N, r.Status = l.Shape(root)
		case "exit":
			l.Close()
			r.Status = "ok"
			b, _ := json.Marshal(r)
			out.Write(b)
			out.WriteByte('\n')
			out.Flush()
			return 0
		default:
			r.Status = "err:unknown command " + q.Cmd
		}
		b, _ := json.Marshal(r)
		out.Write(b)
		out.WriteByte('\n')
		if e := out.Flush(); e != nil {
			return 2
		}
		if err == io.EOF {
			return 0
		}
	}
}

// child is the proxy living in the driver process.
type child struct {
	mu   sync.Mutex
	dir  string
	cfg  storeCfg
	cmd  *exec.Cmd
	in   io.WriteCloser
	out  *bufio.Reader
	outf *os.File
	// spawned counts the processes started for this store (1 + restarts)
	spawned int
}

func (c *child) spawn() error {
	exe, err := os.Executable()
	if err != nil {
		return err
	}
	cmd := exec.Command(exe, "child")
	cmd.Stderr = os.Stderr
	cmd.Stdout = os.Stderr
	in, err := cmd.StdinPipe()
	if err != nil {
		return err
	}
	outp, outw, err := os.Pipe()
	if err != nil {
		return err
	}
	cmd.ExtraFiles = []*os.File{outw}
	if err := cmd.Start(); err != nil {
		outp.Close()
		outw.Close()
		return err
	}
	outw.Close()
	c.cmd, c.in, c.out, c.outf = cmd, in, bufio.NewReaderSize(outp, 1<<20), outp
	c.spawned++
	r, err := c.call(req{Cmd: "open", Dir: c.dir, Cfg: c.cfg})
	if err != nil {
		return err
	}
	if r.Status != "ok" {
		return fmt.Errorf("child open: %s", r.Status)
	}
	return nil
}

func (c *child) call(q req) (*rep, error) {
	c.mu.Lock()
	defer c.mu.Unlock()
	b, _ := json.Marshal(q)
	if _, err := c.in.Write(append(b, '\n')); err != nil {
		return nil, fmt.Errorf("child write: %v", err)
	}
	line, err := c.out.ReadBytes('\n')
	if err != nil {
		return nil, fmt.Errorf("child died during %s: %v", q.Cmd, err)
	}
	var r rep
	if err := json.Unmarshal(line, &r); err != nil {
		return nil, fmt.Errorf("child reply: %v", err)
	}
	return &r, nil
}

// must: a dead child is a crash of the real code inside it (or of the harness); it is reported
// through the status string so that the replayer sees it as an observation, with the reason.
func (c *child) must(q req) *rep {
	r, err := c.call(q)
	if err != nil {
		return &rep{Status: "crash:" + err.Error()}
	}
	return r
}

func (c *child) Open(dir string, cfg storeCfg) error {
	c.dir, c.cfg = dir, cfg
	return c.spawn()
}

func (c *child) Set(parent []byte, kvs []kvb, height int64) ([]byte, string) {
	r := c.must(req{Cmd: "set", Root: hx(parent), KVs: encKVs(kvs), Height: height})
	return unhx(r.Hash), r.Status
}

func (c *child) MemSet(parent []byte, kvs []kvb, height int64) ([]byte, string) {
	r := c.must(req{Cmd: "memset", Root: hx(parent), KVs: encKVs(kvs), Height: height})
	return unhx(r.Hash), r.Status
}

func (c *child) Commit(root []byte) string { return c.must(req{Cmd: "commit", Root: hx(root)}).Status }
func (c *child) Rollback(root []byte) string {
	return c.must(req{Cmd: "rollback", Root: hx(root)}).Status
}

func (c *child) Get(root []byte, keys [][]byte, api string) ([]getRes, string) {
	ks := make([]string, len(keys))
	for i, k := range keys {
		ks[i] = hx(k)
	}
	r := c.must(req{Cmd: "get", Root: hx(root), Keys: ks, API: api})
	if r.Status != "ok" {
		return nil, r.Status
	}
	out := make([]getRes, len(r.Vals))
	for i := range r.Vals {
		out[i] = getRes{V: unhx(r.Vals[i]), Exists: r.Exists[i]}
		if !out[i].Exists {
			out[i].V = nil
		}
	}
	return out, "ok"
}

func (c *child) Iter(root []byte, lo, hi bound, asc, incl bool, lim int, api string) ([]kvb, string) {
	r := c.must(req{Cmd: "iter", Root: hx(root), Lo: encBound(lo), Hi: encBound(hi), Asc: asc, Incl: incl, Lim: lim, API: api})
	return decKVs(r.KVs), r.Status
}

func (c *child) Shape(root []byte) (int, int, string) {
	r := c.must(req{Cmd: "shape", Root: hx(root)})
	return r.H, r.N, r.Status
}

func (c *child) stop(kill bool) {
	if c.cmd == nil {
		return
	}
	if kill {
		c.cmd.Process.Kill()
	} else {
		c.call(req{Cmd: "exit"})
	}
	c.in.Close()
	c.cmd.Wait()
	c.outf.Close()
	c.cmd = nil
}

// Reopen is a real restart: the process that held the store ends (gracefully, or killed without
// any Close when kill is set) and a new process opens the same directory.
func (c *child) Reopen(kill bool) error {
	c.stop(kill)
	return c.spawn()
}

func (c *child) Close() { c.stop(false) }
