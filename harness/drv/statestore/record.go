package main

// Recorders (binding B): seeded random drivers on the real store; every call is logged with its
// observed reply in abstract form (model keys / values, recorder's term ids, interned hash ids)
// and validated by StateStore_Trace.
//
//   seq  sequential histories over a large alphabet (batch sizes 1..hundreds, hundreds of keys):
//        Set / MemSet / Commit / Rollback / Reopen / Get / Iter through the store object and
//        mavl.Tree, one configuration per trace.
//   bus  the store MODULE behind the message bus (BaseStore.processMessage: one goroutine per
//        request) driven by several client goroutines; Start / End of every request is logged.

import (
	"bufio"
	"bytes"
	"encoding/hex"
	"encoding/json"
	"fmt"
	"math/rand"
	"os"
	"os/exec"
	"sort"
	"strings"
	"sync"
	"time"

	"github.com/33cn/chain33/queue"
	mavlstore "github.com/33cn/chain33/system/store/mavl"
	mavldb "github.com/33cn/chain33/system/store/mavl/db"
	"github.com/33cn/chain33/types"
	"verif/harness/core"
)

// interner of terms (parent id, writes) in creation order and of hashes
type interner struct {
	mu     sync.Mutex
	terms  map[string]int
	hashes map[string]int
	hashOf map[int][]byte // term id -> concrete hash (once known)
}

func newInterner() *interner {
	return &interner{terms: map[string]int{}, hashes: map[string]int{hex.EncodeToString(emptyRoot): 0},
		hashOf: map[int][]byte{0: emptyRoot}}
}

func (in *interner) term(parent int, ws [][2]int) int {
	if len(ws) == 0 {
		return parent
	}
	in.mu.Lock()
	defer in.mu.Unlock()
	k := fmt.Sprintf("%d|%v", parent, ws)
	if id, ok := in.terms[k]; ok {
		return id
	}
	id := len(in.terms) + 1
	in.terms[k] = id
	return id
}

func (in *interner) hash(h []byte) int {
	in.mu.Lock()
	defer in.mu.Unlock()
	k := hex.EncodeToString(h)
	if id, ok := in.hashes[k]; ok {
		return id
	}
	id := len(in.hashes)
	in.hashes[k] = id
	return id
}

func (in *interner) setHash(id int, h []byte) {
	in.mu.Lock()
	in.hashOf[id] = h
	in.mu.Unlock()
}

func (in *interner) getHash(id int) []byte {
	in.mu.Lock()
	defer in.mu.Unlock()
	return in.hashOf[id]
}

func wsJSON(ws [][2]int) []any {
	out := []any{}
	for _, w := range ws {
		out = append(out, []any{w[0], w[1]})
	}
	return out
}

func kvsOf(c *conc, ws [][2]int) []kvb {
	out := make([]kvb, 0, len(ws))
	for _, w := range ws {
		out = append(out, kvb{K: c.key(w[0]), V: c.val(w[1])})
	}
	return out
}

// random write list: a mixture of runs (ascending / descending / strided), random keys and
// repeated keys, 0..maxb writes
func randBatch(r *rand.Rand, nkeys, nvals, maxb int, vals []int) [][2]int {
	n := 1
	switch x := r.Intn(10); {
	case maxb >= 100 && x < 7: // large-alphabet recordings: mostly big batches
		n = 1 + r.Intn(maxb)
	case x < 5:
		n = 1 + r.Intn(4)
	case x < 8:
		n = 1 + r.Intn(maxb/4+1)
	default:
		n = 1 + r.Intn(maxb)
	}
	pick := func() int {
		if len(vals) > 0 {
			return vals[r.Intn(len(vals))]
		}
		return 1 + r.Intn(nvals)
	}
	ws := make([][2]int, 0, n)
	start, stride := r.Intn(nkeys), []int{1, nkeys - 1, 0, 7, 1, nkeys - 1}[r.Intn(6)]
	randomKeys := r.Intn(3) == 0
	for i := 0; i < n; i++ {
		k := (start+i*stride)%nkeys + 1
		if randomKeys {
			k = 1 + r.Intn(nkeys)
		}
		ws = append(ws, [2]int{k, pick()})
	}
	return ws
}

func decRow(c *conc, res []getRes, api string) []any {
	out := make([]any, len(res))
	for i, x := range res {
		if !x.Exists {
			out[i] = 0
		} else if j, ok := c.vidx[string(x.V)]; ok {
			out[i] = j
		} else {
			out[i] = -1
		}
	}
	return out
}

func decPairs(c *conc, kvs []kvb) []any {
	out := []any{}
	for _, kv := range kvs {
		k, ok := c.kidx[string(kv.K)]
		if !ok {
			k = -1
		}
		v, ok := c.vidx[string(kv.V)]
		if !ok {
			v = -1
		}
		out = append(out, []any{k, v})
	}
	return out
}

// ---- sequential recorder -----------------------------------------------------------------------

func recordSeq(env *core.Env, emit func(map[string]any)) (*core.Summary, error) {
	sum := &core.Summary{Counters: map[string]int{}}
	n := env.OptInt("n", 4)
	nkeys := env.OptInt("keys", 64)
	nvals := env.OptInt("vals", 4)
	maxb := env.OptInt("maxbatch", 40)
	depth := env.OptInt("depth", 60)
	nh := env.OptInt("heights", 3)
	cfgNames := strings.Split(env.Opt("cfgs", "plain/prefix"), "/")
	useChild := env.Opt("proc", "local") == "child"
	// mode=direct: Set / Reopen / reads only (no pending updates): equal contents reached along
	// different histories (no-op overwrites, commuting inserts) are welcome.
	// mode=pending: all operations; the last write of every new write list carries a value never
	// used before, so that different update terms never have equal contents (the implementation
	// names pending updates by hash; see the guard Distinct in StateStore.tla).
	pendingMode := env.Opt("mode", "pending") == "pending"
	baseVals := nvals
	if pendingMode {
		nvals = baseVals + depth + 1
	}
	r := rand.New(rand.NewSource(env.Seed*7919 + int64(env.OptInt("salt", 0))))
	for t := 0; t < n; t++ {
		class := classes[(t+int(env.Seed))%len(classes)]
		// no empty value here: the store-level Get cannot tell it from an absent key
		c := newConc(env.Seed*104729+int64(t), nkeys, nvals, class, false)
		cfg, ok := allCfgs[cfgNames[t%len(cfgNames)]]
		if !ok {
			return nil, fmt.Errorf("unknown configuration %q", cfgNames[t%len(cfgNames)])
		}
		dir, err := os.MkdirTemp("", "vh-ss-rec-")
		if err != nil {
			return nil, err
		}
		var be backend = &local{}
		if useChild {
			be = &child{}
		}
		if err := be.Open(dir, cfg); err != nil {
			os.RemoveAll(dir)
			return nil, err
		}
		in := newInterner()
		emit(map[string]any{"ev": "Reset", "cfg": cfg.Name, "class": class})
		committed := []int{0}
		isCommitted := map[int]bool{0: true}
		pending := map[int]bool{}
		known := []int{}
		fresh := baseVals
		type upd struct {
			p  int
			ws [][2]int
		}
		var updates []upd
		hbase := int64(1 + r.Intn(3000))
		var evs []any
		overwrite, oldRead, rolled := false, false, false
		written := map[int]bool{}
		fail := func(err error) (*core.Summary, error) {
			be.Close()
			os.RemoveAll(dir)
			return nil, err
		}
		for i := 0; i < depth; i++ {
			var ev map[string]any
			x := r.Intn(100)
			if !pendingMode && x >= 22 && x < 48 {
				x = 48 + r.Intn(52) // no Commit / Rollback; Reopen below
				if r.Intn(8) == 0 {
					x = 45
				}
			}
			switch {
			case x < 22 || len(known) == 0: // Set / MemSet
				p := committed[r.Intn(len(committed))]
				if r.Intn(3) > 0 {
					p = committed[len(committed)-1-r.Intn(minInt(3, len(committed)))]
				}
				ws := randBatch(r, nkeys, baseVals, maxb, nil)
				if pendingMode {
					fresh++
					ws[len(ws)-1][1] = fresh
				}
				if r.Intn(25) == 0 && p != 0 && pendingMode {
					ws = nil
				}
				if len(updates) > 0 && r.Intn(6) == 0 { // compute an earlier update again
					u := updates[r.Intn(len(updates))]
					p, ws = u.p, u.ws
				} else if len(ws) > 0 {
					updates = append(updates, upd{p, ws})
				}
				for _, w := range ws {
					if written[w[0]] {
						overwrite = true
					}
					written[w[0]] = true
				}
				h := 1 + r.Intn(nh)
				id := in.term(p, ws)
				direct := (r.Intn(3) == 0 || !pendingMode) && len(ws) > 0
				var hash []byte
				var st string
				op := "MemSet"
				if direct {
					op = "Set"
					hash, st = be.Set(in.getHash(p), kvsOf(c, ws), hbase+int64(h))
				} else {
					hash, st = be.MemSet(in.getHash(p), kvsOf(c, ws), hbase+int64(h))
				}
				ev = map[string]any{"ev": op, "parent": p, "writes": wsJSON(ws), "height": h, "root": id, "ret": st}
				if st == "ok" {
					ev["hash"] = in.hash(hash)
					in.setHash(id, hash)
					if id != 0 && !contains(known, id) {
						known = append(known, id)
					}
					if direct {
						if !isCommitted[id] {
							isCommitted[id] = true
							committed = append(committed, id)
						}
					} else {
						pending[id] = true
					}
				}
			case x < 36: // Commit (mostly of a pending root)
				id := known[r.Intn(len(known))]
				if len(pending) > 0 && r.Intn(6) > 0 {
					id = anyKey(r, pending)
				}
				st := be.Commit(in.getHash(id))
				ev = map[string]any{"ev": "Commit", "root": id, "ret": st}
				if st == "ok" {
					delete(pending, id)
					if !isCommitted[id] {
						isCommitted[id] = true
						committed = append(committed, id)
					}
				}
			case x < 44: // Rollback
				id := known[r.Intn(len(known))]
				if len(pending) > 0 && r.Intn(6) > 0 {
					id = anyKey(r, pending)
				}
				st := be.Rollback(in.getHash(id))
				ev = map[string]any{"ev": "Rollback", "root": id, "ret": st}
				if st == "ok" {
					delete(pending, id)
					rolled = true
				}
			case x < 48: // Reopen
				if len(pending) > 0 {
					rolled = true
				}
				if err := be.Reopen(r.Intn(2) == 0); err != nil {
					return fail(err)
				}
				pending = map[int]bool{}
				ev = map[string]any{"ev": "Reopen", "ret": "ok"}
			case x < 80: // Get of several keys at a committed root (old roots as often as new ones)
				id := committed[r.Intn(len(committed))]
				if id != committed[len(committed)-1] && id != 0 {
					oldRead = true
				}
				nk := 1 + r.Intn(12)
				keys := make([]any, nk)
				kb := make([][]byte, nk)
				for j := range keys {
					k := 1 + r.Intn(nkeys)
					keys[j], kb[j] = k, c.key(k)
				}
				api := []string{"store", "tree"}[r.Intn(2)]
				res, st := be.Get(in.getHash(id), kb, api)
				ev = map[string]any{"ev": "Get", "root": id, "keys": keys, "api": api}
				if st != "ok" {
					ev["ret"] = []any{st}
				} else {
					ev["ret"] = decRow(c, res, api)
				}
			default: // Iter
				id := committed[r.Intn(len(committed))]
				lo, hi := r.Intn(nkeys+1), r.Intn(nkeys+1)
				if r.Intn(3) == 0 {
					lo = 0
				}
				if r.Intn(3) == 0 {
					hi = 0
				}
				asc, incl := r.Intn(2) == 0, r.Intn(3) == 0
				lim := []int{0, 0, 1, 2}[r.Intn(4)]
				bnd := func(i int) bound {
					if i == 0 {
						return bound{Nil: true}
					}
					return bound{B: c.key(i)}
				}
				api := []string{"store", "tree"}[r.Intn(2)]
				kvs, st := be.Iter(in.getHash(id), bnd(lo), bnd(hi), asc, incl, lim, api)
				ev = map[string]any{"ev": "Iter", "root": id, "lo": lo, "hi": hi, "asc": asc, "incl": incl, "lim": lim, "api": api}
				if st != "ok" {
					ev["ret"] = []any{[]any{-1, st}}
				} else {
					ev["ret"] = decPairs(c, kvs)
				}
			}
			emit(ev)
			sum.Steps++
			if len(evs) < 10 {
				evs = append(evs, clipEv(ev))
			}
		}
		be.Close()
		os.RemoveAll(dir)
		sum.Behaviours++
		nt := false
		switch env.Prop {
		case "C04":
			nt = rolled
		case "C02":
			nt = len(known) > 1
		default:
			nt = overwrite && oldRead
		}
		if nt {
			sum.NonTrivial++
		}
		if len(sum.Samples) < 2 {
			sum.Samples = append(sum.Samples, map[string]any{"recorder": "seq", "cfg": cfg.Name, "key_class": class, "trace_prefix": evs})
		}
	}
	return sum, nil
}

func clipEv(ev map[string]any) map[string]any {
	out := map[string]any{}
	for k, v := range ev {
		if l, ok := v.([]any); ok && len(l) > 8 {
			out[k] = append(append([]any{}, l[:8]...), fmt.Sprintf("…(%d)", len(l)))
		} else {
			out[k] = v
		}
	}
	return out
}

func minInt(a, b int) int {
	if a < b {
		return a
	}
	return b
}

func contains(l []int, x int) bool {
	for _, y := range l {
		if y == x {
			return true
		}
	}
	return false
}

func anyKey(r *rand.Rand, m map[int]bool) int {
	ks := make([]int, 0, len(m))
	for k := range m {
		ks = append(ks, k)
	}
	sort.Ints(ks)
	return ks[r.Intn(len(ks))]
}

// ---- concurrent recorder: the store module behind the message bus ------------------------------

type busClient struct {
	g  int
	qc queue.Client
}

const busTimeout = 300 * time.Second

func (b *busClient) call(ty int64, data any) (*queue.Message, error, error) {
	msg := b.qc.NewMessage("store", ty, data)
	if err := b.qc.Send(msg, true); err != nil {
		return nil, nil, fmt.Errorf("send: %v", err)
	}
	resp, err := b.qc.WaitTimeout(msg, busTimeout)
	if err == queue.ErrQueueTimeout || err == queue.ErrIsQueueClosed || err == types.ErrChannelClosed {
		return nil, nil, fmt.Errorf("wait: %v", err)
	}
	return resp, err, nil
}

// recordBus runs every trace in a worker process of its own (`busworker`): a panic inside a request
// goroutine of the store module cannot be recovered, it ends the process. The worker appends its
// events to a file as they happen; if it dies, the parent closes the trace with a Crash event (which
// no action of the trace specification matches: the crash is then reported at exactly that point).
func recordBus(env *core.Env, emit func(map[string]any)) (*core.Summary, error) {
	sum := &core.Summary{Counters: map[string]int{}}
	n := env.OptInt("n", 2)
	exe, err := os.Executable()
	if err != nil {
		return nil, err
	}
	for t := 0; t < n; t++ {
		tmp, err := os.MkdirTemp("", "vh-ss-busw-")
		if err != nil {
			return nil, err
		}
		evp, sp := tmp+"/events.ndjson", tmp+"/summary.json"
		var opts []string
		for k, v := range env.Opts {
			opts = append(opts, k+"="+v)
		}
		opts = append(opts, fmt.Sprintf("t=%d", t), "sum="+sp, "workdir="+tmp)
		cmd := exec.Command(exe, "busworker", "--out", evp, "--prop", env.Prop, "--seed", fmt.Sprint(env.Seed), "--opt", strings.Join(opts, ","))
		var stderr bytes.Buffer
		cmd.Stderr = &stderr
		cmd.Stdout = &stderr
		runErr := cmd.Run()
		f, err := os.Open(evp)
		if err != nil {
			os.RemoveAll(tmp)
			return nil, fmt.Errorf("bus worker wrote no events: %v / %v\n%s", err, runErr, tailStr(stderr.String(), 2000))
		}
		sc := bufio.NewScanner(f)
		sc.Buffer(make([]byte, 1<<20), 1<<26)
		nev := 0
		for sc.Scan() {
			var ev map[string]any
			if json.Unmarshal(sc.Bytes(), &ev) == nil {
				emit(ev)
				nev++
			}
		}
		f.Close()
		var ws struct {
			NonTrivial bool           `json:"nontrivial"`
			Steps      int            `json:"steps"`
			Sample     map[string]any `json:"sample"`
			Err        string         `json:"err"`
		}
		if b, err := os.ReadFile(sp); err == nil {
			json.Unmarshal(b, &ws)
		}
		os.RemoveAll(tmp)
		if runErr != nil {
			where := panicWhere(stderr.String())
			if ws.Err != "" || !strings.Contains(stderr.String(), "panic") || where == "" {
				// the harness itself failed (time-out on the bus, I/O, a panic outside chain33 code): not an observation
				return nil, fmt.Errorf("bus worker failed: %v %s\n%s", runErr, ws.Err, tailStr(stderr.String(), 3000))
			}
			msg := panicLine(stderr.String())
			// the event name carries the crash site: it becomes the signature of the disagreement
			emit(map[string]any{"ev": "Crash@" + where, "msg": msg})
			sum.Notes = append(sum.Notes, "store process crashed: "+msg)
			ws.NonTrivial = true
			if ws.Sample == nil {
				ws.Sample = map[string]any{"recorder": "bus", "crash": msg}
			}
		}
		sum.Behaviours++
		sum.Steps += ws.Steps
		if ws.NonTrivial {
			sum.NonTrivial++
		}
		if len(sum.Samples) < 2 && ws.Sample != nil {
			sum.Samples = append(sum.Samples, ws.Sample)
		}
	}
	return sum, nil
}

func tailStr(s string, n int) string {
	if len(s) > n {
		return s[len(s)-n:]
	}
	return s
}

func panicLine(s string) string {
	for _, l := range strings.Split(s, "\n") {
		if strings.HasPrefix(l, "panic:") || strings.HasPrefix(l, "fatal error:") {
			if len(l) > 160 {
				l = l[:160]
			}
			return l
		}
	}
	return "process died"
}

// first chain33 frame of the panicking goroutine
func panicWhere(s string) string {
	i := strings.Index(s, "panic:")
	if i < 0 {
		i = 0
	}
	blk := s[i:]
	if j := strings.Index(blk, "\n\ngoroutine "); j > 0 {
		if k := strings.Index(blk[j+2:], "\n\n"); k > 0 {
			blk = blk[:j+2+k] // message + the panicking goroutine only
		}
	}
	for _, l := range strings.Split(blk, "\n") {
		l = strings.TrimSpace(l)
		if strings.HasPrefix(l, "github.com/33cn/chain33/") {
			if j := strings.LastIndex(l, "("); j > 0 {
				l = l[:j]
			}
			return strings.TrimPrefix(l, "github.com/33cn/chain33/")
		}
	}
	return ""
}

// busWorker: one trace. The store MODULE (BaseStore.processMessage: a goroutine per request) behind a
// real message bus, driven by G client goroutines.
//
// Phase 1: every client works on updates of its own (values private to the client, a fresh value in
// every write list): MemSet / Set on any root whose commit has returned, Commit / Rollback of its own
// updates, Get at any root whose commit has returned.
// Phase 2 (rounds): one client computes an already committed update of its own AGAIN, at another block
// height, as a pending update and commits or rolls it back, while the other clients keep reading that
// committed root (a block re-executed during a reorganisation while queries read the tip state).
func busWorkerMain(outPath string, env *core.Env) int {
	f, err := os.Create(outPath)
	if err != nil {
		fmt.Fprintln(os.Stderr, err)
		return 2
	}
	var mu sync.Mutex
	emit := func(ev map[string]any) {
		b, _ := json.Marshal(ev)
		mu.Lock()
		f.Write(append(b, '\n')) // unbuffered: the events must survive a crash
		mu.Unlock()
	}
	nt, steps, sample, err := busTrace(env, env.OptInt("t", 0), emit)
	f.Close()
	ws := map[string]any{"nontrivial": nt, "steps": steps, "sample": sample}
	if err != nil {
		ws["err"] = err.Error()
	}
	b, _ := json.Marshal(ws)
	os.WriteFile(env.Opt("sum", outPath+".sum"), b, 0o644)
	if err != nil {
		fmt.Fprintln(os.Stderr, "busworker:", err)
		return 2
	}
	return 0
}

func busTrace(env *core.Env, t int, emit func(map[string]any)) (nontrivial bool, steps int, sample map[string]any, err error) {
	G := env.OptInt("clients", 4)
	nkeys := env.OptInt("keys", 6)
	perClient := env.OptInt("reqs", 30)
	maxb := env.OptInt("maxbatch", 4)
	nh := env.OptInt("heights", 2)
	rounds := env.OptInt("rounds", 6)
	maxReads := env.OptInt("maxreads", 120)
	cfgNames := strings.Split(env.Opt("cfgs", "plain/prefix"), "/")
	// values are private to a client, and the last write of every write list carries a value never
	// used before: different update terms never have equal contents (see Distinct in StateStore.tla)
	K := perClient + 3
	nvals := G * K
	c := newConc(env.Seed*15485863+int64(t), nkeys, nvals, classes[(t+int(env.Seed))%len(classes)], false)
	cfg, ok := allCfgs[cfgNames[t%len(cfgNames)]]
	if !ok {
		return false, 0, nil, fmt.Errorf("unknown configuration %q", cfgNames[t%len(cfgNames)])
	}
	// inside the directory the parent recorder removes, so that nothing is left behind by a crash
	dir, err := os.MkdirTemp(env.Opt("workdir", ""), "vh-ss-bus-")
	if err != nil {
		return false, 0, nil, err
	}
	defer os.RemoveAll(dir)
	l := &local{}
	if err := l.Open(dir, cfg); err != nil {
		return false, 0, nil, err
	}
	q := queue.New("channel")
	l.store.SetQueueClient(q.Client())
	in := newInterner()
	emit(map[string]any{"ev": "Reset", "cfg": cfg.Name})
	var mu sync.Mutex
	committed := []int{0} // roots whose commit has ENDED: the only roots read or used as parents
	type upd struct {
		p  int
		ws [][2]int
		id int
	}
	ownCommitted := map[int][]upd{} // per client: its committed updates (for phase 2)
	publish := func(id int) {
		mu.Lock()
		if !contains(committed, id) {
			committed = append(committed, id)
		}
		mu.Unlock()
	}
	pick := func(r *rand.Rand) int {
		mu.Lock()
		defer mu.Unlock()
		if r.Intn(2) == 0 {
			return committed[len(committed)-1-r.Intn(minInt(3, len(committed)))]
		}
		return committed[r.Intn(len(committed))]
	}
	var wg sync.WaitGroup
	errs := make(chan error, 4*G)
	var rolled, reads int
	var evmu sync.Mutex
	var evs []any
	log := func(ev map[string]any) {
		emit(ev)
		evmu.Lock()
		if len(evs) < 14 {
			evs = append(evs, clipEv(ev))
		}
		evmu.Unlock()
	}
	hbase := int64(100 + t)
	clients := make([]*busClient, G+1)
	for g := 1; g <= G; g++ {
		clients[g] = &busClient{g: g, qc: q.Client()}
	}
	// one request of each kind; the caller owns the roots it commits / rolls back
	update := func(bc *busClient, op string, p int, ws [][2]int, h int) (int, bool, error) {
		id := in.term(p, ws)
		ty := int64(types.EventStoreMemSet)
		if op == "Set" {
			ty = int64(types.EventStoreSet)
		}
		log(map[string]any{"ev": "Start", "g": bc.g, "op": op, "parent": p, "writes": wsJSON(ws), "height": h, "root": id})
		resp, rerr, herr := bc.call(ty, &types.StoreSetWithSync{Storeset: &types.StoreSet{StateHash: in.getHash(p), KV: toKV(kvsOf(c, ws)), Height: hbase + int64(h)}, Sync: true})
		if herr != nil {
			return id, false, herr
		}
		ev := map[string]any{"ev": "End", "g": bc.g, "root": id}
		if rerr != nil {
			ev["ret"] = "err:" + rerr.Error()
		} else {
			hash := resp.GetData().(*types.ReplyHash).GetHash()
			ev["ret"], ev["hash"] = "ok", in.hash(hash)
			in.setHash(id, hash)
		}
		log(ev)
		return id, rerr == nil, nil
	}
	finish := func(bc *busClient, op string, id int) (string, error) {
		ty := int64(types.EventStoreCommit)
		if op == "Rollback" {
			ty = int64(types.EventStoreRollback)
		}
		log(map[string]any{"ev": "Start", "g": bc.g, "op": op, "root": id})
		resp, rerr, herr := bc.call(ty, &types.ReqHash{Hash: in.getHash(id)})
		if herr != nil {
			return "", herr
		}
		st := "ok"
		if rerr != nil {
			st = status(rerr)
		} else if h := resp.GetData().(*types.ReplyHash).GetHash(); string(h) != string(in.getHash(id)) {
			st = "err:other hash"
		}
		log(map[string]any{"ev": "End", "g": bc.g, "ret": st})
		return st, nil
	}
	get := func(bc *busClient, r *rand.Rand, id int) error {
		nk := nkeys
		if r != nil {
			nk = 1 + r.Intn(nkeys)
		}
		keys := make([]any, nk)
		kb := make([][]byte, nk)
		for j := range keys {
			k := j + 1 // r == nil: every key
			if r != nil {
				k = 1 + r.Intn(nkeys)
			}
			keys[j], kb[j] = k, c.key(k)
		}
		log(map[string]any{"ev": "Start", "g": bc.g, "op": "Get", "root": id, "keys": keys})
		resp, rerr, herr := bc.call(types.EventStoreGet, &types.StoreGet{StateHash: in.getHash(id), Keys: kb})
		if herr != nil {
			return herr
		}
		ev := map[string]any{"ev": "End", "g": bc.g}
		if rerr != nil {
			ev["ret"] = []any{"err:" + rerr.Error()}
		} else {
			vals := resp.GetData().(*types.StoreReplyValue).Values
			res := make([]getRes, len(vals))
			for j, v := range vals {
				res[j] = getRes{V: v, Exists: v != nil}
			}
			ev["ret"] = decRow(c, res, "store")
		}
		log(ev)
		mu.Lock()
		if id != 0 {
			reads++
		}
		mu.Unlock()
		return nil
	}
	// ---- phase 1
	for g := 1; g <= G; g++ {
		wg.Add(1)
		go func(g int) {
			defer wg.Done()
			r := rand.New(rand.NewSource(env.Seed*1000 + int64(t)*100 + int64(g)))
			bc := clients[g]
			own := []int{(g-1)*K + 1, (g-1)*K + 2} // this client's private values: its updates are its own
			fresh := (g-1)*K + 2
			myPending := []upd{}
			myKnown := []upd{}
			choose := func() upd {
				if len(myPending) > 0 && r.Intn(5) > 0 {
					return myPending[r.Intn(len(myPending))]
				}
				return myKnown[r.Intn(len(myKnown))]
			}
			drop := func(id int) {
				outp := myPending[:0]
				for _, u := range myPending {
					if u.id != id {
						outp = append(outp, u)
					}
				}
				myPending = outp
			}
			commitOK := func(u upd) {
				drop(u.id)
				mu.Lock()
				dup := false
				for _, x := range ownCommitted[g] {
					dup = dup || x.id == u.id
				}
				if !dup {
					ownCommitted[g] = append(ownCommitted[g], u)
				}
				mu.Unlock()
				publish(u.id)
			}
			for i := 0; i < perClient; i++ {
				x := r.Intn(100)
				switch {
				case x < 35 || (len(myKnown) == 0 && x < 60): // MemSet or Set
					p := pick(r)
					ws := randBatch(r, nkeys, nvals, maxb, own)
					fresh++
					ws[len(ws)-1][1] = fresh
					op := "MemSet"
					if r.Intn(4) == 0 {
						op = "Set"
					}
					id, ok, herr := update(bc, op, p, ws, 1+r.Intn(nh))
					if herr != nil {
						errs <- herr
						return
					}
					if ok {
						u := upd{p, ws, id}
						myKnown = append(myKnown, u)
						if op == "Set" {
							commitOK(u)
						} else {
							myPending = append(myPending, u)
						}
					}
				case x < 55 && len(myKnown) > 0: // Commit (own roots only)
					u := choose()
					st, herr := finish(bc, "Commit", u.id)
					if herr != nil {
						errs <- herr
						return
					}
					if st == "ok" {
						commitOK(u)
					}
				case x < 65 && len(myKnown) > 0: // Rollback (own roots only)
					u := choose()
					st, herr := finish(bc, "Rollback", u.id)
					if herr != nil {
						errs <- herr
						return
					}
					if st == "ok" {
						drop(u.id)
						mu.Lock()
						rolled++
						mu.Unlock()
					}
				default: // Get at a root whose commit has ended (anybody's)
					if herr := get(bc, r, pick(r)); herr != nil {
						errs <- herr
						return
					}
				}
			}
		}(g)
	}
	wg.Wait()
	steps = G * perClient
	// ---- phase 2: recomputation of a committed update while its root is being read.
	// Odd rounds are free-running (the readers read for as long as the commit takes); even rounds hold the
	// commit at the gate inside Tree.Save (hook VerifSaveGate: batch filled, not yet written) while every
	// other client reads every key at the committed root, then let it go: the same schedule, made certain.
	r2 := rand.New(rand.NewSource(env.Seed*77 + int64(t)))
	var gmu sync.Mutex
	var armed bool
	var reached, release chan struct{}
	mavldb.VerifSaveGate = func(int64) {
		gmu.Lock()
		if !armed {
			gmu.Unlock()
			return
		}
		armed = false
		rc, rl := reached, release
		gmu.Unlock()
		close(rc)
		select {
		case <-rl:
		case <-time.After(busTimeout):
		}
	}
	defer func() { mavldb.VerifSaveGate = nil }()
	gatedRounds := 0
	for round := 0; round < rounds && len(errs) == 0; round++ {
		w := 1 + r2.Intn(G)
		mu.Lock()
		mine := ownCommitted[w]
		mu.Unlock()
		if len(mine) == 0 {
			continue
		}
		u := mine[r2.Intn(len(mine))]
		gated := round%2 == 0
		done := make(chan struct{})
		pendingNow := make(chan struct{})
		var rg sync.WaitGroup
		if !gated {
			for g := 1; g <= G; g++ {
				if g == w {
					continue
				}
				rg.Add(1)
				go func(g int) {
					defer rg.Done()
					r := rand.New(rand.NewSource(env.Seed*31 + int64(t)*7 + int64(round)*131 + int64(g)))
					<-pendingNow // the update is pending again: read its (committed) root until the commit has returned
					for i := 0; i < maxReads; i++ {
						select {
						case <-done:
							if i > 1 {
								return
							}
						default:
						}
						if herr := get(clients[g], r, u.id); herr != nil {
							errs <- herr
							return
						}
					}
				}(g)
			}
		}
		// another height than any used before for this update
		_, ok, herr := update(clients[w], "MemSet", u.p, u.ws, nh+1+round)
		close(pendingNow)
		if herr == nil && ok {
			op := "Commit"
			if !gated && r2.Intn(4) == 0 {
				op = "Rollback"
			}
			if gated {
				gmu.Lock()
				armed, reached, release = true, make(chan struct{}), make(chan struct{})
				rc, rl := reached, release
				gmu.Unlock()
				wdone := make(chan error, 1)
				go func() {
					_, e := finish(clients[w], op, u.id)
					wdone <- e
				}()
				select {
				case <-rc: // the commit is held between filling the batch and writing it
					var gg sync.WaitGroup
					for g := 1; g <= G; g++ {
						if g == w {
							continue
						}
						gg.Add(1)
						go func(g int) {
							defer gg.Done()
							for i := 0; i < 2; i++ {
								if e := get(clients[g], nil, u.id); e != nil {
									errs <- e
									return
								}
							}
						}(g)
					}
					gg.Wait()
					gatedRounds++
					close(rl)
					herr = <-wdone
				case herr = <-wdone: // the commit wrote nothing (refused): no gate
					gmu.Lock()
					armed = false
					gmu.Unlock()
				}
			} else {
				var st string
				st, herr = finish(clients[w], op, u.id)
				if herr == nil && st == "ok" && op == "Rollback" {
					mu.Lock()
					rolled++
					mu.Unlock()
				}
			}
		}
		close(done)
		rg.Wait()
		if herr != nil {
			errs <- herr
		}
		steps += 2
	}
	l.Close()
	q.Close()
	select {
	case e := <-errs:
		return false, steps, nil, e
	default:
	}
	sample = map[string]any{"recorder": "bus", "cfg": cfg.Name, "clients": G, "gated_commit_rounds": gatedRounds, "trace_prefix": evs}
	return rolled > 0 && reads > 0, steps, sample, nil
}

func remove(l []int, x int) []int {
	out := l[:0]
	for _, y := range l {
		if y != x {
			out = append(out, y)
		}
	}
	return out
}

var _ = mavlstore.DisableLog
