package main

// Recorders (binding B): seeded random drivers on the real store; every call is logged with its
// observed reply in abstract form (model keys / values, recorder's term ids, interned hash ids)
// and validated by StateStore_Trace.
//
//   seq  sequential histories over a large alphabet (batch sizes 1..hundreds, hundreds of keys):
//        Set / MemSet / Commit / Rollback / Reopen / Get / Iter through the store object and
//        mavl.Tree, one configuration per trace.
//   bus  the store MODULE behind the message bus (BaseStore.processMessage: one goroutine per
//        request) driven by several client goroutines; Start / End of every request is logged.

import (
	"encoding/hex"
	"fmt"
	"math/rand"
	"os"
	"sort"
	"strings"
	"sync"
	"time"

	"github.com/33cn/chain33/queue"
	mavlstore "github.com/33cn/chain33/system/store/mavl"
	"github.com/33cn/chain33/types"
	"verif/harness/core"
)

// interner of terms (parent id, writes) in creation order and of hashes
type interner struct {
	mu     sync.Mutex
	terms  map[string]int
	hashes map[string]int
	hashOf map[int][]byte // term id -> concrete hash (once known)
}

func newInterner() *interner {
	return &interner{terms: map[string]int{}, hashes: map[string]int{hex.EncodeToString(emptyRoot): 0},
		hashOf: map[int][]byte{0: emptyRoot}}
}

func (in *interner) term(parent int, ws [][2]int) int {
	if len(ws) == 0 {
		return parent
	}
	in.mu.Lock()
	defer in.mu.Unlock()
	k := fmt.Sprintf("%d|%v", parent, ws)
	if id, ok := in.terms[k]; ok {
		return id
	}
	id := len(in.terms) + 1
	in.terms[k] = id
	return id
}

func (in *interner) hash(h []byte) int {
	in.mu.Lock()
	defer in.mu.Unlock()
	k := hex.EncodeToString(h)
	if id, ok := in.hashes[k]; ok {
		return id
	}
	id := len(in.hashes)
	in.hashes[k] = id
	return id
}

func (in *interner) setHash(id int, h []byte) {
	in.mu.Lock()
	in.hashOf[id] = h
	in.mu.Unlock()
}

func (in *interner) getHash(id int) []byte {
	in.mu.Lock()
	defer in.mu.Unlock()
	return in.hashOf[id]
}

func wsJSON(ws [][2]int) []any {
	out := []any{}
	for _, w := range ws {
		out = append(out, []any{w[0], w[1]})
	}
	return out
}

func kvsOf(c *conc, ws [][2]int) []kvb {
	out := make([]kvb, 0, len(ws))
	for _, w := range ws {
		out = append(out, kvb{K: c.key(w[0]), V: c.val(w[1])})
	}
	return out
}

// random write list: a mixture of runs (ascending / descending / strided), random keys and
// repeated keys, 0..maxb writes
func randBatch(r *rand.Rand, nkeys, nvals, maxb int, vals []int) [][2]int {
	n := 1
	switch x := r.Intn(10); {
	case maxb >= 100 && x < 7: // large-alphabet recordings: mostly big batches
		n = 1 + r.Intn(maxb)
	case x < 5:
		n = 1 + r.Intn(4)
	case x < 8:
		n = 1 + r.Intn(maxb/4+1)
	default:
		n = 1 + r.Intn(maxb)
	}
	pick := func() int {
		if len(vals) > 0 {
			return vals[r.Intn(len(vals))]
		}
		return 1 + r.Intn(nvals)
	}
	ws := make([][2]int, 0, n)
	start, stride := r.Intn(nkeys), []int{1, nkeys - 1, 0, 7, 1, nkeys - 1}[r.Intn(6)]
	randomKeys := r.Intn(3) == 0
	for i := 0; i < n; i++ {
		k := (start+i*stride)%nkeys + 1
		if randomKeys {
			k = 1 + r.Intn(nkeys)
		}
		ws = append(ws, [2]int{k, pick()})
	}
	return ws
}

func decRow(c *conc, res []getRes, api string) []any {
	out := make([]any, len(res))
	for i, x := range res {
		if !x.Exists {
			out[i] = 0
		} else if j, ok := c.vidx[string(x.V)]; ok {
			out[i] = j
		} else {
			out[i] = -1
		}
	}
	return out
}

func decPairs(c *conc, kvs []kvb) []any {
	out := []any{}
	for _, kv := range kvs {
		k, ok := c.kidx[string(kv.K)]
		if !ok {
			k = -1
		}
		v, ok := c.vidx[string(kv.V)]
		if !ok {
			v = -1
		}
		out = append(out, []any{k, v})
	}
	return out
}

// ---- sequential recorder -----------------------------------------------------------------------

func recordSeq(env *core.Env, emit func(map[string]any)) (*core.Summary, error) {
	sum := &core.Summary{Counters: map[string]int{}}
	n := env.OptInt("n", 4)
	nkeys := env.OptInt("keys", 64)
	nvals := env.OptInt("vals", 4)
	maxb := env.OptInt("maxbatch", 40)
	depth := env.OptInt("depth", 60)
	nh := env.OptInt("heights", 3)
	cfgNames := strings.Split(env.Opt("cfgs", "plain/prefix"), "/")
	useChild := env.Opt("proc", "local") == "child"
	// mode=direct: Set / Reopen / reads only (no pending updates): equal contents reached along
	// different histories (no-op overwrites, commuting inserts) are welcome.
	// mode=pending: all operations; the last write of every new write list carries a value never
	// used before, so that different update terms never have equal contents (the implementation
	// names pending updates by hash; see the guard Distinct in StateStore.tla).
	pendingMode := env.Opt("mode", "pending") == "pending"
	baseVals := nvals
	if pendingMode {
		nvals = baseVals + depth + 1
	}
	r := rand.New(rand.NewSource(env.Seed*7919 + int64(env.OptInt("salt", 0))))
	for t := 0; t < n; t++ {
		class := classes[(t+int(env.Seed))%len(classes)]
		// no empty value here: the store-level Get cannot tell it from an absent key
		c := newConc(env.Seed*104729+int64(t), nkeys, nvals, class, false)
		cfg, ok := allCfgs[cfgNames[t%len(cfgNames)]]
		if !ok {
			return nil, fmt.Errorf("unknown configuration %q", cfgNames[t%len(cfgNames)])
		}
		dir, err := os.MkdirTemp("", "vh-ss-rec-")
		if err != nil {
			return nil, err
		}
		var be backend = &local{}
		if useChild {
			be = &child{}
		}
		if err := be.Open(dir, cfg); err != nil {
			os.RemoveAll(dir)
			return nil, err
		}
		in := newInterner()
		emit(map[string]any{"ev": "Reset", "cfg": cfg.Name, "class": class})
		committed := []int{0}
		isCommitted := map[int]bool{0: true}
		pending := map[int]bool{}
		known := []int{}
		fresh := baseVals
		type upd struct {
			p  int
			ws [][2]int
		}
		var updates []upd
		hbase := int64(1 + r.Intn(3000))
		var evs []any
		overwrite, oldRead, rolled := false, false, false
		written := map[int]bool{}
		fail := func(err error) (*core.Summary, error) {
			be.Close()
			os.RemoveAll(dir)
			return nil, err
		}
		for i := 0; i < depth; i++ {
			var ev map[string]any
			x := r.Intn(100)
			if !pendingMode && x >= 22 && x < 48 {
				x = 48 + r.Intn(52) // no Commit / Rollback; Reopen below
				if r.Intn(8) == 0 {
					x = 45
				}
			}
			switch {
			case x < 22 || len(known) == 0: // Set / MemSet
				p := committed[r.Intn(len(committed))]
				if r.Intn(3) > 0 {
					p = committed[len(committed)-1-r.Intn(minInt(3, len(committed)))]
				}
				ws := randBatch(r, nkeys, baseVals, maxb, nil)
				if pendingMode {
					fresh++
					ws[len(ws)-1][1] = fresh
				}
				if r.Intn(25) == 0 && p != 0 && pendingMode {
					ws = nil
				}
				if len(updates) > 0 && r.Intn(6) == 0 { // compute an earlier update again
					u := updates[r.Intn(len(updates))]
					p, ws = u.p, u.ws
				} else if len(ws) > 0 {
					updates = append(updates, upd{p, ws})
				}
				for _, w := range ws {
					if written[w[0]] {
						overwrite = true
					}
					written[w[0]] = true
				}
				h := 1 + r.Intn(nh)
				id := in.term(p, ws)
				direct := (r.Intn(3) == 0 || !pendingMode) && len(ws) > 0
				var hash []byte
				var st string
				op := "MemSet"
				if direct {
					op = "Set"
					hash, st = be.Set(in.getHash(p), kvsOf(c, ws), hbase+int64(h))
				} else {
					hash, st = be.MemSet(in.getHash(p), kvsOf(c, ws), hbase+int64(h))
				}
				ev = map[string]any{"ev": op, "parent": p, "writes": wsJSON(ws), "height": h, "root": id, "ret": st}
				if st == "ok" {
					ev["hash"] = in.hash(hash)
					in.setHash(id, hash)
					if id != 0 && !contains(known, id) {
						known = append(known, id)
					}
					if direct {
						if !isCommitted[id] {
							isCommitted[id] = true
							committed = append(committed, id)
						}
					} else {
						pending[id] = true
					}
				}
			case x < 36: // Commit (mostly of a pending root)
				id := known[r.Intn(len(known))]
				if len(pending) > 0 && r.Intn(6) > 0 {
					id = anyKey(r, pending)
				}
				st := be.Commit(in.getHash(id))
				ev = map[string]any{"ev": "Commit", "root": id, "ret": st}
				if st == "ok" {
					delete(pending, id)
					if !isCommitted[id] {
						isCommitted[id] = true
						committed = append(committed, id)
					}
				}
			case x < 44: // Rollback
				id := known[r.Intn(len(known))]
				if len(pending) > 0 && r.Intn(6) > 0 {
					id = anyKey(r, pending)
				}
				st := be.Rollback(in.getHash(id))
				ev = map[string]any{"ev": "Rollback", "root": id, "ret": st}
				if st == "ok" {
					delete(pending, id)
					rolled = true
				}
			case x < 48: // Reopen
				if len(pending) > 0 {
					rolled = true
				}
				if err := be.Reopen(r.Intn(2) == 0); err != nil {
					return fail(err)
				}
				pending = map[int]bool{}
				ev = map[string]any{"ev": "Reopen", "ret": "ok"}
			case x < 80: // Get of several keys at a committed root (old roots as often as new ones)
				id := committed[r.Intn(len(committed))]
				if id != committed[len(committed)-1] && id != 0 {
					oldRead = true
				}
				nk := 1 + r.Intn(12)
				keys := make([]any, nk)
				kb := make([][]byte, nk)
				for j := range keys {
					k := 1 + r.Intn(nkeys)
					keys[j], kb[j] = k, c.key(k)
				}
				api := []string{"store", "tree"}[r.Intn(2)]
				res, st := be.Get(in.getHash(id), kb, api)
				ev = map[string]any{"ev": "Get", "root": id, "keys": keys, "api": api}
				if st != "ok" {
					ev["ret"] = []any{st}
				} else {
					ev["ret"] = decRow(c, res, api)
				}
			default: // Iter
				id := committed[r.Intn(len(committed))]
				lo, hi := r.Intn(nkeys+1), r.Intn(nkeys+1)
				if r.Intn(3) == 0 {
					lo = 0
				}
				if r.Intn(3) == 0 {
					hi = 0
				}
				asc, incl := r.Intn(2) == 0, r.Intn(3) == 0
				lim := []int{0, 0, 1, 2}[r.Intn(4)]
				bnd := func(i int) bound {
					if i == 0 {
						return bound{Nil: true}
					}
					return bound{B: c.key(i)}
				}
				api := []string{"store", "tree"}[r.Intn(2)]
				kvs, st := be.Iter(in.getHash(id), bnd(lo), bnd(hi), asc, incl, lim, api)
				ev = map[string]any{"ev": "Iter", "root": id, "lo": lo, "hi": hi, "asc": asc, "incl": incl, "lim": lim, "api": api}
				if st != "ok" {
					ev["ret"] = []any{[]any{-1, st}}
				} else {
					ev["ret"] = decPairs(c, kvs)
				}
			}
			emit(ev)
			sum.Steps++
			if len(evs) < 10 {
				evs = append(evs, clipEv(ev))
			}
		}
		be.Close()
		os.RemoveAll(dir)
		sum.Behaviours++
		nt := false
		switch env.Prop {
		case "C04":
			nt = rolled
		case "C02":
			nt = len(known) > 1
		default:
			nt = overwrite && oldRead
		}
		if nt {
			sum.NonTrivial++
		}
		if len(sum.Samples) < 2 {
			sum.Samples = append(sum.Samples, map[string]any{"recorder": "seq", "cfg": cfg.Name, "key_class": class, "trace_prefix": evs})
		}
	}
	return sum, nil
}

func clipEv(ev map[string]any) map[string]any {
	out := map[string]any{}
	for k, v := range ev {
		if l, ok := v.([]any); ok && len(l) > 8 {
			out[k] = append(append([]any{}, l[:8]...), fmt.Sprintf("…(%d)", len(l)))
		} else {
			out[k] = v
		}
	}
	return out
}

func minInt(a, b int) int {
	if a < b {
		return a
	}
	return b
}

func contains(l []int, x int) bool {
	for _, y := range l {
		if y == x {
			return true
		}
	}
	return false
}

func anyKey(r *rand.Rand, m map[int]bool) int {
	ks := make([]int, 0, len(m))
	for k := range m {
		ks = append(ks, k)
	}
	sort.Ints(ks)
	return ks[r.Intn(len(ks))]
}

// ---- concurrent recorder: the store module behind the message bus ------------------------------

type busClient struct {
	g  int
	qc queue.Client
}

const busTimeout = 300 * time.Second

func (b *busClient) call(ty int64, data any) (*queue.Message, error, error) {
	msg := b.qc.NewMessage("store", ty, data)
	if err := b.qc.Send(msg, true); err != nil {
		return nil, nil, fmt.Errorf("send: %v", err)
	}
	resp, err := b.qc.WaitTimeout(msg, busTimeout)
	if err == queue.ErrQueueTimeout || err == queue.ErrIsQueueClosed || err == types.ErrChannelClosed {
		return nil, nil, fmt.Errorf("wait: %v", err)
	}
	return resp, err, nil
}

func recordBus(env *core.Env, emit func(map[string]any)) (*core.Summary, error) {
	sum := &core.Summary{Counters: map[string]int{}}
	n := env.OptInt("n", 2)
	G := env.OptInt("clients", 4)
	nkeys := env.OptInt("keys", 6)
	perClient := env.OptInt("reqs", 30)
	maxb := env.OptInt("maxbatch", 4)
	nh := env.OptInt("heights", 2)
	cfgNames := strings.Split(env.Opt("cfgs", "plain/prefix"), "/")
	// values are private to a client, and the last write of every write list carries a value never
	// used before: different update terms never have equal contents (see Distinct in StateStore.tla)
	K := perClient + 3
	nvals := G * K
	for t := 0; t < n; t++ {
		c := newConc(env.Seed*15485863+int64(t), nkeys, nvals, classes[(t+int(env.Seed))%len(classes)], false)
		cfg, ok := allCfgs[cfgNames[t%len(cfgNames)]]
		if !ok {
			return nil, fmt.Errorf("unknown configuration %q", cfgNames[t%len(cfgNames)])
		}
		dir, err := os.MkdirTemp("", "vh-ss-bus-")
		if err != nil {
			return nil, err
		}
		l := &local{}
		if err := l.Open(dir, cfg); err != nil {
			os.RemoveAll(dir)
			return nil, err
		}
		q := queue.New("channel")
		l.store.SetQueueClient(q.Client())
		in := newInterner()
		emit(map[string]any{"ev": "Reset", "cfg": cfg.Name})
		var mu sync.Mutex
		committed := []int{0} // roots whose commit has ENDED: the only roots read or used as parents
		publish := func(id int) {
			mu.Lock()
			if !contains(committed, id) {
				committed = append(committed, id)
			}
			mu.Unlock()
		}
		pick := func(r *rand.Rand) int {
			mu.Lock()
			defer mu.Unlock()
			if r.Intn(2) == 0 {
				return committed[len(committed)-1-r.Intn(minInt(3, len(committed)))]
			}
			return committed[r.Intn(len(committed))]
		}
		var wg sync.WaitGroup
		errs := make(chan error, G)
		var rolled, overlapped int32
		var evmu sync.Mutex
		var evs []any
		log := func(ev map[string]any) {
			emit(ev)
			evmu.Lock()
			if len(evs) < 14 {
				evs = append(evs, clipEv(ev))
			}
			evmu.Unlock()
		}
		hbase := int64(100 + t)
		for g := 1; g <= G; g++ {
			wg.Add(1)
			go func(g int) {
				defer wg.Done()
				r := rand.New(rand.NewSource(env.Seed*1000 + int64(t)*100 + int64(g)))
				bc := &busClient{g: g, qc: q.Client()}
				own := []int{(g-1)*K + 1, (g-1)*K + 2} // this client's private values: its updates are its own
				fresh := (g-1)*K + 2
				myPending := []int{}
				myKnown := []int{}
				for i := 0; i < perClient; i++ {
					x := r.Intn(100)
					switch {
					case x < 35 || (len(myKnown) == 0 && x < 60): // MemSet or Set
						p := pick(r)
						ws := randBatch(r, nkeys, nvals, maxb, own)
						fresh++
						ws[len(ws)-1][1] = fresh
						h := 1 + r.Intn(nh)
						id := in.term(p, ws)
						direct := r.Intn(4) == 0
						op, ty := "MemSet", int64(types.EventStoreMemSet)
						if direct {
							op, ty = "Set", int64(types.EventStoreSet)
						}
						log(map[string]any{"ev": "Start", "g": g, "op": op, "parent": p, "writes": wsJSON(ws), "height": h, "root": id})
						resp, rerr, herr := bc.call(ty, &types.StoreSetWithSync{Storeset: &types.StoreSet{StateHash: in.getHash(p), KV: toKV(kvsOf(c, ws)), Height: hbase + int64(h)}, Sync: true})
						if herr != nil {
							errs <- herr
							return
						}
						ev := map[string]any{"ev": "End", "g": g, "root": id}
						if rerr != nil {
							ev["ret"] = "err:" + rerr.Error()
						} else {
							hash := resp.GetData().(*types.ReplyHash).GetHash()
							ev["ret"], ev["hash"] = "ok", in.hash(hash)
							in.setHash(id, hash)
							if !contains(myKnown, id) {
								myKnown = append(myKnown, id)
							}
							if !direct {
								myPending = append(myPending, id)
							}
						}
						log(ev)
						if rerr == nil && direct {
							publish(id)
						}
					case x < 55 && len(myKnown) > 0: // Commit (own roots only)
						id := myKnown[r.Intn(len(myKnown))]
						if len(myPending) > 0 && r.Intn(5) > 0 {
							id = myPending[r.Intn(len(myPending))]
						}
						log(map[string]any{"ev": "Start", "g": g, "op": "Commit", "root": id})
						resp, rerr, herr := bc.call(types.EventStoreCommit, &types.ReqHash{Hash: in.getHash(id)})
						if herr != nil {
							errs <- herr
							return
						}
						st := "ok"
						if rerr != nil {
							st = status(rerr)
						} else if h := resp.GetData().(*types.ReplyHash).GetHash(); string(h) != string(in.getHash(id)) {
							st = "err:other hash"
						}
						log(map[string]any{"ev": "End", "g": g, "ret": st})
						if st == "ok" {
							myPending = remove(myPending, id)
							publish(id)
						}
					case x < 65 && len(myKnown) > 0: // Rollback (own roots only)
						id := myKnown[r.Intn(len(myKnown))]
						if len(myPending) > 0 && r.Intn(5) > 0 {
							id = myPending[r.Intn(len(myPending))]
						}
						log(map[string]any{"ev": "Start", "g": g, "op": "Rollback", "root": id})
						_, rerr, herr := bc.call(types.EventStoreRollback, &types.ReqHash{Hash: in.getHash(id)})
						if herr != nil {
							errs <- herr
							return
						}
						st := "ok"
						if rerr != nil {
							st = status(rerr)
						}
						log(map[string]any{"ev": "End", "g": g, "ret": st})
						if st == "ok" {
							myPending = remove(myPending, id)
							mu.Lock()
							rolled++
							mu.Unlock()
						}
					default: // Get at a root whose commit has ended (anybody's)
						id := pick(r)
						nk := 1 + r.Intn(nkeys)
						keys := make([]any, nk)
						kb := make([][]byte, nk)
						for j := range keys {
							k := 1 + r.Intn(nkeys)
							keys[j], kb[j] = k, c.key(k)
						}
						log(map[string]any{"ev": "Start", "g": g, "op": "Get", "root": id, "keys": keys})
						resp, rerr, herr := bc.call(types.EventStoreGet, &types.StoreGet{StateHash: in.getHash(id), Keys: kb})
						if herr != nil {
							errs <- herr
							return
						}
						ev := map[string]any{"ev": "End", "g": g}
						if rerr != nil {
							ev["ret"] = []any{"err:" + rerr.Error()}
						} else {
							vals := resp.GetData().(*types.StoreReplyValue).Values
							res := make([]getRes, len(vals))
							for j, v := range vals {
								res[j] = getRes{V: v, Exists: v != nil}
							}
							ev["ret"] = decRow(c, res, "store")
						}
						log(ev)
						if id != 0 {
							mu.Lock()
							overlapped++
							mu.Unlock()
						}
					}
				}
			}(g)
		}
		wg.Wait()
		l.Close()
		q.Close()
		os.RemoveAll(dir)
		select {
		case e := <-errs:
			return nil, e
		default:
		}
		sum.Behaviours++
		sum.Steps += G * perClient
		if rolled > 0 && overlapped > 0 {
			sum.NonTrivial++
		}
		if len(sum.Samples) < 2 {
			sum.Samples = append(sum.Samples, map[string]any{"recorder": "bus", "cfg": cfg.Name, "clients": G, "trace_prefix": evs})
		}
	}
	return sum, nil
}

func remove(l []int, x int) []int {
	out := l[:0]
	for _, y := range l {
		if y != x {
			out = append(out, y)
		}
	}
	return out
}

var _ = mavlstore.DisableLog
