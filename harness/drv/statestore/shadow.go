package main

// Shadow of the leaf-valued AVL insertion of system/store/mavl/db/node.go, used ONLY to count which
// rebalancing cases the generated histories reach (evidence for C01: LL, LR, RR, RL rotations,
// overwrite without rebalancing). It is not an oracle: nothing is compared against it except the
// (height, size) of the real tree, and a difference there is only counted.

import "bytes"

type sn struct {
	key  []byte
	h, n int
	l, r *sn
}

func (x *sn) bal() int { return x.l.h - x.r.h }

func (x *sn) fix() { x.h, x.n = maxInt(x.l.h, x.r.h)+1, x.l.n+x.r.n }

func maxInt(a, b int) int {
	if a > b {
		return a
	}
	return b
}

func rotR(x *sn) *sn {
	c := *x
	l := *x.l
	c.l = l.r
	l.r = &c
	c.fix()
	l.fix()
	return &l
}

func rotL(x *sn) *sn {
	c := *x
	r := *x.r
	c.r = r.l
	r.l = &c
	c.fix()
	r.fix()
	return &r
}

func shadowSet(x *sn, key []byte, cases map[string]int) (*sn, bool) {
	if x == nil {
		return &sn{key: key, n: 1}, false
	}
	if x.h == 0 {
		switch c := bytes.Compare(key, x.key); {
		case c < 0:
			return &sn{key: x.key, h: 1, n: 2, l: &sn{key: key, n: 1}, r: x}, false
		case c == 0:
			cases["overwrite"]++
			return &sn{key: key, n: 1}, true
		default:
			return &sn{key: key, h: 1, n: 2, l: x, r: &sn{key: key, n: 1}}, false
		}
	}
	c := *x
	var upd bool
	if bytes.Compare(key, x.key) < 0 {
		c.l, upd = shadowSet(x.l, key, cases)
	} else {
		c.r, upd = shadowSet(x.r, key, cases)
	}
	if upd {
		return &c, true
	}
	c.fix()
	switch b := c.bal(); {
	case b > 1 && c.l.bal() >= 0:
		cases["rot_LL"]++
		return rotR(&c), false
	case b > 1:
		cases["rot_LR"]++
		c.l = rotL(c.l)
		return rotR(&c), false
	case b < -1 && c.r.bal() <= 0:
		cases["rot_RR"]++
		return rotL(&c), false
	case b < -1:
		cases["rot_RL"]++
		c.r = rotR(c.r)
		return rotL(&c), false
	}
	return &c, false
}
