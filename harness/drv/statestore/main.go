// Driver for the StateStore family (C01, C02, C04): the real mavl state store
// (system/store/mavl on LevelDB in temp dirs) under one or several storage configurations:
//
//	cfgs   instances inside this (long-lived, shared) replay process. mavl's global node cache
//	       (memTree) is keyed by node hash only; with enableMavlPrefix a root hash does not
//	       determine the keys of its children, so two DATABASES in one process would serve each
//	       other nodes the other does not have. A production process has one store, hence:
//	       only configurations without memTree, or memtree / memtree+val (pure content hashes),
//	       may run here.
//	kcfgs  long-lived child processes, one per replay worker and configuration, each with ONE
//	       database that lives across behaviours (the cache history grows with every behaviour;
//	       pending updates left over by a behaviour are rolled back at its end).
//	ccfgs  fresh child processes, one per behaviour.
//
// Every step of a TLC behaviour is applied to every store instance of the run. The replies
// of all instances must agree with each other and with the specification's prediction:
//   - Set / MemSet: the returned root hash. The specification names roots by the term
//     <<parent, writes>> (an id in the label); the driver binds the concrete term (parent hash,
//     concrete write list) to the returned hash in a table that lives as long as the process
//     (all behaviours, all configurations, all store instances, fresh and long-lived
//     processes) and requires the binding to be a function (C02). Two ids may share a hash
//     only if the specification says their contents are equal (field eq).
//   - chk: after every state-changing step every key is read at EVERY committed root
//     (C01, C04), optionally with the complete iteration table.
//   - Get / Iter / Commit / Rollback / Reopen: the predicted reply.
package main

import (
	"bytes"
	"crypto/sha256"
	"encoding/hex"
	"encoding/json"
	"flag"
	"fmt"
	"os"
	"sort"
	"strings"
	"sync"

	log "github.com/33cn/chain33/common/log/log15"
	"verif/harness/core"
)

var emptyRoot = make([]byte, 32)

// ---- process-wide binding table: concrete term -> root hash ----------------------------

type binding struct {
	hash string
	by   string // instance / behaviour that bound it first
}

var gtable = struct {
	sync.Mutex
	m map[string]binding
}{m: map[string]binding{}}

var gstats = struct {
	sync.Mutex
	m    map[string]int
	path string
}{m: map[string]int{}}

func stat(k string, n int) {
	gstats.Lock()
	gstats.m[k] += n
	gstats.Unlock()
}

func statMax(k string, n int) {
	gstats.Lock()
	if n > gstats.m[k] {
		gstats.m[k] = n
	}
	gstats.Unlock()
}

func flushStats(path string) {
	if path == "" {
		return
	}
	gstats.Lock()
	defer gstats.Unlock()
	b, _ := json.Marshal(gstats.m)
	// one file per replay process; bin/check sums them up
	final := fmt.Sprintf("%s.%d.json", path, os.Getpid())
	tmp := final + ".tmp"
	if os.WriteFile(tmp, b, 0o644) == nil {
		os.Rename(tmp, final)
	}
}

func termKey(parent []byte, kvs []kvb) string {
	h := sha256.New()
	for _, kv := range kvs {
		fmt.Fprintf(h, "%d:%d:", len(kv.K), len(kv.V))
		h.Write(kv.K)
		h.Write(kv.V)
	}
	return hex.EncodeToString(parent) + "|" + fmt.Sprint(len(kvs)) + "|" + hex.EncodeToString(h.Sum(nil)[:12])
}

// ---- driver ----------------------------------------------------------------------------------

type inst struct {
	name string
	cfg  storeCfg
	be   backend
	dir  string
	keep bool              // long-lived: survives the behaviour
	pend map[string][]byte // hashes this behaviour left pending (rolled back at Close for keep instances)
	dead bool
}

type rootInfo struct {
	hash   []byte
	shadow *sn // evidence only (shape=1): which rebalancing cases were reached
}

type drv struct {
	env   *core.Env
	b     *core.Behaviour
	insts []*inst
	c     *conc
	nkeys int
	ids   map[int]*rootInfo
	hbase int64
	step  int
	api   string
	kept  map[string]*inst
	// behaviours already replayed on this worker's long-lived children: a disagreement observed on such a
	// child may depend on them, so they are saved next to the replay file and replayed first by `one`
	hist     []*core.Behaviour
	histFile string
}

// oneShot: the process replays a single saved behaviour (`one`): nothing outlives it
var oneShot bool

func fnv(s string) int64 {
	h := int64(1469598103934665603)
	for _, c := range []byte(s) {
		h ^= int64(c)
		h *= 1099511628211
	}
	if h < 0 {
		h = -h
	}
	return h
}

func scanSizes(b *core.Behaviour) (nk, nv int) {
	up := func(k, v int) {
		if k > nk {
			nk = k
		}
		if v > nv {
			nv = v
		}
	}
	for _, s := range b.Steps {
		for _, w := range s.List("writes") {
			if p, ok := w.([]any); ok && len(p) == 2 {
				up(core.ToInt(p[0]), core.ToInt(p[1]))
			}
		}
		up(s.Int("key"), 0)
		up(s.Int("lo"), 0)
		up(s.Int("hi"), 0)
		if c, ok := s["chk"].([]any); ok {
			for _, e := range c {
				if m, ok := e.(map[string]any); ok {
					if row, ok := m["row"].([]any); ok {
						up(len(row), 0)
						for _, v := range row {
							up(0, core.ToInt(v))
						}
					}
				}
			}
		}
	}
	if m := b.Meta; m != nil {
		up(core.ToInt(m["nkeys"]), core.ToInt(m["nvals"]))
	}
	return
}

var classes = []string{"curated", "random", "prefix", "ticket"}

func (d *drv) Reset(env *core.Env, b *core.Behaviour) error {
	if hf, _ := b.Meta["kept_history"].(string); oneShot && hf != "" && d.histFile == "" {
		// rebuild the history of the long-lived children this behaviour was observed on
		d.histFile = hf
		if hb, err := core.ReadBehaviours(hf); err == nil {
			oneShot = false
			for _, x := range hb {
				if err := d.Reset(env, x); err == nil {
					for _, s := range x.Steps {
						if _, _, err := d.Apply(s); err != nil {
							break
						}
					}
				}
				d.Close()
			}
			oneShot = true
		}
	}
	d.env, d.b = env, b
	d.ids = map[int]*rootInfo{0: {hash: emptyRoot}}
	d.step = 0
	d.api = env.Opt("api", "mix")
	nk, nv := scanSizes(b)
	if nk < 1 {
		nk = 1
	}
	if nv < 1 {
		nv = 1
	}
	d.nkeys = nk
	salt := int64(env.OptInt("salt", 0))
	// a small number of concretisation variants per run, so that different behaviours recompute
	// the same concrete terms (C02: the binding table is shared by the whole process)
	variants := int64(env.OptInt("variants", 3))
	variant := fnv(b.ID) % variants
	class := env.Opt("class", "")
	if class == "" {
		class = classes[(salt+variant)%int64(len(classes))]
	}
	d.c = newConc(env.Seed*1000003+salt*7919+variant, nk, nv, class, env.Opt("emptyval", "1") != "0", env.Opt("emptyval", "1") == "2")
	d.hbase = 1 + (env.Seed*31+salt*17+variant*5)%4000
	if b.Meta == nil {
		b.Meta = map[string]any{}
	}
	b.Meta["concretisation"] = d.c.table()
	b.Meta["height_base"] = d.hbase
	// instances
	d.insts = nil
	mk := func(names string, childProc bool) error {
		for _, n := range strings.Split(names, "/") {
			if n == "" {
				continue
			}
			cfg, ok := allCfgs[n]
			if !ok {
				return fmt.Errorf("unknown configuration %q", n)
			}
			dir, err := os.MkdirTemp("", "vh-ss-")
			if err != nil {
				return err
			}
			in := &inst{name: n + map[bool]string{false: "@local", true: "@child"}[childProc], cfg: cfg, dir: dir, pend: map[string][]byte{}}
			if childProc {
				in.be = &child{}
			} else {
				in.be = &local{}
			}
			d.insts = append(d.insts, in)
			if err := in.be.Open(dir, cfg); err != nil {
				return err
			}
		}
		return nil
	}
	// long-lived children: one database per worker and configuration for the whole run
	for _, n := range strings.Split(env.Opt("kcfgs", ""), "/") {
		if n == "" {
			continue
		}
		if d.kept == nil {
			d.kept = map[string]*inst{}
		}
		in := d.kept[n]
		if in == nil {
			cfg, ok := allCfgs[n]
			if !ok {
				return fmt.Errorf("unknown configuration %q", n)
			}
			base := env.Opt("keepdir", "")
			if base != "" {
				os.MkdirAll(base, 0o755)
			}
			dir, err := os.MkdirTemp(base, "vh-ss-keep-")
			if err != nil {
				return err
			}
			in = &inst{name: n + "@kept", cfg: cfg, dir: dir, keep: true, be: &child{}}
			if err := in.be.Open(dir, cfg); err != nil {
				return err
			}
			d.kept[n] = in
			stat("kept_children_started", 1)
		}
		in.pend = map[string][]byte{}
		d.insts = append(d.insts, in)
	}
	if err := mk(env.Opt("cfgs", "plain"), false); err != nil {
		return err
	}
	if err := mk(env.Opt("ccfgs", ""), true); err != nil {
		return err
	}
	if len(d.insts) == 0 {
		return fmt.Errorf("no store instance configured")
	}
	var names []string
	for _, in := range d.insts {
		names = append(names, in.name)
	}
	b.Meta["instances"] = names
	return nil
}

func (d *drv) Close() {
	for _, in := range d.insts {
		if in.keep && !in.dead && !oneShot {
			// the next behaviour starts without pending updates
			for _, h := range in.pend {
				if st := in.be.Rollback(h); strings.HasPrefix(st, "crash:") {
					in.dead = true
				}
			}
			if !in.dead {
				stat("kept_behaviours", 1)
				continue
			}
		}
		if in.keep {
			for n, k := range d.kept {
				if k == in {
					delete(d.kept, n)
				}
			}
		}
		if in.be != nil {
			in.be.Close()
		}
		if in.dir != "" {
			os.RemoveAll(in.dir)
		}
	}
	d.insts = nil
	if d.env != nil {
		flushStats(d.env.Opt("stats", ""))
		if d.env.Opt("kcfgs", "") != "" && d.b != nil && !oneShot {
			d.hist = append(d.hist, d.b)
		}
	}
}

// saveHistory writes the behaviours replayed so far on this worker's long-lived children and names
// the file in the behaviour's meta data (which the replay file carries).
func (d *drv) saveHistory() {
	dir := d.env.Opt("histdir", "")
	if dir == "" || len(d.hist) == 0 || d.env.Opt("kcfgs", "") == "" {
		return
	}
	os.MkdirAll(dir, 0o755)
	p := fmt.Sprintf("%s/%s-statestore-%d-history-%x.ndjson", dir, d.env.Prop, d.env.Seed, fnv(d.b.ID)&0xffffff)
	f, err := os.Create(p)
	if err != nil {
		return
	}
	defer f.Close()
	for _, hb := range d.hist {
		c := *hb
		c.Meta = nil
		bb, _ := json.Marshal(&c)
		f.Write(append(bb, '\n'))
	}
	d.b.Meta["kept_history"] = p
}

// merge: all instances must have observed the same thing
func merge(obs map[string]any) any {
	var first any
	var fj string
	same := true
	names := make([]string, 0, len(obs))
	for n := range obs {
		names = append(names, n)
	}
	sort.Strings(names)
	for i, n := range names {
		j := core.J(obs[n])
		if i == 0 {
			first, fj = obs[n], j
		} else if j != fj {
			same = false
		}
	}
	if same {
		return first
	}
	out := map[string]any{}
	for _, n := range names {
		out[n] = obs[n]
	}
	return map[string]any{"diverge": out}
}

func (d *drv) kvs(s core.Step) []kvb {
	var out []kvb
	for _, w := range s.List("writes") {
		p := w.([]any)
		out = append(out, kvb{K: d.c.key(core.ToInt(p[0])), V: d.c.val(core.ToInt(p[1]))})
	}
	return out
}

func (d *drv) apiFor(i int) string {
	switch d.api {
	case "store", "tree":
		return d.api
	}
	if (d.step+i)%2 == 0 {
		return "store"
	}
	return "tree"
}

// decode an observed value into the model value (0 = absent). want is the model's prediction,
// used only to resolve what the store-level Get cannot tell apart: absent / empty value.
func (d *drv) decVal(r getRes, api string, want any) any {
	if !r.Exists {
		if api == "store" && d.c.emptyV != 0 && core.ToInt(want) == d.c.emptyV {
			if _, isNum := want.(float64); isNum {
				return d.c.emptyV
			}
		}
		return 0
	}
	if j, ok := d.c.vidx[string(r.V)]; ok {
		return j
	}
	return "garbage:" + clipHex(r.V)
}

func clipHex(b []byte) string {
	s := hex.EncodeToString(b)
	if len(s) > 40 {
		s = s[:40] + "…"
	}
	return s
}

func (d *drv) decKVs(kvs []kvb) any {
	out := []any{}
	for _, kv := range kvs {
		var k, v any
		if i, ok := d.c.kidx[string(kv.K)]; ok {
			k = i
		} else {
			k = "unknown-key:" + clipHex(kv.K)
		}
		if j, ok := d.c.vidx[string(kv.V)]; ok {
			v = j
		} else {
			v = "garbage:" + clipHex(kv.V)
		}
		out = append(out, []any{k, v})
	}
	return out
}

func (d *drv) bound(i int) bound {
	if i == 0 {
		return bound{Nil: true}
	}
	return bound{B: d.c.key(i)}
}

func (d *drv) readRow(in *inst, root []byte, api string, want []any) any {
	keys := make([][]byte, d.nkeys)
	for i := range keys {
		keys[i] = d.c.key(i + 1)
	}
	res, st := in.be.Get(root, keys, api)
	if st != "ok" {
		return st
	}
	row := make([]any, len(res))
	for i, r := range res {
		var w any
		if i < len(want) {
			w = want[i]
		}
		row[i] = d.decVal(r, api, w)
	}
	return row
}

func (d *drv) iterTable(in *inst, root []byte, api string) any {
	tab := map[string]any{}
	for lo := 0; lo <= d.nkeys; lo++ {
		rowm := map[string]any{}
		for hi := 0; hi <= d.nkeys; hi++ {
			var four []any
			for _, m := range [][2]bool{{true, false}, {false, false}, {true, true}, {false, true}} {
				kvs, st := in.be.Iter(root, d.bound(lo), d.bound(hi), m[0], m[1], 0, api)
				if st != "ok" {
					four = append(four, st)
				} else {
					four = append(four, d.decKVs(kvs))
				}
			}
			rowm[fmt.Sprint(hi)] = four
		}
		tab[fmt.Sprint(lo)] = rowm
	}
	return tab
}

// observe the projection named by the expected chk: rows of all committed roots
func (d *drv) project(s core.Step) (any, error) {
	exp, ok := s["chk"].([]any)
	if !ok {
		return nil, nil
	}
	obs := map[string]any{}
	for ii, in := range d.insts {
		if in.cfg.MVCC {
			continue // values are not kept in the tree under MVCC: reads are not compared
		}
		api := d.apiFor(ii)
		var out []any
		for _, e := range exp {
			m, ok := e.(map[string]any)
			if !ok {
				return nil, fmt.Errorf("bad chk entry %v", e)
			}
			id := core.ToInt(m["id"])
			ri := d.ids[id]
			if ri == nil {
				return nil, fmt.Errorf("chk names root id %d that no step created", id)
			}
			want, _ := m["row"].([]any)
			o := map[string]any{"id": id, "row": d.readRow(in, ri.hash, api, want)}
			if _, has := m["it"]; has {
				o["it"] = d.iterTable(in, ri.hash, api)
			}
			out = append(out, o)
		}
		obs[in.name] = out
	}
	if len(obs) == 0 {
		return nil, nil
	}
	stat("rows_read", len(exp)*len(obs))
	return merge(obs), nil
}

func (d *drv) Apply(s core.Step) (any, any, error) {
	d.step++
	var ret any
	switch s.Op() {
	case "Set", "MemSet":
		pi := d.ids[s.Int("parent")]
		if pi == nil {
			return nil, nil, fmt.Errorf("unknown parent id %d", s.Int("parent"))
		}
		kvs := d.kvs(s)
		height := d.c.height(s.Int("height"), d.hbase)
		obs := map[string]any{}
		var hash []byte
		for _, in := range d.insts {
			var h []byte
			var st string
			if s.Op() == "Set" {
				h, st = in.be.Set(pi.hash, kvs, height)
			} else {
				h, st = in.be.MemSet(pi.hash, kvs, height)
			}
			if st != "ok" {
				obs[in.name] = st
				in.dead = in.dead || strings.HasPrefix(st, "crash:")
			} else {
				obs[in.name] = hex.EncodeToString(h)
				hash = h
				if s.Op() == "MemSet" {
					in.pend[string(h)] = h
				}
			}
		}
		m := merge(obs)
		hs, isStr := m.(string)
		if !isStr || hash == nil || hs != hex.EncodeToString(hash) {
			ret = m // divergence between instances, or an error status
			break
		}
		id := s.Int("ret")
		// C02: the concrete term determines the hash, for the whole life of this process
		tk := termKey(pi.hash, kvs)
		gtable.Lock()
		prev, bound := gtable.m[tk]
		if !bound {
			gtable.m[tk] = binding{hash: hs, by: d.b.ID}
		}
		gtable.Unlock()
		if bound {
			stat("terms_recomputed", 1)
			if prev.hash != hs {
				ret = map[string]any{"root-differs": map[string]any{"term": tk, "first": prev.hash, "first_by": prev.by, "now": hs}}
				break
			}
		} else {
			stat("terms_bound", 1)
		}
		if old := d.ids[id]; old != nil && !bytes.Equal(old.hash, hash) {
			ret = map[string]any{"root-differs": map[string]any{"id": id, "first": hex.EncodeToString(old.hash), "now": hs}}
			break
		}
		// two ids with one hash: only if the specification says the contents are equal
		eq := map[int]bool{}
		for _, x := range s.Ints("eq") {
			eq[x] = true
		}
		coll := -1
		for oid, o := range d.ids {
			if oid != id && bytes.Equal(o.hash, hash) && !eq[oid] {
				coll = oid
			}
		}
		if coll >= 0 {
			ret = map[string]any{"collision": map[string]any{"id": id, "other": coll, "hash": hs}}
			break
		}
		ri := &rootInfo{hash: hash}
		d.ids[id] = ri
		if d.env.Opt("shape", "") == "1" {
			cases := map[string]int{}
			sh := pi.shadow
			for _, kv := range kvs {
				sh, _ = shadowSet(sh, kv.K, cases)
			}
			ri.shadow = sh
			for k, n := range cases {
				stat(k, n)
			}
			if h, n, st := d.insts[0].be.Shape(hash); st == "ok" && sh != nil {
				statMax("max_tree_height", h)
				statMax("max_tree_size", n)
				if h != sh.h || n != sh.n {
					stat("shadow_shape_differs", 1)
				}
			}
		}
		ret = id
	case "Commit", "Rollback":
		ri := d.ids[s.Int("root")]
		if ri == nil {
			return nil, nil, fmt.Errorf("unknown root id %d", s.Int("root"))
		}
		obs := map[string]any{}
		for _, in := range d.insts {
			var st string
			if s.Op() == "Commit" {
				st = in.be.Commit(ri.hash)
			} else {
				st = in.be.Rollback(ri.hash)
			}
			if st == "ok" {
				delete(in.pend, string(ri.hash))
			}
			in.dead = in.dead || strings.HasPrefix(st, "crash:")
			obs[in.name] = st
		}
		ret = merge(obs)
	case "Reopen":
		kill := d.env.Opt("restart", "close") == "kill"
		for _, in := range d.insts {
			if err := in.be.Reopen(kill); err != nil {
				in.dead = true
				return nil, nil, fmt.Errorf("reopen %s: %v", in.name, err)
			}
			in.pend = map[string][]byte{}
		}
		stat("reopens", len(d.insts))
		ret = "ok"
	case "Get":
		ri := d.ids[s.Int("root")]
		if ri == nil {
			return nil, nil, fmt.Errorf("unknown root id %d", s.Int("root"))
		}
		obs := map[string]any{}
		for ii, in := range d.insts {
			if in.cfg.MVCC {
				continue
			}
			api := d.apiFor(ii)
			res, st := in.be.Get(ri.hash, [][]byte{d.c.key(s.Int("key"))}, api)
			if st != "ok" {
				obs[in.name] = st
			} else {
				obs[in.name] = d.decVal(res[0], api, s["ret"])
			}
		}
		if len(obs) == 0 {
			return s["ret"], nil, nil
		}
		ret = merge(obs)
	case "Iter":
		ri := d.ids[s.Int("root")]
		if ri == nil {
			return nil, nil, fmt.Errorf("unknown root id %d", s.Int("root"))
		}
		obs := map[string]any{}
		for ii, in := range d.insts {
			if in.cfg.MVCC {
				continue
			}
			kvs, st := in.be.Iter(ri.hash, d.bound(s.Int("lo")), d.bound(s.Int("hi")), s.Bool("asc"), s.Bool("incl"), s.Int("lim"), d.apiFor(ii))
			if st != "ok" {
				obs[in.name] = st
			} else {
				obs[in.name] = d.decKVs(kvs)
			}
		}
		if len(obs) == 0 {
			return s["ret"], nil, nil
		}
		stat("iterations", len(obs))
		ret = merge(obs)
	default:
		return nil, nil, fmt.Errorf("unknown op %q", s.Op())
	}
	// a reply that already disagrees is reported as such; the projection is only meaningful (and only
	// well-defined: a refused update creates no root to read) when the reply agrees
	if exp, ok := s["ret"]; ok && !core.Match(exp, core.Norm(ret)) {
		d.saveHistory()
		return ret, nil, nil
	}
	chk, err := d.project(s)
	if err != nil {
		return nil, nil, err
	}
	if exp, ok := s["chk"]; ok && chk != nil && !core.Match(exp, core.Norm(chk)) {
		d.saveHistory()
	}
	return ret, chk, nil
}

// ---- classification ----------------------------------------------------------------------------

func nInst(env *core.Env) int {
	n := 0
	for _, l := range []string{env.Opt("cfgs", "plain"), env.Opt("ccfgs", ""), env.Opt("kcfgs", "")} {
		for _, x := range strings.Split(l, "/") {
			if x != "" {
				n++
			}
		}
	}
	return n
}

// committedNonEmpty: number of committed roots other than the empty root in the step's projection
func committedNonEmpty(s core.Step) int {
	c, _ := s["chk"].([]any)
	n := 0
	for _, e := range c {
		if m, ok := e.(map[string]any); ok && core.ToInt(m["id"]) != 0 {
			n++
		}
	}
	return n
}

// NonTrivial implements the per-property rules of DESIGN §4 "Evidence".
func (d *drv) NonTrivial(env *core.Env, b *core.Behaviour) bool {
	switch env.Prop {
	case "C01":
		// an overwrite (a key written again, in the same or a later batch) and a read at a
		// committed root that is not the newest one
		written := map[int]bool{}
		over, old := false, false
		for _, s := range b.Steps {
			for _, w := range s.List("writes") {
				k := core.ToInt(w.([]any)[0])
				if written[k] {
					over = true
				}
				written[k] = true
			}
			if committedNonEmpty(s) >= 2 {
				old = true
			}
		}
		return over && old
	case "C02":
		// the update is computed under >= 2 configurations / processes and either some root is
		// computed more than once, or an unrelated pending update / rollback precedes an update
		if nInst(env) < 2 {
			return false
		}
		seen := map[int]int{}
		noise, after := false, false
		for _, s := range b.Steps {
			switch s.Op() {
			case "Set", "MemSet":
				if noise {
					after = true
				}
				seen[s.Int("ret")]++
				if s.Op() == "MemSet" {
					noise = true
				}
			case "Rollback":
				noise = true
			}
		}
		for _, n := range seen {
			if n >= 2 {
				return true
			}
		}
		return after
	case "C04":
		// a rollback, or a pending update that is never committed, followed by a read at a
		// committed (non-empty) root
		pend := map[int]bool{}
		leak := false
		for i, s := range b.Steps {
			switch s.Op() {
			case "MemSet":
				pend[s.Int("ret")] = true
			case "Commit":
				if s.Str("ret") == "ok" {
					delete(pend, s.Int("root"))
				}
			case "Rollback":
				if s.Str("ret") == "ok" {
					leak = true
				}
			case "Reopen":
				if len(pend) > 0 {
					leak = true
				}
				pend = map[int]bool{}
			}
			if i == len(b.Steps)-1 && len(pend) > 0 {
				leak = true
			}
			if (leak || len(pend) > 0) && committedNonEmpty(s) >= 1 && s.Op() != "MemSet" {
				return true
			}
		}
		return false
	}
	return true
}

// ---- signatures ----------------------------------------------------------------------------------

func classOf(v any) string {
	switch x := v.(type) {
	case map[string]any:
		for _, k := range []string{"diverge", "root-differs", "collision"} {
			if inner, ok := x[k]; ok {
				if k == "diverge" {
					// which instances disagree with the majority
					if m, ok := inner.(map[string]any); ok {
						cnt := map[string][]string{}
						for n, o := range m {
							cnt[core.J(o)] = append(cnt[core.J(o)], n)
						}
						best := ""
						for j, ns := range cnt {
							if best == "" || len(ns) > len(cnt[best]) || (len(ns) == len(cnt[best]) && j < best) {
								best = j
							}
						}
						var odd []string
						for j, ns := range cnt {
							if j != best {
								odd = append(odd, ns...)
							}
						}
						sort.Strings(odd)
						return "diverge(" + strings.Join(odd, ",") + ")"
					}
				}
				return k
			}
		}
		return "object"
	case string:
		if i := strings.Index(x, ":"); i > 0 {
			if strings.HasPrefix(x, "err:") {
				return clipS(x, 48)
			}
			return x[:i]
		}
		return x
	case float64:
		if x == 0 {
			return "none"
		}
		return "val"
	case []any:
		return fmt.Sprintf("list%d", len(x))
	case nil:
		return "nil"
	}
	return fmt.Sprintf("%T", v)
}

func clipS(s string, n int) string {
	if len(s) > n {
		return s[:n]
	}
	return s
}

// first differing cell of the read table
func chkDiff(exp, obs any) string {
	e, _ := exp.([]any)
	o, ok := obs.([]any)
	if !ok {
		return classOf(obs)
	}
	for i := range e {
		if i >= len(o) {
			return "short"
		}
		em, _ := e[i].(map[string]any)
		om, _ := o[i].(map[string]any)
		er, _ := em["row"].([]any)
		or, isRow := om["row"].([]any)
		if !isRow {
			return "row=" + classOf(om["row"])
		}
		for k := range er {
			if k >= len(or) || !core.Match(er[k], or[k]) {
				var ov any
				if k < len(or) {
					ov = or[k]
				}
				newest := "old-root"
				if i == len(e)-1 {
					newest = "newest-root"
				}
				return fmt.Sprintf("read|%s|exp=%s|got=%s", newest, classOf(er[k]), classOf(ov))
			}
		}
		if ei, has := em["it"]; has && !core.Match(ei, om["it"]) {
			return "iter-table"
		}
	}
	return "other"
}

// Signature: op | field | expected class | observed class (with the instances that deviate).
func (d *drv) Signature(b *core.Behaviour, idx int, field string, exp, obs any) string {
	op := "?"
	if idx >= 0 && idx < len(b.Steps) {
		op = b.Steps[idx].Op()
	}
	if field == "chk" {
		if m, ok := obs.(map[string]any); ok {
			if _, dv := m["diverge"]; dv {
				return fmt.Sprintf("%s|chk|%s", op, classOf(obs))
			}
		}
		return fmt.Sprintf("%s|chk|%s", op, chkDiff(exp, obs))
	}
	if field == "panic" {
		return fmt.Sprintf("%s|panic|%s", op, clipS(fmt.Sprint(obs), 60))
	}
	return fmt.Sprintf("%s|%s|exp=%s|got=%s", op, field, classOf(exp), classOf(obs))
}

func main() {
	log.Root().SetHandler(log.DiscardHandler())
	if len(os.Args) > 1 && os.Args[1] == "child" {
		os.Exit(childMain())
	}
	oneShot = len(os.Args) > 1 && os.Args[1] == "one"
	if len(os.Args) > 1 && os.Args[1] == "busworker" {
		fs := flag.NewFlagSet("busworker", flag.ExitOnError)
		out := fs.String("out", "", "events file")
		prop := fs.String("prop", "", "property")
		seed := fs.Int64("seed", 1, "seed")
		opt := fs.String("opt", "", "k=v,k=v")
		fs.Parse(os.Args[2:])
		env := &core.Env{Prop: *prop, Seed: *seed, Opts: map[string]string{}}
		for _, kv := range strings.Split(*opt, ",") {
			if p := strings.SplitN(kv, "=", 2); len(p) == 2 {
				env.Opts[p[0]] = p[1]
			}
		}
		os.Exit(busWorkerMain(*out, env))
	}
	core.Main(&core.Family{
		Name:      "statestore",
		NewDriver: func() core.Driver { return &drv{} },
		Recorders: map[string]core.Recorder{"seq": recordSeq, "bus": recordBus},
	})
}
