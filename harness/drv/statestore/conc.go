package main

// Concretisation: model keys 1..n -> byte strings that are strictly increasing under
// bytes.Compare (the only relation the specification relies on) and otherwise hostile:
// the empty key, binary keys, long shared prefixes, 0x00 / 0xff runs, keys that look like the
// store's own record prefixes, ticket keys (special-cased by the in-memory node cache).
// Model values 1..m -> distinct byte strings (1 .. 300 bytes, optionally the empty value,
// closed-ticket records). Model heights -> increasing concrete block heights.

import (
	"bytes"
	"encoding/hex"
	"fmt"
	"math/rand"
	"sort"

	"github.com/33cn/chain33/system/store/mavl/db/ticket"
	"github.com/33cn/chain33/types"
)

var curatedKeys = [][]byte{
	{}, {0}, {0, 0}, {0, 1}, {0, 0xff}, {1},
	[]byte("a"), []byte("a\x00"), []byte("a\x00b"), []byte("aa"), []byte("ab"), []byte("a\xff"), []byte("a\xff\xff"), []byte("b"),
	[]byte("mavl-coins-bty-1JRNjdEqp4LJ5fqycUBm9ayCKSeeskgMKR"),
	[]byte("mavl-coins-bty-1JRNjdEqp4LJ5fqycUBm9ayCKSeeskgMKS"),
	[]byte("mavl-coins-bty-exec-16htvcBNSEA7fZhAdLJphDwQRQJaHpyHTp:1JRNjdEqp4LJ5fqycUBm9ayCKSeeskgMKR"),
	[]byte("mavl-coins-bty-exec-16htvcBNSEA7fZhAdLJphDwQRQJaHpyHTp:"),
	[]byte("mavl-coins-bty-"), []byte("mavl-coins-bty"), []byte("mavl-"), []byte("mavl"),
	[]byte("mavl-ticket-"), []byte("mavl-ticket-0"), []byte("mavl-ticket-1"), []byte("mavl-ticket-1:x"), []byte("mavl-ticket."),
	[]byte("_mh_"), []byte("_mb_"), []byte("_mb_-0000000001-"), []byte("_mh_-0000000001-"), []byte("..mk.."), []byte("..mok.."),
	[]byte("_mrhp_0000000001"), []byte("_..mcmbh.._"), []byte("_..mslphk.._"),
	{0xff}, {0xff, 0}, {0xff, 0xff}, {0xff, 0xff, 0xff}, {0xfe}, {0xfe, 0xff},
	bytes.Repeat([]byte{0}, 32), bytes.Repeat([]byte{0xff}, 32), bytes.Repeat([]byte("k"), 300),
	append(bytes.Repeat([]byte("k"), 299), 'l'), bytes.Repeat([]byte("k"), 299),
}

type conc struct {
	keys    [][]byte       // model key i -> keys[i-1]
	vals    [][]byte       // model value j -> vals[j-1]
	kidx    map[string]int // bytes -> model key
	vidx    map[string]int // bytes -> model value
	emptyV  int            // model value concretised to the empty byte string (0 = none)
	heights map[int]int64
	class   string
}

func closedTicket(r *rand.Rand) []byte {
	return types.Encode(&ticket.Ticket{TicketId: fmt.Sprintf("t%d", r.Int63()), MinerAddress: "m", Status: ticket.StatusCloseTicket, CreateTime: r.Int63()})
}

func openTicket(r *rand.Rand) []byte {
	return types.Encode(&ticket.Ticket{TicketId: fmt.Sprintf("t%d", r.Int63()), MinerAddress: "m", Status: 1, CreateTime: r.Int63()})
}

// newConc builds the tables. class selects the flavour of the key pool:
//
//	"curated"  keys from the curated list only (as many as fit), then random
//	"prefix"   random keys over a tiny alphabet (maximal prefix sharing)
//	"ticket"   keys under the ticket prefix, values are ticket records (closed and open)
//	"random"   random binary keys of 1..40 bytes
func newConc(seed int64, nkeys, nvals int, class string, emptyVal bool, force ...bool) *conc {
	r := rand.New(rand.NewSource(seed))
	c := &conc{kidx: map[string]int{}, vidx: map[string]int{}, heights: map[int]int64{}, class: class}
	set := map[string]bool{}
	add := func(k []byte) {
		if len(set) < nkeys && !set[string(k)] {
			set[string(k)] = true
		}
	}
	alpha := []byte{0x00, 0x01, 'a', 'b', '-', '.', 0xfe, 0xff}
	rnd := func() []byte {
		switch class {
		case "prefix":
			n := 1 + r.Intn(6)
			k := make([]byte, n)
			for i := range k {
				k[i] = alpha[r.Intn(3)*3%len(alpha)]
				if r.Intn(2) == 0 {
					k[i] = alpha[r.Intn(len(alpha))]
				}
			}
			return k
		case "ticket":
			k := append([]byte{}, ticket.TicketPrefix...)
			n := 1 + r.Intn(5)
			for i := 0; i < n; i++ {
				k = append(k, alpha[r.Intn(len(alpha))])
			}
			if r.Intn(4) == 0 {
				return k[:len(ticket.TicketPrefix)-1+r.Intn(3)]
			}
			return k
		default:
			n := 1 + r.Intn(40)
			k := make([]byte, n)
			r.Read(k)
			if r.Intn(3) == 0 { // share a prefix with an existing key
				for s := range set {
					p := []byte(s)
					if len(p) > 0 {
						k = append(append([]byte{}, p[:1+r.Intn(len(p))]...), k[:r.Intn(minInt(4, len(k)+1))]...)
					}
					break
				}
			}
			return k
		}
	}
	if class == "curated" {
		for _, i := range r.Perm(len(curatedKeys)) {
			add(curatedKeys[i])
		}
	} else if r.Intn(2) == 0 {
		add([]byte{}) // the empty key takes part in half of the other tables as well
	}
	for guard := 0; len(set) < nkeys && guard < 100000; guard++ {
		add(rnd())
	}
	for i := 0; len(set) < nkeys; i++ {
		add([]byte(fmt.Sprintf("fill-%06d", i)))
	}
	for k := range set {
		c.keys = append(c.keys, []byte(k))
	}
	sort.Slice(c.keys, func(i, j int) bool { return bytes.Compare(c.keys[i], c.keys[j]) < 0 })
	for i, k := range c.keys {
		c.kidx[string(k)] = i + 1
	}
	// values
	for j := 1; j <= nvals; j++ {
		var v []byte
		for {
			switch x := r.Intn(8); {
			case class == "ticket" && x < 4:
				v = closedTicket(r)
			case class == "ticket":
				v = openTicket(r)
			case x == 0:
				v = []byte{byte(r.Intn(256))}
			case x == 1:
				v = make([]byte, 300)
				r.Read(v)
			case x == 2:
				v = []byte(fmt.Sprintf("v%d", j))
			default:
				v = make([]byte, 20+r.Intn(60))
				r.Read(v)
			}
			if _, dup := c.vidx[string(v)]; !dup && len(v) > 0 {
				break
			}
		}
		c.vals = append(c.vals, v)
		c.vidx[string(v)] = j
	}
	// one model value is the empty byte string: in half of the tables, or always (force: C02 wants an
	// overwrite with the empty value under every configuration in every run)
	if emptyVal && nvals >= 2 && (r.Intn(2) == 0 || (len(force) > 0 && force[0])) {
		j := 1 + r.Intn(nvals)
		delete(c.vidx, string(c.vals[j-1]))
		c.vals[j-1] = []byte{}
		c.vidx[""] = j
		c.emptyV = j
	}
	return c
}

func (c *conc) key(i int) []byte { return c.keys[i-1] }
func (c *conc) val(j int) []byte { return c.vals[j-1] }

// height maps a model height to a concrete block height (increasing in the model height).
func (c *conc) height(h int, base int64) int64 {
	return base + int64(h)
}

func (c *conc) table() map[string]any {
	ks := map[string]string{}
	for i, k := range c.keys {
		if i < 40 {
			ks[fmt.Sprint(i+1)] = hex.EncodeToString(k)
		}
	}
	vs := map[string]string{}
	for j, v := range c.vals {
		s := hex.EncodeToString(v)
		if len(s) > 48 {
			s = s[:48] + fmt.Sprintf("…(%d bytes)", len(v))
		}
		vs[fmt.Sprint(j+1)] = s
	}
	return map[string]any{"class": c.class, "keys": ks, "vals": vs}
}
