package main

import (
	"fmt"

	"verif/harness/core"
)

func recordConcurrent(env *core.Env, emit func(map[string]any)) (*core.Summary, error) {
	return nil, fmt.Errorf("not built yet")
}
