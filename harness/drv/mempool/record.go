package main

// Concurrent leg of C21: several goroutines drive the real pool on the bare rig; the verif hook
// (system/mempool verifEvent, called under proxyMtx after each mutation) yields the linearised
// mutation order together with a snapshot of every internal index.  Each event is written in
// abstract form and validated by spec/Mempool/Mempool_Trace.tla.

import (
	"fmt"
	"math/rand"
	"sort"
	"sync"
	"sync/atomic"
	"time"

	sysmem "github.com/33cn/chain33/system/mempool"
	"github.com/33cn/chain33/types"
	"verif/harness/core"
)

// traceTab is the entry universe of the recorded runs: three plain senders, one eth sender,
// two groups, expiry by height / block time.
func traceTab() ([]*entry, []string) {
	var tab []*entry
	snd := []string{"A", "B", "C"}
	for i := 0; i < 9; i++ {
		e := &entry{S: snd[i%3], Ms: []string{}, Fee: int64(1 + i%4), Xk: "n"}
		switch i {
		case 1:
			e.Xk, e.Xv = "h", 2
		case 2:
			e.Xk, e.Xv = "t", 0
		case 5:
			e.Xk, e.Xv = "h", 3
		case 6:
			e.Xk, e.Xv = "t", 1
		case 3:
			e.Grp, e.Ms, e.Fee = 2, []string{"B"}, 4
		case 7:
			e.Grp, e.Ms, e.Fee = 3, []string{"A", "C"}, 6
		}
		tab = append(tab, e)
	}
	for n := int64(0); n < 3; n++ {
		tab = append(tab, &entry{S: "X", Ms: []string{}, Fee: 2 + n, Xk: "n", Eth: true, Nonce: n})
	}
	return tab, []string{"A", "B", "C", "X"}
}

func recordConcurrent(env *core.Env, emit func(map[string]any)) (*core.Summary, error) {
	sum := &core.Summary{Counters: map[string]int{}}
	n := env.OptInt("n", 4)
	workers := env.OptInt("workers", 6)
	opsPer := env.OptInt("ops", 40)
	phases := env.OptInt("phases", 3)
	pc := poolCfg{Cap: env.OptInt("cap", 4), PerSender: env.OptInt("persender", 2), MaxLast: env.OptInt("maxlast", 3)}
	tabList, senders := traceTab()
	tab := map[int]*entry{}
	for i, e := range tabList {
		tab[i+1] = e
	}
	emit(map[string]any{"ev": "Conf", "tab": tabList, "senders": senders, "cap": pc.Cap, "persender": pc.PerSender, "maxlast": pc.MaxLast})
	for t := 0; t < n; t++ {
		types.VerifSetTimeShift(0)
		start := time.Now()
		t0 := start.Unix()
		r, err := newBare(pc, t0)
		if err != nil {
			return nil, err
		}
		c, err := newConc(tab, senders, r.ChainID(), t0, 0, env.Seed*7919+int64(t), "")
		if err != nil {
			r.Close()
			return nil, err
		}
		memberOf := map[string]int{}
		for id, ms := range c.members {
			for _, m := range ms {
				memberOf[string(m.Hash())] = id
			}
		}
		emit(map[string]any{"ev": "Reset"})
		var failedPush, absentRm, swept int64
		var hookErr atomic.Value
		var prefix []any
		var pmu sync.Mutex
		// unknown hashes become -1 (the trace specification then has no matching step)
		idOfH := func(h []byte) int {
			if id, ok := c.byHash[string(h)]; ok {
				return id
			}
			return -1
		}
		idsOf := func(hs [][]byte) []any {
			out := []any{}
			for _, h := range hs {
				out = append(out, idOfH(h))
			}
			return out
		}
		r.mem.VerifSetHook(func(ev *sysmem.VerifEvent) {
			s := ev.Snap
			acc := map[string]any{}
			for _, name := range senders {
				acc[name] = idsOf(s.Accounts[c.keys.addr[name]])
			}
			known := 0
			for _, name := range senders {
				known += len(s.Accounts[c.keys.addr[name]])
			}
			if known != countAll(s.Accounts) {
				// entries filed under an address that is none of the senders: make the snapshot disagree
				acc[senders[0]] = append(acc[senders[0]].([]any), -1)
			}
			var sh []int
			for k, h := range s.Short {
				id := idOfH(h)
				if types.CalcTxShortHash(h) != k {
					id = -1
				}
				sh = append(sh, id)
			}
			sort.Ints(sh)
			shl := []any{}
			for _, id := range sh {
				shl = append(shl, id)
			}
			out := map[string]any{"seq": s.Seq, "pool": idsOf(s.Queue), "latest": idsOf(s.Latest), "acc": acc, "sh": shl}
			if s.TotalFee%feeUnit == 0 && s.TotalFee == s.SumFee {
				out["fee"] = s.TotalFee / feeUnit
			} else {
				out["fee"] = fmt.Sprintf("total=%d contents=%d", s.TotalFee, s.SumFee)
			}
			if s.Bytes == s.SumBytes {
				out["bytes"] = "ok"
			} else {
				out["bytes"] = fmt.Sprintf("counter=%d contents=%d", s.Bytes, s.SumBytes)
			}
			switch ev.Kind {
			case "push":
				out["ev"] = "Push"
				out["e"] = idOfH(ev.Tx.Hash())
				if ev.Err == nil {
					out["ret"] = "ok"
				} else {
					out["ret"] = "rej"
					atomic.AddInt64(&failedPush, 1)
				}
			case "remove":
				out["ev"] = "Rm"
				out["ids"] = idsOf(ev.Hashes)
			case "rmblock":
				out["ev"] = "RmBlock"
				seen := map[int]bool{}
				ids := []any{}
				for _, tx := range ev.Block.GetTxs() {
					if id, ok := memberOf[string(tx.Hash())]; ok && !seen[id] {
						seen[id] = true
						ids = append(ids, id)
					}
				}
				out["ids"] = ids
			case "sweep":
				out["ev"] = "Sweep"
				out["h"] = s.Height
				out["t"] = (s.BlockTime - t0 - s.Height) / tick
				if (s.BlockTime-t0-s.Height)%tick != 0 {
					hookErr.Store(fmt.Sprintf("header time %d is not on the tick grid", s.BlockTime))
				}
			}
			emit(out)
			pmu.Lock()
			if len(prefix) < 10 {
				prefix = append(prefix, out)
			}
			pmu.Unlock()
		})
		rng := rand.New(rand.NewSource(env.Seed*31 + int64(t)))
		now := int64(0)
		var height int64
		var chain [][]int
		for ph := 0; ph < phases; ph++ {
			var wg sync.WaitGroup
			errs := make(chan error, workers+1)
			// one goroutine owns the chain (blocks are produced sequentially in a node as well)
			wg.Add(1)
			chainSeed := rng.Int63()
			go func() {
				defer wg.Done()
				cr := rand.New(rand.NewSource(chainSeed))
				for i := 0; i < opsPer/4; i++ {
					if cr.Intn(3) > 0 || len(chain) == 0 {
						var ids []int
						var members [][]*types.Transaction
						onchain := map[int]bool{}
						for _, b := range chain {
							for _, id := range b {
								onchain[id] = true
							}
						}
						for k := 0; k < cr.Intn(3); k++ {
							id := 1 + cr.Intn(len(tab))
							if !onchain[id] {
								onchain[id] = true
								ids = append(ids, id)
								members = append(members, c.members[id])
							}
						}
						height++
						chain = append(chain, ids)
						if err := r.AddBlock(members, t0+now*tick+height); err != nil {
							errs <- err
							return
						}
					} else {
						chain = chain[:len(chain)-1]
						height--
						if err := r.DelBlock(); err != nil {
							errs <- err
							return
						}
					}
				}
			}()
			for w := 0; w < workers; w++ {
				wg.Add(1)
				ws := rng.Int63()
				go func() {
					defer wg.Done()
					wr := rand.New(rand.NewSource(ws))
					for i := 0; i < opsPer; i++ {
						id := 1 + wr.Intn(len(tab))
						switch x := wr.Intn(20); {
						case x < 12:
							if _, _, err := r.Submit(c.good[id]); err != nil {
								errs <- err
								return
							}
						case x < 16:
							hs := [][]byte{c.good[id].Hash()}
							if wr.Intn(2) == 0 {
								hs = append(hs, c.good[1+wr.Intn(len(tab))].Hash())
							}
							if err := r.Remove(hs); err != nil {
								errs <- err
								return
							}
						case x < 18:
							if _, err := r.TxList(1+wr.Intn(pc.Cap+1), nil); err != nil {
								errs <- err
								return
							}
						default:
							r.Sweep()
						}
					}
				}()
			}
			wg.Wait()
			close(errs)
			for err := range errs {
				r.mem.VerifSetHook(nil)
				r.Close()
				return nil, err
			}
			if time.Since(start) > 300*time.Second {
				r.mem.VerifSetHook(nil)
				r.Close()
				return nil, fmt.Errorf("trace took %v of real time: the clock model is no longer safe", time.Since(start))
			}
			if ph+1 < phases {
				// quiescent: no request in flight, nothing queued for the pool
				if err := barrier(r.cli); err != nil {
					r.Close()
					return nil, err
				}
				now++
				types.VerifSetTimeShift(time.Duration(now*tick) * time.Second)
				emit(map[string]any{"ev": "Tick", "now": now})
			}
		}
		r.mem.VerifSetHook(nil)
		r.Close()
		types.VerifSetTimeShift(0)
		if v := hookErr.Load(); v != nil {
			return nil, fmt.Errorf("recorder: %v", v)
		}
		_ = absentRm
		_ = swept
		sum.Behaviours++
		if failedPush > 0 {
			sum.NonTrivial++
		}
		if len(sum.Samples) < 2 {
			sum.Samples = append(sum.Samples, map[string]any{"trace_prefix": prefix, "workers": workers, "cap": pc.Cap, "persender": pc.PerSender})
		}
	}
	return sum, nil
}

func countAll(m map[string][][]byte) int {
	n := 0
	for _, v := range m {
		n += len(v)
	}
	return n
}
