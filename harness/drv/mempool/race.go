package main

// Reorganisation under load (C21, "schedules"): the blockchain announces a rolled-back block to the
// pool on the low-priority bus channel (SendDelBlockEvent: Send(msg, false)) and the block that
// replaces it on the high-priority channel (SendAddBlockEvent: Send(msg, true)).  A pool that is
// behind with its high-priority requests therefore may see EventAddBlock(b') before
// EventDelBlock(b).  This recorder provokes that on a full node: while requesters keep the pool's
// high-priority channel busy, the tip b (holding transaction T) is replaced by a heavier sibling b'
// that also holds T.  Afterwards T is on the chain; the recorder reports whether T is in the pool.

import (
	"fmt"
	"sync"
	"sync/atomic"
	"time"

	sysmem "github.com/33cn/chain33/system/mempool"
	"github.com/33cn/chain33/types"
	"verif/harness/core"
)

type raceOutcome struct {
	Attempts  int      `json:"attempts"`
	Inverted  int      `json:"inverted"` // attempts after which T (on the chain) was in the pool
	Orders    []string `json:"orders"`   // per attempt: order in which the pool mutated
	InPoolIDs []any    `json:"in_pool"`  // pool contents after the first inverted attempt
	Flooders  int      `json:"flooders"`
}

func reorgRace(env *core.Env, attempts, flooders int) (*raceOutcome, error) {
	types.VerifSetTimeShift(0)
	t0 := time.Now().Unix()
	pc := poolCfg{Cap: 16, PerSender: 8, MaxLast: 4}
	rg, err := newNode(pc, t0)
	if err != nil {
		return nil, err
	}
	r := rg.(*node)
	defer r.Close()
	tab := map[int]*entry{1: {S: "A", Ms: []string{}, Fee: 2, Xk: "n"}, 2: {S: "B", Ms: []string{}, Fee: 2, Xk: "n"}}
	c, err := newConc(tab, []string{"A", "B"}, r.ChainID(), t0, trunk, env.Seed, "plain")
	if err != nil {
		return nil, err
	}
	if err := r.fund(c); err != nil {
		return nil, err
	}
	T := c.good[1]
	out := &raceOutcome{Flooders: flooders}
	if ok, why, err := r.Submit(T); err != nil || !ok {
		return nil, fmt.Errorf("submit: %v %s", err, why)
	}
	if err := r.AddBlock([][]*types.Transaction{{T}}, t0+1); err != nil {
		return nil, err
	}
	for a := 0; a < attempts; a++ {
		var mu sync.Mutex
		var order []string
		r.mem.VerifSetHook(func(ev *sysmem.VerifEvent) {
			mu.Lock()
			order = append(order, ev.Kind)
			mu.Unlock()
		})
		// keep the pool's high-priority channel busy
		var stop int32
		var wg sync.WaitGroup
		for f := 0; f < flooders; f++ {
			wg.Add(1)
			go func() {
				defer wg.Done()
				cli := r.cli.GetQueue().Client()
				for atomic.LoadInt32(&stop) == 0 {
					msg := cli.NewMessage("mempool", types.EventGetMempoolSize, nil)
					if cli.Send(msg, true) != nil {
						return
					}
					if _, err := cli.WaitTimeout(msg, 60*time.Second); err != nil {
						return
					}
				}
			}()
		}
		time.Sleep(20 * time.Millisecond)
		err := r.Reorg([][]*types.Transaction{{T}}, t0+int64(a)+2)
		atomic.StoreInt32(&stop, 1)
		wg.Wait()
		if err != nil {
			r.mem.VerifSetHook(nil)
			return nil, err
		}
		if err := barrier(r.cli); err != nil {
			return nil, err
		}
		if err := barrierHigh(r.cli); err != nil {
			return nil, err
		}
		r.mem.VerifSetHook(nil)
		snap := r.mem.VerifSnapshot()
		mu.Lock()
		out.Orders = append(out.Orders, fmt.Sprint(order))
		mu.Unlock()
		out.Attempts++
		inPool := false
		for _, h := range snap.Queue {
			if string(h) == string(T.Hash()) {
				inPool = true
			}
		}
		if inPool {
			out.Inverted++
			if out.InPoolIDs == nil {
				for _, h := range snap.Queue {
					out.InPoolIDs = append(out.InPoolIDs, c.idOfHash(h))
				}
			}
			// take T out again so that the next attempt starts from the same pool
			if err := r.Remove([][]byte{T.Hash()}); err != nil {
				return nil, err
			}
		}
	}
	return out, nil
}

func raceCmd(env *core.Env, args []string) int {
	o, err := reorgRace(env, env.OptInt("attempts", 8), env.OptInt("flooders", 16))
	if err != nil {
		fmt.Println("race: harness error:", err)
		return 2
	}
	fmt.Println("RACE", core.J(o))
	return 0
}
