package main

// Node rig: a full util/testnode (real queue, executor, mavl store, blockchain, solo consensus
// with mining off, the production pool) receives transactions through the public API and blocks
// through BlockChain.ProcAddBlockMsg, so EventAddBlock / EventDelBlock reach the pool exactly
// as in production (a rollback is a real reorganisation onto a heavier sibling block).
// Blocks are manufactured by a second node (the factory) that executes them on the parent's
// state, so StateHash / TxHash / block hashes are genuine.
//
// Model height 0 is real height trunk: connectBestChain never adopts a side branch whose tip is
// below height 12 (finalisation margin), so the receiver first gets a trunk of 12 blocks; the
// trunk also funds the senders.

import (
	"bytes"
	"fmt"
	"os"
	"sync"
	"time"

	"github.com/33cn/chain33/blockchain"
	"github.com/33cn/chain33/client"
	"github.com/33cn/chain33/common/merkle"
	"github.com/33cn/chain33/queue"
	cty "github.com/33cn/chain33/system/dapp/coins/types"
	sysmem "github.com/33cn/chain33/system/mempool"
	"github.com/33cn/chain33/types"
	"github.com/33cn/chain33/util"
	"github.com/33cn/chain33/util/testnode"
)

const trunk = 12

type tnode struct {
	mock  *testnode.Chain33Mock
	chain *blockchain.BlockChain
	cfg   *types.Chain33Config
}

var startMu sync.Mutex

func startNode(pc poolCfg) (*tnode, error) {
	cfg := types.NewChain33Config(cfgString(pc, true))
	startMu.Lock()
	mock := testnode.NewWithConfig(cfg, nil)
	startMu.Unlock()
	if mock == nil {
		return nil, fmt.Errorf("testnode did not start")
	}
	n := &tnode{mock: mock, chain: mock.GetBlockChain(), cfg: cfg}
	deadline := time.Now().Add(120 * time.Second)
	for n.chain.GetBlockHeight() < 0 || n.chain.GetDownloadSyncStatus() != 0 {
		if time.Now().After(deadline) {
			mock.Close()
			return nil, fmt.Errorf("node not ready (height %d)", n.chain.GetBlockHeight())
		}
		time.Sleep(2 * time.Millisecond)
	}
	return n, nil
}

// factory: one per process; its own chain stays at genesis, blocks are only executed on its store.
type factory struct {
	n     *tnode
	mu    sync.Mutex
	nonce int64
}

var (
	facOnce sync.Once
	fac     *factory
	facErr  error
)

func getFactory() (*factory, error) {
	facOnce.Do(func() {
		if st, err := os.Stat("/dev/shm"); err == nil && st.IsDir() {
			if d, err := os.MkdirTemp("/dev/shm", fmt.Sprintf("verif-mempool-%d-", os.Getpid())); err == nil {
				os.Setenv("TMPDIR", d)
				tmpRoot = d
			}
		}
		n, err := startNode(poolCfg{Cap: 100, PerSender: 100, MaxLast: 10})
		if err != nil {
			facErr = err
			return
		}
		fac = &factory{n: n, nonce: time.Now().UnixNano()}
	})
	return fac, facErr
}

var tmpRoot string

func cleanupTmp() {
	if fac != nil {
		fac.n.mock.Close()
	}
	if tmpRoot != "" {
		os.RemoveAll(tmpRoot)
	}
}

// filler makes a coins transfer of the genesis key (every block needs a transaction: solo rejects empty blocks).
func (f *factory) filler(to string, amount int64) *types.Transaction {
	f.nonce++
	v := &cty.CoinsAction_Transfer{Transfer: &types.AssetsTransfer{Amount: amount}}
	tx := &types.Transaction{Execer: []byte("coins"), Payload: types.Encode(&cty.CoinsAction{Value: v, Ty: cty.CoinsActionTransfer}), To: to, Fee: 10 * feeUnit}
	tx.Nonce = f.nonce
	tx.ChainID = f.n.cfg.GetChainID()
	tx.Sign(types.SECP256K1, f.n.mock.GetGenesisKey())
	return tx
}

// make executes a block with the given transactions on the parent's state.
func (f *factory) make(parent *types.Block, blockTime int64, txs []*types.Transaction, bits uint32) (*types.Block, error) {
	cfg := f.n.cfg
	in := make([]*types.Transaction, len(txs))
	for i, tx := range txs {
		in[i] = types.Clone(tx).(*types.Transaction)
	}
	blk := &types.Block{Height: parent.Height + 1, BlockTime: blockTime, ParentHash: parent.Hash(cfg), Difficulty: bits}
	blk.Txs = in
	if cfg.IsFork(blk.Height, "ForkRootHash") {
		blk.Txs = types.TransactionSort(blk.Txs)
	}
	blk.TxHash = merkle.CalcMerkleRoot(cfg, blk.Height, blk.Txs)
	f.mu.Lock()
	defer f.mu.Unlock()
	detail, del, err := util.ExecBlock(f.n.mock.GetClient(), parent.StateHash, blk, false, true, false)
	if err != nil {
		return nil, fmt.Errorf("factory exec: %v", err)
	}
	if len(del) != 0 || len(detail.Block.Txs) != len(txs) {
		return nil, fmt.Errorf("factory dropped %d of %d transactions", len(del), len(txs))
	}
	for i, r := range detail.Receipts {
		if r.Ty != types.ExecOk && r.Ty != types.ExecPack {
			return nil, fmt.Errorf("factory: transaction %d has receipt type %d", i, r.Ty)
		}
	}
	return types.Clone(detail.Block).(*types.Block), nil
}

// work bits: target 2^16-1 shifted right k times, i.e. work doubles with k
func workBits(k int) uint32 { return 0x03000000 | uint32(0xffff>>uint(k)) }

type node struct {
	n      *tnode
	f      *factory
	api    client.QueueProtocolAPI
	cli    queue.Client
	rpc    queue.Client
	mu     sync.Mutex
	nonces map[string]int64
	mem    *sysmem.Mempool // the pool inside the testnode, learnt through the verif observer
	blocks []*types.Block  // best chain, genesis first
	work   []int           // work exponent of blocks[i]
	t0     int64
}

func newNode(pc poolCfg, t0 int64) (rig, error) {
	f, err := getFactory()
	if err != nil {
		return nil, err
	}
	n, err := startNode(pc)
	if err != nil {
		return nil, err
	}
	r := &node{n: n, f: f, nonces: map[string]int64{}, t0: t0}
	r.api = n.mock.GetAPI()
	r.cli = n.mock.GetClient()
	// the evm executor (the production nonce source) is not part of this repository: answer from the model chain
	r.rpc = r.cli.GetQueue().Client()
	r.rpc.Sub("rpc")
	go func() {
		for msg := range r.rpc.Recv() {
			if msg.Ty == types.EventGetEvmNonce {
				req := msg.GetData().(*types.ReqEvmAccountNonce)
				r.mu.Lock()
				k := r.nonces[req.GetAddr()]
				r.mu.Unlock()
				msg.Reply(r.rpc.NewMessage("", types.EventGetEvmNonce, &types.EvmAccountNonce{Nonce: k, Addr: req.GetAddr()}))
			}
		}
	}()
	// testnode does not expose its pool: a removal of an absent hash makes it report itself
	found := make(chan *sysmem.Mempool, 4)
	sysmem.VerifSetGlobalHook(func(m *sysmem.Mempool, kind string) {
		select {
		case found <- m:
		default:
		}
	})
	err = r.api.RemoveTxsByHashList(&types.TxHashList{Hashes: [][]byte{[]byte("verif-no-such-transaction")}})
	sysmem.VerifSetGlobalHook(nil)
	if err != nil {
		r.Close()
		return nil, err
	}
	select {
	case r.mem = <-found:
	default:
		r.Close()
		return nil, fmt.Errorf("the node's pool did not report the removal event")
	}
	g, err := n.chain.GetBlock(0)
	if err != nil {
		r.Close()
		return nil, err
	}
	r.blocks = []*types.Block{g.Block}
	r.work = []int{0}
	return r, nil
}

// fund builds the trunk: the first block funds every sender, the rest carry a filler transfer.
func (r *node) fund(c *conc) error {
	for i := 1; i <= trunk; i++ {
		var txs []*types.Transaction
		if i == 1 {
			for _, a := range c.keys.addr {
				txs = append(txs, r.f.filler(a, 1e10))
			}
		}
		txs = append(txs, r.f.filler(okTo, int64(1000+i)))
		if err := r.extend(txs, r.t0-int64(trunk-i+1), 0); err != nil {
			return fmt.Errorf("trunk block %d: %v", i, err)
		}
	}
	return nil
}

func (r *node) deliver(b *types.Block) error {
	cp := types.Clone(b).(*types.Block)
	_, err := r.n.chain.ProcAddBlockMsg(false, &types.BlockDetail{Block: cp}, "verif-peer")
	return err
}

func (r *node) tipCheck(want *types.Block) error {
	h, err := r.api.GetLastHeader()
	if err != nil {
		return err
	}
	if h.Height != want.Height || !bytes.Equal(h.Hash, want.Hash(r.n.cfg)) {
		return fmt.Errorf("node tip is height %d, expected the delivered block at height %d", h.Height, want.Height)
	}
	return nil
}

func (r *node) extend(txs []*types.Transaction, blockTime int64, k int) error {
	parent := r.blocks[len(r.blocks)-1]
	b, err := r.f.make(parent, blockTime, txs, workBits(k))
	if err != nil {
		return err
	}
	if err := r.deliver(b); err != nil {
		return fmt.Errorf("deliver: %v", err)
	}
	if err := r.tipCheck(b); err != nil {
		return err
	}
	r.blocks = append(r.blocks, b)
	r.work = append(r.work, k)
	return barrierHigh(r.cli)
}

func (r *node) ChainID() int32 { return r.n.cfg.GetChainID() }

func (r *node) Close() {
	if r.rpc != nil {
		r.rpc.Close()
	}
	r.n.mock.Close()
}

func (r *node) SetNonce(addr string, k int64) {
	r.mu.Lock()
	r.nonces[addr] = k
	r.mu.Unlock()
}

func (r *node) Submit(tx *types.Transaction) (bool, string, error) { return submitVia(r.api, tx) }

func (r *node) AddBlock(members [][]*types.Transaction, blockTime int64) error {
	// no filler here: a rollback re-admits every transaction of the block, and the model's blocks hold entries only
	txs := flatten(members)
	if len(txs) == 0 {
		return fmt.Errorf("the solo consensus rejects empty blocks (node-rig behaviours have none)")
	}
	return r.extend(txs, blockTime, 0)
}

// Reorg replaces the tip by a heavier sibling holding the given transactions: the blockchain
// disconnects the old tip (EventDelBlock to the pool) and connects the sibling (EventAddBlock).
func (r *node) Reorg(members [][]*types.Transaction, blockTime int64) error {
	if len(r.blocks) <= trunk+1 {
		return fmt.Errorf("Reorg with no block above the trunk")
	}
	old := r.blocks[len(r.blocks)-1]
	k := r.work[len(r.work)-1] + 1
	if k > 14 {
		return fmt.Errorf("too many reorganisations at one height")
	}
	parent := r.blocks[len(r.blocks)-2]
	txs := flatten(members)
	if len(txs) == 0 {
		return fmt.Errorf("the solo consensus rejects empty blocks (node-rig behaviours have none)")
	}
	b, err := r.f.make(parent, blockTime, txs, workBits(k))
	if err != nil {
		return err
	}
	if err := r.deliver(b); err != nil {
		return fmt.Errorf("deliver sibling: %v", err)
	}
	if err := r.tipCheck(b); err != nil {
		return fmt.Errorf("sibling of %x not adopted: %v", old.Hash(r.n.cfg)[:4], err)
	}
	r.blocks[len(r.blocks)-1] = b
	r.work[len(r.work)-1] = k
	if err := barrier(r.cli); err != nil {
		return err
	}
	return barrierHigh(r.cli)
}

func (r *node) DelBlock() error {
	return fmt.Errorf("a full node cannot roll a block back without connecting another one (use Reorg)")
}

func (r *node) Remove(hashes [][]byte) error {
	return r.api.RemoveTxsByHashList(&types.TxHashList{Hashes: hashes})
}

func (r *node) Sweep() error {
	r.mem.VerifSweep()
	return nil
}

func (r *node) TxList(k int, excl [][]byte) ([]*types.Transaction, error) {
	return txListVia(r.api, k, excl)
}

func (r *node) Observe(addrs []string, hashes [][]byte) (*obs, error) {
	o := &obs{fee: -1, bytes: -1, cnt: map[string]int64{}}
	if err := observeAPI(r.api, r.cli, addrs, hashes, o); err != nil {
		return nil, err
	}
	s := r.mem.VerifSnapshot()
	o.snap = s
	o.raw = s.Queue
	if o.raw == nil {
		o.raw = [][]byte{}
	}
	o.fee, o.sumFee, o.bytes, o.sumBytes = s.TotalFee, s.SumFee, s.Bytes, s.SumBytes
	o.height = s.Height - trunk
	for _, a := range addrs {
		o.cnt[a] = r.mem.TxNumOfAccount(a)
	}
	return o, nil
}
