package main

import (
	"fmt"

	"github.com/33cn/chain33/types"
)

type node struct{}

func newNode(pc poolCfg, t0 int64) (rig, error)                                { return nil, fmt.Errorf("node rig not built yet") }
func (n *node) fund(c *conc) error                                             { return nil }
func (n *node) Submit(tx *types.Transaction) (bool, string, error)             { return false, "", nil }
func (n *node) AddBlock(members [][]*types.Transaction, blockTime int64) error { return nil }
func (n *node) DelBlock() error                                                { return nil }
func (n *node) Remove(hashes [][]byte) error                                   { return nil }
func (n *node) Sweep() error                                                   { return nil }
func (n *node) TxList(k int, excl [][]byte) ([]*types.Transaction, error)      { return nil, nil }
func (n *node) SetNonce(addr string, k int64)                                  {}
func (n *node) Observe(addrs []string, hashes [][]byte) (*obs, error)          { return nil, nil }
func (n *node) ChainID() int32                                                 { return 0 }
func (n *node) Close()                                                         {}
