package main

// Concretisation: model entries (Tab of Mempool.tla) -> real, signed chain33 transactions and
// transaction groups; admission-defect variants (C22 rows); reverse mapping hash -> entry id.

import (
	"crypto/sha256"
	"encoding/hex"
	"fmt"
	"math/rand"

	"github.com/33cn/chain33/common"
	"github.com/33cn/chain33/common/address"
	"github.com/33cn/chain33/common/crypto"
	ethaddr "github.com/33cn/chain33/system/address/eth"
	"github.com/33cn/chain33/system/crypto/secp256k1eth"
	cty "github.com/33cn/chain33/system/dapp/coins/types"
	"github.com/33cn/chain33/types"
)

// tick is the length of one model clock tick in seconds: longer than the pool-age limit (600 s)
// plus the one-minute admission margin, with room for the real time a behaviour takes.
const tick = 1000

// feeUnit: a model fee of f is a real fee of f*feeUnit; feeUnit is the minimum fee rate, so a
// single transaction (< 1000 bytes) needs f >= 1 at the base rate and f >= 10 at the 10x tier.
const feeUnit = 100000

// entry is one row of the model's Tab.
type entry struct {
	S     string   `json:"s"`
	Ms    []string `json:"ms"`
	Fee   int64    `json:"fee"`
	Xk    string   `json:"xk"`
	Xv    int64    `json:"xv"`
	Eth   bool     `json:"eth"`
	Nonce int64    `json:"nonce"`
	Grp   int      `json:"grp"`
}

type keyring struct {
	priv map[string]crypto.PrivKey // sender name -> key
	addr map[string]string         // sender name -> address as tx.From() reports it
	eth  map[string]bool
}

var (
	secp    crypto.Crypto
	secpEth crypto.Crypto
	ethSign = types.EncodeSignID(secp256k1eth.ID, ethaddr.ID)

	blockedSenderKey crypto.PrivKey
	blockedSender    string
	blockedTo        string // base58 account that may not receive
	blockedEth       string // 0x account named in EVM payloads
	blockedEthRaw    []byte
	okTo             string
)

func seedKey(c crypto.Crypto, label string) crypto.PrivKey {
	h := sha256.Sum256([]byte("verif-mempool-key|" + label))
	k, err := c.PrivKeyFromBytes(h[:])
	if err != nil {
		panic(err)
	}
	return k
}

func initCrypto() {
	var err error
	secp, err = crypto.Load(types.GetSignName("", types.SECP256K1), -1)
	if err != nil {
		panic(err)
	}
	secpEth, err = crypto.Load(types.GetSignName("", types.SECP256K1ETH), -1)
	if err != nil {
		panic(err)
	}
	blockedSenderKey = seedKey(secp, "blocked-sender")
	blockedSender = address.PubKeyToAddr(address.DefaultID, blockedSenderKey.PubKey().Bytes())
	blockedTo = address.PubKeyToAddr(address.DefaultID, seedKey(secp, "blocked-recipient").PubKey().Bytes())
	blockedEth = address.PubKeyToAddr(ethaddr.ID, seedKey(secpEth, "blocked-eth").PubKey().Bytes())
	blockedEthRaw, _ = common.FromHex(blockedEth)
	okTo = address.PubKeyToAddr(address.DefaultID, seedKey(secp, "recipient").PubKey().Bytes())
	// process-wide blacklist (the production list is empty at this commit)
	types.SetBlockedAccountsForTest([]string{blockedSender, blockedTo, blockedEth})
}

func newKeyring(senders []string, ethSenders map[string]bool, salt string) *keyring {
	k := &keyring{priv: map[string]crypto.PrivKey{}, addr: map[string]string{}, eth: ethSenders}
	for _, s := range senders {
		if ethSenders[s] {
			p := seedKey(secpEth, "eth|"+s+"|"+salt)
			k.priv[s] = p
			k.addr[s] = address.PubKeyToAddr(ethaddr.ID, p.PubKey().Bytes())
		} else {
			p := seedKey(secp, "btc|"+s+"|"+salt)
			k.priv[s] = p
			k.addr[s] = address.PubKeyToAddr(address.DefaultID, p.PubKey().Bytes())
		}
	}
	return k
}

// conc holds the concretised entries of one behaviour.
type conc struct {
	tab     map[int]*entry
	keys    *keyring
	chainID int32
	t0      int64 // wall-clock second the behaviour's clock tick 0 is anchored to
	hoff    int64 // real height of model height 0 (the node rig works above a trunk)
	rng     *rand.Rand
	good    map[int]*types.Transaction   // id -> the item as submitted (a group is its Tx())
	members map[int][]*types.Transaction // id -> member transactions (singles: one)
	byHash  map[string]int               // head hash -> id
	expPos  map[int]int                  // id -> member carrying the expiry
	// hostile representation of groups: the head is ground (nonce) until the 32-byte group header
	// (the head's hash every member carries) happens to parse as an encoded transaction list;
	// about 1 hash in 500 does.  Code that asks a *member* for "its group" then gets an empty one.
	grind map[int]bool
}

func headerParses(h []byte) bool {
	var txs types.Transactions
	return types.Decode(h, &txs) == nil
}

func (c *conc) sign(tx *types.Transaction, sender string) {
	if c.keys.eth[sender] {
		tx.Sign(ethSign, c.keys.priv[sender])
	} else {
		tx.Sign(types.SECP256K1, c.keys.priv[sender])
	}
}

func (c *conc) expire(e *entry) int64 {
	switch e.Xk {
	case "h":
		return e.Xv + c.hoff
	case "t":
		return c.t0 + e.Xv*tick + tick/2
	}
	return 0
}

func (c *conc) baseTx(id int, e *entry, sender string, member int) *types.Transaction {
	// no Note: the eth signature driver reads a non-empty note of a coins transfer as a raw eth transaction
	v := &cty.CoinsAction_Transfer{Transfer: &types.AssetsTransfer{Amount: int64(1000 + 10*id + member)}}
	tx := &types.Transaction{Execer: []byte("coins"), Payload: types.Encode(&cty.CoinsAction{Value: v, Ty: cty.CoinsActionTransfer}), To: okTo}
	tx.ChainID = c.chainID
	if c.keys.eth[sender] {
		tx.Nonce = e.Nonce
	} else {
		tx.Nonce = c.rng.Int63()
	}
	return tx
}

// senders of the members of entry e in order (head first)
func memberSenders(e *entry) []string {
	out := []string{e.S}
	if e.Grp > 1 {
		ms := append([]string{}, e.Ms...)
		for i := 1; i < e.Grp; i++ {
			if len(ms) > 0 {
				out = append(out, ms[(i-1)%len(ms)])
			} else {
				out = append(out, e.S)
			}
		}
	}
	return out
}

// build makes the transactions of entry id; mutate (may be nil) is applied to the unsigned
// members before grouping and signing, signer may replace the signing of a member.
func (c *conc) build(id int, fee int64, mutate func(i int, tx *types.Transaction), signer func(i int, tx *types.Transaction, sender string)) (*types.Transaction, []*types.Transaction, error) {
	e := c.tab[id]
	snd := memberSenders(e)
	var txs []*types.Transaction
	for i, s := range snd {
		tx := c.baseTx(id, e, s, i)
		if i == c.expPos[id] {
			tx.Expire = c.expire(e)
		}
		if mutate != nil {
			mutate(i, tx)
		}
		txs = append(txs, tx)
	}
	doSign := func(i int, tx *types.Transaction) {
		if signer != nil {
			signer(i, tx, snd[i])
		} else {
			c.sign(tx, snd[i])
		}
	}
	if len(txs) == 1 {
		txs[0].Fee = fee
		doSign(0, txs[0])
		return txs[0], txs, nil
	}
	g, err := types.CreateTxGroup(txs, feeUnit)
	if err != nil {
		return nil, nil, err
	}
	// CreateTxGroup put max(sum of fees, minimum) on the head; the model decides the fee
	g.Txs[0].Fee = fee
	g.RebuiltGroup()
	if c.grind[id] && !c.keys.eth[snd[0]] {
		for i := 0; i < 200000 && !headerParses(g.Txs[0].Header); i++ {
			g.Txs[0].Nonce++
			g.RebuiltGroup()
		}
		if !headerParses(g.Txs[0].Header) {
			return nil, nil, fmt.Errorf("could not grind a parsable group header for entry %d", id)
		}
	}
	for i := range g.Txs {
		doSign(i, g.Txs[i])
	}
	return g.Tx(), g.Txs, nil
}

func newConc(tab map[int]*entry, senders []string, chainID int32, t0 int64, hoff int64, seed int64, salt string) (*conc, error) {
	eth := map[string]bool{}
	for _, e := range tab {
		if e.Eth {
			eth[e.S] = true
		}
	}
	c := &conc{tab: tab, chainID: chainID, t0: t0, hoff: hoff, rng: rand.New(rand.NewSource(seed)),
		good: map[int]*types.Transaction{}, members: map[int][]*types.Transaction{}, byHash: map[string]int{}, expPos: map[int]int{},
		grind: map[int]bool{}}
	c.keys = newKeyring(senders, eth, fmt.Sprint(seed%7))
	for id := 1; id <= len(tab); id++ {
		e := tab[id]
		if e == nil {
			return nil, fmt.Errorf("entry table has no row %d", id)
		}
		if e.Grp > 1 {
			c.expPos[id] = c.rng.Intn(e.Grp)
			switch salt {
			case "grind":
				c.grind[id] = true
			case "plain":
			default:
				c.grind[id] = c.rng.Intn(2) == 0
			}
		}
		tx, ms, err := c.build(id, e.Fee*feeUnit, nil, nil)
		if err != nil {
			return nil, err
		}
		c.good[id] = tx
		c.members[id] = ms
		h := string(tx.Hash())
		if other, dup := c.byHash[h]; dup {
			return nil, fmt.Errorf("entries %d and %d have one hash", other, id)
		}
		c.byHash[h] = id
	}
	return c, nil
}

// variant builds entry id with one static admission defect at member pos.
func (c *conc) variant(id int, defect string, pos int) (*types.Transaction, error) {
	e := c.tab[id]
	n := e.Grp
	if n == 0 {
		n = 1
	}
	if pos >= n {
		return nil, fmt.Errorf("defect position %d outside entry %d", pos, id)
	}
	fee := e.Fee * feeUnit
	switch defect {
	case "none":
		return c.good[id], nil
	case "sig":
		// the hash does not cover signatures: the variant has the good entry's hash
		var txs []*types.Transaction
		for _, m := range c.members[id] {
			txs = append(txs, m.Clone())
		}
		sig := txs[pos].Signature
		switch c.rng.Intn(3) {
		case 0: // a flipped byte in the signature
			b := append([]byte{}, sig.Signature...)
			b[len(b)/2] ^= 0x40
			sig.Signature = b
		case 1: // signed by somebody else, public key of the sender kept
			data := txs[pos].Clone()
			data.Signature = nil
			var other crypto.PrivKey
			if types.IsEthSignID(sig.Ty) {
				other = seedKey(secpEth, "stranger")
			} else {
				other = seedKey(secp, "stranger")
			}
			sig.Signature = other.Sign(types.Encode(data)).Bytes()
		default: // no signature bytes at all
			sig.Signature = nil
		}
		if len(txs) == 1 {
			return txs[0], nil
		}
		g := &types.Transactions{Txs: txs}
		return g.Tx(), nil
	case "fee":
		// just below the minimum for the item's size at the base rate
		w := int64(n)
		tx, _, err := c.build(id, w*feeUnit-1-int64(c.rng.Intn(3))*(feeUnit/4), nil, nil)
		return tx, err
	case "to":
		bad := []string{"notaddress", "", okTo[:len(okTo)-1] + "0", "0x12", "1" + okTo}[c.rng.Intn(5)]
		tx, _, err := c.build(id, fee, func(i int, tx *types.Transaction) {
			if i == pos {
				tx.To = bad
			}
		}, nil)
		return tx, err
	case "blkto":
		to := blockedTo
		if c.rng.Intn(2) == 0 {
			to = blockedEth
		}
		tx, _, err := c.build(id, fee, func(i int, tx *types.Transaction) {
			if i == pos {
				tx.To = to
			}
		}, nil)
		return tx, err
	case "blkfrom":
		tx, _, err := c.build(id, fee, nil, func(i int, tx *types.Transaction, sender string) {
			if i == pos {
				tx.Sign(types.SECP256K1, blockedSenderKey)
			} else {
				c.sign(tx, sender)
			}
		})
		return tx, err
	case "blkevm":
		kind := c.rng.Intn(2)
		tx, _, err := c.build(id, fee, func(i int, tx *types.Transaction) {
			if i != pos {
				return
			}
			act := &types.EVMContractAction4Chain33{Amount: 1}
			if kind == 0 {
				act.ContractAddr = blockedEth
			} else {
				act.Para = blockedEthRaw
			}
			tx.Execer = []byte("evm")
			tx.Payload = types.Encode(act)
			tx.To = address.ExecAddress("evm")
		}, nil)
		return tx, err
	}
	return nil, fmt.Errorf("unknown defect %q", defect)
}

func (c *conc) idOf(tx *types.Transaction) any {
	if tx == nil {
		return "nil"
	}
	if id, ok := c.byHash[string(tx.Hash())]; ok {
		return id
	}
	return "?" + hex.EncodeToString(tx.Hash())[:8]
}

func (c *conc) idsOf(txs []*types.Transaction) []any {
	out := []any{}
	for _, tx := range txs {
		out = append(out, c.idOf(tx))
	}
	return out
}

func (c *conc) idOfHash(h []byte) any {
	if id, ok := c.byHash[string(h)]; ok {
		return id
	}
	return "?" + hex.EncodeToString(h)[:8]
}
