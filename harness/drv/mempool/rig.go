package main

// Rigs: the real transaction pool in its surroundings.
//   bare : the production pool (mempool.New -> system/mempool/timeline) on a real message bus
//          whose other topics (blockchain, execs, rpc, p2p) are answered from the model's
//          chain state by scripted responders.  Every event order is possible here.
//   node : a full util/testnode (real blockchain, executor, store, consensus with mining off);
//          blocks are executed and handed to the real blockchain, which notifies the pool
//          itself (EventAddBlock / EventDelBlock through a real reorganisation).  See node.go.

import (
	"fmt"
	"regexp"
	"strings"
	"sync"
	"time"

	"github.com/33cn/chain33/client"
	"github.com/33cn/chain33/common/address"
	"github.com/33cn/chain33/mempool"
	"github.com/33cn/chain33/queue"
	sysmem "github.com/33cn/chain33/system/mempool"
	"github.com/33cn/chain33/types"
)

// poolCfg are the model constants a pool is configured with.
type poolCfg struct {
	Cap, PerSender, MaxLast int
	LevelFee                bool
	TierAt                  int
}

// obs is what can be observed of the pool after a step (hashes are head hashes).
type obs struct {
	raw      [][]byte             // queue contents in walk order (hook snapshot), nil if not observable
	all      []*types.Transaction // GetMempool(isAll=true)
	latest   []*types.Transaction
	size     int64
	acc      map[string][]*types.Transaction // sender address -> GetTxListByAddr
	cnt      map[string]int64                // TxNumOfAccount, -1 if not observable
	fee      int64                           // totalFee, -1 if not observable
	sumFee   int64
	bytes    int64 // byte counter, -1 if not observable
	sumBytes int64
	short    map[string]*types.Transaction // queried hash -> reply of the short-hash lookup
	full     map[string]*types.Transaction
	height   int64
	snap     *sysmem.VerifSnapshot
}

type rig interface {
	Submit(tx *types.Transaction) (bool, string, error)
	AddBlock(members [][]*types.Transaction, blockTime int64) error
	DelBlock() error
	Remove(hashes [][]byte) error
	Sweep() error
	TxList(n int, excl [][]byte) ([]*types.Transaction, error)
	SetNonce(addr string, n int64)
	Observe(addrs []string, hashes [][]byte) (*obs, error)
	ChainID() int32
	Close()
}

var reMaxTx = regexp.MustCompile(`maxTxNumber = \d+`)

func cfgString(pc poolCfg, forNode bool) string {
	s := types.GetDefaultCfgstring()
	rep := func(old, new string) {
		if !strings.Contains(s, old) {
			panic("default config lacks " + old)
		}
		s = strings.Replace(s, old, new, 1)
	}
	rep("[address.enableHeight]\neth=-2", "[address.enableHeight]\neth=0")
	rep("poolCacheSize=102400", fmt.Sprintf("poolCacheSize=%d", pc.Cap))
	rep("maxTxNumPerAccount=100000", fmt.Sprintf("maxTxNumPerAccount=%d\nmaxTxLast=%d\nisLevelFee=%v", pc.PerSender, pc.MaxLast, pc.LevelFee))
	rep("minerstart=true", "minerstart=false")
	tier := pc.TierAt
	if tier < 1 {
		tier = 1000
	}
	s = reMaxTx.ReplaceAllString(s, fmt.Sprintf("maxTxNumber = %d", 10*tier))
	s = strings.ReplaceAll(s, `driver="leveldb"`, `driver="memdb"`)
	return s
}

// ---------------------------------------------------------------------------------------------

type bare struct {
	cfg  *types.Chain33Config
	q    queue.Queue
	mem  *sysmem.Mempool
	api  client.QueueProtocolAPI
	cli  queue.Client
	subs []queue.Client

	mu      sync.Mutex
	hdrs    []*types.Header
	blocks  []*types.Block
	onchain map[string]int
	nonces  map[string]int64
}

func (r *bare) serve(topic string, h func(c queue.Client, msg *queue.Message)) {
	c := r.q.Client()
	c.Sub(topic)
	r.subs = append(r.subs, c)
	go func() {
		for msg := range c.Recv() {
			h(c, msg)
		}
	}()
}

func newBare(pc poolCfg, t0 int64) (*bare, error) {
	cfg := types.NewChain33Config(cfgString(pc, false))
	address.Init(cfg.GetModuleConfig().Address)
	r := &bare{cfg: cfg, onchain: map[string]int{}, nonces: map[string]int64{}}
	r.q = queue.New("channel")
	r.q.SetConfig(cfg)
	r.hdrs = []*types.Header{{Height: 0, BlockTime: t0, StateHash: []byte("state-0")}}
	r.serve("blockchain", func(c queue.Client, msg *queue.Message) {
		switch msg.Ty {
		case types.EventGetLastHeader:
			r.mu.Lock()
			h := types.Clone(r.hdrs[len(r.hdrs)-1]).(*types.Header)
			r.mu.Unlock()
			msg.Reply(c.NewMessage("", types.EventHeader, h))
		case types.EventIsSync:
			msg.Reply(c.NewMessage("", types.EventReplyIsSync, &types.IsCaughtUp{Iscaughtup: true}))
		case types.EventTxHashList:
			req := msg.GetData().(*types.TxHashList)
			var dup [][]byte
			r.mu.Lock()
			for _, h := range req.Hashes {
				if r.onchain[string(h)] > 0 {
					dup = append(dup, h)
				}
			}
			r.mu.Unlock()
			msg.Reply(c.NewMessage("", types.EventTxHashListReply, &types.TxHashList{Hashes: dup}))
		default:
			msg.ReplyErr("verif blockchain responder", types.ErrNotSupport)
		}
	})
	r.serve("execs", func(c queue.Client, msg *queue.Message) {
		if msg.Ty == types.EventCheckTx {
			datas := msg.GetData().(*types.ExecTxList)
			res := &types.ReceiptCheckTxList{}
			for range datas.Txs {
				res.Errs = append(res.Errs, "")
			}
			msg.Reply(c.NewMessage("", types.EventReceiptCheckTx, res))
		}
	})
	r.serve("rpc", func(c queue.Client, msg *queue.Message) {
		if msg.Ty == types.EventGetEvmNonce {
			req := msg.GetData().(*types.ReqEvmAccountNonce)
			r.mu.Lock()
			n := r.nonces[req.GetAddr()]
			r.mu.Unlock()
			msg.Reply(c.NewMessage("", types.EventGetEvmNonce, &types.EvmAccountNonce{Nonce: n, Addr: req.GetAddr()}))
		}
	})
	r.serve("p2p", func(c queue.Client, msg *queue.Message) {})
	m := mempool.New(cfg)
	mp, ok := m.(*sysmem.Mempool)
	if !ok {
		return nil, fmt.Errorf("mempool.New returned %T", m)
	}
	r.mem = mp
	mp.SetQueueClient(r.q.Client())
	mp.Wait()
	r.cli = r.q.Client()
	api, err := client.New(r.q.Client(), nil)
	if err != nil {
		return nil, err
	}
	r.api = api
	return r, nil
}

func (r *bare) ChainID() int32 { return r.cfg.GetChainID() }

func (r *bare) Close() {
	r.mem.Close()
	for _, c := range r.subs {
		c.Close()
	}
	r.q.Close()
}

func (r *bare) SetNonce(addr string, n int64) {
	r.mu.Lock()
	r.nonces[addr] = n
	r.mu.Unlock()
}

func submitVia(api client.QueueProtocolAPI, tx *types.Transaction) (bool, string, error) {
	reply, err := api.SendTx(tx)
	if err != nil {
		return false, err.Error(), nil
	}
	if reply == nil || !reply.GetIsOk() {
		return false, "reply not ok", nil
	}
	return true, "", nil
}

func (r *bare) Submit(tx *types.Transaction) (bool, string, error) { return submitVia(r.api, tx) }

// barrier: a low-priority request answered after everything queued before it on that channel.
func barrier(cli queue.Client) error {
	msg := cli.NewMessage("mempool", types.EventGetMempoolSize, nil)
	if err := cli.Send(msg, false); err != nil {
		return err
	}
	_, err := cli.WaitTimeout(msg, 120*time.Second)
	return err
}

func flatten(members [][]*types.Transaction) []*types.Transaction {
	var out []*types.Transaction
	for _, ms := range members {
		out = append(out, ms...)
	}
	return out
}

func (r *bare) AddBlock(members [][]*types.Transaction, blockTime int64) error {
	r.mu.Lock()
	top := r.hdrs[len(r.hdrs)-1]
	blk := &types.Block{Version: 1, Height: top.Height + 1, BlockTime: blockTime, ParentHash: []byte(fmt.Sprintf("block-%d", top.Height)),
		Txs: flatten(members), StateHash: []byte(fmt.Sprintf("state-%d", top.Height+1))}
	for _, tx := range blk.Txs {
		r.onchain[string(tx.Hash())]++
	}
	r.hdrs = append(r.hdrs, &types.Header{Height: blk.Height, BlockTime: blk.BlockTime, StateHash: blk.StateHash})
	r.blocks = append(r.blocks, blk)
	r.mu.Unlock()
	// as blockchain.SendAddBlockEvent does: synchronous send, no reply expected
	msg := r.cli.NewMessage("mempool", types.EventAddBlock, &types.BlockDetail{Block: blk})
	if err := r.cli.Send(msg, true); err != nil {
		return err
	}
	return barrierHigh(r.cli)
}

// barrierHigh: a high-priority request; the pool's event loop is sequential.
func barrierHigh(cli queue.Client) error {
	msg := cli.NewMessage("mempool", types.EventGetMempoolSize, nil)
	if err := cli.Send(msg, true); err != nil {
		return err
	}
	_, err := cli.WaitTimeout(msg, 120*time.Second)
	return err
}

func (r *bare) DelBlock() error {
	r.mu.Lock()
	if len(r.blocks) == 0 {
		r.mu.Unlock()
		return fmt.Errorf("DelBlock on an empty chain")
	}
	blk := r.blocks[len(r.blocks)-1]
	r.blocks = r.blocks[:len(r.blocks)-1]
	r.hdrs = r.hdrs[:len(r.hdrs)-1]
	for _, tx := range blk.Txs {
		r.onchain[string(tx.Hash())]--
	}
	r.mu.Unlock()
	// as blockchain.SendDelBlockEvent does: asynchronous (low-priority channel)
	msg := r.cli.NewMessage("mempool", types.EventDelBlock, &types.BlockDetail{Block: blk})
	if err := r.cli.Send(msg, false); err != nil {
		return err
	}
	return barrier(r.cli)
}

// ReorgInverted: the blockchain has replaced its tip by a sibling holding the given transactions;
// the pool gets EventAddBlock(sibling) first and EventDelBlock(old tip) afterwards (the order a
// pool that is behind with its high-priority requests sees, see race.go).
func (r *bare) ReorgInverted(members [][]*types.Transaction, blockTime int64) error {
	r.mu.Lock()
	if len(r.blocks) == 0 {
		r.mu.Unlock()
		return fmt.Errorf("ReorgInv on an empty chain")
	}
	old := r.blocks[len(r.blocks)-1]
	parent := r.hdrs[len(r.hdrs)-2]
	blk := &types.Block{Version: 1, Height: old.Height, BlockTime: blockTime, ParentHash: []byte(fmt.Sprintf("block-%d", parent.Height)),
		Txs: flatten(members), StateHash: []byte(fmt.Sprintf("state-%d-%d", old.Height, blockTime))}
	for _, tx := range old.Txs {
		r.onchain[string(tx.Hash())]--
	}
	for _, tx := range blk.Txs {
		r.onchain[string(tx.Hash())]++
	}
	r.blocks[len(r.blocks)-1] = blk
	r.hdrs[len(r.hdrs)-1] = &types.Header{Height: blk.Height, BlockTime: blk.BlockTime, StateHash: blk.StateHash}
	r.mu.Unlock()
	msg := r.cli.NewMessage("mempool", types.EventAddBlock, &types.BlockDetail{Block: blk})
	if err := r.cli.Send(msg, true); err != nil {
		return err
	}
	if err := barrierHigh(r.cli); err != nil {
		return err
	}
	msg = r.cli.NewMessage("mempool", types.EventDelBlock, &types.BlockDetail{Block: old})
	if err := r.cli.Send(msg, false); err != nil {
		return err
	}
	return barrier(r.cli)
}

func (r *bare) Remove(hashes [][]byte) error {
	return r.api.RemoveTxsByHashList(&types.TxHashList{Hashes: hashes})
}

func (r *bare) Sweep() error {
	r.mem.VerifSweep()
	return nil
}

func txListVia(api client.QueueProtocolAPI, n int, excl [][]byte) ([]*types.Transaction, error) {
	rep, err := api.GetTxList(&types.TxHashList{Count: int64(n), Hashes: excl})
	if err != nil {
		return nil, err
	}
	return rep.GetTxs(), nil
}

func (r *bare) TxList(n int, excl [][]byte) ([]*types.Transaction, error) {
	return txListVia(r.api, n, excl)
}

// observeAPI fills the observations available through the public API and the bus.
func observeAPI(api client.QueueProtocolAPI, cli queue.Client, addrs []string, hashes [][]byte, o *obs) error {
	all, err := api.GetMempool(&types.ReqGetMempool{IsAll: true})
	if err != nil {
		return fmt.Errorf("GetMempool: %v", err)
	}
	o.all = all.GetTxs()
	last, err := api.GetLastMempool()
	if err != nil {
		return fmt.Errorf("GetLastMempool: %v", err)
	}
	o.latest = last.GetTxs()
	msg := cli.NewMessage("mempool", types.EventGetMempoolSize, nil)
	if err := cli.Send(msg, true); err != nil {
		return err
	}
	rep, err := cli.WaitTimeout(msg, 120*time.Second)
	if err != nil {
		return fmt.Errorf("EventGetMempoolSize: %v", err)
	}
	o.size = rep.GetData().(*types.MempoolSize).GetSize()
	o.acc = map[string][]*types.Transaction{}
	for _, a := range addrs {
		d, err := api.GetTxListByAddr(&types.ReqAddrs{Addrs: []string{a}})
		if err != nil {
			return fmt.Errorf("GetTxListByAddr: %v", err)
		}
		var txs []*types.Transaction
		for _, x := range d.GetTxs() {
			if x.GetFromaddr() != a {
				return fmt.Errorf("GetTxListByAddr(%s) reports sender %s", a, x.GetFromaddr())
			}
			txs = append(txs, x.GetTx())
		}
		o.acc[a] = txs
	}
	lookup := func(short bool) (map[string]*types.Transaction, error) {
		req := &types.ReqTxHashList{IsShortHash: short}
		for _, h := range hashes {
			if short {
				req.Hashes = append(req.Hashes, types.CalcTxShortHash(h))
			} else {
				req.Hashes = append(req.Hashes, string(h))
			}
		}
		m := cli.NewMessage("mempool", types.EventTxListByHash, req)
		if err := cli.Send(m, true); err != nil {
			return nil, err
		}
		rp, err := cli.WaitTimeout(m, 120*time.Second)
		if err != nil {
			return nil, fmt.Errorf("EventTxListByHash: %v", err)
		}
		txs := rp.GetData().(*types.ReplyTxList).GetTxs()
		if len(txs) != len(hashes) {
			return nil, fmt.Errorf("EventTxListByHash: %d replies for %d hashes", len(txs), len(hashes))
		}
		out := map[string]*types.Transaction{}
		for i, h := range hashes {
			out[string(h)] = txs[i]
		}
		return out, nil
	}
	if o.short, err = lookup(true); err != nil {
		return err
	}
	if o.full, err = lookup(false); err != nil {
		return err
	}
	return nil
}

func (r *bare) Observe(addrs []string, hashes [][]byte) (*obs, error) {
	o := &obs{fee: -1, bytes: -1, cnt: map[string]int64{}}
	if err := observeAPI(r.api, r.cli, addrs, hashes, o); err != nil {
		return nil, err
	}
	s := r.mem.VerifSnapshot()
	o.snap = s
	o.raw = s.Queue
	if o.raw == nil {
		o.raw = [][]byte{}
	}
	o.fee, o.sumFee, o.bytes, o.sumBytes = s.TotalFee, s.SumFee, s.Bytes, s.SumBytes
	o.height = s.Height
	for _, a := range addrs {
		o.cnt[a] = r.mem.TxNumOfAccount(a)
	}
	if int64(r.mem.Size()) != o.size {
		return nil, fmt.Errorf("Size() %d differs from EventGetMempoolSize %d", r.mem.Size(), o.size)
	}
	if r.mem.GetTotalCacheBytes() != s.Bytes {
		return nil, fmt.Errorf("GetTotalCacheBytes %d differs from snapshot %d", r.mem.GetTotalCacheBytes(), s.Bytes)
	}
	return o, nil
}
