// Driver for the RPC family (C39): access control of the JSON-RPC, gRPC and
// Ethereum-compatible RPC endpoints of chain33's rpc package.
//
// A behaviour is the life of ONE process: Cfg (rpc.New with a configuration parsed
// from TOML text), then requests.  Reset re-executes this binary as a child (the
// whitelist maps of package rpc are additive process globals); Apply concretises the
// model's abstract request (address class, method, credentials, request shape) into
// bytes, lets the child serve it with a forged remote address and reports which
// handlers ran.  Only admit/deny is observed - never error texts or status codes.
package main

import (
	"bufio"
	"encoding/base64"
	"encoding/json"
	"fmt"
	"math/rand"
	"os"
	"os/exec"
	"sort"
	"strings"
	"sync"
	"time"

	"verif/harness/core"
)

var methods = []string{"Ping", "Pong", "Version", "CloseQueue"}
var gmethods = []string{"Ping", "Pong", "Version", "CloseQueue", "Watch"}

// ---------------------------------------------------------------------------
// child handle

type child struct {
	cmd *exec.Cmd
	w   *os.File
	r   *bufio.Reader
	rf  *os.File
	log *os.File
}

func startChild() (*child, error) {
	exe, err := os.Executable()
	if err != nil {
		return nil, err
	}
	cr, cw, err := os.Pipe() // parent writes commands
	if err != nil {
		return nil, err
	}
	rr, rw, err := os.Pipe() // child writes replies
	if err != nil {
		return nil, err
	}
	c := exec.Command(exe, "child")
	c.ExtraFiles = []*os.File{cr, rw}
	lf, _ := os.CreateTemp("", "verif-rpc-child-*.log")
	c.Stdout, c.Stderr = lf, lf
	c.Dir = os.TempDir()
	if err := c.Start(); err != nil {
		return nil, err
	}
	cr.Close()
	rw.Close()
	return &child{cmd: c, w: cw, r: bufio.NewReaderSize(rr, 1<<20), rf: rr, log: lf}, nil
}

func (c *child) call(cmd *childCmd) (*childReply, error) {
	b, _ := json.Marshal(cmd)
	if _, err := c.w.Write(append(b, '\n')); err != nil {
		return nil, fmt.Errorf("child write: %v%s", err, c.tail())
	}
	type res struct {
		line []byte
		err  error
	}
	ch := make(chan res, 1)
	go func() {
		l, err := c.r.ReadBytes('\n')
		ch <- res{l, err}
	}()
	select {
	case r := <-ch:
		if r.err != nil {
			return nil, fmt.Errorf("child died: %v%s", r.err, c.tail())
		}
		var rep childReply
		if err := json.Unmarshal(r.line, &rep); err != nil {
			return nil, fmt.Errorf("child reply: %v", err)
		}
		if !rep.OK {
			return nil, fmt.Errorf("child: %s%s", rep.Err, c.tail())
		}
		return &rep, nil
	case <-time.After(10 * time.Minute):
		return nil, fmt.Errorf("child: no reply within 10 minutes%s", c.tail())
	}
}

func (c *child) tail() string {
	if c.log == nil {
		return ""
	}
	b, _ := os.ReadFile(c.log.Name())
	if len(b) > 1500 {
		b = b[len(b)-1500:]
	}
	return "\n--- child log tail ---\n" + string(b)
}

func (c *child) stop() {
	c.w.Close()
	if os.Getenv("VERIF_RPC_PROF") != "" {
		c.cmd.Wait()
	}
	c.cmd.Process.Kill()
	c.cmd.Wait()
	c.rf.Close()
	if c.log != nil {
		c.log.Close()
		os.Remove(c.log.Name())
	}
}

// ---------------------------------------------------------------------------
// model configuration

type mcfg struct {
	Wn, Wo, Jw, Jb, Gw, Gb []string
	Au                     string
}

func strs(v any) []string {
	var out []string
	if l, ok := v.([]any); ok {
		for _, x := range l {
			out = append(out, fmt.Sprint(x))
		}
	}
	sort.Strings(out)
	return out
}

func parseCfg(s core.Step) mcfg {
	m, _ := s["c"].(map[string]any)
	return mcfg{Wn: strs(m["wn"]), Wo: strs(m["wo"]), Jw: strs(m["jw"]), Jb: strs(m["jb"]),
		Gw: strs(m["gw"]), Gb: strs(m["gb"]), Au: fmt.Sprint(m["au"])}
}

func (c mcfg) ipClass() string {
	return "wn={" + strings.Join(c.Wn, ",") + "},wo={" + strings.Join(c.Wo, ",") + "}"
}

func has(l []string, x string) bool {
	for _, y := range l {
		if y == x {
			return true
		}
	}
	return false
}

// ---------------------------------------------------------------------------
// driver

type stats struct {
	Rows         int               `json:"rows"`
	Children     int               `json:"children"`
	AdmittedRan  map[string]int    `json:"admitted_ran"` // per endpoint: rows whose target was predicted to run and ran
	DenyRows     map[string]int    `json:"deny_rows"`    // per endpoint: rows with at least one "deny" entry from a non-loopback address
	FidelityOK   int               `json:"fidelity_ok"`  // mechanism model predicted the target's outcome exactly
	FidelityBad  int               `json:"fidelity_bad"` //   ... and did not
	FidelityList []string          `json:"fidelity_examples"`
	OpenRan      int               `json:"open_ran"`
	KnownHits    map[string]int    `json:"known_hits"`   // rows whose disagreement carries a registered known-finding signature
	KnownReplay  map[string]string `json:"known_replay"` // one replay file per such signature
	PeerChecks   int               `json:"eth_peer_checks"`
}

var (
	stMu sync.Mutex
	st   = stats{AdmittedRan: map[string]int{}, DenyRows: map[string]int{}, KnownHits: map[string]int{}, KnownReplay: map[string]string{}}
)

type drv struct {
	env   *core.Env
	b     *core.Behaviour
	ch    *child
	cz    *conc
	cfg   mcfg
	ncfg  int
	idx   int
	cfgs  []mcfg // configurations applied since the last (re)start
	known map[string]bool
}

func (d *drv) Reset(env *core.Env, b *core.Behaviour) error {
	d.env, d.b = env, b
	d.ncfg, d.idx = 0, 0
	d.cfgs = nil
	d.loadKnown()
	d.cz = newConc(env, b)
	ch, err := startChild()
	if err != nil {
		return err
	}
	d.ch = ch
	stMu.Lock()
	st.Children++
	stMu.Unlock()
	return nil
}

func (d *drv) Close() {
	if d.ch != nil {
		d.ch.stop()
		d.ch = nil
	}
	if p := d.env.Opt("stats", ""); p != "" {
		stMu.Lock()
		b, _ := json.Marshal(&st)
		os.WriteFile(p+".tmp", b, 0o644)
		os.Rename(p+".tmp", p)
		stMu.Unlock()
	}
}

// loadKnown reads the signatures registered as known findings (opt known=<json list>); replays of a
// single file (`one`) run without it, so a known finding is still reproduced as a disagreement.
func (d *drv) loadKnown() {
	d.known = nil
	p := d.env.Opt("known", "")
	if p == "" {
		return
	}
	b, err := os.ReadFile(p)
	if err != nil {
		return
	}
	var l []string
	if json.Unmarshal(b, &l) == nil {
		d.known = map[string]bool{}
		for _, x := range l {
			d.known[x] = true
		}
	}
}

func (d *drv) knownHit(sig string, exp, obs any) {
	stMu.Lock()
	defer stMu.Unlock()
	st.KnownHits[sig]++
	dir := d.env.Opt("kdir", "")
	if st.KnownReplay[sig] != "" || dir == "" {
		return
	}
	// minimal replay: the configurations since the last restart and the failing row
	cut := &core.Behaviour{Fam: d.b.Fam, Cfg: d.b.Cfg, ID: d.b.ID}
	start := 0
	for i := 0; i <= d.idx; i++ {
		if d.b.Steps[i].Op() == "Restart" {
			start = i + 1
		}
	}
	cut.Steps = append(cut.Steps, d.b.Steps[start:d.idx+1]...)
	opts := map[string]string{}
	for k, v := range d.env.Opts {
		if k != "known" && k != "kdir" && k != "stats" {
			opts[k] = v
		}
	}
	rf := &core.ReplayFile{Property: d.env.Prop, Family: "RPC", Seed: d.env.Seed, Tier: d.env.Tier, Opts: opts,
		Behaviour: cut, FailingStep: len(cut.Steps) - 1, Field: "ret", Expected: exp, Observed: obs, Signature: sig}
	h := 0
	for _, c := range sig {
		h = (h*131 + int(c)) & 0xffffff
	}
	name := fmt.Sprintf("%s/%s-RPC-%d-known-%06x.json", dir, d.env.Prop, d.env.Seed, h)
	bb, _ := json.MarshalIndent(rf, "", " ")
	os.MkdirAll(dir, 0o755)
	if os.WriteFile(name, bb, 0o644) == nil {
		st.KnownReplay[sig] = name
	}
}

func ranWord(n int) string {
	if n > 0 {
		return "ran"
	}
	return "deny"
}

func isLoop(a string) bool { return strings.HasPrefix(a, "lo") }

func (d *drv) Apply(s core.Step) (any, any, error) {
	defer func() { d.idx++ }()
	switch s.Op() {
	case "Cfg":
		d.cfg = parseCfg(s)
		d.ncfg++
		d.cfgs = append(d.cfgs, d.cfg)
		sec := d.cz.tomlSection(d.cfg, d.ncfg)
		if _, err := d.ch.call(&childCmd{Cmd: "cfg", RPC: sec}); err != nil {
			return nil, nil, err
		}
		return "ok", nil, nil
	case "Restart":
		// a process restart: a genuinely new child (opt restart=proc) or the reset hook in the same child
		d.cfg, d.ncfg = mcfg{}, 0
		d.cfgs = nil
		if d.env.Opt("restart", "reset") == "proc" {
			d.ch.stop()
			ch, err := startChild()
			if err != nil {
				return nil, nil, err
			}
			d.ch = ch
			stMu.Lock()
			st.Children++
			stMu.Unlock()
		} else if _, err := d.ch.call(&childCmd{Cmd: "restart"}); err != nil {
			return nil, nil, err
		}
		return "ok", nil, nil
	case "Req":
		ep := s.Str("ep")
		a := s.Str("a")
		var ret any
		var targetRan bool
		var err error
		switch ep {
		case "jrpc":
			var rep *childReply
			rep, err = d.ch.call(d.cz.jrpcCmd(d.cfg, a, s.Str("m"), s.Str("d"), s.Str("p"), s.Str("sh"), d.idx))
			if err == nil {
				m := map[string]any{}
				for _, x := range methods {
					m[x] = ranWord(rep.Ran[x])
				}
				ret, targetRan = m, rep.Ran[s.Str("m")] > 0
			}
		case "grpc":
			var rep *childReply
			rep, err = d.ch.call(d.cz.grpcCmd(a, s.Str("m"), s.Str("sh"), d.idx))
			if err == nil {
				m := map[string]any{}
				for _, x := range gmethods {
					m[x] = ranWord(rep.Ran[x])
				}
				ret, targetRan = m, rep.Ran[s.Str("m")] > 0
			}
		case "eth":
			ret, targetRan, err = d.eth(s, a)
		default:
			err = fmt.Errorf("unknown endpoint %q", ep)
		}
		if err != nil {
			return nil, nil, err
		}
		d.account(s, ep, a, targetRan)
		if exp, ok := s["ret"]; ok && len(d.known) > 0 {
			if obs := core.Norm(ret); !core.Match(exp, obs) {
				if sig := d.Signature(d.b, d.idx, "ret", exp, obs); d.known[sig] {
					// a registered known finding: report it through the side channel and go on with the
					// behaviour (core.RunOne would stop here and the remaining rows would never be served)
					d.knownHit(sig, exp, obs)
					return exp, nil, nil
				}
			}
		}
		return ret, nil, nil
	}
	return nil, nil, fmt.Errorf("unknown op %q", s.Op())
}

func (d *drv) eth(s core.Step, a string) (any, bool, error) {
	sh := s.Str("sh")
	rep, err := d.ch.call(d.cz.ethCmd(a, sh, d.idx))
	if err != nil {
		return nil, false, err
	}
	eran := containsResult(rep.Body)
	out := map[string]any{"ran": ranWord(b2i(eran)), "sameJ": "-", "sameG": "-"}
	if vj := s.Str("vj"); vj != "" {
		r2, err := d.ch.call(d.cz.jrpcCmd(d.cfg, a, vj, "", "good", "exact", d.idx))
		if err != nil {
			return nil, false, err
		}
		out["sameJ"] = yesno((r2.Ran[vj] > 0) == eran)
		stMu.Lock()
		st.PeerChecks++
		stMu.Unlock()
	}
	if vg := s.Str("vg"); vg != "" {
		r2, err := d.ch.call(d.cz.grpcCmd(a, vg, "plain", d.idx))
		if err != nil {
			return nil, false, err
		}
		out["sameG"] = yesno((r2.Ran[vg] > 0) == eran)
		stMu.Lock()
		st.PeerChecks++
		stMu.Unlock()
	}
	return out, eran, nil
}

func b2i(b bool) int {
	if b {
		return 1
	}
	return 0
}

func yesno(b bool) string {
	if b {
		return "yes"
	}
	return "no"
}

func hasDeny(v any) bool {
	m, ok := v.(map[string]any)
	if !ok {
		return false
	}
	for _, x := range m {
		if x == "deny" {
			return true
		}
	}
	return false
}

func (d *drv) account(s core.Step, ep, a string, targetRan bool) {
	stMu.Lock()
	defer stMu.Unlock()
	st.Rows++
	if !isLoop(a) && hasDeny(s["ret"]) {
		st.DenyRows[ep]++
	}
	switch s.Str("mx") {
	case "ran":
		if targetRan {
			st.FidelityOK++
			st.AdmittedRan[ep]++
		} else {
			st.FidelityBad++
			d.fidEx(s, "model:ran code:deny")
		}
	case "deny":
		if !targetRan {
			st.FidelityOK++
		} else {
			st.FidelityBad++
			d.fidEx(s, "model:deny code:ran")
		}
	default:
		if targetRan {
			st.OpenRan++
		}
	}
}

func (d *drv) fidEx(s core.Step, what string) {
	if len(st.FidelityList) < 12 {
		c := core.Step{}
		for k, v := range s {
			if k != "ret" {
				c[k] = v
			}
		}
		st.FidelityList = append(st.FidelityList, what+" "+d.cfg.ipClass()+" "+core.J(c))
	}
}

// NonTrivial: a request from a non-loopback address under a non-trivial whitelist / method list,
// i.e. one whose verdict forbids at least one handler, and one request the table leaves open.
func (d *drv) NonTrivial(env *core.Env, b *core.Behaviour) bool {
	deny, open := false, false
	for _, s := range b.Steps {
		if s.Op() != "Req" || isLoop(s.Str("a")) {
			continue
		}
		m, _ := s["ret"].(map[string]any)
		for _, v := range m {
			if v == "deny" {
				deny = true
			} else {
				open = true
			}
		}
	}
	return deny && open
}

// Signature: a narrow class of the disagreement - endpoint, kind of method (unary / stream / eth),
// what went wrong (a forbidden handler ran; the Ethereum gate differs from a peer endpoint), the
// clause(s) of the reference that forbade it, how the two whitelist keys were used, and whether
// the process had seen more than one configuration.  Concrete bytes, address spelling and the
// request shape are in the replay file, not in the signature.
func (d *drv) Signature(b *core.Behaviour, idx int, field string, expected, observed any) string {
	if idx < 0 || idx >= len(b.Steps) {
		return ""
	}
	s := b.Steps[idx]
	var cfgs []mcfg
	for i := 0; i <= idx; i++ {
		switch b.Steps[i].Op() {
		case "Cfg":
			cfgs = append(cfgs, parseCfg(b.Steps[i]))
		case "Restart":
			cfgs = nil
		}
	}
	if len(cfgs) == 0 {
		return ""
	}
	last := cfgs[len(cfgs)-1]
	multi := ""
	if len(cfgs) > 1 {
		multi = "|after-" + fmt.Sprint(len(cfgs)) + "-configs"
	}
	em, _ := expected.(map[string]any)
	om, _ := observed.(map[string]any)
	keys := []string{}
	for k := range em {
		if !core.Match(em[k], om[k]) {
			keys = append(keys, k)
		}
	}
	sort.Strings(keys)
	ep, a := s.Str("ep"), s.Str("a")
	if ep == "eth" {
		what := []string{}
		for _, k := range keys {
			what = append(what, fmt.Sprintf("%s:%v->%v", k, em[k], om[k]))
		}
		return fmt.Sprintf("eth|%s|%s%s", strings.Join(what, ";"), keyUse(last), multi)
	}
	parts := []string{}
	for _, k := range keys { // k: a method whose handler ran although the table says deny
		kind := "unary"
		if k == "Watch" {
			kind = "stream"
		}
		tgt := "target"
		if k != s.Str("m") {
			tgt = "other-than-requested"
		}
		if kind == "stream" {
			// one class: NewGRpcServer installs no stream interceptor, so no clause is consulted at all
			parts = append(parts, fmt.Sprintf("stream-%s:%v->%v,ungated", tgt, em[k], om[k]))
			continue
		}
		parts = append(parts, fmt.Sprintf("%s-%s:%v->%v,by=%s", kind, tgt, em[k], om[k], deniedBy(ep, a, k, s.Str("p"), cfgs)))
	}
	if len(keys) == 1 && keys[0] == "Watch" {
		multi = ""
	}
	return fmt.Sprintf("%s|%s%s", ep, strings.Join(parts, ";"), multi)
}

func main() {
	if len(os.Args) > 1 && os.Args[1] == "child" {
		os.Exit(childMain())
	}
	core.Main(&core.Family{
		Name:      "RPC",
		NewDriver: func() core.Driver { return &drv{} },
		Recorders: map[string]core.Recorder{"default": recordRandom},
	})
}

// ---------------------------------------------------------------------------
// helpers shared with conc.go

func b64(b []byte) string { return base64.StdEncoding.EncodeToString(b) }

func pick[T any](r *rand.Rand, l []T) T { return l[r.Intn(len(l))] }
