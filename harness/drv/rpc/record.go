// Recorder (binding B): a seeded random driver in Go - configurations with longer lists than
// TLC's universes, every address class, every request shape - run against the real code, one
// child process per trace; the recorded events (what was configured, what was asked, which
// handlers ran) are validated by spec/RPC/RPC_Trace.tla.
package main

import (
	"fmt"
	"math/rand"
	"sort"
	"sync"

	"verif/harness/core"
)

var addrClasses = []string{"lo4", "lo4b", "lo6", "lo4m", "A", "Am", "B", "Bm", "An", "U4", "U4m", "V6", "U6", "U6z"}
var credClasses = []string{"none", "good", "badpass", "baduser", "badcase", "goodalt"}
var jshapes = []string{"exact", "nover", "space", "keycase", "esc", "extra", "dupLast", "dupFirst", "dupCase",
	"mlower", "mupper", "mmix", "svc", "nodot", "trail", "batch", "concat", "gzbody", "gzresp",
	"params0", "paramsNull", "params2", "paramsObj", "noparams", "idStr", "idNull", "idNeg",
	"path", "query", "get", "chunked", "ctype", "xff"}
var gshapes = []string{"plain", "gzip", "md", "mlower", "svc", "asstream"}
var eshapes = []string{"post", "batch", "gz", "xff", "ws"}

func randList(r *rand.Rand, items []string, star bool) []string {
	switch x := r.Intn(10); {
	case x < 2:
		return []string{}
	case x == 2 && star:
		return []string{"*"}
	}
	n := 1 + r.Intn(3)
	perm := r.Perm(len(items))
	out := []string{}
	for i := 0; i < n && i < len(items); i++ {
		out = append(out, items[perm[i]])
	}
	sort.Strings(out)
	return out
}

func randCfg(r *rand.Rand) mcfg {
	ipItems := []string{"*", "Z", "A", "B", "V6", "A", "B"}
	fw := []string{"*", "Ping", "Pong", "Version", "CloseQueue", "Watch"}
	fb := []string{"Ping", "Pong", "Version", "CloseQueue", "Watch"}
	dedup := func(l []string) []string {
		out := []string{}
		for _, x := range l {
			if !has(out, x) {
				out = append(out, x)
			}
		}
		return out
	}
	c := mcfg{Wn: dedup(randList(r, ipItems, true)), Wo: dedup(randList(r, ipItems, true)),
		Jw: randList(r, fw, true), Jb: randList(r, fb, false), Gw: randList(r, fw, true), Gb: randList(r, fb, false),
		Au: pick(r, []string{"off", "on", "on", "passonly"})}
	if r.Intn(3) == 0 { // whitelist under one key only
		if r.Intn(2) == 0 {
			c.Wn = []string{}
		} else {
			c.Wo = []string{}
		}
	}
	return c
}

func cfgJSON(c mcfg) map[string]any {
	nz := func(l []string) []string {
		if l == nil {
			return []string{}
		}
		return l
	}
	return map[string]any{"wn": nz(c.Wn), "wo": nz(c.Wo), "jw": nz(c.Jw), "jb": nz(c.Jb), "gw": nz(c.Gw), "gb": nz(c.Gb), "au": c.Au}
}

func ranList(rep *childReply, names []string) []string {
	out := []string{}
	for _, n := range names {
		if rep.Ran[n] > 0 {
			out = append(out, n)
		}
	}
	return out
}

func recordOne(env *core.Env, id int, depth int) ([]map[string]any, bool, error) {
	r := rand.New(rand.NewSource(env.Seed*7919 + int64(id)*104729 + int64(env.OptInt("salt", 0))))
	b := &core.Behaviour{ID: fmt.Sprintf("rec-%d-%d", env.Seed, id)}
	cz := newConc(env, b)
	ch, err := startChild()
	if err != nil {
		return nil, false, err
	}
	defer ch.stop()
	evs := []map[string]any{{"ev": "Reset"}}
	var cfgs []mcfg
	var cfg mcfg
	apply := func() error {
		cfg = randCfg(r)
		cfgs = append(cfgs, cfg)
		if _, err := ch.call(&childCmd{Cmd: "cfg", RPC: cz.tomlSection(cfg, len(cfgs))}); err != nil {
			return err
		}
		evs = append(evs, map[string]any{"ev": "Cfg", "c": cfgJSON(cfg)})
		return nil
	}
	if err := apply(); err != nil {
		return nil, false, err
	}
	second := -1
	if r.Intn(4) == 0 {
		second = depth/3 + r.Intn(depth/3+1)
	}
	nontrivial := false
	for i := 0; i < depth; i++ {
		if i == second {
			if err := apply(); err != nil {
				return nil, false, err
			}
		}
		a := pick(r, addrClasses)
		switch x := r.Intn(10); {
		case x < 5:
			m, p, sh := pick(r, methods), pick(r, credClasses), pick(r, jshapes)
			if r.Intn(3) == 0 {
				sh = "exact"
			}
			dcy := pick(r, methods)
			rep, err := ch.call(cz.jrpcCmd(cfg, a, m, dcy, p, sh, i))
			if err != nil {
				return nil, false, err
			}
			evs = append(evs, map[string]any{"ev": "Req", "ep": "jrpc", "a": a, "m": m, "p": p, "sh": sh, "ran": ranList(rep, methods)})
			if !isLoop(a) && deniedBy("jrpc", a, m, p, cfgs) != "none" {
				nontrivial = true
			}
		case x < 8:
			// unary methods only: the ungated streaming method is a known finding reported by the replay leg
			m, sh := pick(r, methods), pick(r, gshapes)
			rep, err := ch.call(cz.grpcCmd(a, m, sh, i))
			if err != nil {
				return nil, false, err
			}
			evs = append(evs, map[string]any{"ev": "Req", "ep": "grpc", "a": a, "m": m, "p": "none", "sh": sh, "ran": ranList(rep, gmethods)})
		default:
			sh := pick(r, eshapes)
			rep, err := ch.call(cz.ethCmd(a, sh, i))
			if err != nil {
				return nil, false, err
			}
			eran := containsResult(rep.Body)
			ev := map[string]any{"ev": "Req", "ep": "eth", "a": a, "sh": sh, "eran": eran, "vj": "", "vg": "", "pj": false, "pg": false}
			// peers: only meaningful in a process that has seen one configuration
			if len(cfgs) == 1 {
				for _, m := range []string{"Ping", "Pong", "Version", "CloseQueue"} {
					if mechMethodOK(m, cfg.Jw, cfg.Jb) {
						r2, err := ch.call(cz.jrpcCmd(cfg, a, m, "", "good", "exact", i))
						if err != nil {
							return nil, false, err
						}
						ev["vj"], ev["pj"] = m, r2.Ran[m] > 0
						break
					}
				}
				for _, m := range []string{"Pong", "Ping", "Version", "CloseQueue"} {
					if mechMethodOK(m, cfg.Gw, cfg.Gb) {
						r2, err := ch.call(cz.grpcCmd(a, m, "plain", i))
						if err != nil {
							return nil, false, err
						}
						ev["vg"], ev["pg"] = m, r2.Ran[m] > 0
						break
					}
				}
			}
			evs = append(evs, ev)
		}
	}
	return evs, nontrivial, nil
}

func containsResult(body string) bool {
	for i := 0; i+8 <= len(body); i++ {
		if body[i:i+8] == `"result"` {
			return true
		}
	}
	return false
}

func recordRandom(env *core.Env, emit func(map[string]any)) (*core.Summary, error) {
	n := env.OptInt("n", 20)
	depth := env.OptInt("depth", 60)
	par := env.OptInt("par", 4)
	sum := &core.Summary{Counters: map[string]int{}}
	type res struct {
		evs []map[string]any
		nt  bool
		err error
	}
	out := make([]res, n)
	var wg sync.WaitGroup
	sem := make(chan struct{}, par)
	for i := 0; i < n; i++ {
		wg.Add(1)
		sem <- struct{}{}
		go func(i int) {
			defer wg.Done()
			defer func() { <-sem }()
			evs, nt, err := recordOne(env, i, depth)
			out[i] = res{evs, nt, err}
		}(i)
	}
	wg.Wait()
	for i := range out {
		if out[i].err != nil {
			return nil, out[i].err
		}
		for _, e := range out[i].evs {
			emit(e)
		}
		sum.Behaviours++
		sum.Steps += len(out[i].evs)
		if out[i].nt {
			sum.NonTrivial++
		}
		if len(sum.Samples) < 2 {
			k := len(out[i].evs)
			if k > 8 {
				k = 8
			}
			sum.Samples = append(sum.Samples, map[string]any{"id": fmt.Sprintf("rec-%d", i), "events": out[i].evs[:k]})
		}
	}
	return sum, nil
}
