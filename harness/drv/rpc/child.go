// Child process of the RPC family driver: ONE chain33 rpc package instance (the
// whitelist maps are additive process globals), configured from a TOML text exactly
// as a node would be, serving requests that arrive over in-memory connections whose
// RemoteAddr is forged by the parent.  The child is deliberately dumb: it executes
// concrete requests and reports which handlers ran.
package main

import (
	"bufio"
	"bytes"
	"compress/gzip"
	"context"
	"encoding/base64"
	"encoding/json"
	"errors"
	"fmt"
	"io"
	"net"
	"net/http"
	"net/url"
	"os"
	"runtime/pprof"
	"strings"
	"sync"
	"time"

	"github.com/33cn/chain33/client/mocks"
	clog "github.com/33cn/chain33/common/log"
	qmocks "github.com/33cn/chain33/queue/mocks"
	"github.com/33cn/chain33/rpc"
	"github.com/33cn/chain33/rpc/ethrpc"
	"github.com/33cn/chain33/types"
	"github.com/gorilla/websocket"
	"github.com/stretchr/testify/mock"
	"google.golang.org/grpc"
	"google.golang.org/grpc/credentials/insecure"
	"google.golang.org/grpc/metadata"
	"google.golang.org/grpc/test/bufconn"
)

// ---------------------------------------------------------------------------
// handler-ran counters

var (
	ranMu sync.Mutex
	ran   = map[string]int{}
)

func inc(name string) {
	ranMu.Lock()
	ran[name]++
	ranMu.Unlock()
}

func snapshot() map[string]int {
	ranMu.Lock()
	defer ranMu.Unlock()
	out := map[string]int{}
	for k, v := range ran {
		out[k] = v
	}
	return out
}

func diff(before, after map[string]int) map[string]int {
	out := map[string]int{}
	for k, v := range after {
		if v != before[k] {
			out[k] = v - before[k]
		}
	}
	return out
}

// Probe is the JSON-RPC probe service (registered as "Probe" next to "Chain33").
type Probe struct{}

// Ping counts.
func (p *Probe) Ping(in *types.ReqNil, result *interface{}) error {
	inc("Ping")
	*result = "ping"
	return nil
}

// Pong counts.
func (p *Probe) Pong(in *types.ReqNil, result *interface{}) error {
	inc("Pong")
	*result = "pong"
	return nil
}

// Version counts (same last name segment as the built-in Chain33.Version).
func (p *Probe) Version(in *types.ReqNil, result *interface{}) error {
	inc("Version")
	*result = "version"
	return nil
}

// CloseQueue counts (the name the code blacklists by default).
func (p *Probe) CloseQueue(in *types.ReqNil, result *interface{}) error {
	inc("CloseQueue")
	*result = "closequeue"
	return nil
}

// gRPC probe service "verif.Probe": hand-written descriptor in the shape protoc-gen-go-grpc emits.
func unaryProbe(name string) func(srv interface{}, ctx context.Context, dec func(interface{}) error, interceptor grpc.UnaryServerInterceptor) (interface{}, error) {
	return func(srv interface{}, ctx context.Context, dec func(interface{}) error, interceptor grpc.UnaryServerInterceptor) (interface{}, error) {
		in := new(types.ReqNil)
		if err := dec(in); err != nil {
			return nil, err
		}
		h := func(ctx context.Context, req interface{}) (interface{}, error) {
			inc(name)
			return &types.Reply{IsOk: true}, nil
		}
		if interceptor == nil {
			return h(ctx, in)
		}
		info := &grpc.UnaryServerInfo{Server: srv, FullMethod: "/verif.Probe/" + name}
		return interceptor(ctx, in, info, h)
	}
}

type probeServer interface{}

var probeDesc = grpc.ServiceDesc{
	ServiceName: "verif.Probe",
	HandlerType: (*probeServer)(nil),
	Methods: []grpc.MethodDesc{
		{MethodName: "Ping", Handler: unaryProbe("Ping")},
		{MethodName: "Pong", Handler: unaryProbe("Pong")},
		{MethodName: "Version", Handler: unaryProbe("Version")},
		{MethodName: "CloseQueue", Handler: unaryProbe("CloseQueue")},
	},
	Streams: []grpc.StreamDesc{
		{StreamName: "Watch", ServerStreams: true, Handler: func(srv interface{}, stream grpc.ServerStream) error {
			inc("Watch")
			m := new(types.ReqNil)
			if err := stream.RecvMsg(m); err != nil {
				return err
			}
			return stream.SendMsg(&types.Reply{IsOk: true})
		}},
	},
	Metadata: "verif/probe.proto",
}

// ---------------------------------------------------------------------------
// forged connections

type strAddr struct{ s string }

func (a strAddr) Network() string { return "tcp" }
func (a strAddr) String() string  { return a.s }

type addrSpec struct {
	Kind string `json:"kind"` // "tcp": *net.TCPAddr built from ip/port/zone (what a Go listener yields); "str": literal text
	IP   string `json:"ip,omitempty"`
	Port int    `json:"port,omitempty"`
	Zone string `json:"zone,omitempty"`
	Raw4 bool   `json:"raw4,omitempty"` // keep a 4-in-6 address as 16 bytes (dual-stack listener)
	S    string `json:"s,omitempty"`
}

func (a addrSpec) addr() (net.Addr, error) {
	if a.Kind == "str" {
		return strAddr{a.S}, nil
	}
	ip := net.ParseIP(a.IP)
	if ip == nil {
		return nil, fmt.Errorf("bad ip %q", a.IP)
	}
	if v4 := ip.To4(); v4 != nil && !a.Raw4 {
		ip = v4
	}
	return &net.TCPAddr{IP: ip, Port: a.Port, Zone: a.Zone}, nil
}

type forgedConn struct {
	net.Conn
	remote net.Addr
}

func (c *forgedConn) RemoteAddr() net.Addr { return c.remote }

type forgedListener struct {
	inner *bufconn.Listener
	addrs chan net.Addr
}

func newForged() *forgedListener {
	return &forgedListener{inner: bufconn.Listen(16 << 10), addrs: make(chan net.Addr, 64)}
}

func (l *forgedListener) Accept() (net.Conn, error) {
	c, err := l.inner.Accept()
	if err != nil {
		return nil, err
	}
	return &forgedConn{Conn: c, remote: <-l.addrs}, nil
}
func (l *forgedListener) Close() error   { return l.inner.Close() }
func (l *forgedListener) Addr() net.Addr { return &net.TCPAddr{IP: net.IPv4(127, 0, 0, 1), Port: 1} }

var dialMu sync.Mutex

func (l *forgedListener) dial(ctx context.Context, remote net.Addr) (net.Conn, error) {
	dialMu.Lock()
	defer dialMu.Unlock()
	c, err := l.inner.DialContext(ctx)
	if err != nil {
		return nil, err
	}
	l.addrs <- remote
	return c, nil
}

// ---------------------------------------------------------------------------
// one configured rpc instance

type instance struct {
	r      *rpc.RPC
	srvs   []*http.Server
	jl     *forgedListener // JSON-RPC handler (hook H9) behind a real http.Server
	gl     *forgedListener // the real grpc.Server
	el     *forgedListener // Ethereum RPC (http)
	wl     *forgedListener // Ethereum RPC (websocket)
	errors []string
}

var cur *instance

func rpcSectionReplace(cfgstr, section string) (string, error) {
	i := strings.Index(cfgstr, "[rpc]\n")
	j := strings.Index(cfgstr, "[rpc.sub.eth]")
	if i < 0 || j < i {
		return "", errors.New("default config: [rpc] section not found")
	}
	return cfgstr[:i] + "[rpc]\n" + section + "\n" + cfgstr[j:], nil
}

func configure(section string) (err error) {
	defer func() {
		if r := recover(); r != nil {
			err = fmt.Errorf("configure panic: %v", r)
		}
	}()
	cfgstr, err := rpcSectionReplace(types.GetDefaultCfgstring(), section)
	if err != nil {
		return err
	}
	cfg := types.NewChain33Config(cfgstr)
	api := new(mocks.QueueProtocolAPI)
	api.On("GetConfig", mock.Anything).Return(cfg)
	api.On("Version").Run(func(mock.Arguments) { inc("Version") }).Return(&types.VersionInfo{Chain33: "verif"}, nil)
	api.On("IsSync").Run(func(mock.Arguments) { inc("IsSync") }).Return(&types.Reply{IsOk: true}, nil)
	api.On("Close").Return()
	api.On("CloseQueue").Return(&types.Reply{IsOk: true}, nil)
	qm := &qmocks.Client{}
	qm.On("GetConfig", mock.Anything).Return(cfg)
	qm.On("Close").Return()

	r := rpc.New(cfg) // InitCfg: fills the process-global maps
	r.SetAPI(api)
	r.SetQueueClientNoListen(qm)
	if err := r.JRPC().RegisterName("Probe", &Probe{}); err != nil {
		return err
	}
	r.GRPC().RegisterService(&probeDesc, &struct{}{})
	r.Listen() // builds the JSON-RPC handler closure (captured by the verif hook) and starts the real listeners on port 0
	h := r.VerifJrpcHandler()
	if h == nil {
		return errors.New("hook H9: JSON-RPC handler not captured")
	}
	in := &instance{r: r, jl: newForged(), gl: newForged(), el: newForged(), wl: newForged()}
	serve := func(h http.Handler, l net.Listener) {
		s := &http.Server{Handler: h}
		in.srvs = append(in.srvs, s)
		go s.Serve(l)
	}
	serve(h, in.jl)
	go r.GRPC().Serve(in.gl)
	// the Ethereum servers are built exactly as RPC.SetQueueClient builds them
	eh := ethrpc.NewHTTPServer(qm, api)
	eh.EnableRPC()
	serve(eh.(http.Handler), in.el)
	ew := ethrpc.NewHTTPServer(qm, api)
	ew.EnableWS()
	serve(ew.(http.Handler), in.wl)
	cur = in
	return nil
}

// restart models a process restart without paying for one: the running instance is shut down
// and the package globals are put back to their initial (empty) state (hook VerifResetGlobals).
func restart() {
	if cur != nil {
		func() {
			defer func() { recover() }()
			for _, s := range cur.srvs {
				s.Close()
			}
			cur.r.GRPC().Stop()
			cur.r.Close()
		}()
		cur = nil
	}
	rpc.VerifResetGlobals()
}

// ---------------------------------------------------------------------------
// requests

type childCmd struct {
	Cmd    string            `json:"cmd"`
	RPC    string            `json:"rpc,omitempty"`
	Ep     string            `json:"ep,omitempty"`
	Addr   addrSpec          `json:"addr"`
	Raw    string            `json:"raw,omitempty"`    // base64 of the raw HTTP request
	Method string            `json:"method,omitempty"` // gRPC full method
	Gzip   bool              `json:"gzip,omitempty"`
	Stream bool              `json:"stream,omitempty"`
	MD     map[string]string `json:"md,omitempty"`
	WSMsg  string            `json:"wsmsg,omitempty"`
	Hdr    map[string]string `json:"hdr,omitempty"`
}

type childReply struct {
	OK     bool           `json:"ok"`
	Err    string         `json:"err,omitempty"`
	Ran    map[string]int `json:"ran"`
	Status int            `json:"status,omitempty"`
	Body   string         `json:"body,omitempty"`
	RPCErr string         `json:"rpcerr,omitempty"`
}

const reqTimeout = 60 * time.Second

func doHTTP(l *forgedListener, c *childCmd) (*childReply, error) {
	raw, err := base64.StdEncoding.DecodeString(c.Raw)
	if err != nil {
		return nil, err
	}
	remote, err := c.Addr.addr()
	if err != nil {
		return nil, err
	}
	ctx, cancel := context.WithTimeout(context.Background(), reqTimeout)
	defer cancel()
	conn, err := l.dial(ctx, remote)
	if err != nil {
		return nil, err
	}
	defer conn.Close()
	conn.SetDeadline(time.Now().Add(reqTimeout))
	before := snapshot()
	if _, err := conn.Write(raw); err != nil {
		return nil, fmt.Errorf("write: %v", err)
	}
	resp, err := http.ReadResponse(bufio.NewReader(conn), nil)
	rep := &childReply{OK: true}
	if err != nil {
		if ne, ok := err.(net.Error); ok && ne.Timeout() {
			// a handler could still run later and be attributed to another request: machinery failure
			return nil, fmt.Errorf("http request timed out: %v", err)
		}
		// the server closed the connection without a response: nothing ran that we could miss,
		// the counters below still tell
		rep.RPCErr = "noresponse: " + err.Error()
	} else {
		body, _ := io.ReadAll(io.LimitReader(resp.Body, 1<<20))
		resp.Body.Close()
		if strings.Contains(resp.Header.Get("Content-Encoding"), "gzip") {
			if zr, e := gzip.NewReader(bytes.NewReader(body)); e == nil {
				if b2, e2 := io.ReadAll(zr); e2 == nil || len(b2) > 0 {
					body = b2
				}
			}
		}
		rep.Status = resp.StatusCode
		if len(body) > 600 {
			body = body[:600]
		}
		rep.Body = string(body)
	}
	rep.Ran = diff(before, snapshot())
	return rep, nil
}

// rawCodec passes protobuf bytes through; it announces itself as "proto".
type rawCodec struct{}

func (rawCodec) Marshal(v interface{}) ([]byte, error) { return *(v.(*[]byte)), nil }
func (rawCodec) Unmarshal(data []byte, v interface{}) error {
	*(v.(*[]byte)) = append([]byte{}, data...)
	return nil
}
func (rawCodec) Name() string { return "proto" }

func doGRPC(l *forgedListener, c *childCmd) (*childReply, error) {
	remote, err := c.Addr.addr()
	if err != nil {
		return nil, err
	}
	ctx, cancel := context.WithTimeout(context.Background(), reqTimeout)
	defer cancel()
	cc, err := grpc.DialContext(ctx, "passthrough:///forged",
		grpc.WithTransportCredentials(insecure.NewCredentials()),
		grpc.WithContextDialer(func(ctx context.Context, _ string) (net.Conn, error) { return l.dial(ctx, remote) }))
	if err != nil {
		return nil, err
	}
	defer cc.Close()
	if len(c.MD) > 0 {
		ctx = metadata.NewOutgoingContext(ctx, metadata.New(c.MD))
	}
	opts := []grpc.CallOption{grpc.ForceCodec(rawCodec{})}
	if c.Gzip {
		opts = append(opts, grpc.UseCompressor("gzip"))
	}
	before := snapshot()
	rep := &childReply{OK: true}
	in, out := []byte{}, []byte{}
	if c.Stream {
		st, err := cc.NewStream(ctx, &grpc.StreamDesc{ServerStreams: true}, c.Method, opts...)
		if err == nil {
			if err = st.SendMsg(&in); err == nil {
				err = st.CloseSend()
			}
			for err == nil {
				err = st.RecvMsg(&out)
			}
		}
		if err != nil && err != io.EOF {
			rep.RPCErr = err.Error()
		}
	} else if err := cc.Invoke(ctx, c.Method, &in, &out, opts...); err != nil {
		rep.RPCErr = err.Error()
	}
	if ctx.Err() != nil {
		return nil, fmt.Errorf("grpc request timed out: %v", ctx.Err())
	}
	rep.Ran = diff(before, snapshot())
	return rep, nil
}

func doWS(l *forgedListener, c *childCmd) (*childReply, error) {
	remote, err := c.Addr.addr()
	if err != nil {
		return nil, err
	}
	ctx, cancel := context.WithTimeout(context.Background(), reqTimeout)
	defer cancel()
	conn, err := l.dial(ctx, remote)
	if err != nil {
		return nil, err
	}
	defer conn.Close()
	conn.SetDeadline(time.Now().Add(reqTimeout))
	rep := &childReply{OK: true, Ran: map[string]int{}}
	u, _ := url.Parse("ws://forged/")
	hdr := http.Header{}
	for k, v := range c.Hdr {
		hdr.Set(k, v)
	}
	ws, resp, err := websocket.NewClient(conn, u, hdr, 4096, 4096)
	if resp != nil {
		rep.Status = resp.StatusCode
	}
	if err != nil {
		rep.RPCErr = "handshake: " + err.Error()
		return rep, nil
	}
	defer ws.Close()
	if err := ws.WriteMessage(websocket.TextMessage, []byte(c.WSMsg)); err != nil {
		rep.RPCErr = "write: " + err.Error()
		return rep, nil
	}
	_, msg, err := ws.ReadMessage()
	if err != nil {
		rep.RPCErr = "read: " + err.Error()
		return rep, nil
	}
	if len(msg) > 600 {
		msg = msg[:600]
	}
	rep.Body = string(msg)
	return rep, nil
}

func childMain() int {
	if pf := os.Getenv("VERIF_RPC_PROF"); pf != "" {
		f, _ := os.Create(pf)
		pprof.StartCPUProfile(f)
		defer pprof.StopCPUProfile()
	}
	if os.Getenv("VERIF_RPC_LOG") == "" {
		clog.SetLogLevel("error") // debug lines for every request are pure overhead here
	}
	in := os.NewFile(3, "cmd")
	out := os.NewFile(4, "reply")
	if in == nil || out == nil {
		fmt.Fprintln(os.Stderr, "child: fds 3/4 missing")
		return 2
	}
	sc := bufio.NewScanner(in)
	sc.Buffer(make([]byte, 1<<20), 1<<26)
	w := bufio.NewWriter(out)
	for sc.Scan() {
		var c childCmd
		var rep *childReply
		err := json.Unmarshal(sc.Bytes(), &c)
		if err == nil {
			switch c.Cmd {
			case "cfg":
				err = configure(c.RPC)
				rep = &childReply{OK: err == nil}
			case "http":
				if cur == nil {
					err = errors.New("not configured")
					break
				}
				l := cur.jl
				if c.Ep == "eth" {
					l = cur.el
				}
				rep, err = doHTTP(l, &c)
			case "grpc":
				if cur == nil {
					err = errors.New("not configured")
					break
				}
				rep, err = doGRPC(cur.gl, &c)
			case "ws":
				if cur == nil {
					err = errors.New("not configured")
					break
				}
				rep, err = doWS(cur.wl, &c)
			case "restart":
				restart()
				rep = &childReply{OK: true}
			case "quit":
				return 0
			default:
				err = fmt.Errorf("unknown cmd %q", c.Cmd)
			}
		}
		if err != nil {
			rep = &childReply{OK: false, Err: err.Error()}
		}
		b, _ := json.Marshal(rep)
		w.Write(b)
		w.WriteByte('\n')
		w.Flush()
	}
	return 0
}
