// A small Go mirror of the reference clauses of spec/RPC/RPC.tla.  It is used ONLY to
// classify disagreements (which clause forbade the handler: the "by=" part of a signature)
// and to let the random recorder pick an admitted peer method; verdicts always come from TLC.
package main

import "strings"

func canon(a string) string {
	switch a {
	case "A", "Am":
		return "A"
	case "B", "Bm":
		return "B"
	case "V6":
		return "V6"
	}
	return "none"
}

func ipOK(a string, c mcfg) bool {
	all := append(append([]string{}, c.Wn...), c.Wo...)
	return has(all, "*") || has(all, "Z") || has(all, canon(a))
}

func listed(m string, w []string) bool { return len(w) == 0 || has(w, "*") || has(w, m) }

func authOK(p, au string) bool { return au == "off" || p == "good" || p == "goodalt" }

// deniedBy names the clauses of the reference that forbid method m (union reading over cfgs).
func deniedBy(ep, a, m, p string, cfgs []mcfg) string {
	ip, wl, bl, au := false, false, false, false
	for _, c := range cfgs {
		ip = ip || ipOK(a, c)
		if ep == "jrpc" {
			wl = wl || listed(m, c.Jw)
			bl = bl || !has(c.Jb, m)
			au = au || authOK(p, c.Au)
		} else {
			wl = wl || listed(m, c.Gw)
			bl = bl || !has(c.Gb, m)
			au = true
		}
	}
	var by []string
	if !ip {
		by = append(by, "ip")
	}
	if !wl {
		by = append(by, "whitelist")
	}
	if !bl {
		by = append(by, "blacklist")
	}
	if !au {
		by = append(by, "auth")
	}
	if len(by) == 0 {
		return "none"
	}
	return strings.Join(by, "+")
}

// mechanism mirror (one configuration from a fresh process): the method lists as InitCfg fills them
func mechMethodOK(m string, w, b []string) bool {
	bl := b
	if len(b) == 0 {
		bl = []string{"CloseQueue"}
	}
	if has(bl, m) {
		return false
	}
	// a "*" next to other entries is stored in the map literally and so acts as the wildcard too
	return len(w) == 0 || has(w, "*") || has(w, m)
}

func keyUse(c mcfg) string {
	f := func(l []string) string {
		switch {
		case len(l) == 0:
			return "empty"
		case len(l) == 1 && l[0] == "*":
			return "star"
		case has(l, "*") || has(l, "Z"):
			return "mixed"
		}
		return "list"
	}
	return "whitelist=" + f(c.Wn) + ",whitlist=" + f(c.Wo)
}
