// Concretisation: model ids -> hostile bytes (seeded by env.Seed, the behaviour id and opt salt).
package main

import (
	"bytes"
	"compress/gzip"
	"encoding/base64"
	"fmt"
	"math/rand"
	"net"
	"strconv"
	"strings"
	"unicode"

	"verif/harness/core"
)

type conc struct {
	r        *rand.Rand
	a, b, an string // listed-able IPv4 addresses and a textual neighbour of A
	v6       string
	u4, u6   string
	user     string
	pass     string
	salt     int
}

var poolA = []string{"1.2.3.4", "10.0.0.7", "192.168.3.1", "203.0.113.9", "100.64.0.1", "8.8.4.4"}
var poolB = []string{"5.6.7.8", "10.0.0.70", "172.16.5.4", "198.51.100.23", "192.168.3.2"}
var poolV6 = []string{"2001:db8::2", "fd00::1:2", "2400:cb00:2048:1::c629:d7a2", "2001:db8:0:1::"}
var poolU4 = []string{"9.9.9.9", "0.0.0.0", "255.255.255.255", "128.0.0.1", "126.255.255.255", "1.1.1.1", "192.168.3.3"}
var poolU6 = []string{"2001:db8::1", "fe80::1", "::", "2001:db8::2:0", "64:ff9b::102:304", "fd00::1:3"}
var poolCred = [][2]string{{"admin", "secret"}, {"chain33-user", "pa:ss:word"}, {"User", "p w"}, {"u", "Zz9"}, {"root", "tOOr"}}

func hashStr(s string) int64 {
	h := int64(0)
	for _, c := range s {
		h = h*131 + int64(c)
	}
	return h
}

func neighbours(a string) []string {
	p := strings.Split(a, ".")
	var out []string
	if n, _ := strconv.Atoi(p[3]); n*10 <= 255 {
		out = append(out, strings.Join(p[:3], ".")+"."+strconv.Itoa(n*10))
	}
	if n, _ := strconv.Atoi(p[0]); n < 25 && n > 0 {
		out = append(out, "1"+a)
	}
	n, _ := strconv.Atoi(p[3])
	out = append(out, strings.Join(p[:3], ".")+"."+strconv.Itoa((n+1)%256))
	if n, _ := strconv.Atoi(p[0]); n >= 10 {
		out = append(out, a[1:]) // drop the first digit: 10.0.0.7 -> 0.0.0.7, 192.168.3.1 -> 92.168.3.1
	}
	return out
}

func newConc(env *core.Env, b *core.Behaviour) *conc {
	salt := env.OptInt("salt", 0)
	r := rand.New(rand.NewSource(env.Seed*1000003 + hashStr(b.ID) + int64(salt)*7919))
	c := &conc{r: r, salt: salt}
	c.a = pick(r, poolA)
	c.b = pick(r, poolB)
	for _, n := range neighboursShuffled(r, c.a) {
		ip := net.ParseIP(n)
		if ip != nil && !ip.IsLoopback() && n != c.b && n != c.a {
			c.an = n
			break
		}
	}
	if c.an == "" {
		c.an = "44.3.2.1"
	}
	c.v6 = pick(r, poolV6)
	for {
		c.u4 = pick(r, poolU4)
		if c.u4 != c.a && c.u4 != c.b && c.u4 != c.an {
			break
		}
	}
	for {
		c.u6 = pick(r, poolU6)
		if c.u6 != c.v6 {
			break
		}
	}
	cr := pick(r, poolCred)
	c.user, c.pass = cr[0], cr[1]
	return c
}

func neighboursShuffled(r *rand.Rand, a string) []string {
	n := neighbours(a)
	r.Shuffle(len(n), func(i, j int) { n[i], n[j] = n[j], n[i] })
	return n
}

// ---------------------------------------------------------------------------
// configuration text

func (c *conc) ipEntry(x string) string {
	switch x {
	case "*":
		return "*"
	case "Z":
		return "0.0.0.0"
	case "A":
		return c.a
	case "B":
		return c.b
	case "V6":
		return c.v6
	}
	return x
}

func tomlList(l []string) string {
	q := make([]string, len(l))
	for i, x := range l {
		q[i] = strconv.Quote(x)
	}
	return "[" + strings.Join(q, ",") + "]"
}

func (c *conc) creds(au string) (string, string) {
	switch au {
	case "on":
		return c.user, c.pass
	case "passonly":
		return "", c.pass
	}
	return "", ""
}

// tomlSection renders the [rpc] section: both key spellings, lists in a seeded order, empty
// lists either omitted or written as [].
func (c *conc) tomlSection(m mcfg, n int) string {
	r := rand.New(rand.NewSource(c.r.Int63()))
	var sb strings.Builder
	sb.WriteString("jrpcBindAddr=\"localhost:0\"\ngrpcBindAddr=\"localhost:0\"\n")
	put := func(key string, l []string, conv func(string) string) {
		out := make([]string, len(l))
		for i, x := range l {
			out[i] = conv(x)
		}
		r.Shuffle(len(out), func(i, j int) { out[i], out[j] = out[j], out[i] })
		if len(out) == 0 && r.Intn(2) == 0 {
			return
		}
		sb.WriteString(key + "=" + tomlList(out) + "\n")
	}
	id := func(s string) string { return s }
	put("whitelist", m.Wn, c.ipEntry)
	put("whitlist", m.Wo, c.ipEntry)
	put("jrpcFuncWhitelist", m.Jw, id)
	put("jrpcFuncBlacklist", m.Jb, id)
	put("grpcFuncWhitelist", m.Gw, id)
	put("grpcFuncBlacklist", m.Gb, id)
	u, p := c.creds(m.Au)
	if u != "" {
		sb.WriteString("jrpcUserName=" + strconv.Quote(u) + "\n")
	}
	if p != "" {
		sb.WriteString("jrpcUserPasswd=" + strconv.Quote(p) + "\n")
	}
	return sb.String()
}

// ---------------------------------------------------------------------------
// client addresses

func (c *conc) addr(a string, idx int) addrSpec {
	r := rand.New(rand.NewSource(c.r.Int63() + int64(idx)))
	port := 1024 + r.Intn(60000)
	tcp := func(ip string) addrSpec { return addrSpec{Kind: "tcp", IP: ip, Port: port} }
	mapped := func(v4 string) addrSpec {
		switch r.Intn(3) {
		case 0: // what a dual-stack Go listener yields: 16-byte IP, printed dotted
			return addrSpec{Kind: "tcp", IP: v4, Port: port, Raw4: true}
		case 1:
			return addrSpec{Kind: "str", S: fmt.Sprintf("[::ffff:%s]:%d", v4, port)}
		default:
			ip := net.ParseIP(v4).To4()
			return addrSpec{Kind: "str", S: fmt.Sprintf("[::ffff:%x:%x]:%d", int(ip[0])<<8|int(ip[1]), int(ip[2])<<8|int(ip[3]), port)}
		}
	}
	switch a {
	case "lo4":
		return tcp("127.0.0.1")
	case "lo4b":
		return tcp(pick(r, []string{"127.0.0.2", "127.255.255.254", "127.1.2.3"}))
	case "lo6":
		return tcp("::1")
	case "lo4m":
		return mapped("127.0.0.1")
	case "A":
		return tcp(c.a)
	case "Am":
		return mapped(c.a)
	case "B":
		return tcp(c.b)
	case "Bm":
		return mapped(c.b)
	case "An":
		return tcp(c.an)
	case "U4":
		return tcp(c.u4)
	case "U4m":
		return mapped(c.u4)
	case "V6":
		return tcp(c.v6)
	case "U6":
		return tcp(c.u6)
	case "U6z":
		return addrSpec{Kind: "tcp", IP: "fe80::" + strconv.Itoa(1+r.Intn(9)), Port: port, Zone: pick(r, []string{"eth0", "lo", "1"})}
	}
	return tcp("9.9.9.9")
}

// ---------------------------------------------------------------------------
// credentials

func swapCase(s string) string {
	out := []rune(s)
	for i, ch := range out {
		if unicode.IsLower(ch) {
			out[i] = unicode.ToUpper(ch)
		} else if unicode.IsUpper(ch) {
			out[i] = unicode.ToLower(ch)
		}
	}
	return string(out)
}

// authHeaders returns the Authorization header line(s) for credentials class p.
func (c *conc) authHeaders(m mcfg, p string, r *rand.Rand) []string {
	u, pw := c.creds(m.Au)
	if m.Au == "off" || m.Au == "none" {
		u, pw = c.user, c.pass // no credentials configured: whatever is presented must not matter
	}
	basic := func(u, p string) string {
		return "Authorization: Basic " + base64.StdEncoding.EncodeToString([]byte(u+":"+p))
	}
	switch p {
	case "none":
		return nil
	case "good":
		return []string{basic(u, pw)}
	case "badpass":
		return []string{basic(u, pick(r, []string{pw + "x", pw[:len(pw)-1], "", " " + pw, pw + ":" + pw}))}
	case "baduser":
		return []string{basic(pick(r, []string{u + "x", "nobody", pw, u + ":" + u, " " + u}), pw)}
	case "badcase":
		if swapCase(u) != u && r.Intn(2) == 0 {
			return []string{basic(swapCase(u), pw)}
		}
		if swapCase(pw) != pw {
			return []string{basic(u, swapCase(pw))}
		}
		return []string{basic(u, pw+"X")}
	case "goodalt": // the right credentials in an unusual carrier; the outcome is left open
		g := basic(u, pw)
		switch r.Intn(4) {
		case 0:
			return []string{strings.Replace(g, "Basic", "basic", 1)}
		case 1:
			return []string{strings.Replace(g, "Basic", "Bearer", 1)}
		case 2:
			return []string{basic(u, pw+"x"), g}
		default:
			return []string{g, basic(u+"x", pw)}
		}
	}
	return nil
}

// ---------------------------------------------------------------------------
// JSON-RPC requests

func svcOf(m string, r *rand.Rand) string {
	if m == "Version" && r.Intn(2) == 0 {
		return "Chain33" // the built-in Chain33.Version
	}
	return "Probe"
}

func gz(b []byte) []byte {
	var buf bytes.Buffer
	w := gzip.NewWriter(&buf)
	w.Write(b)
	w.Close()
	return buf.Bytes()
}

func uescape(s string, r *rand.Rand) string {
	var sb strings.Builder
	for _, ch := range s {
		if r.Intn(3) == 0 {
			fmt.Fprintf(&sb, "\\u%04x", ch)
		} else {
			sb.WriteRune(ch)
		}
	}
	return sb.String()
}

func (c *conc) jrpcCmd(m mcfg, a, meth, decoy, p, sh string, idx int) *childCmd {
	r := rand.New(rand.NewSource(c.r.Int63() + int64(idx)*31))
	svc := svcOf(meth, r)
	name := svc + "." + meth
	dname := "Probe." + decoy
	id := strconv.Itoa(1 + r.Intn(1000))
	httpMethod, path := "POST", "/"
	hdrs := []string{"Host: node", "Content-Type: application/json"}
	obj := func(method string) string {
		return `{"jsonrpc":"2.0","method":"` + method + `","params":[{}],"id":` + id + `}`
	}
	body := obj(name)
	gzBody, chunked := false, false
	switch sh {
	case "exact":
	case "nover":
		body = `{"method":"` + name + `","params":[{}],"id":` + id + `}`
	case "space":
		body = " \n\t{ \"id\" :\r\n " + id + " , \"params\" : [ { } ] ,\n\"method\"\t:\t\"" + name + "\" }\n\n"
	case "keycase":
		k := pick(r, [][3]string{{"Method", "Params", "Id"}, {"METHOD", "PARAMS", "ID"}, {"mEtHoD", "params", "iD"}})
		body = `{"` + k[0] + `":"` + name + `","` + k[1] + `":[{}],"` + k[2] + `":` + id + `}`
	case "esc":
		body = `{"` + uescape("method", r) + `":"` + uescape(name, r) + `","params":[{}],"id":` + id + `}`
	case "extra":
		body = `{"jsonrpc":"2.0","methods":"` + dname + `","method":"` + name + `","meta":{"method":"` + dname + `","id":7},"params":[{}],"id":` + id + `,"method2":"` + dname + `","auth":null}`
	case "dupLast":
		body = `{"method":"` + dname + `","params":[{}],"id":` + id + `,"method":"` + name + `"}`
	case "dupFirst":
		body = `{"method":"` + name + `","params":[{}],"id":` + id + `,"method":"` + dname + `"}`
	case "dupCase":
		body = `{"method":"` + dname + `","params":[{}],"id":` + id + `,"` + pick(r, []string{"Method", "METHOD", "methoD"}) + `":"` + name + `"}`
	case "mlower":
		body = obj(pick(r, []string{strings.ToLower(name), svc + "." + strings.ToLower(meth)}))
	case "mupper":
		body = obj(pick(r, []string{strings.ToUpper(name), svc + "." + strings.ToUpper(meth)}))
	case "mmix":
		body = obj(pick(r, []string{strings.ToLower(svc) + "." + meth, svc + "." + swapCase(meth), svc + "." + meth + " ", " " + name}))
	case "svc":
		alt := []string{"X.Probe." + meth, "Probe.Probe." + meth, "probe." + meth, "Probe/" + meth}
		if meth != "CloseQueue" { // the built-in Chain33.CloseQueue does its work asynchronously: never targeted
			alt = append(alt, "Chain33."+meth)
		}
		body = obj(pick(r, alt))
	case "nodot":
		body = obj(meth)
	case "trail":
		body = obj(pick(r, []string{name + ".", "." + meth, name + "." + decoy, "Probe." + decoy + "." + meth, ".", ""}))
	case "batch":
		body = "[" + obj(name) + "," + obj(dname) + "]"
	case "concat":
		body = obj(name) + pick(r, []string{"", "\n", " "}) + obj(dname)
	case "gzbody":
		gzBody = true
	case "gzresp":
		hdrs = append(hdrs, "Accept-Encoding: gzip")
	case "params0":
		body = `{"jsonrpc":"2.0","method":"` + name + `","params":[],"id":` + id + `}`
	case "paramsNull":
		body = `{"jsonrpc":"2.0","method":"` + name + `","params":` + pick(r, []string{"null", "[null]"}) + `,"id":` + id + `}`
	case "params2":
		body = `{"jsonrpc":"2.0","method":"` + name + `","params":[{},{"x":1},3],"id":` + id + `}`
	case "paramsObj":
		body = `{"jsonrpc":"2.0","method":"` + name + `","params":` + pick(r, []string{"{}", `"x"`, "7"}) + `,"id":` + id + `}`
	case "noparams":
		body = `{"jsonrpc":"2.0","method":"` + name + `","id":` + id + `}`
	case "idStr":
		body = `{"jsonrpc":"2.0","method":"` + name + `","params":[{}],"id":` + pick(r, []string{`"1"`, `"abc"`, `[1]`, `{}`, `1.5`, `18446744073709551616`}) + `}`
	case "idNull":
		body = pick(r, []string{`{"jsonrpc":"2.0","method":"` + name + `","params":[{}],"id":null}`, `{"jsonrpc":"2.0","method":"` + name + `","params":[{}]}`})
	case "idNeg":
		body = `{"jsonrpc":"2.0","method":"` + name + `","params":[{}],"id":` + pick(r, []string{"0", "18446744073709551615", "1e2", "7"}) + `}`
	case "path":
		path = pick(r, []string{"/x", "//", "/rpc", "/.", "/%2f"})
	case "query":
		path = pick(r, []string{"/?method=" + dname, "/?x=1", "/#frag"})
	case "get":
		httpMethod = pick(r, []string{"GET", "PUT", "DELETE", "PATCH"})
	case "chunked":
		chunked = true
	case "ctype":
		hdrs[1] = "Content-Type: " + pick(r, []string{"text/plain", "application/x-www-form-urlencoded", "application/json; charset=utf-16", ""})
	case "xff":
		hdrs = append(hdrs, "X-Forwarded-For: 127.0.0.1", "X-Real-IP: 127.0.0.1", "Forwarded: for=127.0.0.1", "Origin: http://localhost")
	}
	hdrs = append(hdrs, c.authHeaders(m, p, r)...)
	bb := []byte(body)
	if gzBody {
		bb = gz(bb)
		hdrs = append(hdrs, "Content-Encoding: gzip")
	}
	return &childCmd{Cmd: "http", Ep: "jrpc", Addr: c.addr(a, idx), Raw: b64(rawHTTP(httpMethod, path, hdrs, bb, chunked))}
}

func rawHTTP(method, path string, hdrs []string, body []byte, chunked bool) []byte {
	var buf bytes.Buffer
	fmt.Fprintf(&buf, "%s %s HTTP/1.1\r\n", method, path)
	for _, h := range hdrs {
		buf.WriteString(h + "\r\n")
	}
	buf.WriteString("Connection: close\r\n")
	if chunked {
		buf.WriteString("Transfer-Encoding: chunked\r\n\r\n")
		for len(body) > 0 {
			n := 7
			if n > len(body) {
				n = len(body)
			}
			fmt.Fprintf(&buf, "%x\r\n", n)
			buf.Write(body[:n])
			buf.WriteString("\r\n")
			body = body[n:]
		}
		buf.WriteString("0\r\n\r\n")
		return buf.Bytes()
	}
	fmt.Fprintf(&buf, "Content-Length: %d\r\n\r\n", len(body))
	buf.Write(body)
	return buf.Bytes()
}

// ---------------------------------------------------------------------------
// gRPC requests

func (c *conc) grpcCmd(a, meth, sh string, idx int) *childCmd {
	r := rand.New(rand.NewSource(c.r.Int63() + int64(idx)*37))
	full := "/verif.Probe/" + meth
	if meth == "Version" && r.Intn(2) == 0 {
		full = "/types.chain33/Version"
	}
	cmd := &childCmd{Cmd: "grpc", Addr: c.addr(a, idx), Stream: meth == "Watch"}
	switch sh {
	case "gzip":
		cmd.Gzip = true
	case "md":
		cmd.MD = map[string]string{"x-forwarded-for": "127.0.0.1", "x-real-ip": "127.0.0.1", "authorization": "Basic Og==", "forwarded": "for=127.0.0.1"}
	case "mlower":
		full = pick(r, []string{"/verif.Probe/" + strings.ToLower(meth), "/verif.probe/" + meth, "/VERIF.PROBE/" + strings.ToUpper(meth)})
	case "svc":
		alt := []string{"/x/verif.Probe/" + meth, "verif.Probe/" + meth, "/verif.Probe/" + meth + "/", "//" + meth}
		if meth != "CloseQueue" {
			alt = append(alt, "/types.chain33/"+meth)
		}
		full = pick(r, alt)
	case "asstream":
		cmd.Stream = true
	}
	cmd.Method = full
	return cmd
}

// ---------------------------------------------------------------------------
// Ethereum RPC requests

func (c *conc) ethCmd(a, sh string, idx int) *childCmd {
	r := rand.New(rand.NewSource(c.r.Int63() + int64(idx)*41))
	id := strconv.Itoa(1 + r.Intn(1000))
	call := `{"jsonrpc":"2.0","method":"web3_sha3","params":["0x68656c6c6f"],"id":` + id + `}`
	hdrs := []string{"Host: node", "Content-Type: application/json"}
	body := call
	switch sh {
	case "batch":
		body = "[" + call + "," + call + "]"
	case "gz":
		hdrs = append(hdrs, "Accept-Encoding: gzip")
	case "xff":
		hdrs = append(hdrs, "X-Forwarded-For: 127.0.0.1", "X-Real-IP: 127.0.0.1", "Origin: http://localhost")
	case "ws":
		return &childCmd{Cmd: "ws", Addr: c.addr(a, idx), WSMsg: call, Hdr: map[string]string{"Origin": "http://localhost"}}
	}
	return &childCmd{Cmd: "http", Ep: "eth", Addr: c.addr(a, idx), Raw: b64(rawHTTP("POST", "/", hdrs, []byte(body), false))}
}
