package main

// Binding B: seeded random configurations (peers, heights, failure behaviours, pid order,
// latencies) run the real download task with free-running goroutines (the gates only log and
// add scheduling jitter). Recorded per task: Reset(configuration), Reply(h,p,ok) at the gate
// after the peer's reply, Waited (wg.Wait returned), Recheck(h) (re-download pass starts),
// Deliver(h) as the fake blockchain consumes an EventSyncBlock, Done (handler returned),
// Drained(what the blockchain holds). Sort/Pick/Release/Remove/bus hand-over are silent
// steps of Download_Trace. A task that does not finish is recorded as the event "Stuck",
// which no action of the trace specification matches.

import (
	"fmt"
	"math/rand"
	"sort"
	"time"

	"verif/harness/core"
)

var kindPool = []string{"ok", "ok", "ok", "ok", "refuse", "refuse", "stall", "malformed", "malformed", "wrong"}

func randomConfig(r *rand.Rand, maxP, maxH int) config {
	c := config{np: 1 + r.Intn(maxP), nh: 1 + r.Intn(maxH)}
	for p := 1; p <= c.np; p++ {
		ph := c.nh
		if r.Intn(3) == 0 {
			ph = r.Intn(c.nh + 1)
		}
		c.ph = append(c.ph, ph)
		var row []string
		for h := 1; h <= c.nh; h++ {
			if h > ph {
				row = append(row, "lacks")
			} else {
				row = append(row, kindPool[r.Intn(len(kindPool))])
			}
		}
		c.beh = append(c.beh, row)
	}
	c.arr0 = make([]int, c.np)
	if r.Intn(2) == 0 {
		for i := range c.arr0 {
			c.arr0[i] = i + 1
		}
	} else {
		for i, v := range r.Perm(c.np) {
			c.arr0[i] = v + 1
		}
	}
	return c
}

func nonTrivialCfg(cfg config) bool {
	for h := 1; h <= cfg.nh; h++ {
		bad := false
		for p := 1; p <= cfg.np; p++ {
			switch cfg.kind(p, h) {
			case "refuse", "stall", "malformed", "wrong":
				bad = true
			}
		}
		if bad && cfg.servable(h) {
			return true
		}
	}
	return false
}

func record(env *core.Env, emit func(map[string]any)) (*core.Summary, error) {
	sum := &core.Summary{Counters: map[string]int{}}
	n := env.OptInt("n", 20)
	maxP := env.OptInt("peers", 4)
	maxH := env.OptInt("heights", 5)
	stuck := time.Duration(env.OptInt("stuck_ms", 30000)) * time.Millisecond
	rig, err := newRig(maxPeers)
	if err != nil {
		return nil, err
	}
	defer rig.close()
	r := rand.New(rand.NewSource(env.Seed*7919 + int64(env.OptInt("salt", 0))))
	for t := 0; t < n; t++ {
		cfg := randomConfig(r, maxP, maxH)
		rig.resetLogs()
		c, pids, err := newCase(rig, cfg, r, env.OptInt("stall_ms", 250))
		if err != nil {
			return nil, err
		}
		c.emit = emit
		behAny := make([]any, 0, cfg.np)
		for _, row := range cfg.beh {
			behAny = append(behAny, row)
		}
		reset := map[string]any{"ev": "Reset", "np": cfg.np, "nh": cfg.nh, "ph": cfg.ph, "beh": behAny, "arr0": cfg.arr0}
		emit(reset)
		base := c.base
		rig.mu.Lock()
		rig.onDel = func(d delivery) {
			h := int(d.height - base)
			if d.asked != d.height || h < 1 || h > cfg.nh {
				h = 0 // not the answer to the request it was delivered for
			}
			emit(map[string]any{"ev": "Deliver", "bh": h})
		}
		rig.mu.Unlock()
		c.start(rig.newProtocol, pids, false)
		done := c.waitDone(stuck)
		if !done {
			emit(map[string]any{"ev": "Stuck"})
		} else {
			emit(map[string]any{"ev": "Done"})
		}
		if err := rig.drain(60 * time.Second); err != nil {
			return nil, err
		}
		v := c.evaluate(done)
		if done {
			emit(map[string]any{"ev": "Drained", "got": append([]int{}, v.delivered...)})
		}
		rig.mu.Lock()
		rig.onDel = nil
		rig.mu.Unlock()
		c.teardown()
		sum.Behaviours++
		sum.Steps += v.asks
		sum.Counters["asks"] += v.asks
		sum.Counters["reask_same_task_informational"] += v.reaskTask
		sum.Counters["reask_same_pass"] += len(v.reask)
		sum.Counters["missing_servable"] += len(v.missing)
		if !done {
			sum.Counters["stuck"]++
		}
		if nonTrivialCfg(cfg) {
			sum.NonTrivial++
			if len(sum.Samples) < 3 {
				sort.Ints(v.delivered)
				sum.Samples = append(sum.Samples, map[string]any{"config": reset, "requests": v.asks, "delivered": v.delivered,
					"pids": fmt.Sprint(len(pids))})
			}
		}
	}
	sum.Distinct = sum.Behaviours
	return sum, nil
}
