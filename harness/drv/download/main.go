// Driver for the Download family (C35): the real download protocol
// (system/p2p/dht/protocol/download) on a real libp2p host, scripted peers, a recording
// blockchain consumer; worker goroutines are scheduled through the verif gates (hook H7b).
//
// Binding A (replay): a behaviour is (configuration, schedule). "Start" launches one real
// download task; every worker step of the behaviour releases that height's goroutine from
// its gate and waits for its next gate; the re-download pass runs ungated (it is sequential)
// and is compared from its gate log. The verdict is taken from observables of the property
// only (step "TaskDone": task finished, every servable height delivered, no peer asked again
// for a height it failed within one downloadBlock pass). The mechanism predictions of the
// model (`exp`: gate reached, picked peer, job-list view, Index, TaskNum) are cross-checked as
// model fidelity: a fidelity mismatch without a property-level disagreement is a driver
// error (exit 2: the model no longer describes the code), never a verdict.
package main

import (
	"fmt"
	"math/rand"
	"os"
	"runtime"
	"sort"
	"strings"
	"sync"
	"sync/atomic"
	"time"

	clog "github.com/33cn/chain33/common/log"
	"github.com/33cn/chain33/queue"
	"github.com/33cn/chain33/system/p2p/dht/protocol/download"
	"github.com/33cn/chain33/types"
	"github.com/libp2p/go-libp2p/core/peer"
	"verif/harness/core"
)

const maxPeers = 4

type config struct {
	np, nh int
	ph     []int      // ph[p-1]
	beh    [][]string // beh[p-1][h-1], "lacks" above ph
	arr0   []int
}

func (c *config) kind(p, h int) string {
	if p < 1 || p > c.np || h < 1 || h > c.nh {
		return "none"
	}
	return c.beh[p-1][h-1]
}

func (c *config) servable(h int) bool {
	for p := 1; p <= c.np; p++ {
		if c.kind(p, h) == "ok" {
			return true
		}
	}
	return false
}

type arrival struct {
	seq    int64
	point  string
	h      int
	view   []int
	index  []int
	nums   []int
	picked int
	failed bool
	errs   string
}

type wk struct {
	arrive  chan arrival
	release chan struct{}
	last    arrival
	exited  bool
	hung    bool
}

type caseRun struct {
	rig      *rig
	cfg      config
	base     int64
	pidOf    []peer.ID // model peer -> pid
	nodeOf   []int     // model peer -> node index (-1: ghost identity)
	modelOf  map[peer.ID]int
	variant  [][]string
	wrongTo  [][]int64
	release  chan struct{}
	gated    int32
	phase    int32
	mu       sync.Mutex
	mainLog  map[int][]arrival
	reLog    map[int][]arrival
	reCur    map[int]int
	workers  map[int]*wk
	coord    chan arrival
	coordRel chan struct{}
	doneC    chan struct{}
	drop     func()
	emit     func(map[string]any)
	jit      *rand.Rand
	jitMu    sync.Mutex
	stallMs  int
	started  bool
	finished bool
	// scenario "hold": peers keep their good replies back until `hold` requests are in flight
	hold     int
	inflight int32
	maxInfl  int32
	lastReq  int64
	holdC    chan struct{}
	holdOnce sync.Once
}

// holdWait is called by a scripted peer before it sends a good reply.
func (c *caseRun) holdWait() {
	if c.hold <= 0 {
		return
	}
	n := atomic.AddInt32(&c.inflight, 1)
	for {
		m := atomic.LoadInt32(&c.maxInfl)
		if n <= m || atomic.CompareAndSwapInt32(&c.maxInfl, m, n) {
			break
		}
	}
	atomic.StoreInt64(&c.lastReq, time.Now().UnixNano())
	select {
	case <-c.holdC:
	case <-c.release:
	}
	atomic.AddInt32(&c.inflight, -1)
}

// holdWatch opens the hold once `hold` requests are in flight and every other height worker has given
// up (the peers are at their concurrency limit, the rest ran out of retries), or when nothing new has
// arrived for a long while (the expected number of concurrent requests was not reached): the run then
// still ends and is judged on the property alone.
func (c *caseRun) holdWatch(quiet time.Duration) {
	if c.hold <= 0 {
		return
	}
	go func() {
		for {
			select {
			case <-c.holdC:
				return
			case <-c.release:
				return
			case <-time.After(20 * time.Millisecond):
			}
			if int(atomic.LoadInt32(&c.inflight)) >= c.hold {
				exits := 0
				c.mu.Lock()
				for _, l := range c.mainLog {
					if len(l) > 0 && l[len(l)-1].point == "exit" {
						exits++
					}
				}
				c.mu.Unlock()
				if exits >= c.cfg.nh-c.hold {
					c.holdOnce.Do(func() { close(c.holdC) })
					return
				}
			}
			last := atomic.LoadInt64(&c.lastReq)
			if last != 0 && time.Since(time.Unix(0, last)) > quiet {
				c.holdOnce.Do(func() { close(c.holdC) })
				return
			}
		}
	}()
}

var caseCounter int64

var variantsOf = map[string][]string{
	"ok":        {"ok"},
	"refuse":    {"refuse-reset", "refuse-close"},
	"stall":     {"stall"},
	"malformed": {"mal-garbage", "mal-body", "mal-nilmsg", "mal-empty", "mal-tx"},
	"wrong":     {"wrong", "wrong", "wrong-empty"}, // wrong-empty: an item whose block is empty (decodes as height 0)
	"lacks":     {"mal-empty"},                     // a peer below the height has no such block; it is never asked by the code
}

func newCase(r *rig, cfg config, rnd *rand.Rand, stallMs int) (*caseRun, []string, error) {
	if cfg.np > len(r.nodes) {
		return nil, nil, fmt.Errorf("np %d > %d nodes", cfg.np, len(r.nodes))
	}
	c := &caseRun{rig: r, cfg: cfg, release: make(chan struct{}), modelOf: map[peer.ID]int{},
		mainLog: map[int][]arrival{}, reLog: map[int][]arrival{}, reCur: map[int]int{}, workers: map[int]*wk{},
		coord: make(chan arrival, 2), coordRel: make(chan struct{}, 1), doneC: make(chan struct{}), stallMs: stallMs,
		holdC: make(chan struct{})}
	c.base = atomic.AddInt64(&caseCounter, 1)*1000 + int64(rnd.Intn(500))
	perm := rnd.Perm(len(r.nodes))
	lat := map[peer.ID]time.Duration{}
	hts := map[peer.ID]int64{}
	ident := true
	for i, v := range cfg.arr0 {
		if v != i+1 {
			ident = false
		}
	}
	equalLat := ident && rnd.Intn(2) == 0
	for p := 1; p <= cfg.np; p++ {
		nd := r.nodes[perm[p-1]]
		allRefuse := cfg.ph[p-1] > 0
		for h := 1; h <= cfg.ph[p-1]; h++ {
			if cfg.kind(p, h) != "refuse" {
				allRefuse = false
			}
		}
		id, nix := nd.id, nd.ix
		mode := 0
		if allRefuse {
			mode = rnd.Intn(3) // 0: per-request refusal, 1: protocol not served, 2: identity that cannot be dialled
		}
		switch mode {
		case 1:
			nd.install(false)
		case 2:
			id, nix = r.ghost[perm[p-1]], -1
		}
		c.pidOf = append(c.pidOf, id)
		c.nodeOf = append(c.nodeOf, nix)
		c.modelOf[id] = p
		if !equalLat {
			lat[id] = time.Duration(p) * 7 * time.Millisecond
		}
		hts[id] = c.base + int64(cfg.ph[p-1])
		var vs []string
		var ws []int64
		for h := 1; h <= cfg.nh; h++ {
			alts := variantsOf[cfg.kind(p, h)]
			if len(alts) == 0 {
				alts = []string{"refuse-reset"}
			}
			vs = append(vs, alts[rnd.Intn(len(alts))])
			cands := []int64{0, c.base + int64(h) + 1, c.base + int64(h) - 1, c.base + int64(cfg.nh) + 7, c.base + int64(h) + 100000}
			ws = append(ws, cands[rnd.Intn(len(cands))])
		}
		c.variant = append(c.variant, vs)
		c.wrongTo = append(c.wrongTo, ws)
	}
	r.lat.Store(lat)
	r.hts.Store(hts)
	for _, n := range r.nodes {
		n.setCase(c)
	}
	// the pid list of the request in the order arr0; sometimes with entries initJob must skip
	var pids []string
	for _, p := range cfg.arr0 {
		pids = append(pids, c.pidOf[p-1].String())
	}
	switch rnd.Intn(4) {
	case 0:
		pids = append(pids, r.dl.ID().String()) // the downloader itself
	case 1:
		pids = append([]string{"not-a-peer-id"}, pids...)
	}
	for h := 1; h <= cfg.nh; h++ {
		c.workers[h] = &wk{arrive: make(chan arrival, 8), release: make(chan struct{}, 1)}
	}
	c.jit = rand.New(rand.NewSource(rnd.Int63()))
	return c, pids, nil
}

func (c *caseRun) varOf(p, h int) string {
	if p < 1 || p > c.cfg.np || h < 1 || h > c.cfg.nh {
		return "-"
	}
	return c.cfg.kind(p, h) + "/" + c.variant[p-1][h-1]
}

// variantFor is called by a scripted peer for a request it received.
func (c *caseRun) variantFor(nodeIx int, height int64) (string, int64, chan struct{}) {
	h := int(height - c.base)
	for p := 1; p <= c.cfg.np; p++ {
		if c.nodeOf[p-1] == nodeIx && h >= 1 && h <= c.cfg.nh {
			return c.variant[p-1][h-1], c.wrongTo[p-1][h-1], c.release
		}
	}
	return "refuse-reset", 0, c.release
}

func (c *caseRun) hooks(view bool) *download.VerifDlHooks {
	return &download.VerifDlHooks{
		View:    view,
		NoSleep: true,
		Gate:    c.gate,
		Timeout: func(height int64, pid peer.ID) time.Duration {
			p, h := c.modelOf[pid], int(height-c.base)
			if p >= 1 && h >= 1 && h <= c.cfg.nh && c.variant[p-1][h-1] == "stall" {
				return time.Duration(c.stallMs) * time.Millisecond
			}
			return 0
		},
	}
}

func (c *caseRun) gate(point string, height int64, view []peer.ID, index []int, nums []int, picked peer.ID, err error) {
	a := arrival{seq: c.rig.next(), point: point, h: int(height - c.base), index: index, nums: nums, picked: c.modelOf[picked]}
	for _, id := range view {
		a.view = append(a.view, c.modelOf[id])
	}
	if err != nil {
		a.failed, a.errs = true, err.Error()
	}
	re := atomic.LoadInt32(&c.phase) == 1
	c.mu.Lock()
	if re {
		c.reLog[a.h] = append(c.reLog[a.h], a)
	} else if point != "waited" {
		c.mainLog[a.h] = append(c.mainLog[a.h], a)
	}
	c.mu.Unlock()
	if point == "waited" {
		atomic.StoreInt32(&c.phase, 1)
	}
	if c.emit != nil {
		switch point {
		case "reply":
			c.emit(map[string]any{"ev": "Reply", "h": a.h, "p": a.picked, "ok": !a.failed})
		case "recheck":
			c.emit(map[string]any{"ev": "Recheck", "h": a.h})
		case "waited":
			c.emit(map[string]any{"ev": "Waited"})
		}
	}
	if atomic.LoadInt32(&c.gated) == 0 {
		c.jitter()
		return
	}
	switch point {
	case "waited":
		c.coord <- a
		<-c.coordRel
	case "exit":
		if w := c.workers[a.h]; w != nil {
			w.arrive <- a
		}
	default:
		if re {
			return
		}
		if w := c.workers[a.h]; w != nil {
			w.arrive <- a
			<-w.release
		}
	}
}

func (c *caseRun) jitter() {
	c.jitMu.Lock()
	x := c.jit.Intn(8)
	d := c.jit.Intn(300)
	c.jitMu.Unlock()
	switch {
	case x < 3:
		runtime.Gosched()
	case x == 3:
		time.Sleep(time.Duration(d) * time.Microsecond)
	}
}

func (c *caseRun) start(fetchOf func(*download.VerifDlHooks) (func(*queue.Message), func()), pids []string, gated bool) {
	if gated {
		atomic.StoreInt32(&c.gated, 1)
	}
	fetch, drop := fetchOf(c.hooks(gated))
	c.drop = drop
	msg := c.rig.dlCli.NewMessage("p2p", types.EventFetchBlocks, &types.ReqBlocks{Pid: pids, Start: c.base + 1, End: c.base + int64(c.cfg.nh)})
	c.started = true
	go func() {
		defer close(c.doneC)
		fetch(msg)
	}()
}

// freeRun lets everything run to the end without gating.
func (c *caseRun) freeRun() {
	atomic.StoreInt32(&c.gated, 0)
	for _, w := range c.workers {
		select {
		case w.release <- struct{}{}:
		default:
		}
	}
	select {
	case c.coordRel <- struct{}{}:
	default:
	}
}

func (c *caseRun) waitDone(d time.Duration) bool {
	t := time.NewTimer(d)
	defer t.Stop()
	for {
		select {
		case <-c.doneC:
			c.finished = true
			return true
		case <-c.coord: // a "waited" arrival nobody consumed
			select {
			case c.coordRel <- struct{}{}:
			default:
			}
		case <-t.C:
			return false
		}
	}
}

func (c *caseRun) teardown() {
	if !c.started {
		return
	}
	close(c.release)
	c.freeRun()
	if !c.finished {
		c.waitDone(20 * time.Second)
	}
	if c.drop != nil {
		c.drop()
	}
	for _, n := range c.rig.nodes {
		n.install(true)
		n.setCase(nil)
	}
}

// passes returns the gate logs of every downloadBlock pass: main pass per height, re-download pass per height.
func (c *caseRun) passes() map[string][]arrival {
	c.mu.Lock()
	defer c.mu.Unlock()
	out := map[string][]arrival{}
	for h, l := range c.mainLog {
		out[fmt.Sprintf("main/%d", h)] = append([]arrival{}, l...)
	}
	for h, l := range c.reLog {
		out[fmt.Sprintf("re/%d", h)] = append([]arrival{}, l...)
	}
	return out
}

type verdict struct {
	done      bool
	missing   []int
	reask     [][2]int // <<peer, height>> asked again within one pass after failing it
	reaskPass string
	reaskTask int // stronger reading: asked again anywhere in the task (informational)
	detail    string
	delivered []int
	asks      int
}

// evaluate computes the property's observables from the real run.
func (c *caseRun) evaluate(done bool) verdict {
	v := verdict{done: done}
	reqs, deliv := c.rig.snapshot()
	got := map[int]bool{}
	for _, d := range deliv {
		h := int(d.height - c.base)
		if h >= 1 && h <= c.cfg.nh && d.asked == d.height {
			got[h] = true
		}
	}
	kinds := map[string]bool{}
	for h := 1; h <= c.cfg.nh; h++ {
		if got[h] {
			v.delivered = append(v.delivered, h)
		} else if c.cfg.servable(h) {
			v.missing = append(v.missing, h)
		}
	}
	seen := map[[2]int]bool{}
	taskFailed := map[[2]int]bool{}
	passes := c.passes()
	names := make([]string, 0, len(passes))
	for k := range passes {
		names = append(names, k)
	}
	sort.Strings(names) // main/* before re/*
	askedFor := map[int][]int{}
	for _, name := range names {
		failed := map[int]bool{}
		for _, a := range passes[name] {
			switch a.point {
			case "ask":
				v.asks++
				askedFor[a.h] = append(askedFor[a.h], a.picked)
				if failed[a.picked] && !seen[[2]int{a.picked, a.h}] {
					seen[[2]int{a.picked, a.h}] = true
					v.reask = append(v.reask, [2]int{a.picked, a.h})
					if v.reaskPass == "" {
						v.reaskPass = strings.SplitN(name, "/", 2)[0]
					}
				}
				if taskFailed[[2]int{a.picked, a.h}] {
					v.reaskTask++
				}
			case "reply":
				if a.failed {
					failed[a.picked] = true
					taskFailed[[2]int{a.picked, a.h}] = true
				}
			}
		}
	}
	// the same observable as the peers see it, by counting only (a scripted peer logs a request when its
	// handler gets to read it, which under load can be long after the downloader gave up on it, so the
	// order of the peers' log entries relative to the downloader's passes means nothing): a peer that does
	// not serve h and sees more requests for h than there were downloadBlock passes for h was asked twice
	// within one of them
	cnt := map[[2]int]int{}
	for _, r := range reqs {
		h := int(r.height - c.base)
		for p := 1; p <= c.cfg.np; p++ {
			if c.nodeOf[p-1] == r.node && h >= 1 && h <= c.cfg.nh {
				cnt[[2]int{p, h}]++
			}
		}
	}
	for k, n := range cnt {
		npass := 1
		if _, ok := passes[fmt.Sprintf("re/%d", k[1])]; ok {
			npass = 2
		}
		if n > npass && c.cfg.kind(k[0], k[1]) != "ok" && !seen[k] {
			seen[k] = true
			v.reask = append(v.reask, k)
			if v.reaskPass == "" {
				v.reaskPass = "seen-by-peer"
			}
		}
	}
	sort.Slice(v.reask, func(i, j int) bool {
		if v.reask[i][1] != v.reask[j][1] {
			return v.reask[i][1] < v.reask[j][1]
		}
		return v.reask[i][0] < v.reask[j][0]
	})
	switch {
	case !done:
		for _, name := range names {
			l := passes[name]
			if len(l) > 0 && l[len(l)-1].point == "ask" {
				kinds[c.cfg.kind(l[len(l)-1].picked, l[len(l)-1].h)] = true
			}
		}
		v.detail = "Terminates|task-not-finished|waiting-on=" + setStr(kinds)
	case len(v.missing) > 0:
		for _, h := range v.missing {
			for _, p := range askedFor[h] {
				kinds[c.cfg.kind(p, h)] = true
			}
		}
		v.detail = "AllServed|servable-height-not-delivered|asked=" + setStr(kinds)
	case len(v.reask) > 0:
		for _, x := range v.reask {
			kinds[c.cfg.kind(x[0], x[1])] = true
		}
		v.detail = "NoReask|pass=" + v.reaskPass + "|failed-as=" + setStr(kinds)
	}
	return v
}

func setStr(m map[string]bool) string {
	var s []string
	for k := range m {
		s = append(s, k)
	}
	sort.Strings(s)
	if len(s) == 0 {
		return "-"
	}
	return strings.Join(s, "+")
}

func (v verdict) ret() map[string]any {
	miss := []any{}
	for _, h := range v.missing {
		miss = append(miss, h)
	}
	re := []any{}
	for _, x := range v.reask {
		re = append(re, []any{x[0], x[1]})
	}
	return map[string]any{"done": v.done, "missing": miss, "reasked": re}
}

// ---------------------------------------------------------------------------------
// the replay driver

type drv struct {
	env      *core.Env
	rig      *rig
	c        *caseRun
	b        *core.Behaviour
	rnd      *rand.Rand
	fidelity bool
	fid      string // first fidelity mismatch
	detail   string
	stuck    time.Duration
	reRan    bool
	waited   bool
}

func hashID(s string) int64 {
	h := int64(1469598103)
	for _, c := range s {
		h = h*131 + int64(c)
	}
	return h
}

func (d *drv) Reset(env *core.Env, b *core.Behaviour) error {
	d.env, d.b = env, b
	if d.rig == nil {
		r, err := newRig(maxPeers)
		if err != nil {
			return err
		}
		d.rig = r
	}
	d.rnd = rand.New(rand.NewSource(env.Seed*1000003 + hashID(b.ID) + int64(env.OptInt("salt", 0))*7919))
	d.fidelity = env.Opt("fidelity", "1") == "1"
	if b.Meta != nil {
		if f, ok := b.Meta["fidelity"].(bool); ok && !f {
			d.fidelity = false
		}
	}
	d.fid, d.detail, d.reRan, d.waited, d.c = "", "", false, false, nil
	d.stuck = time.Duration(env.OptInt("stuck_ms", 20000)) * time.Millisecond
	d.rig.resetLogs()
	return nil
}

func (d *drv) Close() {
	if d.c != nil {
		d.c.teardown()
		d.c = nil
	}
}

func parseConfig(s core.Step) (config, error) {
	c := config{np: s.Int("np"), nh: s.Int("nh"), ph: s.Ints("ph"), arr0: s.Ints("arr0")}
	for _, row := range s.List("beh") {
		var r []string
		rl, _ := row.([]any)
		for _, x := range rl {
			r = append(r, fmt.Sprint(x))
		}
		c.beh = append(c.beh, r)
	}
	if c.np < 1 || c.nh < 1 || len(c.ph) != c.np || len(c.beh) != c.np || len(c.arr0) != c.np {
		return c, fmt.Errorf("bad Start step %v", core.J(s))
	}
	for _, r := range c.beh {
		if len(r) != c.nh {
			return c, fmt.Errorf("bad beh row in %v", core.J(s))
		}
	}
	return c, nil
}

func (d *drv) noteFid(format string, a ...any) {
	if d.fid == "" {
		d.fid = fmt.Sprintf(format, a...)
	}
}

func atOf(a arrival, prev arrival, re bool) string {
	switch a.point {
	case "sort", "pick", "ask", "remove":
		return a.point
	case "reply":
		if a.failed {
			return "got_fail"
		}
		return "got_ok"
	case "exit":
		if prev.point == "reply" && !prev.failed {
			return "done"
		}
		return "failed"
	}
	return a.point
}

func intsEq(a []int, b []int) bool {
	if len(a) != len(b) {
		return false
	}
	for i := range a {
		if a[i] != b[i] {
			return false
		}
	}
	return true
}

func (d *drv) checkExp(s core.Step, at string, a arrival) {
	if !d.fidelity {
		return
	}
	exp, ok := s["exp"].(map[string]any)
	if !ok {
		return
	}
	es := core.Step(exp)
	if es.Str("at") != at {
		d.noteFid("%s(w=%d): model expects the worker at %q, the code is at %q (picked %d %s err=%q)", s.Op(), s.Int("w"), es.Str("at"), at, a.picked, d.c.varOf(a.picked, a.h), a.errs)
		return
	}
	switch a.point {
	case "sort", "pick", "ask", "reply", "remove":
	default:
		return
	}
	if (at == "ask" || at == "got_ok" || at == "got_fail" || at == "remove") && es.Int("cur") != a.picked {
		d.noteFid("%s(w=%d): model picks peer %d, the code picked %d", s.Op(), s.Int("w"), es.Int("cur"), a.picked)
		return
	}
	if !intsEq(es.Ints("view"), a.view) {
		d.noteFid("%s(w=%d): model job list %v, code %v", s.Op(), s.Int("w"), es.Ints("view"), a.view)
		return
	}
	idx, num := es.Ints("idx"), es.Ints("num")
	for i, p := range a.view {
		if p < 1 || p > len(idx) {
			continue
		}
		if idx[p-1] != a.index[i] || num[p-1] != a.nums[i] {
			d.noteFid("%s(w=%d): peer %d model Index/TaskNum %d/%d, code %d/%d", s.Op(), s.Int("w"), p, idx[p-1], num[p-1], a.index[i], a.nums[i])
			return
		}
	}
}

// runRe runs the re-download phase (and the end of the task) ungated.
func (d *drv) runRe() bool {
	if d.reRan {
		return d.c.finished
	}
	d.reRan = true
	d.c.freeRun()
	return d.c.waitDone(d.stuck)
}

func (d *drv) Apply(s core.Step) (any, any, error) {
	op := s.Op()
	if op == "Start" {
		cfg, err := parseConfig(s)
		if err != nil {
			return nil, nil, err
		}
		c, pids, err := newCase(d.rig, cfg, d.rnd, d.env.OptInt("stall_ms", 250))
		if err != nil {
			return nil, nil, err
		}
		d.c = c
		if s.Bool("free") {
			// scenario run: free-running goroutines, optionally with peers holding their replies
			c.hold = s.Int("hold")
			c.holdWatch(time.Duration(d.env.OptInt("quiet_ms", 30000)) * time.Millisecond)
			c.start(d.rig.newProtocol, pids, false)
			return "-", nil, nil
		}
		c.start(d.rig.newProtocol, pids, true)
		for h := 1; h <= cfg.nh; h++ {
			select {
			case a := <-c.workers[h].arrive:
				c.workers[h].last = a
				if a.point != "sort" {
					return nil, nil, fmt.Errorf("worker %d first gate %q", h, a.point)
				}
			case <-time.After(120 * time.Second):
				return nil, nil, fmt.Errorf("worker for height %d did not start", h)
			}
		}
		return "-", nil, nil
	}
	if d.c == nil {
		return nil, nil, fmt.Errorf("step %s before Start", op)
	}
	c := d.c
	switch op {
	case "Sort", "Pick", "Ask", "Deliver", "Release", "Remove":
		h := s.Int("w")
		w := c.workers[h]
		if w == nil {
			return nil, nil, fmt.Errorf("no worker %d", h)
		}
		if atomic.LoadInt32(&c.phase) == 1 || d.waited {
			// re-download pass of h: compare from the gate log of the ungated run
			d.runRe()
			c.mu.Lock()
			l := c.reLog[h]
			i := c.reCur[h]
			var a, prev arrival
			have := i < len(l)
			if have {
				a = l[i]
				c.reCur[h] = i + 1
			}
			if i > 0 && i-1 < len(l) {
				prev = l[i-1]
			}
			c.mu.Unlock()
			at := ""
			switch {
			case have:
				at = atOf(a, prev, true)
			case prev.point == "reply" && !prev.failed:
				at = "done"
			case !c.finished:
				at = "hung"
			default:
				at = "dropped"
			}
			d.checkExp(s, at, a)
			return nil, nil, nil
		}
		if w.exited || w.hung {
			if d.fidelity {
				d.noteFid("%s(w=%d): the worker already left (exited=%v hung=%v)", op, h, w.exited, w.hung)
			}
			return nil, nil, nil
		}
		w.release <- struct{}{}
		select {
		case a := <-w.arrive:
			at := atOf(a, w.last, false)
			if a.point == "exit" {
				w.exited = true
			}
			d.checkExp(s, at, a)
			w.last = a
		case <-time.After(d.stuck):
			w.hung = true
			if d.fidelity {
				d.noteFid("%s(w=%d): no progress within %v (last gate %q)", op, h, d.stuck, w.last.point)
			}
		}
		return nil, nil, nil
	case "Waited":
		for _, w := range c.workers {
			if !w.exited {
				// the code's workers are not where the schedule thinks they are
				if d.fidelity {
					d.noteFid("Waited: a worker has not left downloadBlock yet")
				}
				return nil, nil, nil
			}
		}
		select {
		case <-c.coord:
			d.waited = true
		case <-time.After(d.stuck):
			if d.fidelity {
				d.noteFid("Waited: wg.Wait did not return")
			}
		}
		return nil, nil, nil
	case "Recheck":
		h := s.Int("w")
		d.runRe()
		c.mu.Lock()
		l, i := c.reLog[h], c.reCur[h]
		ok := i+1 < len(l) && l[i].point == "recheck" && l[i+1].point == "sort"
		if ok {
			c.reCur[h] = i + 2
		}
		c.mu.Unlock()
		if !ok && d.fidelity {
			d.noteFid("Recheck(%d): the code did not re-download this height", h)
		}
		return nil, nil, nil
	case "TaskDone":
		done := d.runRe()
		if err := d.rig.drain(60 * time.Second); err != nil {
			return nil, nil, err
		}
		v := c.evaluate(done)
		d.detail = v.detail
		ret := v.ret()
		if core.Match(s["ret"], core.Norm(ret)) {
			if d.fidelity {
				if exp, ok := s["exp"].(map[string]any); ok {
					var want []int
					for _, x := range core.Step(exp).Ints("delivered") {
						if x > 0 { // 0 stands for a block that is not the answer to its request
							want = append(want, x)
						}
					}
					sort.Ints(want)
					if !intsEq(want, v.delivered) {
						d.noteFid("TaskDone: model delivered %v, code %v", want, v.delivered)
					}
				}
				if d.fid != "" {
					return nil, nil, fmt.Errorf("model fidelity: %s (behaviour %s; no property-level disagreement)", d.fid, d.b.ID)
				}
			}
		} else if os.Getenv("VERIF_DL_DEBUG") != "" {
			fmt.Fprintf(os.Stderr, "[download] %s: %s fid=%q\n", d.b.ID, core.J(ret), d.fid)
		}
		return ret, nil, nil
	}
	return nil, nil, fmt.Errorf("unknown op %q", op)
}

// NonTrivial: at least one peer fails a height that another peer serves.
func (d *drv) NonTrivial(env *core.Env, b *core.Behaviour) bool {
	if len(b.Steps) == 0 || b.Steps[0].Op() != "Start" {
		return false
	}
	cfg, err := parseConfig(b.Steps[0])
	if err != nil {
		return false
	}
	for h := 1; h <= cfg.nh; h++ {
		bad := false
		for p := 1; p <= cfg.np; p++ {
			switch cfg.kind(p, h) {
			case "refuse", "stall", "malformed", "wrong":
				bad = true
			}
		}
		if bad && cfg.servable(h) {
			return true
		}
	}
	return false
}

func (d *drv) Signature(b *core.Behaviour, idx int, field string, expected, observed any) string {
	if d.detail != "" {
		return "C35|" + d.detail
	}
	return ""
}

// scenario runs hand-written (Start free/hold, TaskDone) behaviours and prints verdict and counters as JSON.
func scenario(env *core.Env, args []string) int {
	if len(args) < 1 {
		fmt.Fprintln(os.Stderr, "usage: scenario <behaviours.ndjson>")
		return 2
	}
	bs, err := core.ReadBehaviours(args[0])
	if err != nil {
		fmt.Fprintln(os.Stderr, err)
		return 2
	}
	var out []map[string]any
	d := &drv{}
	for _, b := range bs {
		if err := d.Reset(env, b); err != nil {
			fmt.Fprintln(os.Stderr, err)
			return 2
		}
		var last any
		for _, s := range b.Steps {
			ret, _, err := d.Apply(s)
			if err != nil {
				fmt.Fprintln(os.Stderr, b.ID, err)
				d.Close()
				return 2
			}
			last = ret
		}
		c := d.c
		res := map[string]any{"id": b.ID, "ret": last, "signature": "C35|" + d.detail}
		if c != nil {
			c.mu.Lock()
			res["rechecked"] = len(c.reLog)
			c.mu.Unlock()
			res["max_inflight"] = atomic.LoadInt32(&c.maxInfl)
			res["nontrivial"] = len(c.reLog) > 0
		}
		out = append(out, res)
		d.Close()
	}
	fmt.Println("@@SCENARIO " + core.J(out))
	return 0
}

func main() {
	if os.Getenv("VERIF_DL_LOG") == "" {
		clog.SetLogLevel("crit")
	}
	core.Main(&core.Family{
		Name:      "Download",
		NewDriver: func() core.Driver { return &drv{} },
		Recorders: map[string]core.Recorder{"default": record},
		Extra:     map[string]func(*core.Env, []string) int{"scenario": scenario},
	})
}
