package main

// The rig: one real libp2p host running the real download protocol (the downloader) and a
// few real libp2p hosts acting as scripted peers on 127.0.0.1 (TCP, default security and
// muxer). The peers log every request they see; a consumer of the "blockchain" topic of a
// real chain33 queue records the blocks handed to the blockchain module.

import (
	"context"
	"crypto/rand"
	"fmt"
	"sync"
	"sync/atomic"
	"time"

	"github.com/33cn/chain33/queue"
	dlproto "github.com/33cn/chain33/system/p2p/dht/protocol"
	"github.com/33cn/chain33/system/p2p/dht/protocol/download"
	"github.com/33cn/chain33/types"
	"github.com/libp2p/go-libp2p"
	"github.com/libp2p/go-libp2p/core/crypto"
	"github.com/libp2p/go-libp2p/core/host"
	"github.com/libp2p/go-libp2p/core/network"
	"github.com/libp2p/go-libp2p/core/peer"
	"github.com/libp2p/go-libp2p/core/peerstore"
	"github.com/libp2p/go-libp2p/core/protocol"
)

const protoOld = "/chain33/downloadBlockReq/1.0.0"

const sentinelTy = int64(990035) // private message type used to drain the blockchain topic

// reqLog is one request seen by a scripted peer.
type reqLog struct {
	seq    int64
	node   int
	height int64
}

// node is a scripted peer.
type node struct {
	ix   int
	h    host.Host
	id   peer.ID
	rig  *rig
	mu   sync.Mutex
	cas  *caseRun // the running case (scripts are looked up there)
	hand bool     // stream handler installed
}

type delivery struct {
	seq    int64
	height int64
	asked  int64
	pid    string
}

type rig struct {
	dl     host.Host
	nodes  []*node
	q      queue.Queue
	dlCli  queue.Client
	bcCli  queue.Client
	seq    int64
	mu     sync.Mutex
	reqs   []reqLog
	deliv  []delivery
	drainC chan int64
	onDel  func(d delivery) // recorder callback (may be nil)
	lat    atomic.Value     // map[peer.ID]time.Duration
	hts    atomic.Value     // map[peer.ID]int64
	ghost  []peer.ID
}

func newHost() (host.Host, error) {
	sk, _, err := crypto.GenerateEd25519Key(rand.Reader)
	if err != nil {
		return nil, err
	}
	return libp2p.New(
		libp2p.Identity(sk),
		libp2p.ListenAddrStrings("/ip4/127.0.0.1/tcp/0"),
		libp2p.DisableRelay(),
		libp2p.ResourceManager(&network.NullResourceManager{}),
		libp2p.Ping(false),
	)
}

var rigCount int64

func newRig(npeers int) (*rig, error) {
	r := &rig{drainC: make(chan int64, 16)}
	var err error
	if r.dl, err = newHost(); err != nil {
		return nil, err
	}
	for i := 0; i < npeers; i++ {
		h, err := newHost()
		if err != nil {
			return nil, err
		}
		n := &node{ix: i, h: h, id: h.ID(), rig: r}
		n.install(true)
		r.nodes = append(r.nodes, n)
		ctx, cancel := context.WithTimeout(context.Background(), 120*time.Second)
		err = r.dl.Connect(ctx, peer.AddrInfo{ID: h.ID(), Addrs: h.Addrs()})
		cancel()
		if err != nil {
			return nil, fmt.Errorf("connect: %v", err)
		}
	}
	// identities that exist nowhere: a request to them fails while dialling
	for i := 0; i < npeers; i++ {
		sk, _, _ := crypto.GenerateEd25519Key(rand.Reader)
		id, _ := peer.IDFromPrivateKey(sk)
		r.ghost = append(r.ghost, id)
	}
	r.q = queue.New(fmt.Sprintf("verif-dl-%d", atomic.AddInt64(&rigCount, 1)))
	r.dlCli = r.q.Client()
	r.bcCli = r.q.Client()
	r.bcCli.Sub("blockchain")
	r.lat.Store(map[peer.ID]time.Duration{})
	r.hts.Store(map[peer.ID]int64{})
	go r.blockchain()
	return r, nil
}

func (r *rig) close() {
	for _, n := range r.nodes {
		n.h.Close()
	}
	r.dl.Close()
	r.q.Close()
}

func (r *rig) next() int64 { return atomic.AddInt64(&r.seq, 1) }

// the fake blockchain module: records EventSyncBlock
func (r *rig) blockchain() {
	for msg := range r.bcCli.Recv() {
		switch msg.Ty {
		case types.EventSyncBlock:
			bp, ok := msg.Data.(*types.BlockPid)
			if !ok || bp.Block == nil {
				continue
			}
			d := delivery{seq: r.next(), height: bp.Block.Height, asked: bp.Block.BlockTime, pid: bp.Pid}
			r.mu.Lock()
			r.deliv = append(r.deliv, d)
			cb := r.onDel
			r.mu.Unlock()
			if cb != nil {
				cb(d)
			}
		case sentinelTy:
			r.drainC <- msg.Data.(int64)
		}
	}
}

// drain waits until everything sent to the blockchain topic so far has been consumed.
func (r *rig) drain(timeout time.Duration) error {
	tok := r.next()
	msg := r.dlCli.NewMessage("blockchain", sentinelTy, tok)
	if err := r.dlCli.Send(msg, false); err != nil {
		return err
	}
	t := time.NewTimer(timeout)
	defer t.Stop()
	for {
		select {
		case got := <-r.drainC:
			if got == tok {
				return nil
			}
		case <-t.C:
			return fmt.Errorf("blockchain topic not drained within %v", timeout)
		}
	}
}

func (r *rig) resetLogs() {
	r.mu.Lock()
	r.reqs = nil
	r.deliv = nil
	r.mu.Unlock()
}

func (r *rig) snapshot() ([]reqLog, []delivery) {
	r.mu.Lock()
	defer r.mu.Unlock()
	return append([]reqLog{}, r.reqs...), append([]delivery{}, r.deliv...)
}

// ---------------------------------------------------------------------------------
// scripted peers

func (n *node) install(on bool) {
	n.mu.Lock()
	defer n.mu.Unlock()
	if on == n.hand {
		return
	}
	if on {
		n.h.SetStreamHandler(protocol.ID(protoOld), n.handle)
	} else {
		n.h.RemoveStreamHandler(protocol.ID(protoOld))
	}
	n.hand = on
}

func (n *node) setCase(c *caseRun) {
	n.mu.Lock()
	n.cas = c
	n.mu.Unlock()
}

// blockFor builds the block a peer returns: BlockTime carries the height the request asked for,
// so that a delivery counts for height h only if it is the answer to a request for h.
func blockFor(height, asked int64, from int) *types.Block {
	return &types.Block{Height: height, BlockTime: asked, Version: int64(1 + from),
		ParentHash: []byte(fmt.Sprintf("parent-of-%d", height)), TxHash: []byte("txhash")}
}

func respWith(b *types.Block) *types.MessageGetBlocksResp {
	return &types.MessageGetBlocksResp{Message: &types.InvDatas{Items: []*types.InvData{{Ty: 2, Value: &types.InvData_Block{Block: b}}}}}
}

func (n *node) handle(s network.Stream) {
	var req types.MessageGetBlocksReq
	if err := dlproto.ReadStream(&req, s); err != nil || req.Message == nil {
		s.Reset()
		return
	}
	height := req.Message.StartHeight
	n.mu.Lock()
	c := n.cas
	n.mu.Unlock()
	n.rig.mu.Lock()
	n.rig.reqs = append(n.rig.reqs, reqLog{seq: n.rig.next(), node: n.ix, height: height})
	n.rig.mu.Unlock()
	variant := "refuse-reset"
	var wrongTo int64
	var release chan struct{}
	if c != nil {
		variant, wrongTo, release = c.variantFor(n.ix, height)
	}
	switch variant {
	case "ok":
		if c != nil {
			c.holdWait()
		}
		_ = dlproto.WriteStream(respWith(blockFor(height, height, n.ix)), s)
		s.Close()
	case "refuse-reset":
		s.Reset()
	case "refuse-close":
		s.Close()
	case "stall":
		// never answers; the stream stays open until the case is torn down
		if release != nil {
			<-release
		}
		s.Reset()
	case "mal-garbage":
		_, _ = s.Write([]byte("\x00\x01garbage that is not a chain33 frame at all............"))
		s.Close()
	case "mal-body":
		// a well-formed frame whose payload is not a MessageGetBlocksResp
		_ = dlproto.WriteStream(&types.ReqHash{Hash: []byte{0xff, 0xff, 0xff, 0xff, 0xff, 0xff, 0xff, 0xff, 0xff, 0xff, 0xff, 0x01}}, s)
		s.Close()
	case "mal-nilmsg":
		_ = dlproto.WriteStream(&types.MessageGetBlocksResp{}, s)
		s.Close()
	case "mal-empty":
		_ = dlproto.WriteStream(&types.MessageGetBlocksResp{Message: &types.InvDatas{}}, s)
		s.Close()
	case "mal-tx":
		_ = dlproto.WriteStream(&types.MessageGetBlocksResp{Message: &types.InvDatas{Items: []*types.InvData{{Ty: 1, Value: &types.InvData_Tx{Tx: &types.Transaction{Execer: []byte("none")}}}}}}, s)
		s.Close()
	case "wrong-empty":
		_ = dlproto.WriteStream(&types.MessageGetBlocksResp{Message: &types.InvDatas{Items: []*types.InvData{{Ty: 2, Value: &types.InvData_Block{}}}}}, s)
		s.Close()
	case "wrong":
		_ = dlproto.WriteStream(respWith(blockFor(wrongTo, height, n.ix)), s)
		s.Close()
	default:
		s.Reset()
	}
}

// ---------------------------------------------------------------------------------
// downloader side: real host with a scripted latency table, scripted peer heights

type latStore struct {
	peerstore.Peerstore
	r *rig
}

func (l latStore) LatencyEWMA(p peer.ID) time.Duration {
	return l.r.lat.Load().(map[peer.ID]time.Duration)[p]
}

type dlHost struct {
	host.Host
	ps latStore
}

func (h dlHost) Peerstore() peerstore.Peerstore { return h.ps }

type heights struct{ r *rig }

func (h heights) Refresh(info *types.Peer)      {}
func (h heights) Fetch(pid peer.ID) *types.Peer { return nil }
func (h heights) FetchAll() []*types.Peer       { return nil }
func (h heights) PeerHeight(pid peer.ID) int64  { return h.r.hts.Load().(map[peer.ID]int64)[pid] }
func (h heights) PeerMaxHeight() int64 {
	var m int64
	for _, v := range h.r.hts.Load().(map[peer.ID]int64) {
		if v > m {
			m = v
		}
	}
	return m
}

// newProtocol builds a fresh real download.Protocol on the rig's downloader host.
func (r *rig) newProtocol(hooks *download.VerifDlHooks) (func(*queue.Message), func()) {
	env := &dlproto.P2PEnv{
		Ctx:             context.Background(),
		QueueClient:     r.dlCli,
		Host:            dlHost{Host: r.dl, ps: latStore{Peerstore: r.dl.Peerstore(), r: r}},
		PeerInfoManager: heights{r},
	}
	return download.VerifNewProtocol(env, hooks)
}
