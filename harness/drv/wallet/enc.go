package main

// C37: replay of WalletEnc behaviours (wallet histories) and of the round-trip table on the
// real wallet / the real encrypt and decrypt functions.

import (
	"bytes"
	"fmt"
	"math/rand"

	"github.com/33cn/chain33/common"
	"github.com/33cn/chain33/types"
	"github.com/33cn/chain33/wallet"
	wcom "github.com/33cn/chain33/wallet/common"
	"verif/harness/core"
)

type acct struct {
	key   []byte
	addr  string
	label string
}

type encDrv struct {
	env   *core.Env
	r     *rand.Rand
	n     *node
	sign  string
	pwd   string // the wallet's current password according to the specification
	seed  string
	accts map[int]*acct
	used  map[string]bool
	// recording: no predicted replies, the driver follows the wallet's own answers
	recording bool
}

func (d *encDrv) reset(env *core.Env, b *core.Behaviour) error {
	d.env = env
	d.r = rand.New(rand.NewSource(env.Seed*1000003 + idHash(b.ID) + int64(env.OptInt("salt", 0))*7919))
	d.sign = env.Opt("sign", "secp256k1")
	d.accts = map[int]*acct{}
	d.used = map[string]bool{}
	d.pwd, d.seed = "", ""
	return nil
}

func (d *encDrv) close() {
	if d.n != nil {
		d.n.destroy()
		d.n = nil
	}
}

func (d *encDrv) keyLen(a int) int {
	if d.sign == "ed25519" && a%2 == 0 {
		return 64
	}
	return 32
}

func (d *encDrv) freshValid() string {
	for {
		p := validPassword(d.r)
		if !d.used[p] {
			d.used[p] = true
			return p
		}
	}
}

func (d *encDrv) present(kind string) string {
	switch kind {
	case "right":
		return d.pwd
	case "samekey":
		return sameKeyPassword(d.r, d.pwd)
	}
	return wrongPassword(d.r, d.pwd)
}

func (d *encDrv) viaBus() bool { return d.r.Intn(2) == 0 }

func okfail(err error) string {
	if err == nil {
		return "ok"
	}
	return "fail"
}

func (d *encDrv) apply(s core.Step) (any, any, error) {
	switch s.Op() {
	case "Genesis":
		var err error
		if d.n, err = newNode(d.sign); err != nil {
			return nil, nil, err
		}
		d.seed = randSeed(d.r)
		cls := s.Str("cls")
		if s.Str("origin") == "api" {
			d.pwd = d.freshValid()
			d.n.start()
			if err := d.n.saveSeed(d.pwd, d.seed); err != nil {
				return "fail:" + err.Error(), d.chk(s), nil
			}
		} else {
			// a database written by an older release: legacy seed blob, password of any length
			d.pwd = classPassword(d.r, cls)
			d.used[d.pwd] = true
			db := d.n.rawDB()
			st := wcom.NewStore(db)
			batch := st.NewBatch(true)
			if err := st.SetPasswordHash(d.pwd, batch); err != nil {
				return nil, nil, err
			}
			if err := st.SetEncryptionFlag(batch); err != nil {
				return nil, nil, err
			}
			batch.Set(wallet.WalletSeed, legacyGCM([]byte(d.pwd), []byte(d.seed)))
			if err := batch.Write(); err != nil {
				return nil, nil, err
			}
			db.Close()
			d.n.start()
		}
		return "ok", d.chk(s), nil
	case "Import":
		a := s.Int("a")
		ac := &acct{key: randKey(d.r, d.keyLen(a)), label: fmt.Sprintf("acct-%d", a)}
		addr, err := d.n.importKey(d.viaBus(), ac.label, ac.key)
		if err != nil {
			return "fail:" + err.Error(), d.chk(s), nil
		}
		ac.addr = addr
		d.accts[a] = ac
		return "ok", d.chk(s), nil
	case "Inject":
		a := s.Int("a")
		ac := &acct{key: randKey(d.r, d.keyLen(a)), label: fmt.Sprintf("acct-%d", a)}
		addr, err := d.n.addrOf(ac.key)
		if err != nil {
			return nil, nil, err
		}
		ac.addr = addr
		rec := &types.WalletAccountStore{Privkey: common.ToHex(legacyCBC([]byte(d.pwd), ac.key)), Label: ac.label, Addr: addr}
		if err := d.n.w.SetWalletAccount(false, addr, rec); err != nil {
			return nil, nil, err
		}
		d.accts[a] = ac
		return "ok", d.chk(s), nil
	case "SetPasswd":
		old := d.present(s.Str("old"))
		var nw string
		switch s.Str("new") {
		case "fresh":
			nw = d.freshValid()
		case "same":
			nw = d.pwd
		default:
			nw = invalidPassword(d.r)
			if isValidModel(nw) {
				return nil, nil, fmt.Errorf("concretiser produced a valid 'invalid' password %q", nw)
			}
		}
		err := d.n.setPasswd(d.viaBus(), old, nw)
		// the driver follows the specification's prediction of the current password; if the code
		// disagrees the mismatch is reported at this very step
		if (!d.recording && s.Str("ret") == "ok") || (d.recording && err == nil) {
			d.pwd = nw
		}
		return okfail(err), d.chk(s), nil
	case "Unlock":
		err := d.n.unlock(d.viaBus(), d.present(s.Str("pw")), 0)
		return okfail(err), d.chk(s), nil
	case "Lock":
		return okfail(d.n.lock(d.viaBus())), d.chk(s), nil
	case "Restart":
		d.n.stop()
		d.n.start()
		return "ok", d.chk(s), nil
	}
	return nil, nil, fmt.Errorf("unknown op %q", s.Op())
}

func secretClass(got string, err error, want string) string {
	if err != nil {
		if isLockedErr(err) {
			return "locked"
		}
		return "err:" + err.Error()
	}
	if got == want {
		return "orig"
	}
	return "lost"
}

// chk: (1) the stored blobs, read from the wallet database, decrypted by the REAL decrypters
// under the current password; (2) the wallet's own answers to DumpPrivkey / GetSeed.
func (d *encDrv) chk(s core.Step) any {
	exp, _ := s["chk"].(map[string]any)
	if exp == nil {
		return nil
	}
	nslots := 0
	if l, ok := exp["db"].([]any); ok {
		nslots = len(l)
	}
	dbv := make([]any, nslots)
	dump := make([]any, nslots)
	for i := 0; i < nslots; i++ {
		ac := d.accts[i+1]
		if ac == nil {
			dbv[i], dump[i] = "none", "none"
			continue
		}
		rec, err := d.n.w.GetAccountByAddr(ac.addr)
		if err != nil {
			dbv[i] = "err:" + err.Error()
		} else {
			blob, err := common.FromHex(rec.Privkey)
			if err != nil {
				dbv[i] = "err:" + err.Error()
			} else if bytes.Equal(wcom.CBCDecrypterPrivkey([]byte(d.pwd), blob), ac.key) {
				dbv[i] = "orig"
			} else {
				dbv[i] = "lost"
			}
		}
		got, err := d.n.dump(d.viaBus(), ac.addr)
		dump[i] = secretClass(got, err, common.ToHex(ac.key))
	}
	sd, err := wallet.GetSeed(d.n.w.GetDBStore(), d.pwd)
	seedv := secretClass(sd, err, d.seed)
	gs, err := d.n.getSeed(d.viaBus(), d.pwd)
	return map[string]any{"db": dbv, "seed": seedv, "locked": d.n.w.IsWalletLocked(), "dump": dump,
		"getseed": secretClass(gs, err, d.seed)}
}

// ---------------------------------------------------------------------------------
// round-trip table: one row = (password class, secret kind, format); each row is
// concretised opt n times.

func rtPassword(r *rand.Rand, cls string) []byte {
	switch cls {
	case "empty":
		return []byte{}
	case "short":
		return []byte(validPassword(r))
	case "b31":
		return []byte(randFrom(r, alnum, 31))
	case "b32":
		return []byte(randFrom(r, alnum, 32))
	case "b33":
		return []byte(randFrom(r, alnum, 33))
	case "long":
		return []byte(randFrom(r, alnum, 34+r.Intn(200)))
	case "unicode":
		var b []rune
		for i := 0; i < 1+r.Intn(40); i++ {
			b = append(b, uniLetters[r.Intn(len(uniLetters))])
		}
		return []byte(string(b))
	}
	// binary
	p := make([]byte, 1+r.Intn(70))
	r.Read(p)
	return p
}

func (d *encDrv) roundTrip(s core.Step) (any, any, error) {
	n := d.env.OptInt("n", 40)
	kind, fmtv, cls := s.Str("kind"), s.Str("fmt"), s.Str("pcls")
	for i := 0; i < n; i++ {
		pw := rtPassword(d.r, cls)
		switch kind {
		case "key32", "key64":
			l := 32
			if kind == "key64" {
				l = 64
			}
			key := make([]byte, l)
			d.r.Read(key)
			var blob []byte
			if fmtv == "legacy" {
				blob = legacyCBC(pw, key)
			} else {
				blob = wcom.CBCEncrypterPrivkey(append([]byte{}, pw...), append([]byte{}, key...))
			}
			got := wcom.CBCDecrypterPrivkey(append([]byte{}, pw...), blob)
			if !bytes.Equal(got, key) {
				return fmt.Sprintf("lost:pw=%x key=%x blob=%x got=%x", pw, key, blob, got), nil, nil
			}
		default:
			var seed []byte
			switch r := d.r.Intn(4); r {
			case 0:
				seed = []byte(randSeed(d.r))
			case 1:
				seed = make([]byte, 1+d.r.Intn(16)) // around the nonce / block sizes
				d.r.Read(seed)
			default:
				seed = make([]byte, 1+d.r.Intn(400))
				d.r.Read(seed)
			}
			var blob []byte
			var err error
			if fmtv == "legacy" {
				blob = legacyGCM(pw, seed)
			} else {
				blob, err = wallet.AesgcmEncrypter(append([]byte{}, pw...), append([]byte{}, seed...))
				if err != nil {
					return "lost:encrypt error " + err.Error(), nil, nil
				}
			}
			got, err := wallet.AesgcmDecrypter(append([]byte{}, pw...), blob)
			if err != nil || !bytes.Equal(got, seed) {
				return fmt.Sprintf("lost:pw=%x seedlen=%d err=%v", pw, len(seed), err), nil, nil
			}
		}
	}
	return "orig", nil, nil
}

// ---------------------------------------------------------------------------------
// binding B for C37: long random histories over more accounts, logged with the observed
// replies and observations; validated by WalletEnc_Trace.tla.

func recordEnc(env *core.Env, emit func(map[string]any)) (*core.Summary, error) {
	sum := &core.Summary{Counters: map[string]int{}}
	n := env.OptInt("n", 8)
	first := env.OptInt("first", 0)
	naccts := env.OptInt("accts", 4)
	depth := env.OptInt("depth", 24)
	for t := first; t < first+n; t++ {
		r := rand.New(rand.NewSource(env.Seed*7919 + int64(t)*104729 + 5))
		b := &core.Behaviour{ID: fmt.Sprintf("rec-%d-%d", env.Seed, t)}
		e := *env
		e.Opts = map[string]string{"sign": []string{"secp256k1", "ed25519"}[t%2]}
		d := &encDrv{recording: true}
		if err := d.reset(&e, b); err != nil {
			return nil, err
		}
		tmpl := map[string]any{"db": make([]any, naccts)}
		emit(map[string]any{"ev": "Reset"})
		var evs []any
		nontrivial := false
		do := func(st core.Step) error {
			st["chk"] = tmpl
			ret, chk, err := d.apply(st)
			if err != nil {
				return err
			}
			ev := map[string]any{"ev": st.Op(), "ret": ret, "chk": chk}
			for k, v := range st {
				if k != "op" && k != "chk" {
					ev[k] = v
				}
			}
			emit(ev)
			sum.Steps++
			if len(evs) < 10 {
				evs = append(evs, ev)
			}
			return nil
		}
		origin := []string{"api", "legacy"}[r.Intn(2)]
		cls := "short"
		if origin == "legacy" {
			cls = []string{"short", "b32", "long"}[r.Intn(3)]
			nontrivial = true
		}
		if err := do(core.Step{"op": "Genesis", "origin": origin, "cls": cls}); err != nil {
			d.close()
			return nil, err
		}
		pres := []string{"right", "right", "right", "wrong", "samekey"}
		for i := 0; i < depth; i++ {
			locked := d.n.w.IsWalletLocked()
			var free []int
			for a := 1; a <= naccts; a++ {
				if d.accts[a] == nil {
					free = append(free, a)
				}
			}
			var st core.Step
			switch x := r.Intn(12); {
			case x < 2 && !locked && len(free) > 0:
				st = core.Step{"op": "Import", "a": float64(free[r.Intn(len(free))])}
			case x < 4 && len(free) > 0:
				st = core.Step{"op": "Inject", "a": float64(free[r.Intn(len(free))])}
				nontrivial = true
			case x < 8:
				st = core.Step{"op": "SetPasswd", "old": pres[r.Intn(len(pres))], "new": []string{"fresh", "fresh", "same", "invalid"}[r.Intn(4)]}
			case x < 10:
				st = core.Step{"op": "Unlock", "pw": pres[r.Intn(len(pres))]}
			case x < 11 && !locked:
				st = core.Step{"op": "Lock"}
			default:
				st = core.Step{"op": "Restart"}
			}
			if err := do(st); err != nil {
				d.close()
				return nil, err
			}
		}
		d.close()
		sum.Behaviours++
		if nontrivial {
			sum.NonTrivial++
		}
		if len(sum.Samples) < 2 {
			sum.Samples = append(sum.Samples, map[string]any{"trace_prefix": evs})
		}
	}
	return sum, nil
}
