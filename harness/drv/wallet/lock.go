package main

// C38: gated replay of Wallet.tla schedules on the real wallet.
//
// A behaviour is a sequence of labels Start / Step / End / Timer (see Wallet.tla). The two
// gate points of hook H8 inside ProcWalletSetPasswd let the driver hold a password change
// exactly between the model's sp1|sp2 and sp2|sp3 steps while other goroutines call into the
// wallet. After every label the lock flag is read directly (IsWalletLocked) and compared with
// the model's flag.

import (
	"fmt"
	"math/rand"
	"sync"
	"sync/atomic"
	"time"

	"github.com/33cn/chain33/common"
	"github.com/33cn/chain33/types"
	"github.com/33cn/chain33/wallet"
	"verif/harness/core"
)

// ---- gate controller (process-wide hook, one wallet at a time) ----

type gateCtl struct {
	w       *wallet.Wallet
	arrived chan string
	release chan struct{}
}

var curGate atomic.Pointer[gateCtl]
var inconclusive int64 // behaviours abandoned because the machine was too slow for the real unlock timer

func init() {
	wallet.VerifSetGate(func(w *wallet.Wallet, point string) {
		g := curGate.Load()
		if g == nil || g.w != w {
			return
		}
		g.arrived <- point
		<-g.release
	})
}

const longWait = 120 * time.Second

type callState struct {
	req      *creq
	launched bool
	done     chan string
	result   string
	finished bool
}

// walletRig is a wallet with a seed, one imported account and a table of password strings:
// what both the gated driver and the recorder work on.
type walletRig struct {
	n    *node
	r    *rand.Rand
	mu   sync.Mutex
	pwds map[int]string
	seed string
	key  []byte
	addr string
	pub  []byte
	tmoS int64
	conc map[string]any
}

func newRig(sign string, r *rand.Rand, tmo int64) (*walletRig, error) {
	n, err := newNode(sign)
	if err != nil {
		return nil, err
	}
	g := &walletRig{n: n, r: r, pwds: map[int]string{}, tmoS: tmo}
	n.start()
	g.pwds[0] = validPassword(r)
	g.seed = randSeed(r)
	if err := n.saveSeed(g.pwds[0], g.seed); err != nil {
		n.destroy()
		return nil, fmt.Errorf("setup SaveSeed: %v", err)
	}
	if err := n.unlock(true, g.pwds[0], 0); err != nil {
		n.destroy()
		return nil, fmt.Errorf("setup unlock: %v", err)
	}
	g.key = randKey(r, 32)
	if g.addr, err = n.importKey(true, "acct-1", g.key); err != nil {
		n.destroy()
		return nil, fmt.Errorf("setup import: %v", err)
	}
	if g.pub, err = n.pubOf(g.key); err != nil {
		n.destroy()
		return nil, err
	}
	if err := n.lock(true); err != nil {
		n.destroy()
		return nil, fmt.Errorf("setup lock: %v", err)
	}
	restarted := r.Intn(2) == 0
	if restarted {
		// the password is then not in memory: the hash-verification paths are taken
		n.stop()
		n.start()
	}
	if !n.w.IsWalletLocked() {
		n.destroy()
		return nil, fmt.Errorf("setup: wallet not locked")
	}
	g.conc = map[string]any{"pw0": g.pwds[0], "addr": g.addr, "restarted": restarted}
	return g, nil
}

// password string of model identifier id (a presented password); -1 = never valid
func (g *walletRig) presented(id int, nonEmpty bool) string {
	g.mu.Lock()
	defer g.mu.Unlock()
	if p, ok := g.pwds[id]; ok && id >= 0 {
		return p
	}
	for {
		q := wrongPassword(g.r, g.pwds[0])
		clash := q == "" && nonEmpty
		for _, p := range g.pwds {
			if p == q || string(aesKey([]byte(p))) == string(aesKey([]byte(q))) {
				clash = true
			}
		}
		if !clash {
			return q
		}
	}
}

// new password string for identifier id (-1: syntactically invalid)
func (g *walletRig) newPassword(id int) string {
	g.mu.Lock()
	defer g.mu.Unlock()
	if id < 0 {
		return invalidPassword(g.r)
	}
	if p, ok := g.pwds[id]; ok {
		return p
	}
	for {
		p := validPassword(g.r)
		dup := false
		for _, q := range g.pwds {
			if q == p {
				dup = true
			}
		}
		if !dup {
			g.pwds[id] = p
			return p
		}
	}
}

func toInt(v any) int { return core.ToInt(v) }

// creq is a request with its password identifiers resolved to concrete strings.
type creq struct {
	op           string
	pw, tmo, nw  int
	pwStr, nwStr string
	coin         int
}

func (g *walletRig) intn(n int) int {
	g.mu.Lock()
	defer g.mu.Unlock()
	return g.r.Intn(n)
}

// resolve concretises the model request (done by the thread that issues it, before the call).
func (g *walletRig) resolve(req map[string]any) *creq {
	q := &creq{op: fmt.Sprint(req["op"]), pw: toInt(req["pw"]), tmo: toInt(req["tmo"]), nw: toInt(req["new"])}
	switch q.op {
	case "Unlock", "UnlockT":
		q.pwStr = g.presented(q.pw, false)
		q.coin = g.intn(2)
	case "GetSeed":
		q.pwStr = g.presented(q.pw, true)
	case "SetPasswd":
		q.pwStr = g.presented(q.pw, false)
		q.nwStr = g.newPassword(q.nw)
	}
	return q
}

// call executes one request on the real wallet and classifies the reply as the model does.
func (g *walletRig) call(q *creq, viaBus bool) string {
	n := g.n
	switch q.op {
	case "Unlock":
		tmo := int64(0)
		if q.tmo != 0 {
			tmo = g.tmoS
		}
		return okfail(n.unlock(viaBus, q.pwStr, tmo))
	case "UnlockT":
		return okfail(n.unlockTicket(viaBus, q.pwStr, int64(q.coin)*g.tmoS))
	case "Lock":
		return okfail(n.lock(viaBus))
	case "SetPasswd":
		return okfail(n.setPasswd(viaBus, q.pwStr, q.nwStr))
	case "Dump":
		got, err := n.dump(viaBus, g.addr)
		if err != nil {
			return errClass(err)
		}
		if got == common.ToHex(g.key) {
			return "secret"
		}
		return "garbage:" + got
	case "Sign":
		pub, err := n.signWith(viaBus, g.addr)
		if err != nil {
			return errClass(err)
		}
		if string(pub) == string(g.pub) {
			return "secret"
		}
		return "garbage-signature"
	case "GetSeed":
		got, err := n.getSeed(viaBus, q.pwStr)
		if err != nil {
			return errClass(err)
		}
		if got == g.seed {
			return "secret"
		}
		return "garbage:" + got
	case "IsLocked":
		if n.w.IsWalletLocked() {
			return "locked"
		}
		return "unlocked"
	case "Status":
		l, err := n.statusLocked(viaBus)
		if err != nil {
			return "err:" + err.Error()
		}
		if l {
			return "locked"
		}
		return "unlocked"
	}
	return "err:unknown op " + q.op
}

func errClass(err error) string {
	switch {
	case isLockedErr(err):
		return "locked"
	case err.Error() == types.ErrInputPassword.Error():
		return "badpw"
	}
	return "err:" + err.Error()
}

// ---- the gated driver ----

type lockDrv struct {
	env     *core.Env
	rig     *walletRig
	gate    *gateCtl
	calls   map[int]*callState
	spIn    bool // a password change is between its gates
	armedAt time.Time
	skip    bool
	blockMs int
}

func (d *lockDrv) reset(env *core.Env, b *core.Behaviour) error {
	d.env = env
	r := rand.New(rand.NewSource(env.Seed*1000003 + idHash(b.ID) + int64(env.OptInt("salt", 0))*7919))
	rig, err := newRig(env.Opt("sign", "secp256k1"), r, int64(env.OptInt("tmo", 2)))
	if err != nil {
		return err
	}
	d.rig = rig
	d.calls = map[int]*callState{}
	d.spIn, d.skip = false, false
	d.armedAt = time.Time{}
	d.blockMs = env.OptInt("blockms", 60)
	d.gate = &gateCtl{w: rig.n.w, arrived: make(chan string, 4), release: make(chan struct{})}
	curGate.Store(d.gate)
	return nil
}

func (d *lockDrv) close() {
	curGate.Store(nil)
	if d.gate != nil {
		// let a password change still parked at a gate (or arriving late) run to completion
		close(d.gate.release)
		for _, cs := range d.calls {
			if cs.launched && !cs.finished {
				select {
				case <-cs.done:
				case <-time.After(5 * time.Second):
				}
			}
		}
		d.gate = nil
	}
	if d.rig != nil {
		d.rig.n.destroy()
		d.rig = nil
	}
}

func (d *lockDrv) launch(c int) {
	cs := d.calls[c]
	cs.launched = true
	cs.done = make(chan string, 1)
	// while a password change is parked inside the wallet's bus loop every other request
	// must go by direct call (the loop handles one message at a time)
	viaBus := !d.spIn && d.rig.intn(2) == 0
	req := cs.req
	go func() { cs.done <- d.rig.call(req, viaBus) }()
}

func (d *lockDrv) join(c int) error {
	cs := d.calls[c]
	if cs.finished {
		return nil
	}
	select {
	case cs.result = <-cs.done:
		cs.finished = true
		return nil
	case <-time.After(longWait):
		return fmt.Errorf("caller %d: %v did not return", c, cs.req.op)
	}
}

func (d *lockDrv) awaitGate(c int, point string) error {
	cs := d.calls[c]
	select {
	case p := <-d.gate.arrived:
		if p != point {
			return fmt.Errorf("password change arrived at gate %q, expected %q", p, point)
		}
		return nil
	case cs.result = <-cs.done:
		cs.finished = true
		return fmt.Errorf("password change returned %q before reaching gate %q", cs.result, point)
	case <-time.After(longWait):
		return fmt.Errorf("password change did not reach gate %q", point)
	}
}

func (d *lockDrv) tmo() time.Duration { return time.Duration(d.rig.tmoS) * time.Second }

func (d *lockDrv) apply(s core.Step) (any, any, error) {
	if d.skip {
		return s["ret"], s["chk"], nil
	}
	if !d.armedAt.IsZero() && s.Op() != "Timer" && time.Since(d.armedAt) > d.tmo()/2 {
		// the real unlock timer is about to fire although the schedule has not reached its
		// Timer step: the machine is too slow for this schedule; abandon it (counted)
		d.skip = true
		atomic.AddInt64(&inconclusive, 1)
		return s["ret"], s["chk"], nil
	}
	var ret any
	c := s.Int("c")
	switch s.Op() {
	case "Start":
		req, _ := s["req"].(map[string]any)
		if req == nil {
			return nil, nil, fmt.Errorf("Start without req")
		}
		d.calls[c] = &callState{req: d.rig.resolve(req)}
		if s.Bool("blocked") {
			// the model says the wallet mutex is held: the call must not hand out anything
			// now; it is started and given a moment, its reply is compared at its End
			d.launch(c)
			cs := d.calls[c]
			select {
			case cs.result = <-cs.done:
				cs.finished = true
			case <-time.After(time.Duration(d.blockMs) * time.Millisecond):
			}
		}
	case "Step":
		cs := d.calls[c]
		if cs == nil {
			return nil, nil, fmt.Errorf("Step of caller %d without Start", c)
		}
		switch s.Str("at") {
		case "run":
			if cs.req.op == "SetPasswd" && cs.req.nw >= 0 {
				d.spIn = true
				cs.launched = true
				cs.done = make(chan string, 1)
				viaBus := d.rig.intn(2) == 0
				req := cs.req
				go func() { cs.done <- d.rig.call(req, viaBus) }()
				if err := d.awaitGate(c, "setpasswd.loaded"); err != nil {
					return nil, nil, err
				}
			} else {
				if !cs.launched {
					d.launch(c)
				}
				if err := d.join(c); err != nil {
					return nil, nil, err
				}
				if cs.req.op == "Unlock" && cs.req.tmo != 0 && cs.result == "ok" {
					d.armedAt = time.Now()
				}
			}
		case "u2":
			// the real call already armed the timer and returned
		case "sp2":
			d.gate.release <- struct{}{}
			if err := d.awaitGate(c, "setpasswd.tempunlocked"); err != nil {
				return nil, nil, err
			}
		case "sp3":
			d.gate.release <- struct{}{}
			if err := d.join(c); err != nil {
				return nil, nil, err
			}
			d.spIn = false
		default:
			return nil, nil, fmt.Errorf("unknown step position %q", s.Str("at"))
		}
	case "End":
		cs := d.calls[c]
		if cs == nil || !cs.finished {
			return nil, nil, fmt.Errorf("End of caller %d but the call has not returned", c)
		}
		ret = cs.result
		delete(d.calls, c)
	case "Timer":
		// the deadline of the unlock timer is reached: both unsynchronised observers must show
		// the wallet locked. Polled up to 4x the timeout + 4 s (timeout 2 s: 12 s); a wallet still
		// unlocked then is reported as such (a disagreement), not as a tooling error.
		deadline := time.Now().Add(4*d.tmo() + 4*time.Second)
		for time.Now().Before(deadline) {
			if st, _ := d.rig.n.statusLocked(false); st && d.rig.n.w.IsWalletLocked() {
				break
			}
			time.Sleep(5 * time.Millisecond)
		}
		d.armedAt = time.Time{}
	default:
		return nil, nil, fmt.Errorf("unknown label %q", s.Op())
	}
	locked := d.rig.n.w.IsWalletLocked()
	if !d.armedAt.IsZero() && time.Since(d.armedAt) > d.tmo()*3/4 {
		d.skip = true
		atomic.AddInt64(&inconclusive, 1)
		return s["ret"], s["chk"], nil
	}
	// the second unsynchronised observer: GetWalletStatus; "unlocked" if either says so
	if st, _ := d.rig.n.statusLocked(false); !st {
		locked = false
	}
	return ret, map[string]any{"locked": locked}, nil
}
