// Driver for the Wallet family (C37, C38).
//
// The wallet package keeps process-wide state (the reflective dispatch table wcom.QueryData
// points at the most recently created wallet, the base policy keeps one wallet handle), so a
// process runs ONE wallet at a time. "replay --par N" therefore fans out to N child
// processes (behaviours partitioned by hash, so duplicates meet in one child) and merges
// their summaries; "record" with opt procs=N does the same for recordings.
package main

import (
	"bufio"
	"crypto/sha256"
	"encoding/json"
	"flag"
	"fmt"
	"os"
	"os/exec"
	"sort"
	"strings"
	"sync"
	"sync/atomic"

	"verif/harness/core"
)

// drv dispatches on the kind of behaviour: WalletEnc histories (first label Genesis), the
// round-trip table (RoundTrip), gated lock schedules (Start/Step/End/Timer).
type drv struct {
	env  *core.Env
	enc  *encDrv
	lock *lockDrv
	mode string
}

func (d *drv) Reset(env *core.Env, b *core.Behaviour) error {
	d.env = env
	d.mode = ""
	if len(b.Steps) == 0 {
		return fmt.Errorf("empty behaviour")
	}
	switch b.Steps[0].Op() {
	case "Genesis":
		d.mode = "enc"
		d.enc = &encDrv{}
		return d.enc.reset(env, b)
	case "RoundTrip":
		d.mode = "rt"
		d.enc = &encDrv{}
		return d.enc.reset(env, b)
	default:
		d.mode = "lock"
		d.lock = &lockDrv{}
		return d.lock.reset(env, b)
	}
}

func (d *drv) Apply(s core.Step) (any, any, error) {
	switch d.mode {
	case "enc":
		return d.enc.apply(s)
	case "rt":
		return d.enc.roundTrip(s)
	}
	return d.lock.apply(s)
}

func (d *drv) Close() {
	if d.enc != nil {
		d.enc.close()
		d.enc = nil
	}
	if d.lock != nil {
		d.lock.close()
		d.lock = nil
	}
}

// NonTrivial: DESIGN §4 table.
//
//	C37: a failed password change, a legacy-format blob (legacy origin or injected account), or a
//	     password longer than 32 bytes; round-trip rows: legacy format or a password of >= 32 bytes
//	C38: a password change parked at a gate while another label (observer, lock, timer, blocked
//	     secret request) is executed, i.e. an observer call overlapping a state-changing request
func (d *drv) NonTrivial(env *core.Env, b *core.Behaviour) bool {
	if len(b.Steps) == 0 {
		return false
	}
	switch b.Steps[0].Op() {
	case "Genesis":
		for _, s := range b.Steps {
			switch {
			case s.Op() == "Genesis" && s.Str("origin") == "legacy":
				return true
			case s.Op() == "Inject":
				return true
			case s.Op() == "SetPasswd" && s.Str("ret") == "fail":
				return true
			}
		}
		return false
	case "RoundTrip":
		s := b.Steps[0]
		return s.Str("fmt") == "legacy" || s.Str("pcls") == "b32" || s.Str("pcls") == "b33" || s.Str("pcls") == "long"
	}
	// the timeout as an obligation: timed unlock ; failed or ticket-only unlock ; deadline
	st := 0
	for _, s := range b.Steps {
		switch {
		case s.Op() == "Step" && s.Str("kind") == "Unlock" && s.Str("at") == "u2":
			st = 1
		case st == 1 && s.Op() == "End" && ((s.Str("kind") == "Unlock" && s.Str("ret") == "fail") || s.Str("kind") == "UnlockT"):
			st = 2
		case s.Op() == "Timer":
			if st == 2 {
				return true
			}
			st = 0
		}
	}
	in := false
	for _, s := range b.Steps {
		if s.Op() == "Step" && s.Str("kind") == "SetPasswd" {
			switch s.Str("at") {
			case "run":
				in = true
				continue
			case "sp3":
				in = false
			}
		}
		if in && (s.Op() == "Timer" || s.Op() == "Start" || (s.Op() == "Step" && s.Str("kind") != "SetPasswd") ||
			(s.Op() == "Step" && s.Str("at") == "sp2")) {
			return true
		}
	}
	return false
}

// Signature: narrow class of a disagreement.
func (d *drv) Signature(b *core.Behaviour, idx int, field string, exp, obs any) string {
	if idx < 0 || idx >= len(b.Steps) {
		return ""
	}
	s := b.Steps[idx]
	switch b.Steps[0].Op() {
	case "Genesis":
		origin, cls := b.Steps[0].Str("origin"), b.Steps[0].Str("cls")
		detail := ""
		switch s.Op() {
		case "SetPasswd":
			detail = "old=" + s.Str("old") + ",new=" + s.Str("new")
		case "Unlock":
			detail = "pw=" + s.Str("pw")
		}
		return fmt.Sprintf("C37|%s(%s)|origin=%s/%s|%s|%s", s.Op(), detail, origin, cls, field, diffClass(exp, obs))
	case "RoundTrip":
		o := fmt.Sprint(obs)
		if i := strings.Index(o, ":"); i > 0 {
			o = o[:i]
		}
		return fmt.Sprintf("C37|RoundTrip|pcls=%s|kind=%s|fmt=%s|got=%s", s.Str("pcls"), s.Str("kind"), s.Str("fmt"), o)
	}
	// lock schedules: where is the password change, what was done, what differs
	sp := "none"
	for i := 0; i <= idx; i++ {
		t := b.Steps[i]
		if t.Op() == "Step" && t.Str("kind") == "SetPasswd" {
			switch t.Str("at") {
			case "run":
				sp = "loaded"
			case "sp2":
				sp = "past-unlock-point"
			case "sp3":
				sp = "returned"
			}
		}
	}
	what := s.Op()
	if s.Op() == "Step" || s.Op() == "End" {
		what += ":" + s.Str("kind")
		if s.Op() == "Step" {
			what += "@" + s.Str("at")
		}
	}
	return fmt.Sprintf("C38|%s|setpasswd=%s|%s|%s", what, sp, field, diffClass(exp, obs))
}

func diffClass(exp, obs any) string {
	em, ok1 := exp.(map[string]any)
	om, ok2 := obs.(map[string]any)
	if ok1 && ok2 {
		var ks []string
		for k, v := range em {
			if !core.Match(v, om[k]) {
				ks = append(ks, fmt.Sprintf("%s:exp=%s,got=%s", k, clip(core.J(v)), clip(core.J(om[k]))))
			}
		}
		sort.Strings(ks)
		return strings.Join(ks, ";")
	}
	return "exp=" + clip(core.J(exp)) + ",got=" + clip(core.J(obs))
}

func clip(s string) string {
	if len(s) > 48 {
		return s[:48]
	}
	return s
}

// ---------------------------------------------------------------------------------

func bhash(b *core.Behaviour) uint32 {
	h := sha256.New()
	for _, s := range b.Steps {
		c := core.Step{}
		for k, v := range s {
			if k != "ret" && k != "chk" {
				c[k] = v
			}
		}
		h.Write([]byte(core.J(c)))
	}
	x := h.Sum(nil)
	return uint32(x[0])<<24 | uint32(x[1])<<16 | uint32(x[2])<<8 | uint32(x[3])
}

func writeJSON(path string, v any) {
	b, _ := json.MarshalIndent(v, "", " ")
	os.WriteFile(path, b, 0o644)
}

// replayParent splits the behaviour file over par children.
func replayParent(args []string) int {
	fs := flag.NewFlagSet("replay", flag.ExitOnError)
	in := fs.String("in", "", "")
	out := fs.String("out", "", "")
	par := fs.Int("par", 1, "")
	fs.String("replays", "replays", "")
	fs.String("prop", "", "")
	fs.String("tier", "quick", "")
	fs.Int64("seed", 1, "")
	fs.String("opt", "", "")
	fs.Int("max-replays", 3, "")
	fs.Parse(args)
	bs, err := core.ReadBehaviours(*in)
	if err != nil {
		fmt.Fprintln(os.Stderr, "read:", err)
		return 2
	}
	n := *par
	if n > len(bs) {
		n = len(bs)
	}
	if n < 1 {
		n = 1
	}
	parts := make([][]*core.Behaviour, n)
	for _, b := range bs {
		i := int(bhash(b) % uint32(n))
		parts[i] = append(parts[i], b)
	}
	sums := make([]*core.Summary, n)
	errs := make([]string, n)
	var wg sync.WaitGroup
	for i := 0; i < n; i++ {
		if len(parts[i]) == 0 {
			continue
		}
		wg.Add(1)
		go func(i int) {
			defer wg.Done()
			pin := fmt.Sprintf("%s.part%d", *in, i)
			pout := fmt.Sprintf("%s.part%d", *out, i)
			f, _ := os.Create(pin)
			w := bufio.NewWriter(f)
			for _, b := range parts[i] {
				j, _ := json.Marshal(b)
				w.Write(j)
				w.WriteByte('\n')
			}
			w.Flush()
			f.Close()
			cargs := []string{"replay-child"}
			skip := false
			for _, a := range args {
				if skip {
					skip = false
					continue
				}
				if a == "--in" || a == "-in" || a == "--out" || a == "-out" || a == "--par" || a == "-par" {
					skip = true
					continue
				}
				cargs = append(cargs, a)
			}
			cargs = append(cargs, "--in", pin, "--out", pout, "--par", "1")
			cmd := exec.Command(os.Args[0], cargs...)
			cmd.Stderr = os.Stderr
			o, err := cmd.Output()
			defer os.Remove(pin)
			defer os.Remove(pout)
			raw, rerr := os.ReadFile(pout)
			if rerr != nil {
				errs[i] = fmt.Sprintf("child %d died: %v %s", i, err, clipTail(string(o)))
				return
			}
			var s core.Summary
			if jerr := json.Unmarshal(raw, &s); jerr != nil {
				errs[i] = fmt.Sprintf("child %d summary: %v", i, jerr)
				return
			}
			sums[i] = &s
		}(i)
	}
	wg.Wait()
	tot := &core.Summary{Counters: map[string]int{}}
	for i, s := range sums {
		if errs[i] != "" {
			tot.Errors = append(tot.Errors, errs[i])
		}
		if s == nil {
			continue
		}
		tot.Behaviours += s.Behaviours
		tot.Steps += s.Steps
		tot.Compared += s.Compared
		tot.NonTrivial += s.NonTrivial
		tot.Distinct += s.Distinct
		tot.Mismatches = append(tot.Mismatches, s.Mismatches...)
		for _, x := range s.Samples {
			if len(tot.Samples) < 3 {
				tot.Samples = append(tot.Samples, x)
			}
		}
		for k, v := range s.Counters {
			tot.Counters[k] += v
		}
		tot.Errors = append(tot.Errors, s.Errors...)
		tot.Notes = append(tot.Notes, s.Notes...)
	}
	sort.Slice(tot.Mismatches, func(i, j int) bool { return tot.Mismatches[i].Signature < tot.Mismatches[j].Signature })
	writeJSON(*out, tot)
	if len(tot.Errors) > 0 {
		return 2
	}
	return 0
}

func clipTail(s string) string {
	if len(s) > 600 {
		return s[len(s)-600:]
	}
	return s
}

func replayChild(args []string) int {
	fs := flag.NewFlagSet("replay-child", flag.ExitOnError)
	in := fs.String("in", "", "")
	out := fs.String("out", "", "")
	fs.Int("par", 1, "")
	replays := fs.String("replays", "replays", "")
	prop := fs.String("prop", "", "")
	tier := fs.String("tier", "quick", "")
	seed := fs.Int64("seed", 1, "")
	opts := fs.String("opt", "", "")
	maxReplays := fs.Int("max-replays", 3, "")
	fs.Parse(args)
	env := &core.Env{Prop: *prop, Seed: *seed, Tier: *tier, Opts: parseOpts(*opts)}
	bs, err := core.ReadBehaviours(*in)
	if err != nil {
		fmt.Fprintln(os.Stderr, "read:", err)
		return 2
	}
	sum := core.Replay(env, "Wallet", func() core.Driver { return &drv{} }, bs, 1, *replays, *maxReplays)
	if sum.Counters == nil {
		sum.Counters = map[string]int{}
	}
	sum.Counters["inconclusive_slow_machine"] = int(atomic.LoadInt64(&inconclusive))
	writeJSON(*out, sum)
	if len(sum.Errors) > 0 {
		return 2
	}
	return 0
}

func parseOpts(list string) map[string]string {
	m := map[string]string{}
	for _, kv := range strings.Split(list, ",") {
		if kv == "" {
			continue
		}
		p := strings.SplitN(kv, "=", 2)
		if len(p) == 2 {
			m[p[0]] = p[1]
		} else {
			m[p[0]] = "1"
		}
	}
	return m
}

// replayCandidate re-runs a counterexample of the refuted (temporary-unlock) model: the
// violation is reproduced when the real wallet FOLLOWS it step by step into the violating state.
func replayCandidate(env *core.Env, args []string) int {
	raw, err := os.ReadFile(args[0])
	if err != nil {
		fmt.Println(err)
		return 2
	}
	var rf core.ReplayFile
	if err := json.Unmarshal(raw, &rf); err != nil {
		fmt.Println(err)
		return 2
	}
	if env.Opts == nil {
		env.Opts = map[string]string{}
	}
	mm, _, _ := core.RunOne(env, &drv{}, rf.Behaviour)
	switch {
	case mm == nil && atomic.LoadInt64(&inconclusive) == 0:
		fmt.Printf("REPLAY the real wallet followed the counterexample into the violating state: %s\n", core.J(rf.Behaviour.Steps[len(rf.Behaviour.Steps)-1]))
		fmt.Printf("VIOLATION property=%s replay=%s\n", rf.Property, args[0])
		return 1
	case mm == nil:
		fmt.Println("REPLAY inconclusive (machine too slow for the unlock timer)")
		return 2
	case mm.Field == "driver" || mm.Field == "reset":
		fmt.Println("REPLAY driver error:", mm.Error)
		return 2
	}
	fmt.Printf("REPLAY candidate not reproduced: the real wallet left the counterexample at step %d (%s: model %s, code %s)\n",
		mm.Step, mm.Field, core.J(mm.Expected), core.J(mm.Observed))
	return 0
}

func main() {
	if len(os.Args) >= 2 {
		switch os.Args[1] {
		case "replay":
			os.Exit(replayParent(os.Args[2:]))
		case "replay-child":
			os.Exit(replayChild(os.Args[2:]))
		}
	}
	core.Main(&core.Family{
		Name:      "Wallet",
		NewDriver: func() core.Driver { return &drv{} },
		Recorders: map[string]core.Recorder{"default": recordFan("default", record), "enc": recordFan("enc", recordEnc)},
		Extra:     map[string]func(*core.Env, []string) int{"replay-candidate": replayCandidate},
	})
}
