// Driver for the Wallet family (C37, C38).
package main

import (
	"fmt"
	"os"
	"time"

	"github.com/33cn/chain33/wallet"
	"github.com/33cn/chain33/wallet/bipwallet"
	"verif/harness/core"
)

func probe(env *core.Env, args []string) int {
	t0 := time.Now()
	n, err := newNode("secp256k1")
	if err != nil {
		fmt.Println(err)
		return 2
	}
	defer n.destroy()
	n.start()
	fmt.Println("start", time.Since(t0))
	seed, _ := bipwallet.NewMnemonicString(0, 160)
	fmt.Println("saveseed", n.saveSeed("abcd1234", seed), time.Since(t0))
	fmt.Println("locked", n.w.IsWalletLocked())
	fmt.Println("unlock", n.unlock(true, "abcd1234", 0))
	key := make([]byte, 32)
	key[5] = 9
	addr, err := n.importKey(true, "k1", key)
	fmt.Println("import", addr, err, time.Since(t0))
	fmt.Println(n.dump(true, addr))
	pub, err := n.signWith(true, addr)
	fmt.Printf("sign %x %v\n", pub, err)
	fmt.Println("lock", n.lock(true))
	fmt.Println(n.dump(false, addr))
	// gate
	hold := make(chan struct{})
	at := make(chan string, 4)
	wallet.VerifSetGate(func(w *wallet.Wallet, p string) {
		at <- p
		<-hold
	})
	res := make(chan error, 1)
	go func() { res <- n.setPasswd(true, "wrongpw11", "newpw1234") }()
	fmt.Println("at", <-at, "locked:", n.w.IsWalletLocked())
	hold <- struct{}{}
	fmt.Println("at", <-at, "locked:", n.w.IsWalletLocked())
	ok, _ := withDeadline(100*time.Millisecond, func() { fmt.Println(n.dump(false, addr)) })
	fmt.Println("dump returned before deadline:", ok)
	hold <- struct{}{}
	fmt.Println("setpasswd:", <-res, "locked:", n.w.IsWalletLocked())
	wallet.VerifSetGate(nil)
	t1 := time.Now()
	n.stop()
	n.start()
	fmt.Println("restart", time.Since(t1))
	fmt.Println("unlock", n.unlock(true, "abcd1234", 0))
	fmt.Println(n.dump(true, addr))
	return 0
}

func main() {
	core.Main(&core.Family{Name: "Wallet", NewDriver: nil, Extra: map[string]func(*core.Env, []string) int{"probe": probe}})
	os.Exit(0)
}
