package main

// C38, binding B: ungated concurrent executions of the real wallet. Several goroutines issue
// random requests (by bus and by direct call); every call is logged as a Start event before
// it is made and an End event with the classified reply after it returned. Wallet_Trace.tla
// checks that the log is a behaviour of Wallet.tla: the internal steps are silent.

import (
	"bufio"
	"encoding/json"
	"fmt"
	"math/rand"
	"os"
	"os/exec"
	"strings"
	"sync"
	"sync/atomic"
	"time"

	"verif/harness/core"
)

func record(env *core.Env, emit func(map[string]any)) (*core.Summary, error) {
	sum := &core.Summary{Counters: map[string]int{}}
	n := env.OptInt("n", 6)
	callers := env.OptInt("callers", 3)
	per := env.OptInt("ops", 10)
	timers := env.OptInt("timers", 1) // every timers-th trace uses unlock timeouts (0: never)
	first := env.OptInt("first", 0)
	for t := first; t < first+n; t++ {
		r := rand.New(rand.NewSource(env.Seed*7919 + int64(t)*104729 + 17))
		withTimer := timers > 0 && t%timers == 0
		rig, err := newRig(env.Opt("sign", "secp256k1"), r, 1)
		if err != nil {
			return nil, err
		}
		emit(map[string]any{"ev": "Reset"})
		var evmu sync.Mutex // Start/End events are appended in real-time order
		var nextID int64
		var overlap, changes int64
		var inflight int64
		var wg sync.WaitGroup
		var evs []any
		for c := 1; c <= callers; c++ {
			wg.Add(1)
			cr := rand.New(rand.NewSource(r.Int63()))
			go func(c int, cr *rand.Rand) {
				defer wg.Done()
				for i := 0; i < per; i++ {
					req := map[string]any{"op": "", "pw": -1, "tmo": 0, "new": -1}
					pick := func() int {
						rig.mu.Lock()
						defer rig.mu.Unlock()
						ids := []int{-1, 0}
						for id := range rig.pwds {
							ids = append(ids, id, id) // bias towards passwords that exist
						}
						return ids[cr.Intn(len(ids))]
					}
					switch x := cr.Intn(20); {
					case x < 4:
						req["op"], req["pw"] = "Unlock", pick()
						if withTimer && cr.Intn(2) == 0 {
							req["tmo"] = 1
						}
					case x < 5:
						req["op"] = "Lock"
					case x < 6:
						req["op"], req["pw"] = "UnlockT", pick()
					case x < 10:
						req["op"], req["pw"] = "SetPasswd", pick()
						if cr.Intn(4) != 0 {
							req["new"] = int(atomic.AddInt64(&nextID, 1))
						}
					case x < 12:
						req["op"] = "Dump"
					case x < 14:
						req["op"] = "Sign"
					case x < 16:
						req["op"], req["pw"] = "GetSeed", pick()
					case x < 18:
						req["op"] = "IsLocked"
					default:
						req["op"] = "Status"
					}
					if withTimer && cr.Intn(6) == 0 {
						time.Sleep(time.Duration(150+cr.Intn(350)) * time.Millisecond) // pacing, so that timers fire mid-trace
					}
					viaBus := cr.Intn(2) == 0
					q := rig.resolve(req)
					ev := map[string]any{"ev": "Start", "c": c, "op": req["op"], "pw": req["pw"], "tmo": req["tmo"], "new": req["new"]}
					evmu.Lock()
					emit(ev)
					if len(evs) < 16 {
						evs = append(evs, ev)
					}
					evmu.Unlock()
					if atomic.AddInt64(&inflight, 1) > 1 {
						atomic.AddInt64(&overlap, 1)
					}
					ret := rig.call(q, viaBus)
					atomic.AddInt64(&inflight, -1)
					if req["op"] == "SetPasswd" && ret == "ok" {
						atomic.AddInt64(&changes, 1)
					}
					ev2 := map[string]any{"ev": "End", "c": c, "ret": ret}
					evmu.Lock()
					emit(ev2)
					if len(evs) < 16 {
						evs = append(evs, ev2)
					}
					evmu.Unlock()
				}
			}(c, cr)
		}
		wg.Wait()
		rig.n.destroy()
		sum.Behaviours++
		sum.Steps += callers * per
		if overlap > 0 {
			sum.NonTrivial++
		}
		sum.Counters["overlapping_calls"] += int(overlap)
		sum.Counters["password_changes"] += int(changes)
		if len(sum.Samples) < 2 {
			sum.Samples = append(sum.Samples, map[string]any{"trace_prefix": evs, "conc": rig.conc})
		}
	}
	return sum, nil
}

// recordFan: opt procs=N records the n traces in N child processes (one wallet per process at
// a time) and concatenates their events.
func recordFan(name string, rec core.Recorder) core.Recorder {
	return func(env *core.Env, emit func(map[string]any)) (*core.Summary, error) {
		return recordFanOut(name, rec, env, emit)
	}
}

func recordFanOut(name string, rec core.Recorder, env *core.Env, emit func(map[string]any)) (*core.Summary, error) {
	procs := env.OptInt("procs", 0)
	n := env.OptInt("n", 6)
	if procs <= 1 || n <= 1 {
		return rec(env, emit)
	}
	if procs > n {
		procs = n
	}
	dir, err := os.MkdirTemp("", "vh-wallet-rec-")
	if err != nil {
		return nil, err
	}
	defer os.RemoveAll(dir)
	type res struct {
		sum *core.Summary
		err error
	}
	out := make([]res, procs)
	var wg sync.WaitGroup
	per := (n + procs - 1) / procs
	for i := 0; i < procs; i++ {
		first := i * per
		cnt := per
		if first+cnt > n {
			cnt = n - first
		}
		if cnt <= 0 {
			continue
		}
		wg.Add(1)
		go func(i, first, cnt int) {
			defer wg.Done()
			var opts []string
			for k, v := range env.Opts {
				if k != "procs" && k != "n" && k != "first" {
					opts = append(opts, k+"="+v)
				}
			}
			opts = append(opts, "procs=0", fmt.Sprintf("n=%d", cnt), fmt.Sprintf("first=%d", first))
			tp := fmt.Sprintf("%s/t%d.ndjson", dir, i)
			sp := fmt.Sprintf("%s/s%d.json", dir, i)
			cmd := exec.Command(os.Args[0], "record", "--out", tp, "--summary", sp, "--prop", env.Prop, "--tier", env.Tier,
				"--seed", fmt.Sprint(env.Seed), "--recorder", name, "--opt", strings.Join(opts, ","))
			cmd.Stderr = os.Stderr
			if o, err := cmd.Output(); err != nil {
				out[i].err = fmt.Errorf("record child %d: %v %s", i, err, clipTail(string(o)))
				return
			}
			raw, err := os.ReadFile(sp)
			if err != nil {
				out[i].err = err
				return
			}
			var s core.Summary
			if err := json.Unmarshal(raw, &s); err != nil {
				out[i].err = err
				return
			}
			out[i].sum = &s
		}(i, first, cnt)
	}
	wg.Wait()
	tot := &core.Summary{Counters: map[string]int{}}
	for i := 0; i < procs; i++ {
		if out[i].err != nil {
			return nil, out[i].err
		}
		s := out[i].sum
		if s == nil {
			continue
		}
		f, err := os.Open(fmt.Sprintf("%s/t%d.ndjson", dir, i))
		if err != nil {
			return nil, err
		}
		sc := bufio.NewScanner(f)
		sc.Buffer(make([]byte, 1<<20), 1<<26)
		for sc.Scan() {
			var ev map[string]any
			if err := json.Unmarshal(sc.Bytes(), &ev); err != nil {
				f.Close()
				return nil, err
			}
			emit(ev)
		}
		f.Close()
		tot.Behaviours += s.Behaviours
		tot.Steps += s.Steps
		tot.NonTrivial += s.NonTrivial
		for k, v := range s.Counters {
			tot.Counters[k] += v
		}
		for _, x := range s.Samples {
			if len(tot.Samples) < 2 {
				tot.Samples = append(tot.Samples, x)
			}
		}
	}
	return tot, nil
}
