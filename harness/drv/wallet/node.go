package main

// Node assembly for the wallet family: a real queue, the real wallet module on a real
// LevelDB in a temp dir, and minimal responders for the other modules the wallet talks
// to (blockchain: last header / tx lookups, store: account state, mempool: fee).
//
// The wallet package keeps process-wide state (wcom.QueryData "this" pointer, the base
// policy's wallet handle), so at most ONE wallet is alive per process at any time;
// parallelism comes from child processes (see main.go).

import (
	"bytes"
	"encoding/hex"
	"errors"
	"fmt"
	"os"
	"strings"
	"sync"
	"time"

	"github.com/33cn/chain33/common"
	"github.com/33cn/chain33/common/address"
	"github.com/33cn/chain33/common/crypto"
	dbm "github.com/33cn/chain33/common/db"
	clog "github.com/33cn/chain33/common/log"
	"github.com/33cn/chain33/queue"
	_ "github.com/33cn/chain33/system"
	"github.com/33cn/chain33/types"
	"github.com/33cn/chain33/wallet"
	wcom "github.com/33cn/chain33/wallet/common"
)

func init() {
	queue.DisableLog()
	clog.SetLogLevel("crit")
	wallet.DisableLog()
}

var cfgCache = map[string]*types.Chain33Config{}

func getCfg(sign string) *types.Chain33Config {
	if c, ok := cfgCache[sign]; ok {
		return c
	}
	s := types.GetDefaultCfgstring()
	s = strings.Replace(s, `signType="secp256k1"`, `signType="`+sign+`"`, 1)
	c := types.NewChain33Config(s)
	cfgCache[sign] = c
	return c
}

type node struct {
	cfg   *types.Chain33Config
	sign  string
	dir   string
	q     queue.Queue
	w     *wallet.Wallet
	stops []queue.Client
	wg    sync.WaitGroup
}

func tmpBase() string {
	if st, err := os.Stat("/dev/shm"); err == nil && st.IsDir() {
		return "/dev/shm"
	}
	return ""
}

func newNode(sign string) (*node, error) {
	dir, err := os.MkdirTemp(tmpBase(), "vh-wallet-")
	if err != nil {
		return nil, err
	}
	return &node{cfg: getCfg(sign), sign: sign, dir: dir}, nil
}

func (n *node) dbPath() string { return n.dir + "/wallet" }

// rawDB opens the wallet database while no wallet is running (legacy injection at genesis).
func (n *node) rawDB() dbm.DB {
	return dbm.NewDB("wallet", "leveldb", n.dbPath(), 16)
}

func (n *node) serve(topic string, h func(c queue.Client, m *queue.Message)) {
	c := n.q.Client()
	c.Sub(topic)
	n.stops = append(n.stops, c)
	n.wg.Add(1)
	go func() {
		defer n.wg.Done()
		for m := range c.Recv() {
			h(c, m)
		}
	}()
}

// start creates the wallet object on the node's database and connects it to a fresh queue.
func (n *node) start() {
	n.q = queue.New("channel")
	n.q.SetConfig(n.cfg)
	n.stops = nil
	n.serve("blockchain", func(c queue.Client, m *queue.Message) {
		switch m.Ty {
		case types.EventGetLastHeader:
			m.Reply(c.NewMessage("", types.EventHeader, &types.Header{Height: 1, StateHash: bytes.Repeat([]byte{7}, 32)}))
		case types.EventGetTransactionByAddr:
			m.Reply(c.NewMessage("", types.EventReplyTxInfo, &types.ReplyTxInfos{}))
		case types.EventGetTransactionByHash:
			m.Reply(c.NewMessage("", types.EventTransactionDetails, &types.TransactionDetails{}))
		case types.EventGetBlockHeight:
			m.Reply(c.NewMessage("", types.EventReplyBlockHeight, &types.ReplyBlockHeight{Height: 1}))
		case types.EventIsSync:
			m.Reply(c.NewMessage("", types.EventReplyIsSync, &types.IsCaughtUp{Iscaughtup: true}))
		default:
			m.Reply(c.NewMessage("", types.EventReply, &types.Reply{IsOk: false, Msg: []byte("verif: unsupported")}))
		}
	})
	n.serve("store", func(c queue.Client, m *queue.Message) {
		if m.Ty == types.EventStoreGet {
			g := m.Data.(*types.StoreGet)
			m.Reply(c.NewMessage("", types.EventStoreGetReply, &types.StoreReplyValue{Values: make([][]byte, len(g.Keys))}))
			return
		}
		m.Reply(c.NewMessage("", types.EventReply, &types.Reply{IsOk: false, Msg: []byte("verif: unsupported")}))
	})
	n.serve("mempool", func(c queue.Client, m *queue.Message) {
		if m.Ty == types.EventGetProperFee {
			m.Reply(c.NewMessage("", types.EventReply, &types.ReplyProperFee{ProperFee: 100000}))
			return
		}
		m.Reply(c.NewMessage("", types.EventReply, &types.Reply{IsOk: true}))
	})
	mc := n.cfg.GetModuleConfig().Wallet
	mc.DbPath = n.dbPath()
	mc.Driver = "leveldb"
	n.w = wallet.New(n.cfg)
	n.w.SetQueueClient(n.q.Client())
}

// stop closes the wallet (waits for its goroutines) and the queue; the database stays.
func (n *node) stop() {
	if n.w != nil {
		n.w.Close()
		n.w = nil
	}
	for _, c := range n.stops {
		c.Close()
	}
	n.wg.Wait()
	if n.q != nil {
		n.q.Close()
		n.q = nil
	}
}

func (n *node) destroy() {
	n.stop()
	if n.dir != "" {
		os.RemoveAll(n.dir)
		n.dir = ""
	}
}

// ---------------------------------------------------------------------------------
// requests, by bus (ExecWalletFunc) or by direct method call

var errTimeout = errors.New("verif: call did not return before the deadline")

func (n *node) bus(fn string, in types.Message) (types.Message, error) {
	return n.w.GetAPI().ExecWalletFunc("wallet", fn, in)
}

func replyErr(m types.Message, err error) error {
	if err != nil {
		return err
	}
	if r, ok := m.(*types.Reply); ok && !r.IsOk {
		return errors.New(string(r.Msg))
	}
	return nil
}

func (n *node) unlock(viaBus bool, pw string, tmo int64) error {
	req := &types.WalletUnLock{Passwd: pw, Timeout: tmo}
	if viaBus {
		return replyErr(n.bus("WalletUnLock", req))
	}
	return n.w.ProcWalletUnLock(req)
}

// unlockTicket is the ticket-only (mining) unlock: the password is verified, the wallet lock
// flag and the unlock timer are not touched.
func (n *node) unlockTicket(viaBus bool, pw string, tmo int64) error {
	req := &types.WalletUnLock{Passwd: pw, Timeout: tmo, WalletOrTicket: true}
	if viaBus {
		return replyErr(n.bus("WalletUnLock", req))
	}
	return n.w.ProcWalletUnLock(req)
}

func (n *node) lock(viaBus bool) error {
	if viaBus {
		return replyErr(n.bus("WalletLock", &types.ReqNil{}))
	}
	return n.w.ProcWalletLock()
}

func (n *node) setPasswd(viaBus bool, old, nw string) error {
	req := &types.ReqWalletSetPasswd{OldPass: old, NewPass: nw}
	if viaBus {
		return replyErr(n.bus("WalletSetPasswd", req))
	}
	return n.w.ProcWalletSetPasswd(req)
}

func (n *node) dump(viaBus bool, addr string) (string, error) {
	if viaBus {
		m, err := n.bus("DumpPrivkey", &types.ReqString{Data: addr})
		if err != nil {
			return "", err
		}
		return m.(*types.ReplyString).Data, nil
	}
	return n.w.ProcDumpPrivkey(addr)
}

func (n *node) getSeed(viaBus bool, pw string) (string, error) {
	if viaBus {
		m, err := n.bus("GetSeed", &types.GetSeedByPw{Passwd: pw})
		if err != nil {
			return "", err
		}
		return m.(*types.ReplySeed).Seed, nil
	}
	return n.w.GetSeed(pw)
}

func (n *node) saveSeed(pw, seed string) error {
	return replyErr(n.bus("SaveSeed", &types.SaveSeedByPw{Seed: seed, Passwd: pw}))
}

func (n *node) statusLocked(viaBus bool) (bool, error) {
	if viaBus {
		m, err := n.bus("GetWalletStatus", &types.ReqNil{})
		if err != nil {
			return false, err
		}
		return m.(*types.WalletStatus).IsWalletLock, nil
	}
	return n.w.GetWalletStatus().IsWalletLock, nil
}

func (n *node) importKey(viaBus bool, label string, key []byte) (string, error) {
	req := &types.ReqWalletImportPrivkey{Privkey: common.ToHex(key), Label: label}
	if viaBus {
		m, err := n.bus("WalletImportPrivkey", req)
		if err != nil {
			return "", err
		}
		return m.(*types.WalletAccount).Acc.Addr, nil
	}
	a, err := n.w.ProcImportPrivKey(req)
	if err != nil {
		return "", err
	}
	return a.Acc.Addr, nil
}

// a fixed unsigned coins transfer (from the wallet's own tests)
const unsignedTxHex = "0a05636f696e73120c18010a081080c2d72f1a01312080897a30c0e2a4a789d684ad443a0131"

// signWith asks the wallet to sign the fixed transaction with the stored key of addr and
// returns the signer's public key found in the signed transaction (after verifying it).
func (n *node) signWith(viaBus bool, addr string) ([]byte, error) {
	req := &types.ReqSignRawTx{Addr: addr, TxHex: unsignedTxHex, Expire: "0"}
	var txhex string
	if viaBus {
		m, err := n.bus("SignRawTx", req)
		if err != nil {
			return nil, err
		}
		txhex = m.(*types.ReplySignRawTx).TxHex
	} else {
		var err error
		txhex, err = n.w.ProcSignRawTx(req)
		if err != nil {
			return nil, err
		}
	}
	raw, err := hex.DecodeString(txhex)
	if err != nil {
		return nil, fmt.Errorf("signed tx not hex: %v", err)
	}
	var tx types.Transaction
	if err := types.Decode(raw, &tx); err != nil {
		return nil, fmt.Errorf("signed tx undecodable: %v", err)
	}
	if tx.Signature == nil || len(tx.Signature.Signature) == 0 {
		return nil, fmt.Errorf("signed tx carries no signature")
	}
	if !tx.CheckSign(0) {
		return nil, fmt.Errorf("signature does not verify")
	}
	return tx.Signature.Pubkey, nil
}

func (n *node) pubOf(key []byte) ([]byte, error) {
	cr, err := crypto.Load(n.sign, -1)
	if err != nil {
		return nil, err
	}
	p, err := cr.PrivKeyFromBytes(key)
	if err != nil {
		return nil, err
	}
	return p.PubKey().Bytes(), nil
}

func (n *node) addrOf(key []byte) (string, error) {
	pub, err := n.pubOf(key)
	if err != nil {
		return "", err
	}
	return address.PubKeyToAddr(address.DefaultID, pub), nil
}

// isLockedErr classifies an error reply as "refused because the wallet is locked".
func isLockedErr(err error) bool {
	if err == nil {
		return false
	}
	s := err.Error()
	return s == types.ErrWalletIsLocked.Error() || s == types.ErrOnlyTicketUnLocked.Error()
}

// withDeadline runs f in a goroutine; ok=false when it has not returned after d.
// The returned channel yields once f finally returns.
func withDeadline(d time.Duration, f func()) (bool, chan struct{}) {
	done := make(chan struct{})
	go func() {
		defer close(done)
		f()
	}()
	select {
	case <-done:
		return true, done
	case <-time.After(d):
		return false, done
	}
}

var _ = wcom.CBCDecrypterPrivkey
