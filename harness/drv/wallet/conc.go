package main

// Concretisation: model password identifiers / classes -> hostile concrete strings, keys and
// seeds, plus the harness's OWN encoders for the legacy on-disk formats (written from reading
// wallet/common/crypto.go and wallet/seed.go: the legacy formats derive the CBC IV and the GCM
// nonce from the key instead of storing a random one in front of the ciphertext).

import (
	"crypto/aes"
	"crypto/cipher"
	"fmt"
	"math/rand"
	"strings"
	"unicode"

	"github.com/33cn/chain33/wallet/bipwallet"
)

func aesKey(password []byte) []byte {
	key := make([]byte, 32)
	copy(key, password) // copies at most 32 bytes: longer passwords are truncated, shorter zero-padded
	return key
}

// legacyCBC: AES-256-CBC, IV = first block of the key, no IV stored.
func legacyCBC(password, priv []byte) []byte {
	key := aesKey(password)
	block, err := aes.NewCipher(key)
	if err != nil {
		panic(err)
	}
	out := make([]byte, len(priv))
	cipher.NewCBCEncrypter(block, key[:block.BlockSize()]).CryptBlocks(out, priv)
	return out
}

// legacyGCM: AES-256-GCM, nonce = first 12 bytes of the key, no nonce stored.
func legacyGCM(password, seed []byte) []byte {
	key := aesKey(password)
	block, err := aes.NewCipher(key)
	if err != nil {
		panic(err)
	}
	g, err := cipher.NewGCM(block)
	if err != nil {
		panic(err)
	}
	return g.Seal(nil, key[:12], seed, nil)
}

const alnum = "abcdefghijklmnopqrstuvwxyzABCDEFGHIJKLMNOPQRSTUVWXYZ0123456789"
const letters = "abcdefghijklmnopqrstuvwxyzABCDEFGHIJKLMNOPQRSTUVWXYZ"
const digits = "0123456789"

var uniLetters = []rune("яжёäßçøλπш字密码钱包")

func randFrom(r *rand.Rand, set string, n int) string {
	b := make([]byte, n)
	for i := range b {
		b[i] = set[r.Intn(len(set))]
	}
	return string(b)
}

// validPassword: what isValidPassWord accepts: 8..30 BYTES, only letters and digits, at least one of each.
func validPassword(r *rand.Rand) string {
	for {
		n := 8 + r.Intn(23)
		switch r.Intn(6) {
		case 0:
			n = 8
		case 1:
			n = 30
		}
		var sb strings.Builder
		uni := r.Intn(4) == 0
		for sb.Len() < n {
			if uni && r.Intn(3) == 0 {
				c := uniLetters[r.Intn(len(uniLetters))]
				if sb.Len()+len(string(c)) > n {
					sb.WriteByte(alnum[r.Intn(len(alnum))])
				} else {
					sb.WriteRune(c)
				}
			} else {
				sb.WriteByte(alnum[r.Intn(len(alnum))])
			}
		}
		p := sb.String()
		if isValidModel(p) {
			return p
		}
	}
}

// isValidModel is the harness's own statement of the password rule (used only to make sure a
// generated "valid"/"invalid" password is what it claims to be).
func isValidModel(p string) bool {
	if len(p) < 8 || len(p) > 30 {
		return false
	}
	l, d := false, false
	for _, c := range p {
		if unicode.IsLetter(c) {
			l = true
		} else if unicode.IsDigit(c) {
			d = true
		} else {
			return false
		}
	}
	return l && d
}

func invalidPassword(r *rand.Rand) string {
	switch r.Intn(8) {
	case 0:
		return ""
	case 1:
		return randFrom(r, letters, 3) + randFrom(r, digits, 1+r.Intn(4)) // too short
	case 2:
		return randFrom(r, letters, 16) + randFrom(r, digits, 15+r.Intn(20)) // too long (31..)
	case 3:
		return randFrom(r, letters, 8+r.Intn(20)) // letters only
	case 4:
		return randFrom(r, digits, 8+r.Intn(20)) // digits only
	case 5:
		return randFrom(r, letters, 5) + "-" + randFrom(r, digits, 5) // punctuation
	case 6:
		return randFrom(r, letters, 5) + " " + randFrom(r, digits, 5) // space
	default:
		return randFrom(r, letters, 4) + "\x00" + randFrom(r, digits, 6) // NUL inside
	}
}

// classPassword: a password of the given length class ("short" is a valid one).
func classPassword(r *rand.Rand, cls string) string {
	switch cls {
	case "b32":
		return randFrom(r, letters, 1) + randFrom(r, alnum, 30) + randFrom(r, digits, 1)
	case "long":
		return randFrom(r, letters, 1) + randFrom(r, alnum, 32+r.Intn(40)) + randFrom(r, digits, 1)
	}
	return validPassword(r)
}

// sameKeyPassword: a DIFFERENT string deriving the same AES key as p.
func sameKeyPassword(r *rand.Rand, p string) string {
	switch {
	case len(p) < 32:
		return p + strings.Repeat("\x00", 1+r.Intn(32-len(p)))
	case len(p) == 32:
		return p + randFrom(r, alnum, 1+r.Intn(8))
	default:
		if r.Intn(2) == 0 {
			return p[:32]
		}
		q := p[:32] + randFrom(r, alnum, 1+r.Intn(12))
		if q == p {
			q += "x"
		}
		return q
	}
}

// wrongPassword: unrelated to p (different AES key).
func wrongPassword(r *rand.Rand, p string) string {
	for {
		var q string
		switch r.Intn(5) {
		case 0:
			q = ""
		case 1:
			q = classPassword(r, "long")
		case 2:
			q = classPassword(r, "b32")
		case 3:
			// one character changed
			b := []byte(p)
			if len(b) > 0 {
				i := r.Intn(len(b))
				if i >= 32 {
					i = r.Intn(32)
				}
				b[i] ^= 1
			}
			q = string(b)
		default:
			q = validPassword(r)
		}
		if q != p && string(aesKey([]byte(q))) != string(aesKey([]byte(p))) {
			return q
		}
	}
}

func randKey(r *rand.Rand, n int) []byte {
	k := make([]byte, n)
	r.Read(k)
	k[0] &= 0x7f // keep secp256k1 scalars below the group order
	if k[0] == 0 && n == 32 {
		k[1] |= 1
	}
	return k
}

// randSeed: a valid mnemonic of 12..24 words, English or Chinese.
func randSeed(r *rand.Rand) string {
	bits := []int{128, 160, 192, 224, 256}[r.Intn(5)]
	// bipwallet draws entropy from crypto/rand; the length class and language are seeded
	s, err := bipwallet.NewMnemonicString(r.Intn(2), bits)
	if err != nil {
		panic(fmt.Sprintf("mnemonic: %v", err))
	}
	return s
}

func idHash(s string) int64 {
	h := int64(1469598103934665603)
	for _, c := range []byte(s) {
		h = (h ^ int64(c)) * 1099511628211
	}
	if h < 0 {
		h = -h
	}
	return h
}
