package main

import (
	"encoding/json"
	"fmt"
	"math/big"
	"os"
	"runtime"
	"strconv"
	"strings"
	"sync"

	"github.com/33cn/chain33/common/difficulty"
	"verif/harness/core"
)

// Supplementary leg (thorough tier): ALL 2^32 compact words. TLC cannot enumerate them, so this
// sweep is only a candidate finder. Its oracle is a byte-level Go transcription of Decode / Canon
// of spec/Difficulty/Difficulty.tla (no math/big); before it is used it must reproduce every
// round-trip row that TLC exported (otherwise the run is broken, exit 2). Words on which the real
// code and the oracle differ are handed back to bin/check, which adds their mantissas to the TLC
// configuration: only a TLC-exported row that the code contradicts is reported as a violation.

// oDecode: <<neg, sig, z>> of Difficulty.tla
func oDecode(e, s, m uint32) (neg bool, sig []byte, z int) {
	var b [3]byte
	k := 0
	if e <= 3 {
		v := m >> (8 * (3 - e))
		b = [3]byte{byte(v >> 16), byte(v >> 8), byte(v)}
	} else {
		b = [3]byte{byte(m >> 16), byte(m >> 8), byte(m)}
		k = int(e) - 3
	}
	f, t := 0, 2
	for f < 3 && b[f] == 0 {
		f++
	}
	for t >= 0 && b[t] == 0 {
		t--
	}
	if t < 0 {
		return false, nil, 0
	}
	return s == 1, b[f : t+1], (2 - t) + k
}

// oEncode: Encode of Difficulty.tla
func oEncode(neg bool, sig []byte, z int) (e, s, m uint32) {
	if len(sig) == 0 {
		return 0, 0, 0
	}
	L := len(sig) + z
	at := func(i int) uint32 {
		if i < len(sig) {
			return uint32(sig[i])
		}
		return 0
	}
	m0 := at(0)<<16 | at(1)<<8 | at(2)
	e = uint32(L)
	if m0 >= 0x800000 {
		m0 >>= 8
		e++
	}
	if neg {
		s = 1
	}
	return e, s, m0
}

// equalsNum: n == (-1)^neg * sig * 256^z
func equalsNum(n *big.Int, neg bool, sig []byte, z int, tmp *big.Int) bool {
	if len(sig) == 0 {
		return n.Sign() == 0
	}
	if (n.Sign() < 0) != neg || n.Sign() == 0 {
		return false
	}
	if n.TrailingZeroBits() < uint(8*z) {
		return false
	}
	tmp.Abs(n)
	tmp.Rsh(tmp, uint(8*z))
	if !tmp.IsUint64() {
		return false
	}
	var v uint64
	for _, x := range sig {
		v = v<<8 | uint64(x)
	}
	return tmp.Uint64() == v
}

func sweep(env *core.Env, args []string) int {
	if len(args) != 2 {
		fmt.Fprintln(os.Stderr, "usage: sweep [--opt ...] <exported-behaviours.ndjson> <out.json>")
		return 2
	}
	// 1. calibration against the TLC rows
	bs, err := core.ReadBehaviours(args[0])
	if err != nil {
		fmt.Fprintln(os.Stderr, err)
		return 2
	}
	rows := 0
	for _, b := range bs {
		for _, st := range b.Steps {
			if st.Op() != "RT" {
				continue
			}
			c := st.Ints("c")
			neg, sig, z := oDecode(uint32(c[0]), uint32(c[1]), uint32(c[2]))
			e, s, m := oEncode(neg, sig, z)
			sj := make([]any, len(sig))
			for i, x := range sig {
				sj[i] = int(x)
			}
			got := core.Norm([]any{[]any{neg, sj, z}, []any{int(e), int(s), int(m)}})
			if !core.Match(st["ret"], got) {
				fmt.Fprintf(os.Stderr, "sweep oracle disagrees with the TLC row %s: %s\n", core.J(st), core.J(got))
				return 2
			}
			rows++
		}
	}
	if rows < 1000 {
		fmt.Fprintln(os.Stderr, "sweep: too few calibration rows:", rows)
		return 2
	}
	// 2. all words, sharded by exponent
	shards := env.OptInt("shards", 8)
	if shards > runtime.NumCPU() {
		shards = runtime.NumCPU()
	}
	expLo, expHi := env.OptInt("explo", 0), env.OptInt("exphi", 255)
	// exponents swept over all 2^24 (sign, mantissa) combinations; the others take every
	// mstride-th mantissa from a seeded offset (mstride=1: the full 2^32 sweep)
	fullExp := map[int]bool{}
	for _, x := range strings.Split(env.Opt("exps", ""), "+") {
		if v, err := strconv.Atoi(x); err == nil {
			fullExp[v] = true
		}
	}
	mstride := uint32(env.OptInt("mstride", 1))
	if mstride < 1 {
		mstride = 1
	}
	var mu sync.Mutex
	var cands [][]int
	var words uint64
	var wg sync.WaitGroup
	ch := make(chan int)
	for g := 0; g < shards; g++ {
		wg.Add(1)
		go func() {
			defer wg.Done()
			tmp := new(big.Int)
			for e := range ch {
				var n uint64
				var local [][]int
				step, start := uint32(1), uint32(0)
				if !fullExp[e] && mstride > 1 {
					step, start = mstride, uint32((env.Seed*31+int64(e)*7)%int64(mstride))
				}
				for sm := start; sm < 1<<24; sm += step {
					w := uint32(e)<<24 | sm
					s, m := sm>>23, sm&0x7fffff
					v := difficulty.CompactToBig(w)
					c := difficulty.BigToCompact(v)
					neg, sig, z := oDecode(uint32(e), s, m)
					ce, cs, cm := oEncode(neg, sig, z)
					n++
					if c != ce<<24|cs<<23|cm || !equalsNum(v, neg, sig, z, tmp) {
						if len(local) < 8 {
							local = append(local, []int{e, int(s), int(m)})
						}
					}
				}
				mu.Lock()
				words += n
				if len(cands) < 64 {
					cands = append(cands, local...)
				}
				mu.Unlock()
			}
		}()
	}
	for e := expLo; e <= expHi; e++ {
		ch <- e
	}
	close(ch)
	wg.Wait()
	// 3. work along canonical positive targets in increasing (exponent, mantissa) order, strided
	stride := uint32(env.OptInt("stride", 4099))
	var prev *big.Int
	var prevC []int
	var chain uint64
	var wc [][]int
	for e := uint32(1); e <= 255; e++ {
		lo := uint32(0x008000)
		for m := lo; m <= 0x7fffff; m += stride {
			mm := m
			if e == 1 {
				mm = m &^ 0xffff
			} else if e == 2 {
				mm = m &^ 0xff
			}
			if mm < lo {
				continue
			}
			wk := difficulty.CalcWork(e<<24 | mm)
			chain++
			if prev != nil && wk.Cmp(prev) > 0 && len(wc) < 16 {
				wc = append(wc, prevC, []int{int(e), 0, int(mm)})
			}
			prev, prevC = wk, []int{int(e), 0, int(mm)}
		}
	}
	out := map[string]any{"words": words, "calibration_rows": rows, "candidates": cands, "work_chain": chain, "work_candidates": wc}
	bj, _ := json.MarshalIndent(out, "", " ")
	if err := os.WriteFile(args[1], bj, 0o644); err != nil {
		fmt.Fprintln(os.Stderr, err)
		return 2
	}
	return 0
}
