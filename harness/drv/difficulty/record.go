package main

import (
	"math/big"
	"math/rand"

	"github.com/33cn/chain33/common/difficulty"
	"verif/harness/core"
)

// record: seeded uniformly random 32-bit compact values, random non-negative integers of random
// byte length, and random pairs of positive targets are pushed through the real functions; the
// trace specification recomputes Decode / Canon / Trunc / the order for every event (mantissas
// here are arbitrary, not the stratified set of the exhaustive run).
func record(env *core.Env, emit func(map[string]any)) (*core.Summary, error) {
	sum := &core.Summary{Counters: map[string]int{}}
	n := env.OptInt("n", 600)
	r := rand.New(rand.NewSource(env.Seed*104729 + int64(env.OptInt("salt", 0))))
	emit(map[string]any{"ev": "Reset"})
	var evs []any
	seenB := map[uint32]bool{}
	rc := func() []int {
		w := r.Uint32()
		switch r.Intn(6) {
		case 0:
			w = w&0x00ffffff | uint32(r.Intn(5))<<24 // small exponents
		case 1:
			w &^= 0x007f0000 // short mantissas
		}
		return []int{int(w >> 24), int(w >> 23 & 1), int(w & 0x7fffff)}
	}
	for i := 0; i < n; i++ {
		var ev map[string]any
		switch i % 3 {
		case 0:
			c := rc()
			w, _ := word(c)
			v := difficulty.CompactToBig(w)
			ev = map[string]any{"ev": "RT", "c": c, "ret": []any{numJSON(v), split(difficulty.BigToCompact(v))}}
			if boundaryC(c) {
				seenB[w] = true
			}
		case 1:
			L := r.Intn(41)
			if r.Intn(8) == 0 {
				L = r.Intn(255)
			}
			b := make([]byte, L)
			r.Read(b)
			if L > 0 && b[0] == 0 {
				b[0] = 1
			}
			if L > 0 && r.Intn(3) == 0 {
				b[0] |= 0x80
			}
			v := new(big.Int).SetBytes(b)
			c := difficulty.BigToCompact(v)
			bs := make([]any, L)
			for j, x := range b {
				bs[j] = int(x)
			}
			ev = map[string]any{"ev": "Enc", "n": bs, "ret": []any{split(c), numJSON(difficulty.CompactToBig(c))}}
		default:
			a, b := rc(), rc()
			a[1], b[1] = 0, 0
			if r.Intn(2) == 0 {
				b[0] = a[0] // same exponent: the mantissas decide
			}
			wa, _ := word(a)
			wb, _ := word(b)
			ev = map[string]any{"ev": "Work", "a": a, "b": b, "ret": difficulty.CalcWork(wa).Cmp(difficulty.CalcWork(wb))}
		}
		emit(ev)
		sum.Steps++
		if len(evs) < 9 {
			evs = append(evs, ev)
		}
	}
	// closing event with a reply that is never 'ok' (target of the binding self-test)
	w, _ := word([]int{4, 0, 0x008000})
	v := difficulty.CompactToBig(w)
	emit(map[string]any{"ev": "RT", "c": []int{4, 0, 0x008000}, "ret": []any{numJSON(v), split(difficulty.BigToCompact(v))}})
	sum.Behaviours = 1
	sum.NonTrivial = len(seenB)
	sum.Samples = append(sum.Samples, map[string]any{"trace_prefix": evs})
	return sum, nil
}
