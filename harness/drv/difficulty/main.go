// Driver for the Difficulty family (C20): common/difficulty compact encoding and work.
//
// The specification works on byte sequences (TLC has 32-bit integers): a number is
// [neg, sig, z] = sign, significant bytes (big endian, no leading / trailing zero byte), number
// of trailing zero bytes; a compact value is [e, s, m]. This driver assembles the 32-bit word,
// calls the real CompactToBig / BigToCompact / CalcWork and returns the results in that shape.
package main

import (
	"fmt"
	"math/big"

	"github.com/33cn/chain33/common/difficulty"
	"verif/harness/core"
)

type drv struct{ env *core.Env }

func (d *drv) Reset(env *core.Env, b *core.Behaviour) error { d.env = env; return nil }
func (d *drv) Close()                                        {}

func word(c []int) (uint32, error) {
	if len(c) != 3 || c[0] < 0 || c[0] > 255 || c[1] < 0 || c[1] > 1 || c[2] < 0 || c[2] > 0x7fffff {
		return 0, fmt.Errorf("bad compact %v", c)
	}
	return uint32(c[0])<<24 | uint32(c[1])<<23 | uint32(c[2]), nil
}

func split(w uint32) []any {
	return []any{int(w >> 24), int(w >> 23 & 1), int(w & 0x7fffff)}
}

// numJSON: [neg, sig, z]
func numJSON(n *big.Int) []any {
	b := new(big.Int).Abs(n).Bytes()
	z := 0
	for len(b) > 0 && b[len(b)-1] == 0 {
		b = b[:len(b)-1]
		z++
	}
	sig := make([]any, len(b))
	for i, x := range b {
		sig[i] = int(x)
	}
	if len(b) == 0 {
		z = 0
	}
	return []any{n.Sign() < 0, sig, z}
}

func ints(v any) []int {
	var out []int
	l, _ := v.([]any)
	for _, x := range l {
		out = append(out, core.ToInt(x))
	}
	return out
}

// intOf rebuilds the integer of an Enc step: len bytes, the leading ones from top, the rest fill
func intOf(s core.Step) *big.Int {
	L := s.Int("len")
	top := s.Ints("top")
	b := make([]byte, L)
	for i := range b {
		if i < len(top) {
			b[i] = byte(top[i])
		} else {
			b[i] = byte(s.Int("fill"))
		}
	}
	return new(big.Int).SetBytes(b)
}

func (d *drv) Apply(s core.Step) (any, any, error) {
	switch s.Op() {
	case "RT":
		w, err := word(s.Ints("c"))
		if err != nil {
			return nil, nil, err
		}
		n := difficulty.CompactToBig(w)
		return []any{numJSON(n), split(difficulty.BigToCompact(n))}, nil, nil
	case "Enc":
		n := intOf(s)
		keep := new(big.Int).Set(n)
		c := difficulty.BigToCompact(n)
		if n.Cmp(keep) != 0 {
			return "X:BigToCompact modified its argument", nil, nil
		}
		return []any{split(c), numJSON(difficulty.CompactToBig(c))}, nil, nil
	case "Order":
		var prev *big.Int
		for i, cj := range s.List("cs") {
			w, err := word(ints(cj))
			if err != nil {
				return nil, nil, err
			}
			wk := difficulty.CalcWork(w)
			if prev != nil && wk.Cmp(prev) > 0 {
				return fmt.Sprintf("X:work increases at %d: %s then %s", i, core.J(s.List("cs")[i-1]), core.J(cj)), nil, nil
			}
			prev = wk
		}
		return "nonincreasing", nil, nil
	}
	return nil, nil, fmt.Errorf("unknown op %q", s.Op())
}

// boundary (C20): exponent <= 3, a mantissa with bit 22 or bit 15 set or a zero mantissa, a set
// sign bit; for integers a leading byte >= 0x80 or a length <= 3
func boundaryC(c []int) bool {
	return len(c) == 3 && (c[0] <= 3 || c[2] == 0 || c[1] == 1 || c[2] >= 0x400000 || (c[2] < 0x10000 && c[2] >= 0x8000))
}

func (d *drv) NonTrivial(env *core.Env, b *core.Behaviour) bool {
	for _, s := range b.Steps {
		switch s.Op() {
		case "RT":
			if boundaryC(s.Ints("c")) {
				return true
			}
		case "Enc":
			t := s.Ints("top")
			if s.Int("len") <= 3 || (len(t) > 0 && t[0] >= 128) {
				return true
			}
		case "Order":
			return true
		}
	}
	return false
}

func cls(c []int) string {
	if len(c) != 3 {
		return "?"
	}
	e := "e>3"
	if c[0] <= 3 {
		e = fmt.Sprintf("e=%d", c[0])
	}
	m := "m-normal"
	switch {
	case c[2] == 0:
		m = "m=0"
	case c[2] < 0x8000:
		m = "m<0x8000"
	case c[2] < 0x10000:
		m = "m<0x10000"
	}
	return fmt.Sprintf("%s,s=%d,%s", e, c[1], m)
}

func (d *drv) Signature(b *core.Behaviour, idx int, field string, exp, obs any) string {
	if idx < 0 || idx >= len(b.Steps) {
		return field
	}
	s := b.Steps[idx]
	part := func() string {
		e, _ := exp.([]any)
		o, _ := obs.([]any)
		if len(e) == 2 && len(o) == 2 {
			a, c := core.J(e[0]) != core.J(o[0]), core.J(e[1]) != core.J(o[1])
			return map[[2]bool]string{{true, true}: "both", {true, false}: "first", {false, true}: "second"}[[2]bool{a, c}]
		}
		return "shape"
	}
	switch s.Op() {
	case "RT":
		return fmt.Sprintf("RT|%s|differs=%s(1=value,2=canon)", cls(s.Ints("c")), part())
	case "Enc":
		t := s.Ints("top")
		hi := "top<0x80"
		if len(t) > 0 && t[0] >= 128 {
			hi = "top>=0x80"
		}
		ln := "len>3"
		if s.Int("len") <= 3 {
			ln = fmt.Sprintf("len=%d", s.Int("len"))
		}
		return fmt.Sprintf("Enc|%s,%s|differs=%s(1=compact,2=decoded)", ln, hi, part())
	case "Order":
		return "Order|work increases with a larger positive target"
	}
	return fmt.Sprintf("%s|%s", s.Op(), field)
}

func main() {
	core.Main(&core.Family{
		Name:      "difficulty",
		NewDriver: func() core.Driver { return &drv{} },
		Recorders: map[string]core.Recorder{"default": record},
		Extra:     map[string]func(*core.Env, []string) int{"sweep": sweep},
	})
}
