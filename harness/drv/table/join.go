package main

// Join-table leg of C10: a real JoinTable over two real tables (left: GameAddr rows
// txhash -> (gameID, addr); right: Game rows gameID -> status) with the join indexes
// "addr#status" and "#status". Calls go to the member tables, JoinTable.Save writes all
// three; the projection is compared after each applied Save.

import (
	"bytes"
	"fmt"
	"math/rand"
	"sort"
	"strings"

	dbm "github.com/33cn/chain33/common/db"
	"github.com/33cn/chain33/common/db/table"
	protodata "github.com/33cn/chain33/common/db/table/proto"
	"github.com/33cn/chain33/types"
	"verif/harness/core"
)

type gameRow struct{ *protodata.Game }

func (r *gameRow) CreateRow() *table.Row { return &table.Row{Data: &protodata.Game{}} }
func (r *gameRow) SetPayload(d types.Message) error {
	if g, ok := d.(*protodata.Game); ok {
		r.Game = g
		return nil
	}
	return types.ErrTypeAsset
}
func (r *gameRow) Get(key string) ([]byte, error) {
	switch key {
	case "gameID":
		return []byte(r.GameID), nil
	case "status":
		return []byte(fmt.Sprint(r.Status)), nil
	}
	return nil, types.ErrNotFound
}

type gameAddrRow struct{ *protodata.GameAddr }

func (r *gameAddrRow) CreateRow() *table.Row { return &table.Row{Data: &protodata.GameAddr{}} }
func (r *gameAddrRow) SetPayload(d types.Message) error {
	if g, ok := d.(*protodata.GameAddr); ok {
		r.GameAddr = g
		return nil
	}
	return types.ErrTypeAsset
}
func (r *gameAddrRow) Get(key string) ([]byte, error) {
	switch key {
	case "gameID":
		return []byte(r.GameID), nil
	case "addr":
		return []byte(r.Addr), nil
	case "txhash":
		return []byte(r.Txhash), nil
	}
	return nil, types.ErrNotFound
}

var lpkPool = []string{"tx1", "tx2", "tx", "tx-", "tx-1", "g1", "g1-tx1", "-", "addr", "tx#1", "TX1", "t"}
var rpkPool = []string{"g1", "g2", "g", "g-", "g#1", "tx1", "G1", "gg", "g.1", "1"}

// pool without prefix-related keys (option rpk=plain)
var rpkPlain = []string{"g1", "g2", "h-", "k#1", "tx1", "G1", "mm", "n.1", "1", "x y"}
var addrPool = []string{"aa", "bb", "a.", "#a", "a#", "zz", "Aa", "g1"}

type jdrv struct {
	env          *core.Env
	dir          string
	ldb          dbm.DB
	kvdb         dbm.KVDB
	left, right  *table.Table
	join         *table.JoinTable
	lpk, rpk     map[int]string
	rlpk, rrpk   map[string]int
	addr         map[int]string
	raddr        map[string]int
	lpks, rpks   []int
	naddr, nstat int
	fresh        bool
}

func (d *jdrv) newTables() error {
	var err error
	d.right, err = table.NewTable(&gameRow{Game: &protodata.Game{}}, d.kvdb, &table.Option{
		Prefix: "LODB", Name: "game", Primary: "gameID", Index: []string{"status"}})
	if err != nil {
		return err
	}
	d.left, err = table.NewTable(&gameAddrRow{GameAddr: &protodata.GameAddr{}}, d.kvdb, &table.Option{
		Prefix: "LODB", Name: "gameaddr", Primary: "txhash", Index: []string{"gameID", "addr"}})
	if err != nil {
		return err
	}
	d.join, err = table.NewJoinTable(d.left, d.right, []string{"addr#status", "#status"})
	return err
}

func (d *jdrv) lrow(l int, r []int) *protodata.GameAddr {
	return &protodata.GameAddr{Txhash: d.lpk[l], GameID: d.rpk[r[0]], Addr: d.addr[r[1]]}
}
func (d *jdrv) rrow(k int, r []int) *protodata.Game {
	return &protodata.Game{GameID: d.rpk[k], Status: int64(r[0])}
}

func jshape(b *core.Behaviour) (lpks, rpks []int, naddr, nstat int) {
	for _, s := range b.Steps {
		c, ok := s["chk"].(map[string]any)
		if !ok {
			continue
		}
		for _, r := range core.Step(c).List("lrows") {
			lpks = append(lpks, core.ToInt(r.([]any)[0]))
		}
		for _, r := range core.Step(c).List("rrows") {
			rpks = append(rpks, core.ToInt(r.([]any)[0]))
		}
		jas := core.Step(c).List("jas")
		naddr = len(jas)
		nstat = len(core.Step(c).List("js"))
		return
	}
	return
}

func (d *jdrv) Reset(env *core.Env, b *core.Behaviour) error {
	d.env = env
	d.lpks, d.rpks, d.naddr, d.nstat = jshape(b)
	if len(d.lpks) == 0 {
		return fmt.Errorf("join behaviour %s carries no projection", b.ID)
	}
	r := rand.New(rand.NewSource(seedOf(env, b.ID)))
	d.lpk, d.rlpk, d.rpk, d.rrpk = map[int]string{}, map[string]int{}, map[int]string{}, map[string]int{}
	d.addr, d.raddr = map[int]string{}, map[string]int{}
	pl, pr, pa := r.Perm(len(lpkPool)), r.Perm(len(rpkPool)), r.Perm(len(addrPool))
	for i, l := range d.lpks {
		s := lpkPool[pl[i%len(lpkPool)]]
		if i >= len(lpkPool) {
			s += fmt.Sprintf("~%d", i)
		}
		d.lpk[l], d.rlpk[s] = s, l
	}
	rpool := rpkPool
	if env.Opt("rpk", "plain") == "plain" {
		rpool = rpkPlain
	}
	for i, k := range d.rpks {
		s := rpool[pr[i%len(rpool)]]
		if i >= len(rpkPool) {
			s += fmt.Sprintf("~%d", i)
		}
		d.rpk[k], d.rrpk[s] = s, k
	}
	for a := 0; a < d.naddr; a++ {
		d.addr[a] = addrPool[pa[a%len(addrPool)]]
		d.raddr[d.addr[a]] = a
	}
	d.fresh = env.OptInt("fresh", 0) == 1
	var err error
	d.ldb, err = dbm.NewGoMemDB("tablejoin", "", 0)
	if err != nil {
		return err
	}
	if env.Opt("db", "mem") == "local" {
		d.kvdb = dbm.NewLocalDB(d.ldb, false)
	} else {
		d.kvdb = dbm.NewKVDB(d.ldb)
	}
	if err := d.newTables(); err != nil {
		return err
	}
	// anchors
	for _, k := range d.rpks {
		if k >= 100 {
			if err := d.right.Add(d.rrow(k, []int{k - 100})); err != nil {
				return err
			}
		}
	}
	for _, l := range d.lpks {
		if l >= 100 {
			if err := d.left.Add(d.lrow(l, []int{100 + (l-100)%10, (l - 100) / 10})); err != nil {
				return err
			}
		}
	}
	if r, err := d.save(); err != nil || r != "ok" {
		return fmt.Errorf("anchor save: %v %v", r, err)
	}
	return nil
}

func (d *jdrv) Close() {
	if d.ldb != nil {
		d.ldb.Close()
		d.ldb = nil
	}
}

func (d *jdrv) save() (string, error) {
	kvs, err := d.join.Save()
	if err != nil {
		return "err:" + err.Error(), nil
	}
	for _, kv := range kvs {
		if _, isLocal := d.kvdb.(*dbm.LocalDB); isLocal {
			if err := d.kvdb.Set(kv.Key, kv.Value); err != nil {
				return "", err
			}
			continue
		}
		if kv.Value == nil {
			if err := d.ldb.Delete(kv.Key); err != nil && err != types.ErrNotFound && !strings.Contains(err.Error(), "not found") {
				return "", err
			}
		} else if err := d.ldb.Set(kv.Key, kv.Value); err != nil {
			return "", err
		}
	}
	if d.fresh {
		if err := d.newTables(); err != nil {
			return "", err
		}
	}
	return "ok", nil
}

func (d *jdrv) decL(m types.Message) []int {
	g, ok := m.(*protodata.GameAddr)
	if !ok || g == nil {
		return []int{-3, -3, -3}
	}
	get := func(mm map[string]int, s string) int {
		if v, ok := mm[s]; ok {
			return v
		}
		return -2
	}
	return []int{get(d.rlpk, g.Txhash), get(d.rrpk, g.GameID), get(d.raddr, g.Addr)}
}

func (d *jdrv) joinList(index string, key []byte, want func(l []int, st int) bool) any {
	rows, err := d.join.ListIndex(index, key, nil, 0, dbm.ListASC)
	if err != nil {
		if err == types.ErrNotFound {
			return "notfound;stale=" + d.staleJoin(index, key)
		}
		return "err:" + err.Error()
	}
	out := []int{}
	for _, r := range rows {
		jd, ok := r.Data.(*table.JoinData)
		if !ok {
			out = append(out, -3000)
			continue
		}
		l := d.decL(jd.Left)
		pk := l[0]
		g, _ := jd.Right.(*protodata.Game)
		// the joined row must pair the current left row with the current right row it references
		cl, errl := d.left.GetData(r.Primary)
		good := errl == nil && bytes.Equal(types.Encode(cl.Data), types.Encode(jd.Left)) && g != nil
		if good {
			cr, errr := d.right.GetData([]byte(cl.Data.(*protodata.GameAddr).GameID))
			good = errr == nil && bytes.Equal(types.Encode(cr.Data), types.Encode(g)) && want(l, int(g.Status))
		}
		if !good {
			pk = -1000 - pk
		}
		out = append(out, pk)
	}
	sort.Ints(out)
	res := []any{}
	for _, p := range out {
		res = append(res, p)
	}
	return res
}

// staleJoin: left primary keys named by raw join index entries under key whose joined row cannot be read
func (d *jdrv) staleJoin(index string, key []byte) string {
	prefix := append([]byte("LODB-gameaddr#game-m-"+index+"-"), key...)
	vals, _ := d.kvdb.List(prefix, nil, 0, dbm.ListASC)
	var st []string
	for _, p := range vals {
		if _, err := d.join.GetData(p); err != nil {
			st = append(st, fmt.Sprint(d.rlpk[string(p)]))
		}
	}
	return strings.Join(st, "+")
}

func (d *jdrv) project() any {
	lrows, rrows := []any{}, []any{}
	for _, l := range d.lpks {
		r, err := d.left.GetData([]byte(d.lpk[l]))
		switch {
		case err == types.ErrNotFound:
			lrows = append(lrows, []any{l, -1, -1})
		case err != nil:
			lrows = append(lrows, []any{l, "err:" + err.Error()})
		default:
			x := d.decL(r.Data)
			if x[0] != l {
				lrows = append(lrows, []any{l, "wrongrow"})
			} else {
				lrows = append(lrows, []any{l, x[1], x[2]})
			}
		}
	}
	for _, k := range d.rpks {
		r, err := d.right.GetData([]byte(d.rpk[k]))
		switch {
		case err == types.ErrNotFound:
			rrows = append(rrows, []any{k, -1})
		case err != nil:
			rrows = append(rrows, []any{k, "err:" + err.Error()})
		default:
			g := r.Data.(*protodata.Game)
			if d.rrpk[g.GameID] != k {
				rrows = append(rrows, []any{k, "wrongrow"})
			} else {
				rrows = append(rrows, []any{k, int(g.Status)})
			}
		}
	}
	jas := []any{}
	for a := 0; a < d.naddr; a++ {
		row := []any{}
		for s := 0; s < d.nstat; s++ {
			a, s := a, s
			row = append(row, d.joinList("addr#status", table.JoinKey([]byte(d.addr[a]), []byte(fmt.Sprint(s))),
				func(l []int, st int) bool { return l[2] == a && st == s }))
		}
		jas = append(jas, row)
	}
	js := []any{}
	for s := 0; s < d.nstat; s++ {
		s := s
		js = append(js, d.joinList("#status", table.JoinKey(nil, []byte(fmt.Sprint(s))), func(l []int, st int) bool { return st == s }))
	}
	return map[string]any{"lrows": lrows, "rrows": rrows, "jas": jas, "js": js}
}

func (d *jdrv) Apply(s core.Step) (any, any, error) {
	pk := s.Int("pk")
	row := s.Ints("row")
	left := s.Str("side") == "L"
	switch s.Op() {
	case "JLoad":
		return "ok", d.project(), nil
	case "Add":
		if left {
			return class(d.left.Add(d.lrow(pk, row))), nil, nil
		}
		return class(d.right.Add(d.rrow(pk, row))), nil, nil
	case "Replace":
		if left {
			return class(d.left.Replace(d.lrow(pk, row))), nil, nil
		}
		return class(d.right.Replace(d.rrow(pk, row))), nil, nil
	case "Update":
		if left {
			return class(d.left.Update([]byte(d.lpk[pk]), d.lrow(pk, row))), nil, nil
		}
		return class(d.right.Update([]byte(d.rpk[pk]), d.rrow(pk, row))), nil, nil
	case "Del":
		if left {
			return class(d.left.Del([]byte(d.lpk[pk]))), nil, nil
		}
		return class(d.right.Del([]byte(d.rpk[pk]))), nil, nil
	case "Save":
		r, err := d.save()
		if err != nil {
			return nil, nil, err
		}
		if r != "ok" {
			return r, nil, nil
		}
		return r, d.project(), nil
	}
	return nil, nil, fmt.Errorf("unknown join op %q", s.Op())
}

// window: the calls since the last Save before step idx as "L1:Del>R2:Update…" restricted to the rows involved
func jwindow(b *core.Behaviour, idx int, lpk int, rpk int) string {
	var h []string
	for i := 0; i <= idx && i < len(b.Steps); i++ {
		s := b.Steps[i]
		switch s.Op() {
		case "Save":
			if i < idx {
				h = nil
			}
		case "Add", "Replace", "Update", "Del":
			side, pk := s.Str("side"), s.Int("pk")
			if (side == "L" && pk == lpk) || (side == "R" && (pk == rpk || rpk < 0)) {
				tag := side + ":" + s.Op()
				if s.Str("ret") != "ok" {
					tag += "!"
				}
				if side == "L" && s.Op() != "Del" && s.Str("ret") == "ok" {
					tag += fmt.Sprintf("(fk%d)", s.Ints("row")[0])
				}
				if side == "R" {
					tag = fmt.Sprintf("R%d:%s", pk, strings.TrimPrefix(tag, "R:"))
				}
				h = append(h, tag)
			}
		}
	}
	if len(h) > 5 {
		h = append([]string{"…"}, h[len(h)-5:]...)
	}
	return strings.Join(h, ">")
}

func (d *jdrv) NonTrivial(env *core.Env, b *core.Behaviour) bool {
	// a window touching both member tables, or >= 2 calls on one row
	var l, r bool
	n := map[string]int{}
	for _, s := range b.Steps {
		switch s.Op() {
		case "Save":
			if l && r {
				return true
			}
			l, r = false, false
			n = map[string]int{}
		case "Add", "Replace", "Update", "Del":
			if s.Str("side") == "L" {
				l = true
			} else {
				r = true
			}
			k := s.Str("side") + fmt.Sprint(s.Int("pk"))
			n[k]++
			if n[k] >= 2 {
				return true
			}
		}
	}
	return false
}

func (d *jdrv) Signature(b *core.Behaviour, idx int, field string, exp, obs any) string {
	if field == "panic" {
		idx-- // the replayer reports the number of steps begun
	}
	if idx < 0 {
		idx = 0
	}
	if idx >= len(b.Steps) {
		idx = len(b.Steps) - 1
	}
	if field == "panic" {
		return fmt.Sprintf("%s|panic", b.Steps[idx].Op())
	}
	s := b.Steps[idx]
	if field == "ret" {
		o := fmt.Sprint(obs)
		if strings.HasPrefix(o, "err:") {
			o = "err"
		}
		if s.Op() == "Save" {
			return fmt.Sprintf("Join|Save|ret|exp=%v|got=%s|%s", exp, o, jwindow(b, idx, -1, -1))
		}
		lp, rp := -1, -2
		if s.Str("side") == "L" {
			lp = s.Int("pk")
		} else {
			rp = s.Int("pk")
		}
		return fmt.Sprintf("Join|%s:%s|ret|exp=%v|got=%s|%s", s.Str("side"), s.Op(), exp, o, jwindow(b, idx, lp, rp))
	}
	if field == "chk" {
		e, _ := exp.(map[string]any)
		o, _ := obs.(map[string]any)
		for _, k := range []string{"lrows", "rrows"} {
			el, ol := core.Step(e).List(k), core.Step(o).List(k)
			for i := range el {
				if i < len(ol) && !core.Match(el[i], ol[i]) {
					pk := core.ToInt(el[i].([]any)[0])
					if k == "lrows" {
						return fmt.Sprintf("Join|Save|GetData-left|%s", jwindow(b, idx, pk, -2))
					}
					return fmt.Sprintf("Join|Save|GetData-right|%s", jwindow(b, idx, -1, pk))
				}
			}
		}
		diff := func(name string, el, ol any) string {
			if core.Match(el, ol) {
				return ""
			}
			lp := 0
			kind := "missing"
			if str, ok := ol.(string); ok {
				kind = "err"
				if strings.HasPrefix(str, "notfound;stale=") {
					kind = "notfound-stale-entry"
					fmt.Sscanf(strings.TrimPrefix(str, "notfound;stale="), "%d", &lp)
					if strings.TrimPrefix(str, "notfound;stale=") == "" {
						kind = "notfound-no-stale-entry"
					}
				}
			} else {
				lp = firstDiffPK(el, ol)
				if l, ok := ol.([]any); ok {
					for _, x := range l {
						if p := core.ToInt(x); p == lp {
							kind = "extra"
						} else if p <= -1000 && -1000-p == lp {
							kind = "inconsistent-row"
						}
					}
				}
			}
			c := d.cause(b, idx, lp, e)
			if kind == "notfound-no-stale-entry" {
				// the listing lost all its entries: look at every row it should contain
				if l, ok := el.([]any); ok {
					for _, x := range l {
						if cc := d.cause(b, idx, core.ToInt(x), e); !strings.HasPrefix(cc, "other|") {
							c = cc
							break
						}
					}
				}
			}
			if !strings.HasPrefix(c, "other|") {
				// one root cause shows as stale / missing / mispaired entries of either join index
				return "Join|Save|join-index|" + c
			}
			return fmt.Sprintf("Join|Save|%s|%s|%s", name, kind, c)
		}
		ej, oj := core.Step(e).List("jas"), core.Step(o).List("jas")
		for a := range ej {
			er, _ := ej[a].([]any)
			var or []any
			if a < len(oj) {
				or, _ = oj[a].([]any)
			}
			for st := range er {
				var ov any
				if st < len(or) {
					ov = or[st]
				}
				if sgn := diff("addr#status", er[st], ov); sgn != "" {
					return sgn
				}
			}
		}
		es, os := core.Step(e).List("js"), core.Step(o).List("js")
		for st := range es {
			var ov any
			if st < len(os) {
				ov = os[st]
			}
			if sgn := diff("#status", es[st], ov); sgn != "" {
				return sgn
			}
		}
	}
	return fmt.Sprintf("Join|%s|%s", s.Op(), field)
}

// lrowAt: the expected left row of lp in projection c
func lrowAt(c map[string]any, lp int) (fk, a int, present bool) {
	for _, r := range core.Step(c).List("lrows") {
		if l := r.([]any); core.ToInt(l[0]) == lp {
			return core.ToInt(l[1]), core.ToInt(l[2]), core.ToInt(l[1]) >= 0
		}
	}
	return -1, -1, false
}

// cause classifies the situation of the affected left row lp in the window ending at Save step idx:
// what happened to it and to the right rows it referenced. Unclassified situations carry the call history.
func (d *jdrv) cause(b *core.Behaviour, idx int, lp int, final map[string]any) string {
	var saved map[string]any
	for i := idx - 1; i >= 0; i-- {
		if c, ok := b.Steps[i]["chk"].(map[string]any); ok {
			saved = c
			break
		}
	}
	sfk, _, sp := lrowAt(saved, lp)
	ffk, _, fp := lrowAt(final, lp)
	rightTouched := func(rp int) bool {
		for i := idx - 1; i >= 0 && b.Steps[i].Op() != "Save" && b.Steps[i].Op() != "JLoad"; i-- {
			s := b.Steps[i]
			if s.Str("side") == "R" && s.Int("pk") == rp && s.Str("ret") == "ok" {
				return true
			}
		}
		return false
	}
	leftFkTouched := false
	for i := idx - 1; i >= 0 && b.Steps[i].Op() != "Save" && b.Steps[i].Op() != "JLoad"; i-- {
		s := b.Steps[i]
		if s.Str("side") == "L" && s.Int("pk") == lp && s.Str("ret") == "ok" && s.Op() != "Del" && sp && s.Ints("row")[0] != sfk {
			leftFkTouched = true
		}
	}
	// a referenced right row deleted and written again inside the window
	readded := func(rp int) bool {
		del := false
		for i := idx - 1; i >= 0 && b.Steps[i].Op() != "Save" && b.Steps[i].Op() != "JLoad"; i-- {
			_ = i
		}
		start := idx - 1
		for start >= 0 && b.Steps[start].Op() != "Save" && b.Steps[start].Op() != "JLoad" {
			start--
		}
		for i := start + 1; i < idx; i++ {
			s := b.Steps[i]
			if s.Str("side") != "R" || s.Int("pk") != rp || s.Str("ret") != "ok" {
				continue
			}
			if s.Op() == "Del" {
				del = true
			} else if del {
				return true
			}
		}
		return false
	}
	// a right row written in this window whose key is a proper prefix of the key of the right row lp references
	// (saveRight lists the left rows of a right row by prefix match)
	prefixRelated := func() bool {
		for i := idx - 1; i >= 0 && b.Steps[i].Op() != "Save" && b.Steps[i].Op() != "JLoad"; i-- {
			s := b.Steps[i]
			if s.Str("side") != "R" || s.Str("ret") != "ok" {
				continue
			}
			for _, fk := range []int{sfk, ffk} {
				// (the left index key is fk + "-" + txhash, so "g-" also selects the rows of "g")
				if k1, k2 := d.rpk[s.Int("pk")], d.rpk[fk]; fk >= 0 && k1 != k2 && (strings.HasPrefix(k2, k1) || strings.HasPrefix(k1, k2+"-")) {
					return true
				}
			}
		}
		return false
	}
	switch {
	case sp && leftFkTouched:
		return "left-fk-changed"
	case sp && !fp && rightTouched(sfk):
		return "left-deleted+right-changed"
	case (sfk >= 0 && readded(sfk)) || (ffk >= 0 && readded(ffk)):
		return "right-row-deleted-and-readded"
	case prefixRelated():
		return "right-key-prefix-related-to-referenced-key"
	}
	rp := ffk
	if !fp {
		rp = sfk
	}
	return "other|" + jwindow(b, idx, lp, rp)
}

// mux picks the plain-table or the join-table driver by the behaviour's first step
type mux struct{ cur core.Driver }

func isJoin(b *core.Behaviour) bool { return len(b.Steps) > 0 && b.Steps[0].Op() == "JLoad" }

func (m *mux) Reset(env *core.Env, b *core.Behaviour) error {
	if isJoin(b) {
		m.cur = &jdrv{}
	} else {
		m.cur = &drv{}
	}
	return m.cur.Reset(env, b)
}
func (m *mux) Apply(s core.Step) (any, any, error) { return m.cur.Apply(s) }
func (m *mux) Close() {
	if m.cur != nil {
		m.cur.Close()
	}
}
func (m *mux) NonTrivial(env *core.Env, b *core.Behaviour) bool {
	if isJoin(b) {
		return (&jdrv{}).NonTrivial(env, b)
	}
	return (&drv{}).NonTrivial(env, b)
}
func (m *mux) Signature(b *core.Behaviour, idx int, field string, exp, obs any) string {
	if sg, ok := m.cur.(core.Signer); ok {
		return sg.Signature(b, idx, field, exp, obs)
	}
	return ""
}
