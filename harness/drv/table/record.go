package main

import (
	"fmt"
	"math/rand"

	"verif/harness/core"
)

// uniform makes a projection type-uniform for the trace specification (TLC cannot compare a
// string with a sequence): failed listings become the sentinel list [-9000], failed reads [pk,-9,-9,-9].
func uniform(chk any) any {
	m, ok := chk.(map[string]any)
	if !ok {
		return chk
	}
	rows, _ := m["rows"].([]any)
	for i, r := range rows {
		l, _ := r.([]any)
		if len(l) != 4 {
			rows[i] = []any{l[0], -9, -9, -9}
			continue
		}
		for _, x := range l {
			if _, isStr := x.(string); isStr {
				rows[i] = []any{l[0], -9, -9, -9}
				break
			}
		}
	}
	idx, _ := m["idx"].([]any)
	for _, l := range idx {
		ll, _ := l.([]any)
		for j, x := range ll {
			if _, isStr := x.(string); isStr {
				ll[j] = []any{-9000}
			}
		}
	}
	if _, isStr := m["all"].(string); isStr {
		m["all"] = []any{-9000}
	}
	return m
}

// record: seeded random call sequences over a larger alphabet (opt keys/vals/pays) on the real table;
// every call is logged with its observed reply, every Save with the observed projection.
// Validated by Table_Trace.
func record(env *core.Env, emit func(map[string]any)) (*core.Summary, error) {
	sum := &core.Summary{Counters: map[string]int{}}
	n := env.OptInt("n", 20)
	nkeys := env.OptInt("keys", 5)
	nvals := env.OptInt("vals", 3)
	npays := env.OptInt("pays", 3)
	depth := env.OptInt("depth", 40)
	r := rand.New(rand.NewSource(env.Seed*7 + 11))
	dbs := []string{"mem", "local", "leveldb"}
	for t := 0; t < n; t++ {
		d := &drv{}
		var pks []int
		for p := 1; p <= nkeys; p++ {
			pks = append(pks, p)
		}
		for v := 0; v < nvals; v++ {
			pks = append(pks, 100+v)
		}
		e2 := *env
		e2.Opts = map[string]string{}
		for k, v := range env.Opts {
			e2.Opts[k] = v
		}
		if _, ok := e2.Opts["db"]; !ok {
			e2.Opts["db"] = dbs[t%len(dbs)]
		}
		if _, ok := e2.Opts["fresh"]; !ok {
			e2.Opts["fresh"] = fmt.Sprint(t / 3 % 2)
		}
		if err := d.open(&e2, fmt.Sprintf("rec-%d-%d", env.Seed, t), pks, nvals); err != nil {
			return nil, err
		}
		emit(map[string]any{"ev": "Reset"})
		var evs []any
		nt := false
		win := map[int]int{}
		pend := 0
		hot := 1 + r.Intn(nkeys) // one key gets most of the traffic so that windows stack calls on it
		for i := 0; i < depth; i++ {
			pk := 1 + r.Intn(nkeys)
			if r.Intn(2) == 0 {
				pk = hot
			}
			row := []any{float64(r.Intn(nvals)), float64(r.Intn(nvals)), float64(r.Intn(npays))}
			var st core.Step
			x := r.Intn(13)
			switch {
			case x < 3:
				st = core.Step{"op": "Add", "pk": float64(pk), "row": row}
			case x < 5:
				st = core.Step{"op": "Replace", "pk": float64(pk), "row": row}
			case x < 8:
				st = core.Step{"op": "Update", "pk": float64(pk), "row": row}
			case x < 11:
				st = core.Step{"op": "Del", "pk": float64(pk)}
			default:
				if pend == 0 {
					continue
				}
				st = core.Step{"op": "Save"}
			}
			if i == depth-1 && pend > 0 {
				st = core.Step{"op": "Save"}
			}
			ret, chk, err := safeApply(d, st)
			if err != nil {
				d.Close()
				return nil, err
			}
			ev := map[string]any{"ev": st.Op(), "ret": ret}
			for k, v := range st {
				if k != "op" {
					ev[k] = v
				}
			}
			if rs, ok := ret.(string); ok && len(rs) > 6 && rs[:6] == "panic:" {
				emit(ev)
				break // the trace specification rejects this event
			}
			if st.Op() == "Save" {
				ev["chk"] = uniform(core.Norm(chk))
				win = map[int]int{}
				pend = 0
				hot = 1 + r.Intn(nkeys)
			} else {
				pend++
				win[pk]++
				if win[pk] >= 2 {
					nt = true
				}
			}
			emit(ev)
			sum.Steps++
			if len(evs) < 10 {
				evs = append(evs, ev)
			}
		}
		d.Close()
		sum.Behaviours++
		if nt {
			sum.NonTrivial++
		}
		if len(sum.Samples) < 2 {
			sum.Samples = append(sum.Samples, map[string]any{"trace_prefix": evs})
		}
	}
	return sum, nil
}

// safeApply: a panic of the code under test is an observed reply ("panic:..."), not a harness failure
func safeApply(d *drv, st core.Step) (ret any, chk any, err error) {
	defer func() {
		if r := recover(); r != nil {
			ret, chk, err = fmt.Sprintf("panic: %v", r), nil, nil
		}
	}()
	return d.Apply(st)
}
