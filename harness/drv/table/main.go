// Driver for the Table family (C10): common/db/table on memdb / LevelDB / LocalDB.
//
// The model row <<f1, f2, d>> under primary key pk is a types.WalletAccountStore
// {Addr: pk, Label: f1, Privkey: f2, TimeStamp: d}; Label and Privkey are indexed.
// Save's KV list is applied to the store the way blockchain/blockstore.go does
// (nil value => delete); GetData / ListIndex are compared only after that.
package main

import (
	"bytes"
	"fmt"
	"math/rand"
	"os"
	"sort"
	"strings"

	dbm "github.com/33cn/chain33/common/db"
	"github.com/33cn/chain33/common/db/table"
	"github.com/33cn/chain33/common/log/log15"
	"github.com/33cn/chain33/types"
	"verif/harness/core"
)

// ---------------------------------------------------------------------------------
// row meta

type rowMeta struct {
	*types.WalletAccountStore
}

func (r *rowMeta) CreateRow() *table.Row {
	return &table.Row{Data: &types.WalletAccountStore{}}
}

func (r *rowMeta) SetPayload(data types.Message) error {
	if d, ok := data.(*types.WalletAccountStore); ok {
		r.WalletAccountStore = d
		return nil
	}
	return types.ErrTypeAsset
}

func (r *rowMeta) Get(key string) ([]byte, error) {
	switch key {
	case "addr":
		return []byte(r.Addr), nil
	case "label":
		return []byte(r.Label), nil
	case "privkey":
		return []byte(r.Privkey), nil
	}
	return nil, types.ErrNotFound
}

var idxNames = []string{"label", "privkey"}

// ---------------------------------------------------------------------------------
// concretisation pools: primary keys are prefix-related and contain the table's own
// separator '-'; index values are equal-length and never contain '-' (so that the
// prefix match of ListIndex is equality, as the property assumes)

var pkPool = []string{"p1", "p2", "p", "p-", "p-1", "p1-AA", "AA", "AA-p1", "-", "--", "label", "d", "m", "p.", "P1",
	"p1 ", "AA-", "-AA", "xxx", "AA-xxx", "p#1", "00000000000000000001"}
var f1Pool = []string{"AA", "BB", "CC", "A.", "aa", "#A", "0a", "zz", "A ", "~~", "Aa", "p1"}
var f2Pool = []string{"xxx", "yyy", "zzz", "x.y", "x#y", "000", "XxX", " xx", "pxx", "AAx"}

type drv struct {
	env   *core.Env
	dir   string
	ldb   dbm.DB
	kvdb  dbm.KVDB
	tab   *table.Table
	pk    map[int]string
	rpk   map[string]int
	f1    map[int]string
	rf1   map[string]int
	f2    map[int]string
	rf2   map[string]int
	pks   []int // all model primary keys (anchors included), sorted
	nvals int
	fresh bool
	kind  string
}

func payload(d int) string {
	if d == 1 {
		return ""
	}
	return fmt.Sprintf("pay%d", d)
}

func unpayload(s string) int {
	if s == "" {
		return 1
	}
	var d int
	if _, err := fmt.Sscanf(s, "pay%d", &d); err != nil {
		return -2
	}
	return d
}

func seedOf(env *core.Env, id string) int64 {
	h := int64(0)
	for _, c := range id {
		h = h*131 + int64(c)
	}
	return env.Seed*1000003 + h + int64(env.OptInt("salt", 0))*7919
}

func (d *drv) conc(id string, pks []int, nvals int) {
	r := rand.New(rand.NewSource(seedOf(d.env, id)))
	d.pk, d.rpk = map[int]string{}, map[string]int{}
	d.f1, d.rf1 = map[int]string{}, map[string]int{}
	d.f2, d.rf2 = map[int]string{}, map[string]int{}
	perm := r.Perm(len(pkPool))
	for i, p := range pks {
		s := pkPool[perm[i%len(pkPool)]]
		if i >= len(pkPool) {
			s += fmt.Sprintf("~%d", i)
		}
		d.pk[p] = s
		d.rpk[s] = p
	}
	p1 := r.Perm(len(f1Pool))
	p2 := r.Perm(len(f2Pool))
	for v := 0; v < nvals; v++ {
		d.f1[v] = f1Pool[p1[v%len(f1Pool)]]
		d.rf1[d.f1[v]] = v
		d.f2[v] = f2Pool[p2[v%len(f2Pool)]]
		d.rf2[d.f2[v]] = v
	}
	d.pks = append([]int{}, pks...)
	sort.Ints(d.pks)
	d.nvals = nvals
}

// shape reads the key universe from the first projection of a behaviour
func shape(b *core.Behaviour) (pks []int, nvals int) {
	for _, s := range b.Steps {
		c, ok := s["chk"].(map[string]any)
		if !ok {
			continue
		}
		rows, _ := c["rows"].([]any)
		for _, r := range rows {
			if l, ok := r.([]any); ok && len(l) > 0 {
				pks = append(pks, core.ToInt(l[0]))
			}
		}
		if idx, ok := c["idx"].([]any); ok && len(idx) > 0 {
			if l, ok := idx[0].([]any); ok {
				nvals = len(l)
			}
		}
		return
	}
	return
}

func (d *drv) newTable() error {
	t, err := table.NewTable(&rowMeta{WalletAccountStore: &types.WalletAccountStore{}}, d.kvdb, &table.Option{
		Prefix: "LODB-verif", Name: "acct", Primary: "addr", Index: idxNames})
	d.tab = t
	return err
}

func (d *drv) open(env *core.Env, id string, pks []int, nvals int) error {
	d.env = env
	d.conc(id, pks, nvals)
	d.fresh = env.OptInt("fresh", 0) == 1
	d.kind = env.Opt("db", "mem")
	var err error
	if d.kind == "leveldb" {
		d.dir, err = os.MkdirTemp("", "vh-table-")
		if err != nil {
			return err
		}
		d.ldb, err = dbm.NewGoLevelDB("table", d.dir, 4)
	} else {
		d.ldb, err = dbm.NewGoMemDB("table", "", 0)
	}
	if err != nil {
		return err
	}
	if d.kind == "local" {
		d.kvdb = dbm.NewLocalDB(d.ldb, false)
	} else {
		d.kvdb = dbm.NewKVDB(d.ldb)
	}
	if err := d.newTable(); err != nil {
		return err
	}
	// anchor rows: one untouched row under every index value
	for _, p := range d.pks {
		if p >= 100 {
			if err := d.tab.Add(d.row(p, []int{p - 100, p - 100, 0})); err != nil {
				return fmt.Errorf("anchor add: %v", err)
			}
		}
	}
	_, err = d.save()
	return err
}

func (d *drv) Reset(env *core.Env, b *core.Behaviour) error {
	pks, nvals := shape(b)
	if len(pks) == 0 || nvals == 0 {
		return fmt.Errorf("behaviour %s carries no projection", b.ID)
	}
	return d.open(env, b.ID, pks, nvals)
}

func (d *drv) Close() {
	if d.ldb != nil {
		d.ldb.Close()
		d.ldb = nil
	}
	if d.dir != "" {
		os.RemoveAll(d.dir)
		d.dir = ""
	}
}

func (d *drv) row(pk int, r []int) *types.WalletAccountStore {
	return &types.WalletAccountStore{Addr: d.pk[pk], Label: d.f1[r[0]], Privkey: d.f2[r[1]], TimeStamp: payload(r[2])}
}

// save: Table.Save, then apply the KV list to the store (nil value => delete)
func (d *drv) save() (string, error) {
	kvs, err := d.tab.Save()
	if err != nil {
		return "err:" + err.Error(), nil
	}
	if d.kind == "local" {
		for _, kv := range kvs {
			if err := d.kvdb.Set(kv.Key, kv.Value); err != nil {
				return "", err
			}
		}
	} else {
		for _, kv := range kvs {
			if kv.Value == nil {
				// deleting an absent key is an error on memdb only; blockstore's LevelDB batch accepts it
				if err := d.ldb.Delete(kv.Key); err != nil && err != types.ErrNotFound && !strings.Contains(err.Error(), "not found") {
					return "", err
				}
			} else if err := d.ldb.Set(kv.Key, kv.Value); err != nil {
				return "", err
			}
		}
	}
	if d.fresh {
		if err := d.newTable(); err != nil {
			return "", err
		}
	}
	return "ok", nil
}

func (d *drv) decode(row *table.Row) []any {
	w, ok := row.Data.(*types.WalletAccountStore)
	if !ok {
		return []any{-3, -3, -3, -3}
	}
	pk, ok := d.rpk[w.Addr]
	if !ok || string(row.Primary) != w.Addr {
		pk = -2
	}
	g := func(m map[string]int, s string) int {
		if v, ok := m[s]; ok {
			return v
		}
		return -2
	}
	return []any{pk, g(d.rf1, w.Label), g(d.rf2, w.Privkey), unpayload(w.TimeStamp)}
}

// staleInfo: which primary keys do the raw index entries under (ix, v) name, and which of them have no data row
func (d *drv) staleInfo(ix int, v int) string {
	val := d.f1[v]
	if ix == 1 {
		val = d.f2[v]
	}
	prefix := []byte("LODB-verif-acct-m-" + idxNames[ix] + "-" + val + "-")
	vals, _ := d.kvdb.List(prefix, nil, 0, dbm.ListASC)
	var stale []string
	for _, p := range vals {
		if _, err := d.tab.GetData(p); err != nil {
			stale = append(stale, fmt.Sprint(d.rpk[string(p)]))
		}
	}
	return strings.Join(stale, "+")
}

func (d *drv) list(ix int, v int) any {
	val := d.f1[v]
	if ix == 1 {
		val = d.f2[v]
	}
	dir := dbm.ListASC
	if (ix+v)%2 == 1 {
		dir = dbm.ListDESC
	}
	var rows []*table.Row
	var err error
	if (ix+v)%3 == 0 {
		rows, err = d.tab.ListIndex(idxNames[ix], []byte(val), nil, 0, dir)
	} else {
		rows, err = d.tab.GetQuery(d.kvdb).ListIndex(idxNames[ix], []byte(val), nil, 0, dir)
	}
	if err != nil {
		if err == types.ErrNotFound {
			return "notfound;stale=" + d.staleInfo(ix, v)
		}
		return "err:" + err.Error()
	}
	return d.pkList(rows, func(r []any) bool { return core.ToInt(r[ix+1]) == v })
}

func (d *drv) pkList(rows []*table.Row, want func([]any) bool) any {
	out := []int{}
	for _, r := range rows {
		dec := d.decode(r)
		pk := core.ToInt(dec[0])
		// the listed row must be the row GetData returns and must carry the queried value
		if g, err := d.tab.GetData(r.Primary); err != nil || !bytes.Equal(types.Encode(g.Data), types.Encode(r.Data)) || !want(dec) {
			pk = -1000 - pk
		}
		out = append(out, pk)
	}
	sort.Ints(out)
	res := []any{}
	for _, p := range out {
		res = append(res, p)
	}
	return res
}

func (d *drv) project() any {
	rows := []any{}
	for _, p := range d.pks {
		r, err := d.tab.GetData([]byte(d.pk[p]))
		switch {
		case err == types.ErrNotFound:
			rows = append(rows, []any{p, -1, -1, -1})
		case err != nil:
			rows = append(rows, []any{p, "err:" + err.Error()})
		default:
			dec := d.decode(r)
			if core.ToInt(dec[0]) != p {
				rows = append(rows, []any{p, "wrongrow", dec})
			} else {
				rows = append(rows, dec)
			}
		}
	}
	idx := []any{}
	for ix := 0; ix < 2; ix++ {
		l := []any{}
		for v := 0; v < d.nvals; v++ {
			l = append(l, d.list(ix, v))
		}
		idx = append(idx, l)
	}
	var all any
	prs, err := d.tab.GetQuery(d.kvdb).ListIndex("primary", nil, nil, 0, dbm.ListASC)
	if err != nil {
		all = "err:" + err.Error()
	} else {
		all = d.pkList(prs, func([]any) bool { return true })
	}
	return map[string]any{"rows": rows, "idx": idx, "all": all}
}

func class(err error) string {
	switch err {
	case nil:
		return "ok"
	case table.ErrDupPrimaryKey:
		return "dup"
	case types.ErrNotFound:
		return "notfound"
	}
	return "err:" + err.Error()
}

func (d *drv) Apply(s core.Step) (any, any, error) {
	pk := s.Int("pk")
	switch s.Op() {
	case "Load":
		for _, p := range s.Ints("pks") {
			if err := d.tab.Add(d.row(p, []int{0, 0, 0})); err != nil {
				return "err:" + err.Error(), nil, nil
			}
		}
		r, err := d.save()
		if err != nil {
			return nil, nil, err
		}
		return r, d.project(), nil
	case "Add":
		return class(d.tab.Add(d.row(pk, s.Ints("row")))), nil, nil
	case "Replace":
		return class(d.tab.Replace(d.row(pk, s.Ints("row")))), nil, nil
	case "Update":
		return class(d.tab.Update([]byte(d.pk[pk]), d.row(pk, s.Ints("row")))), nil, nil
	case "Del":
		if d.env.OptInt("delrow", 0) == 1 {
			return class(d.tab.DelRow(&types.WalletAccountStore{Addr: d.pk[pk]})), nil, nil
		}
		return class(d.tab.Del([]byte(d.pk[pk]))), nil, nil
	case "Save":
		r, err := d.save()
		if err != nil {
			return nil, nil, err
		}
		return r, d.project(), nil
	}
	return nil, nil, fmt.Errorf("unknown op %q", s.Op())
}

// opsPerKey: per Save window, the calls on each primary key
func windows(b *core.Behaviour) [][]core.Step {
	var out [][]core.Step
	var cur []core.Step
	for _, s := range b.Steps {
		switch s.Op() {
		case "Save":
			out = append(out, cur)
			cur = nil
		case "Add", "Replace", "Update", "Del":
			cur = append(cur, s)
		}
	}
	return out
}

// NonTrivial (C10): >= 2 operations on one primary key between two saves, or an Update/Replace of a
// present row that changes an indexed field.
func (d *drv) NonTrivial(env *core.Env, b *core.Behaviour) bool {
	for _, w := range windows(b) {
		n := map[int]int{}
		for _, s := range w {
			n[s.Int("pk")]++
			if n[s.Int("pk")] >= 2 {
				return true
			}
		}
	}
	// index-changing update: track the logical rows
	cur := map[int][]int{}
	for _, s := range b.Steps {
		ok := s.Str("ret") == "ok"
		pk := s.Int("pk")
		switch s.Op() {
		case "Load":
			for _, p := range s.Ints("pks") {
				cur[p] = []int{0, 0, 0}
			}
		case "Add", "Replace", "Update":
			r := s.Ints("row")
			if old, present := cur[pk]; ok && present && s.Op() != "Add" && (old[0] != r[0] || old[1] != r[1]) {
				return true
			}
			if ok {
				cur[pk] = r
			}
		case "Del":
			if ok {
				delete(cur, pk)
			}
		}
	}
	return false
}

// history of calls on pk since the last Save before step idx, e.g. "Del>Add", prefixed by the saved state
func (d *drv) shapeOf(b *core.Behaviour, idx, pk int) string {
	present := false
	var h []string
	for i := 0; i <= idx && i < len(b.Steps); i++ {
		s := b.Steps[i]
		switch s.Op() {
		case "Load":
			for _, p := range s.Ints("pks") {
				if p == pk {
					present = true
				}
			}
		case "Save":
			if i < idx {
				// recompute presence at this save from the spec's projection
				if c, ok := s["chk"].(map[string]any); ok {
					present = false
					for _, p := range core.Step(c).Ints("all") {
						if p == pk {
							present = true
						}
					}
				}
				h = nil
			}
		case "Add", "Replace", "Update", "Del":
			if s.Int("pk") == pk {
				tag := s.Op()
				if s.Str("ret") != "ok" {
					tag += "!"
				}
				h = append(h, tag)
			}
		}
	}
	st := "absent"
	if present {
		st = "saved"
	}
	if len(h) > 4 {
		h = append([]string{"…"}, h[len(h)-4:]...)
	}
	return st + ":" + strings.Join(h, ">")
}

func firstDiffPK(exp, obs any) int {
	e, _ := exp.([]any)
	o, _ := obs.([]any)
	in := func(l []any, x int) bool {
		for _, y := range l {
			if core.ToInt(y) == x {
				return true
			}
		}
		return false
	}
	for _, x := range e {
		if !in(o, core.ToInt(x)) {
			return core.ToInt(x)
		}
	}
	for _, x := range o {
		if !in(e, core.ToInt(x)) {
			p := core.ToInt(x)
			if p <= -1000 {
				p = -1000 - p
			}
			return p
		}
	}
	return 0
}

// Signature: op | observable | expected class | observed class | the calls made on the affected primary key
// since the last save (and whether the key was in the saved table).
func (d *drv) Signature(b *core.Behaviour, idx int, field string, exp, obs any) string {
	if field == "panic" {
		idx-- // the replayer reports the number of steps begun
	}
	if idx < 0 {
		idx = 0
	}
	if idx >= len(b.Steps) {
		idx = len(b.Steps) - 1
	}
	if field == "panic" {
		return fmt.Sprintf("%s|panic", b.Steps[idx].Op())
	}
	s := b.Steps[idx]
	if field == "ret" {
		o := fmt.Sprint(obs)
		if strings.HasPrefix(o, "err:") {
			o = "err"
		}
		return fmt.Sprintf("%s|ret|exp=%v|got=%s|key=%s", s.Op(), exp, o, d.shapeOf(b, idx, s.Int("pk")))
	}
	if field == "chk" {
		e, _ := exp.(map[string]any)
		o, _ := obs.(map[string]any)
		// rows first
		er, _ := e["rows"].([]any)
		or, _ := o["rows"].([]any)
		for i := range er {
			if i < len(or) && !core.Match(er[i], or[i]) {
				el, _ := er[i].([]any)
				ol, _ := or[i].([]any)
				pk := core.ToInt(el[0])
				ec, oc := "row", "row"
				if core.ToInt(el[1]) == -1 {
					ec = "none"
				}
				if len(ol) > 1 {
					if _, isStr := ol[1].(string); isStr {
						oc = "err"
					} else if core.ToInt(ol[1]) == -1 {
						oc = "none"
					}
				}
				if ec == "row" && oc == "row" {
					oc = "otherrow"
				}
				return fmt.Sprintf("%s|GetData|exp=%s|got=%s|key=%s", s.Op(), ec, oc, d.shapeOf(b, idx, pk))
			}
		}
		ei, _ := e["idx"].([]any)
		oi, _ := o["idx"].([]any)
		for ix := range ei {
			el, _ := ei[ix].([]any)
			var ol []any
			if ix < len(oi) {
				ol, _ = oi[ix].([]any)
			}
			for v := range el {
				if v >= len(ol) || core.Match(el[v], ol[v]) {
					continue
				}
				if str, ok := ol[v].(string); ok {
					if strings.HasPrefix(str, "notfound;stale=") {
						st := strings.TrimPrefix(str, "notfound;stale=")
						pk := 0
						fmt.Sscanf(st, "%d", &pk)
						if st == "" {
							return fmt.Sprintf("%s|ListIndex|exp=rows|got=notfound|no-stale-entry", s.Op())
						}
						return fmt.Sprintf("%s|ListIndex|exp=rows|got=notfound|stale-entry|key=%s", s.Op(), d.shapeOf(b, idx, pk))
					}
					return fmt.Sprintf("%s|ListIndex|exp=rows|got=err", s.Op())
				}
				pk := firstDiffPK(el[v], ol[v])
				kind := "missing"
				if l, ok := ol[v].([]any); ok {
					for _, x := range l {
						if p := core.ToInt(x); p == pk {
							kind = "extra"
						} else if p <= -1000 && -1000-p == pk {
							kind = "inconsistent-row"
						}
					}
				}
				return fmt.Sprintf("%s|ListIndex|%s|key=%s", s.Op(), kind, d.shapeOf(b, idx, pk))
			}
		}
		if !core.Match(e["all"], o["all"]) {
			return fmt.Sprintf("%s|ListPrimary|key=%s", s.Op(), d.shapeOf(b, idx, firstDiffPK(e["all"], o["all"])))
		}
	}
	return fmt.Sprintf("%s|%s", s.Op(), field)
}

func main() {
	// memdb logs every Delete of an absent key at error level
	log15.Root().SetHandler(log15.DiscardHandler())
	core.Main(&core.Family{
		Name:      "table",
		NewDriver: func() core.Driver { return &mux{} },
		Recorders: map[string]core.Recorder{"default": record},
	})
}
