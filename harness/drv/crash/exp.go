package main

// One crash experiment (parent side): copy the base data directory (a node that received the
// trunk), run the history in a child that exits at durable write number k, restart a node on the
// same directory in a second child, which reads everything back, continues the delivery and reads
// again. The result carries the write log and the observations.

import (
	"bufio"
	"bytes"
	"encoding/json"
	"fmt"
	"io"
	"os"
	"os/exec"
	"path/filepath"
	"strings"
	"sync"
	"sync/atomic"
	"time"
)

type lab struct {
	root  string
	self  string
	w     *worldFile
	wpath string
	base  string
	seq   int64
	// reference: uninterrupted run of a delivery order, by order string
	refMu sync.Mutex
	refs  map[string]*expResult
	// counters
	children int64
}

var scratchRoot string
var scratchOnce sync.Once

// scratch returns the process-wide scratch directory (tmpfs when there is one: block connection
// writes with fsync).
func scratch() string {
	scratchOnce.Do(func() {
		parent := ""
		if st, err := os.Stat("/dev/shm"); err == nil && st.IsDir() {
			parent = "/dev/shm"
		}
		d, err := os.MkdirTemp(parent, fmt.Sprintf("verif-crash-%d-", os.Getpid()))
		if err != nil {
			d, _ = os.MkdirTemp("", fmt.Sprintf("verif-crash-%d-", os.Getpid()))
		}
		scratchRoot = d
	})
	return scratchRoot
}

func newLab(w *worldFile, tag string) (*lab, error) {
	self, err := os.Executable()
	if err != nil {
		return nil, err
	}
	root, err := os.MkdirTemp(scratch(), "lab-"+tag+"-")
	if err != nil {
		return nil, err
	}
	l := &lab{root: root, self: self, w: w, wpath: filepath.Join(root, "world.json"), base: filepath.Join(root, "base"), refs: map[string]*expResult{}}
	if err := w.save(l.wpath); err != nil {
		return nil, err
	}
	// the base: a fresh node that received the trunk and was closed properly
	var trunk []int
	for h := 1; h <= trunkH; h++ {
		trunk = append(trunk, -h)
	}
	if err := os.MkdirAll(l.base, 0o755); err != nil {
		return nil, err
	}
	logp := filepath.Join(root, "base.log")
	rc, out := l.child("child-run", map[string]string{"dir": l.base, "world": l.wpath, "order": orderString(trunk), "crashat": "-1", "log": logp})
	if rc != 0 {
		return nil, fmt.Errorf("building the base node failed (rc %d): %s", rc, tail(out, 2000))
	}
	evs, err := readLog(logp)
	if err != nil {
		return nil, err
	}
	for _, e := range evs {
		if e.Ev == "Done" && (e.Err != "ok" || e.Tip != e.B) {
			return nil, fmt.Errorf("base node: trunk block %d not connected (%s, tip %d)", e.B, e.Err, e.Tip)
		}
	}
	return l, nil
}

func (l *lab) close() { os.RemoveAll(l.root) }

func tail(s string, n int) string {
	if len(s) > n {
		return s[len(s)-n:]
	}
	return s
}

func (l *lab) child(cmd string, opts map[string]string) (int, string) {
	atomic.AddInt64(&l.children, 1)
	var kv []string
	for k, v := range opts {
		kv = append(kv, k+"="+v)
	}
	c := exec.Command(l.self, cmd, "--opt", strings.Join(kv, ","))
	var buf bytes.Buffer
	c.Stdout, c.Stderr = &buf, &buf
	c.Env = append(os.Environ(), "TMPDIR="+l.root)
	done := make(chan error, 1)
	if err := c.Start(); err != nil {
		return -1, err.Error()
	}
	go func() { done <- c.Wait() }()
	select {
	case err := <-done:
		if err == nil {
			return 0, buf.String()
		}
		if ee, ok := err.(*exec.ExitError); ok {
			return ee.ExitCode(), buf.String()
		}
		return -1, err.Error() + "\n" + buf.String()
	case <-time.After(30 * time.Minute):
		c.Process.Kill()
		<-done
		return -2, "timeout\n" + buf.String()
	}
}

type logEv struct {
	Ev     string    `json:"ev"`
	P      string    `json:"p,omitempty"`
	B      int       `json:"b,omitempty"`
	Err    string    `json:"err,omitempty"`
	Tip    int       `json:"tip,omitempty"`
	Height int64     `json:"height,omitempty"`
	W      *writeRec `json:"w,omitempty"`
	Next   *writeRec `json:"next,omitempty"`
	At     int       `json:"at,omitempty"`
	Writes int       `json:"writes,omitempty"`
	DB     string    `json:"db,omitempty"`
	Path   string    `json:"path,omitempty"`
}

func readLog(path string) ([]logEv, error) {
	f, err := os.Open(path)
	if err != nil {
		return nil, err
	}
	defer f.Close()
	var out []logEv
	sc := bufio.NewScanner(f)
	sc.Buffer(make([]byte, 1<<16), 1<<24)
	for sc.Scan() {
		var e logEv
		if err := json.Unmarshal(sc.Bytes(), &e); err != nil {
			return nil, fmt.Errorf("bad log line %q: %v", sc.Text(), err)
		}
		out = append(out, e)
	}
	return out, sc.Err()
}

type expResult struct {
	Order   []int       `json:"order"`
	CrashAt int         `json:"crashAt"`
	Cont    []int       `json:"cont"`
	Crashed bool        `json:"crashed"`
	Log1    []logEv     `json:"log1"` // the history child
	Next    *writeRec   `json:"next"` // the write that was about to start at the crash
	Died    string      `json:"died,omitempty"`
	Log2    []logEv     `json:"log2"` // the restarted child
	Inspect *inspectOut `json:"inspect"`
}

// writes returns the counted writes of a child log (phase: after the marker p, "" = all).
func writes(evs []logEv) []writeRec {
	var out []writeRec
	for _, e := range evs {
		if e.Ev == "Write" && e.W != nil && e.W.I > 0 {
			out = append(out, *e.W)
		}
	}
	return out
}

func copyDir(src, dst string) error {
	return filepath.Walk(src, func(p string, info os.FileInfo, err error) error {
		if err != nil {
			return err
		}
		rel, _ := filepath.Rel(src, p)
		t := filepath.Join(dst, rel)
		if info.IsDir() {
			return os.MkdirAll(t, 0o755)
		}
		if !info.Mode().IsRegular() {
			return nil
		}
		in, err := os.Open(p)
		if err != nil {
			return err
		}
		defer in.Close()
		out, err := os.Create(t)
		if err != nil {
			return err
		}
		if _, err := io.Copy(out, in); err != nil {
			out.Close()
			return err
		}
		return out.Close()
	})
}

// run performs one experiment. crashAt = -1: no crash (the reference: the history child closes
// the node properly, the second child still restarts it).
func (l *lab) run(order []int, crashAt int, cont []int) (*expResult, error) {
	id := atomic.AddInt64(&l.seq, 1)
	dir := filepath.Join(l.root, fmt.Sprintf("x%d", id))
	defer os.RemoveAll(dir)
	data := filepath.Join(dir, "data")
	if err := copyDir(l.base, data); err != nil {
		return nil, err
	}
	r := &expResult{Order: order, CrashAt: crashAt, Cont: cont}
	log1 := filepath.Join(dir, "run.log")
	rc, out := l.child("child-run", map[string]string{"dir": data, "world": l.wpath, "order": orderString(order),
		"crashat": fmt.Sprint(crashAt), "log": log1})
	evs, err := readLog(log1)
	if err != nil {
		return nil, fmt.Errorf("history child (rc %d): %v: %s", rc, err, tail(out, 1500))
	}
	r.Log1 = evs
	switch rc {
	case crashExit:
		r.Crashed = true
		for _, e := range evs {
			if e.Ev == "Crash" {
				r.Next = e.Next
			}
		}
		if r.Next == nil {
			return nil, fmt.Errorf("history child exited with the crash code without a crash record")
		}
	case 0:
		if crashAt >= 0 {
			// the history performs fewer writes than crashAt: not a crash experiment
			r.Crashed = false
		}
	default:
		return nil, fmt.Errorf("history child failed (rc %d): %s", rc, tail(out, 3000))
	}
	log2 := filepath.Join(dir, "inspect.log")
	outp := filepath.Join(dir, "inspect.json")
	rc, out = l.child("child-inspect", map[string]string{"dir": data, "world": l.wpath, "order": orderString(cont), "log": log2, "out": outp})
	r.Log2, _ = readLog(log2)
	if rc != 0 {
		// the restarted node died (a panic in one of its goroutines kills the process): an observation,
		// reported with the output; harness-level failures exit with 2 and a "child-inspect:" line
		if rc == 2 && strings.Contains(out, "child-inspect:") {
			return nil, fmt.Errorf("restart child failed: %s", tail(out, 3000))
		}
		r.Died = fmt.Sprintf("rc=%d: %s", rc, tail(out, 3000))
		return r, nil
	}
	raw, err := os.ReadFile(outp)
	if err != nil {
		return nil, err
	}
	var io inspectOut
	if err := json.Unmarshal(raw, &io); err != nil {
		return nil, err
	}
	r.Inspect = &io
	return r, nil
}
