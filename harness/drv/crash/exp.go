package main

// One crash experiment (parent side): copy the base data directory (a node that received the
// trunk), run the history in a child that exits at durable write number k, restart a node on the
// same directory in a second child, which reads everything back, continues the delivery and reads
// again. The result carries the write log and the observations.

import (
	"bufio"
	"bytes"
	"encoding/json"
	"fmt"
	"io"
	"os"
	"os/exec"
	"path/filepath"
	"strings"
	"sync"
	"sync/atomic"
	"time"
)

type lab struct {
	root  string
	self  string
	w     *worldFile
	wpath string
	base  string
	seq   int64
	// number of durable writes of an uninterrupted delivery order (by order string)
	wMu    sync.Mutex
	wCount map[string]int
	// counters
	children int64
}

var scratchRoot string
var scratchOnce sync.Once

// scratch returns the process-wide scratch directory (tmpfs when there is one: block connection
// writes with fsync).
func scratch() string {
	scratchOnce.Do(func() {
		parent := ""
		if st, err := os.Stat("/dev/shm"); err == nil && st.IsDir() {
			parent = "/dev/shm"
		}
		d, err := os.MkdirTemp(parent, fmt.Sprintf("verif-crash-%d-", os.Getpid()))
		if err != nil {
			d, _ = os.MkdirTemp("", fmt.Sprintf("verif-crash-%d-", os.Getpid()))
		}
		scratchRoot = d
	})
	return scratchRoot
}

func newLab(w *worldFile, tag string) (*lab, error) {
	self, err := os.Executable()
	if err != nil {
		return nil, err
	}
	root, err := os.MkdirTemp(scratch(), "lab-"+tag+"-")
	if err != nil {
		return nil, err
	}
	l := &lab{root: root, self: self, w: w, wpath: filepath.Join(root, "world.json"), base: filepath.Join(root, "base"), wCount: map[string]int{}}
	if err := w.save(l.wpath); err != nil {
		return nil, err
	}
	// the base: a fresh node that received the trunk and was closed properly
	var trunk []int
	for h := 1; h <= trunkH; h++ {
		trunk = append(trunk, -h)
	}
	if err := os.MkdirAll(l.base, 0o755); err != nil {
		return nil, err
	}
	logp := filepath.Join(root, "base.log")
	rc, out := l.child("child-run", map[string]string{"dir": l.base, "world": l.wpath, "order": orderString(trunk), "crashat": "-1", "log": logp})
	if rc != 0 {
		return nil, fmt.Errorf("building the base node failed (rc %d): %s", rc, tail(out, 2000))
	}
	evs, err := readLog(logp)
	if err != nil {
		return nil, err
	}
	for _, e := range evs {
		if e.Ev == "Done" && (e.Err != "ok" || e.Tip != e.B) {
			return nil, fmt.Errorf("base node: trunk block %d not connected (%s, tip %d)", e.B, e.Err, e.Tip)
		}
	}
	return l, nil
}

func (l *lab) close() { os.RemoveAll(l.root) }

func tail(s string, n int) string {
	if len(s) > n {
		return s[len(s)-n:]
	}
	return s
}

func (l *lab) child(cmd string, opts map[string]string) (int, string) {
	atomic.AddInt64(&l.children, 1)
	var kv []string
	for k, v := range opts {
		kv = append(kv, k+"="+v)
	}
	c := exec.Command(l.self, cmd, "--opt", strings.Join(kv, ","))
	var buf bytes.Buffer
	c.Stdout, c.Stderr = &buf, &buf
	c.Env = append(os.Environ(), "TMPDIR="+l.root)
	done := make(chan error, 1)
	if err := c.Start(); err != nil {
		return -1, err.Error()
	}
	go func() { done <- c.Wait() }()
	select {
	case err := <-done:
		if err == nil {
			return 0, buf.String()
		}
		if ee, ok := err.(*exec.ExitError); ok {
			return ee.ExitCode(), buf.String()
		}
		return -1, err.Error() + "\n" + buf.String()
	case <-time.After(30 * time.Minute):
		c.Process.Kill()
		<-done
		return -2, "timeout\n" + buf.String()
	}
}

type logEv struct {
	Ev     string    `json:"ev"`
	P      string    `json:"p,omitempty"`
	B      int       `json:"b,omitempty"`
	Err    string    `json:"err,omitempty"`
	Tip    int       `json:"tip,omitempty"`
	Height int64     `json:"height,omitempty"`
	W      *writeRec `json:"w,omitempty"`
	Next   *writeRec `json:"next,omitempty"`
	At     int       `json:"at,omitempty"`
	Writes int       `json:"writes,omitempty"`
	DB     string    `json:"db,omitempty"`
	Path   string    `json:"path,omitempty"`
}

func readLog(path string) ([]logEv, error) {
	f, err := os.Open(path)
	if err != nil {
		return nil, err
	}
	defer f.Close()
	var out []logEv
	sc := bufio.NewScanner(f)
	sc.Buffer(make([]byte, 1<<16), 1<<24)
	for sc.Scan() {
		var e logEv
		if err := json.Unmarshal(sc.Bytes(), &e); err != nil {
			return nil, fmt.Errorf("bad log line %q: %v", sc.Text(), err)
		}
		out = append(out, e)
	}
	return out, sc.Err()
}

// segment: one life of the node: start on the data directory, deliver order, stop at durable write
// crashAt of this life (-1: no crash, the node is closed properly).
type segment struct {
	Order   []int  `json:"order"`
	CrashAt int    `json:"crashAt"`
	Corrupt string `json:"corrupt,omitempty"` // self-test: damage the stopped node's databases first
	Tip     int    `json:"tip,omitempty"`
}

type segResult struct {
	Seg     segment     `json:"seg"`
	Crashed bool        `json:"crashed"`
	Log     []logEv     `json:"log"`
	Next    *writeRec   `json:"next"`           // the write that was about to start at the crash
	Died    string      `json:"died,omitempty"` // the process died by itself (panic in a goroutine of the node)
	Out     *inspectOut `json:"out"`            // observations: at start (Obs1) and, without crash, at the end (Obs2)
}

// writes returns the counted writes of a child log (phase: after the marker p, "" = all).
func writes(evs []logEv) []writeRec {
	var out []writeRec
	for _, e := range evs {
		if e.Ev == "Write" && e.W != nil && e.W.I > 0 {
			out = append(out, *e.W)
		}
	}
	return out
}

func copyDir(src, dst string) error {
	return filepath.Walk(src, func(p string, info os.FileInfo, err error) error {
		if err != nil {
			return err
		}
		rel, _ := filepath.Rel(src, p)
		t := filepath.Join(dst, rel)
		if info.IsDir() {
			return os.MkdirAll(t, 0o755)
		}
		if !info.Mode().IsRegular() {
			return nil
		}
		in, err := os.Open(p)
		if err != nil {
			return err
		}
		defer in.Close()
		out, err := os.Create(t)
		if err != nil {
			return err
		}
		if _, err := io.Copy(out, in); err != nil {
			out.Close()
			return err
		}
		return out.Close()
	})
}

// run performs one experiment: the segments run one after the other, each in a process of its own, on
// one copy of the base data directory.
func (l *lab) run(segs []segment) ([]*segResult, error) {
	id := atomic.AddInt64(&l.seq, 1)
	dir := filepath.Join(l.root, fmt.Sprintf("x%d", id))
	defer os.RemoveAll(dir)
	data := filepath.Join(dir, "data")
	if err := copyDir(l.base, data); err != nil {
		return nil, err
	}
	var out []*segResult
	for i, sg := range segs {
		r := &segResult{Seg: sg}
		out = append(out, r)
		if sg.Corrupt != "" && sg.Corrupt != "none" {
			if rc, txt := l.child("child-corrupt", map[string]string{"dir": data, "world": l.wpath, "kind": sg.Corrupt, "tip": fmt.Sprint(sg.Tip)}); rc != 0 {
				return nil, fmt.Errorf("corrupting (%s) failed: %s", sg.Corrupt, tail(txt, 1500))
			}
		}
		logp := filepath.Join(dir, fmt.Sprintf("seg%d.log", i))
		outp := filepath.Join(dir, fmt.Sprintf("seg%d.json", i))
		rc, txt := l.child("child-inspect", map[string]string{"dir": data, "world": l.wpath, "order": orderString(sg.Order),
			"crashat": fmt.Sprint(sg.CrashAt), "log": logp, "out": outp})
		r.Log, _ = readLog(logp)
		if raw, err := os.ReadFile(outp); err == nil {
			var ins inspectOut
			if err := json.Unmarshal(raw, &ins); err != nil {
				return nil, err
			}
			r.Out = &ins
		}
		switch {
		case rc == crashExit:
			r.Crashed = true
			for _, e := range r.Log {
				if e.Ev == "Crash" {
					r.Next = e.Next
				}
			}
			if r.Next == nil || r.Out == nil {
				return nil, fmt.Errorf("segment %d exited with the crash code without a crash record / start observation", i)
			}
		case rc == 0:
			if r.Out == nil {
				return nil, fmt.Errorf("segment %d: no result file: %s", i, tail(txt, 1500))
			}
		case rc == 2 && strings.Contains(txt, "child-inspect:"):
			return nil, fmt.Errorf("segment %d failed: %s", i, tail(txt, 3000))
		default:
			// the node died by itself (a panic in one of its goroutines kills the process): an observation
			r.Died = fmt.Sprintf("rc=%d: %s", rc, tail(txt, 3000))
			return out, nil
		}
		if r.Out.OpenErr != "" {
			return out, nil // the node does not start any more: nothing can follow
		}
	}
	return out, nil
}

// writeCount: the number of durable writes the order performs on the base node without a crash.
func (l *lab) writeCount(order []int) (int, error) {
	key := orderString(order)
	l.wMu.Lock()
	if n, ok := l.wCount[key]; ok {
		l.wMu.Unlock()
		return n, nil
	}
	l.wMu.Unlock()
	rs, err := l.run([]segment{{Order: order, CrashAt: -1}})
	if err != nil {
		return 0, err
	}
	if rs[0].Died != "" || rs[0].Out == nil || rs[0].Out.Obs2 == nil {
		return 0, fmt.Errorf("uninterrupted run of %s failed: %s %v", key, rs[0].Died, rs[0].Out)
	}
	n := len(writes(rs[0].Log))
	l.wMu.Lock()
	l.wCount[key] = n
	l.wMu.Unlock()
	return n, nil
}
