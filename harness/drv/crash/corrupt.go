package main

// Self-test of the observation side: a stopped node's databases are damaged on purpose, in the ways a
// non-atomic or mis-ordered block connection would leave them after a crash, and the evaluation of
// the restarted node must name the damage. (The real code never produced any of these.)

import (
	"encoding/hex"
	"fmt"
	"os"

	dbm "github.com/33cn/chain33/common/db"
	"github.com/33cn/chain33/types"
	"verif/harness/core"
)

func childCorrupt(env *core.Env, _ []string) int {
	dir, wp, kind := env.Opt("dir", ""), env.Opt("world", ""), env.Opt("kind", "")
	w, err := loadWorld(wp)
	if err != nil {
		fmt.Fprintln(os.Stderr, "child-corrupt:", err)
		return 2
	}
	tip := w.block(env.OptInt("tip", 0))
	cfg := nodeConfig(dir).GetModuleConfig()
	hash, _ := hex.DecodeString(tip.Hash)
	switch kind {
	case "lastheight", "td", "tx", "h2h":
		db, err := dbm.NewGoLevelDB("blockchain", cfg.BlockChain.DbPath, 16)
		if err != nil {
			fmt.Fprintln(os.Stderr, "child-corrupt:", err)
			return 2
		}
		defer db.Close()
		switch kind {
		case "lastheight": // the last height was lowered, the rest of the disconnect batch is missing
			db.SetSync([]byte("blockLastHeight"), types.Encode(&types.Int64{Data: tip.Height - 1}))
		case "h2h": // the height index entry of the tip is missing
			db.DeleteSync([]byte(fmt.Sprintf("Height:%v", tip.Height)))
		case "td":
			db.DeleteSync(append([]byte("TD:"), hash...))
		case "tx":
			th, _ := hex.DecodeString(tip.Txs[0])
			db.DeleteSync(th)
			db.DeleteSync(append([]byte("TX:"), th...))
		}
	case "root": // the tip's state root was never committed
		db, err := dbm.NewGoLevelDB("store", cfg.Store.DbPath, 16)
		if err != nil {
			fmt.Fprintln(os.Stderr, "child-corrupt:", err)
			return 2
		}
		defer db.Close()
		sh, _ := hex.DecodeString(tip.State)
		v, err := db.Get(sh)
		if err != nil || v == nil {
			fmt.Fprintln(os.Stderr, "child-corrupt: state root node not found under its hash:", err)
			return 2
		}
		db.DeleteSync(sh)
	default:
		fmt.Fprintln(os.Stderr, "child-corrupt: unknown kind", kind)
		return 2
	}
	return 0
}

// selfTest: vh-crash selftest --seed N ; prints {"kind": [classes...], ...}
func selfTest(env *core.Env, _ []string) int {
	nt := namedTrees["reorg"]
	l, err := labFor(env, nt.ts, 7)
	if err != nil {
		fmt.Fprintln(os.Stderr, "selftest:", err)
		return 2
	}
	out := map[string]any{}
	for _, kind := range []string{"none", "lastheight", "h2h", "td", "tx", "root"} {
		segs := []segment{{Order: nt.order, CrashAt: -1}, {Order: nil, CrashAt: -1, Corrupt: kind, Tip: 5}}
		rs, err := l.run(segs)
		if err != nil {
			fmt.Fprintln(os.Stderr, "selftest:", kind, err)
			return 2
		}
		last := rs[len(rs)-1]
		switch {
		case len(rs) < 2:
			out[kind] = []string{"no-restart"}
		case last.Died != "":
			out[kind] = []string{"node-died"}
		case last.Out == nil || last.Out.OpenErr != "" || last.Out.Obs1 == nil:
			out[kind] = []string{"restart-panic"}
		default:
			out[kind] = evaluate(l.w, last.Out.Obs1).Problems
		}
	}
	fmt.Println("@@SELFTEST " + core.J(out))
	return 0
}
