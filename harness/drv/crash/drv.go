package main

// Replay driver (binding A). A behaviour exported by Crash_All is one crash experiment:
//   Hist{n,parent,order}  Deliver/Step ...  Crash  Recover{cont}  Deliver/Step ...
// Reset runs the whole experiment on real nodes (history in a child that stops at the durable write
// index the behaviour names, restart in a second child, continuation); Apply then walks the write
// logs and observations in step with the model:
//   Deliver / Step   ret.w   = the durable write the real node performed at this point (database, code
//                              path) - the model's write order is the code's write order;
//                    ret.fin = the delivery ended here, with ProcAddBlockMsg's answer and the tip
//   Crash            ret     = "ok": the process stopped exactly there, nothing unaccounted in the log
//   Recover          ret     = what the restarted node serves: the chain (model ids) and the
//                              inconsistency classes found by evaluate() (the model: none)
//   last step        chk     = the same after the continuation (the model: chain of the uninterrupted run)

import (
	"fmt"
	"sort"
	"strings"
	"sync"

	"verif/harness/core"
)

var labs struct {
	mu sync.Mutex
	m  map[string]*labEntry
}

type labEntry struct {
	once sync.Once
	l    *lab
	err  error
}

// labFor returns the lab (world + base node) of a tree and concretisation, built once per process.
func labFor(env *core.Env, ts treeSpec, conc int64) (*lab, error) {
	if err := mk.init(env.Seed); err != nil {
		return nil, err
	}
	key := fmt.Sprintf("%v|%d", ts.Parent, conc)
	labs.mu.Lock()
	if labs.m == nil {
		labs.m = map[string]*labEntry{}
	}
	e, ok := labs.m[key]
	if !ok {
		e = &labEntry{}
		labs.m[key] = e
	}
	labs.mu.Unlock()
	e.once.Do(func() {
		w, err := mk.build(ts, conc)
		if err != nil {
			e.err = err
			return
		}
		e.l, e.err = newLab(w, fmt.Sprintf("n%d", ts.N))
	})
	return e.l, e.err
}

type driver struct {
	env  *core.Env
	b    *core.Behaviour
	l    *lab
	segs []*segResult
	seg  int // current segment
	pos  int // cursor in the filtered log of the current segment
	evs  [][]logEv
	last bool
}

func newDriver() core.Driver { return &driver{} }

// plan extracts the segments of a behaviour.
func plan(b *core.Behaviour) (ts treeSpec, segs []segment, err error) {
	if len(b.Steps) == 0 || b.Steps[0].Op() != "Hist" {
		return ts, nil, fmt.Errorf("behaviour does not start with Hist")
	}
	ts = treeSpec{N: b.Steps[0].Int("n"), Parent: b.Steps[0].Ints("parent")}
	cur := segment{CrashAt: -1}
	w := 0
	for _, s := range b.Steps[1:] {
		switch s.Op() {
		case "Deliver":
			cur.Order = append(cur.Order, s.Int("b"))
			fallthrough
		case "Step":
			if r, ok := s["ret"].(map[string]any); ok {
				if ww, ok := r["w"].([]any); ok && len(ww) > 0 {
					w++
				}
			}
		case "Crash":
			cur.CrashAt = w
			segs = append(segs, cur)
			cur = segment{CrashAt: -1}
			w = 0
		case "Recover":
		}
	}
	segs = append(segs, cur)
	return ts, segs, nil
}

func filterLog(evs []logEv) []logEv {
	var out []logEv
	on := false
	for _, e := range evs {
		if e.Ev == "Phase" {
			on = e.P == "continue"
			continue
		}
		if !on {
			continue
		}
		switch e.Ev {
		case "Deliver", "Done", "Crash":
			out = append(out, e)
		case "Write":
			if e.W != nil && e.W.I > 0 {
				out = append(out, e)
			}
		}
	}
	return out
}

func (d *driver) Reset(env *core.Env, b *core.Behaviour) error {
	d.env, d.b = env, b
	ts, segs, err := plan(b)
	if err != nil {
		return err
	}
	conc := int64(env.OptInt("conc", 1))
	if c, ok := b.Meta["conc"]; ok {
		conc = int64(core.ToInt(c))
	}
	l, err := labFor(env, ts, conc)
	if err != nil {
		return err
	}
	d.l = l
	rs, err := l.run(segs)
	if err != nil {
		return err
	}
	d.segs, d.seg, d.pos = rs, 0, 0
	d.evs = nil
	for _, r := range rs {
		d.evs = append(d.evs, filterLog(r.Log))
	}
	return nil
}

func (d *driver) Close() {}

func (d *driver) next() *logEv {
	if d.seg >= len(d.evs) || d.pos >= len(d.evs[d.seg]) {
		return nil
	}
	return &d.evs[d.seg][d.pos]
}

func tipModel(id int) int {
	if id == -trunkH {
		return 0
	}
	return id
}

func evName(e *logEv) string {
	if e == nil {
		return "end-of-log"
	}
	if e.Ev == "Write" && e.W != nil {
		return "Write:" + e.W.DB + "/" + e.W.Origin
	}
	return e.Ev
}

func (d *driver) Apply(s core.Step) (any, any, error) {
	switch s.Op() {
	case "Hist":
		// every inconsistency class any restart (or the final state) of this experiment shows, whatever the
		// model says about the individual steps
		seen := map[string]bool{}
		for i, r := range d.segs {
			if i > 0 {
				switch {
				case r.Out == nil || r.Out.OpenErr != "" || r.Out.Obs1 == nil:
					seen["restart-failed"] = true
				default:
					for _, p := range evaluate(d.l.w, r.Out.Obs1).Problems {
						seen[p] = true
					}
				}
			}
			if r.Died != "" {
				seen["node-died"] = true
			}
			if i == len(d.segs)-1 && r.Out != nil && r.Out.Obs2 != nil {
				for _, p := range evaluate(d.l.w, r.Out.Obs2).Problems {
					seen[p] = true
				}
			}
		}
		ps := []string{}
		for p := range seen {
			ps = append(ps, p)
		}
		sort.Strings(ps)
		return map[string]any{"problems": ps}, nil, nil
	case "Deliver", "Step":
		exp, _ := s["ret"].(map[string]any)
		expW, _ := exp["w"].([]any)
		expFin, _ := exp["fin"].(bool)
		ret := map[string]any{"w": []any{}, "fin": false}
		if d.seg >= len(d.segs) {
			// the node did not come up again (Recover reported it): nothing to observe
			return map[string]any{"w": []any{"-", "node-down"}, "fin": false}, nil, nil
		}
		if s.Op() == "Deliver" {
			e := d.next()
			if e == nil || e.Ev != "Deliver" || e.B != s.Int("b") {
				ret["w"] = []any{"-", "expected-Deliver-got-" + evName(e)}
				return ret, nil, nil
			}
			d.pos++
		}
		if len(expW) > 0 {
			e := d.next()
			if e == nil || e.Ev != "Write" {
				ret["w"] = []any{"-", "no-write-got-" + evName(e)}
				return ret, nil, nil
			}
			ret["w"] = []any{e.W.DB, e.W.Origin}
			d.pos++
		}
		if expFin {
			e := d.next()
			switch {
			case e != nil && e.Ev == "Done":
				ret["fin"], ret["err"], ret["tip"] = true, e.Err, tipModel(e.Tip)
				d.pos++
			case e != nil && e.Ev == "Write" && len(expW) == 0:
				ret["w"] = []any{e.W.DB, e.W.Origin} // a write the model does not have
			}
		}
		var chk any
		if _, ok := s["chk"]; ok {
			chk = d.final()
		}
		return ret, chk, nil
	case "Crash":
		if d.seg >= len(d.segs) {
			return "node-down", nil, nil
		}
		r := d.segs[d.seg]
		left := d.evs[d.seg][d.pos:]
		res := "ok"
		if r.Died != "" {
			res = "node-died"
		} else if r.Crashed {
			// up to the write it stopped at, the process may have ended the delivery and taken up the next ones
			// (volatile steps only): Done / Deliver records, then the crash record
			for i, e := range left {
				if (i < len(left)-1 && e.Ev != "Done" && e.Ev != "Deliver") || (i == len(left)-1 && e.Ev != "Crash") {
					res = "unaccounted:" + evName(&left[i])
					break
				}
			}
			if len(left) == 0 {
				res = "unaccounted:end-of-log"
			}
		} else {
			// the history performs no further write: the child ran to its end (clean stop instead of a crash);
			// only the end of the running delivery may be left in the log
			for i, e := range left {
				if e.Ev != "Done" && e.Ev != "Deliver" {
					res = "unaccounted:" + evName(&left[i])
					break
				}
			}
		}
		d.seg++
		d.pos = 0
		return res, nil, nil
	case "Recover":
		if d.seg >= len(d.segs) {
			return map[string]any{"ok": false, "chain": []int{}, "problems": []string{"node-died"}}, nil, nil
		}
		r := d.segs[d.seg]
		if r.Out == nil || r.Out.OpenErr != "" || r.Out.Obs1 == nil {
			cls := "restart-failed"
			if r.Out != nil && strings.HasPrefix(r.Out.OpenErr, "panic") {
				cls = "restart-panic"
			}
			return map[string]any{"ok": false, "chain": []int{}, "problems": []string{cls}}, nil, nil
		}
		v := evaluate(d.l.w, r.Out.Obs1)
		return map[string]any{"ok": true, "chain": v.Chain, "problems": v.Problems}, nil, nil
	}
	return nil, nil, fmt.Errorf("unknown op %q", s.Op())
}

// final: what the node serves after the continuation, and the writes of the last life the model did not name
func (d *driver) final() any {
	if d.seg >= len(d.segs) {
		return map[string]any{"chain": []int{}, "problems": []string{"node-down"}, "extra": []string{}}
	}
	r := d.segs[d.seg]
	extra := []string{}
	for _, e := range d.evs[d.seg][d.pos:] {
		extra = append(extra, evName(&e))
	}
	if r.Died != "" || r.Out == nil || r.Out.Obs2 == nil {
		return map[string]any{"chain": []int{}, "problems": []string{"node-died"}, "extra": extra}
	}
	v := evaluate(d.l.w, r.Out.Obs2)
	return map[string]any{"chain": v.Chain, "problems": v.Problems, "extra": extra}
}

// crashDesc names the write the process was about to start at the (first) crash.
func (d *driver) crashDesc() string {
	for _, r := range d.segs {
		if r.Crashed && r.Next != nil {
			return r.Next.DB + "/" + r.Next.Origin
		}
	}
	return "none"
}

// NonTrivial: the crash index lies strictly inside a connect / disconnect sequence (the delivery in
// progress had already performed a durable write and had more to perform).
func (d *driver) NonTrivial(env *core.Env, b *core.Behaviour) bool {
	for i, s := range b.Steps {
		if s.Op() != "Crash" || i == 0 {
			continue
		}
		if r, ok := b.Steps[i-1]["ret"].(map[string]any); ok {
			if fin, _ := r["fin"].(bool); !fin {
				return true
			}
		}
	}
	return false
}

func histKind(b *core.Behaviour) string {
	if len(b.Steps) == 0 {
		return "?"
	}
	return fmt.Sprintf("tree%v/order%v", b.Steps[0].Ints("parent"), b.Steps[0].Ints("order"))
}

func classes(v any) string {
	m, ok := v.(map[string]any)
	if !ok {
		return core.J(v)
	}
	var ps []string
	if l, ok := m["problems"].([]any); ok {
		for _, x := range l {
			ps = append(ps, fmt.Sprint(x))
		}
	}
	sort.Strings(ps)
	if len(ps) == 0 {
		return "chain" + core.J(m["chain"])
	}
	return strings.Join(ps, "+")
}

// Signature: history kind, write that was about to start at the crash, step kind, observed class.
func (d *driver) Signature(b *core.Behaviour, idx int, field string, expected, observed any) string {
	op := b.Steps[idx].Op()
	obs := ""
	switch {
	case op == "Recover" || op == "Hist" || field == "chk":
		obs = classes(observed)
	case op == "Crash":
		obs = fmt.Sprint(observed)
	default:
		m, _ := observed.(map[string]any)
		obs = fmt.Sprintf("w=%s,fin=%v,err=%v", core.J(m["w"]), m["fin"], m["err"])
	}
	return fmt.Sprintf("crash|%s|at=%s|%s.%s|%s", histKind(b), d.crashDesc(), op, field, obs)
}
