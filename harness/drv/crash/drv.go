package main

import (
	"errors"

	"verif/harness/core"
)

type driver struct{}

func newDriver() core.Driver { return &driver{} }

func (d *driver) Reset(env *core.Env, b *core.Behaviour) error { return errors.New("not built yet") }
func (d *driver) Apply(s core.Step) (any, any, error)         { return nil, nil, errors.New("not built yet") }
func (d *driver) Close()                                      {}

func recordDefault(env *core.Env, emit func(map[string]any)) (*core.Summary, error) {
	return nil, errors.New("not built yet")
}
