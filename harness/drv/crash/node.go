package main

// A chain33 node assembled on FIXED data directories, so that it can be stopped (killed) and
// started again on the same LevelDB files. util/testnode always creates a fresh temp dir;
// this is what testnode.newWithConfigNoLock does, minus the wallet and the rpc server
// (the wallet has a database of its own that is written asynchronously on every block and
// would only add unrelated crash points; its topic is drained instead, like the mock p2p).
//
// Real modules: queue, crypto client, executor, mavl store on LevelDB, BlockChain on LevelDB,
// solo consensus with mining off, mempool. Mocked: p2p (testnode's mockP2P behaviour), wallet (drain).

import (
	"errors"
	"fmt"
	"time"

	"github.com/33cn/chain33/blockchain"
	"github.com/33cn/chain33/client"
	"github.com/33cn/chain33/common/address"
	cryptocli "github.com/33cn/chain33/common/crypto/client"
	"github.com/33cn/chain33/common/limits"
	"github.com/33cn/chain33/consensus"
	"github.com/33cn/chain33/executor"
	"github.com/33cn/chain33/mempool"
	"github.com/33cn/chain33/queue"
	"github.com/33cn/chain33/store"
	_ "github.com/33cn/chain33/system" // solo, coins, none, mavl, timeline, ...
	"github.com/33cn/chain33/types"
	"github.com/33cn/chain33/util"
	"verif/harness/drv/chain/rig"
)

func init() {
	_ = limits.SetLimits()
	rig.Quiet()
}

type node struct {
	cfg    *types.Chain33Config
	q      queue.Queue
	client queue.Client
	api    client.QueueProtocolAPI
	crypto queue.Module
	exec   *executor.Executor
	store  queue.Module
	chain  *blockchain.BlockChain
	cs     queue.Module
	mem    queue.Module
	rn     *rig.Node // reader / delivery helpers of the chain rig (Mock is nil: only Chain-based methods are used)
}

// nodeConfig is the chain rig's receiver configuration (mining off, no sequence recording)
// with every data path below dir.
func nodeConfig(dir string) *types.Chain33Config {
	cfg := rig.Config(rig.Opts{RecordSeq: false, Miner: false})
	util.ResetDatadir(cfg.GetModuleConfig(), dir+"/")
	return cfg
}

// drain subscribes to a topic nobody serves on this node and answers / frees what arrives.
func drain(cli queue.Client, topic string) {
	go func() {
		cli.Sub(topic)
		for msg := range cli.Recv() {
			switch msg.Ty {
			case types.EventPeerInfo:
				msg.Reply(cli.NewMessage(topic, types.EventPeerList, &types.PeerList{}))
			case types.EventGetNetInfo:
				msg.Reply(cli.NewMessage(topic, types.EventPeerList, &types.NodeNetInfo{}))
			case types.EventTxBroadcast, types.EventBlockBroadcast, types.EventAddBlock, types.EventDelBlock:
				cli.FreeMessage(msg)
			default:
				msg.ReplyErr(topic+"->not supported "+types.GetEventName(int(msg.Ty)), types.ErrNotSupport)
			}
		}
	}()
}

// openNode starts the modules on dir. A panic of the start-up code in this goroutine
// (InitBlockChain panics on what it takes for a damaged database) is returned as an error
// of class "panic".
func openNode(dir string) (n *node, err error) {
	defer func() {
		if r := recover(); r != nil {
			n, err = nil, fmt.Errorf("panic: %v", r)
		}
	}()
	cfg := nodeConfig(dir)
	mfg := cfg.GetModuleConfig()
	q := queue.New("channel")
	q.SetConfig(cfg)
	types.Debug = false
	n = &node{cfg: cfg, q: q}
	address.Init(mfg.Address)
	n.crypto = cryptocli.New()
	n.crypto.SetQueueClient(q.Client())
	n.exec = executor.New(cfg)
	n.exec.SetQueueClient(q.Client())
	n.store = store.New(cfg)
	n.store.SetQueueClient(q.Client())
	n.chain = blockchain.New(cfg)
	n.chain.SetQueueClient(q.Client())
	n.cs = consensus.New(cfg)
	n.cs.SetQueueClient(q.Client())
	n.mem = mempool.New(cfg)
	n.mem.SetQueueClient(q.Client())
	n.mem.Wait()
	n.client = q.Client()
	drain(q.Client(), "p2p")
	drain(q.Client(), "wallet")
	n.api, err = client.New(q.Client(), nil)
	if err != nil {
		return nil, err
	}
	n.rn = &rig.Node{Chain: n.chain, Cfg: cfg}
	deadline := time.Now().Add(300 * time.Second)
	for {
		if n.chain.GetBlockHeight() >= 0 && n.chain.GetDownloadSyncStatus() == 0 {
			break
		}
		if time.Now().After(deadline) {
			return nil, errors.New("node not ready (no genesis / still in download mode)")
		}
		time.Sleep(2 * time.Millisecond)
	}
	return n, nil
}

// close stops the modules in testnode's order (data directories stay).
func (n *node) close() {
	n.crypto.Close()
	n.mem.Close()
	n.exec.Close()
	n.cs.Close()
	n.chain.Close()
	n.store.Close()
	n.client.Close()
}
