package main

// The concrete blocks of an experiment: a 12-block trunk and a small tree of blocks on its tip,
// manufactured by the chain rig's factory node (real execution, so state roots are genuine), with
// - the expected state of every block (coins accounts of every address the histories touch, and
//   the number / sum of all coins accounts), read from the FACTORY's store, which never crashes;
// - the transaction hashes of every block.
// The world is written to a JSON file that the child processes load.

import (
	"encoding/hex"
	"encoding/json"
	"fmt"
	"math/rand"
	"os"
	"sync"

	"github.com/33cn/chain33/account"
	"github.com/33cn/chain33/types"
	"verif/harness/drv/chain/rig"
)

const trunkH = 12

type wblock struct {
	ID     int               `json:"id"`     // trunk: -height (genesis 0 is listed with id 0); tree blocks 1..n
	Parent int               `json:"parent"` // tree blocks: 0 = trunk tip
	Height int64             `json:"height"`
	Hash   string            `json:"hash"`
	State  string            `json:"statehash"`
	Hex    string            `json:"hex"`
	Txs    []string          `json:"txs"`
	Values map[string]string `json:"values"` // state key (hex) -> value (hex) at this block's state
	Coins  [2]int64          `json:"coins"`  // number of coins accounts, sum of balances at this block's state
}

type treeSpec struct {
	N      int   `json:"n"`
	Parent []int `json:"parent"`
}

type worldFile struct {
	Seed  int64     `json:"seed"`
	Conc  int64     `json:"conc"`
	Trunk []*wblock `json:"trunk"` // index = height
	Tree  treeSpec  `json:"tree"`
	Free  []*wblock `json:"free"` // index = id-1
	Keys  []string  `json:"keys"`
}

func (w *worldFile) block(id int) *wblock {
	if id <= 0 {
		return w.Trunk[-id]
	}
	return w.Free[id-1]
}

func (w *worldFile) decode(id int) (*types.Block, error) {
	raw, err := hex.DecodeString(w.block(id).Hex)
	if err != nil {
		return nil, err
	}
	var b types.Block
	if err := types.Decode(raw, &b); err != nil {
		return nil, err
	}
	return &b, nil
}

// idOf maps a block hash (hex, 0x-less lower case) to the model id; ok=false for foreign hashes.
func (w *worldFile) idOf(hash string) (int, bool) {
	for _, b := range w.Trunk {
		if b.Hash == hash {
			return b.ID, true
		}
	}
	for _, b := range w.Free {
		if b.Hash == hash {
			return b.ID, true
		}
	}
	return 0, false
}

func loadWorld(path string) (*worldFile, error) {
	raw, err := os.ReadFile(path)
	if err != nil {
		return nil, err
	}
	var w worldFile
	if err := json.Unmarshal(raw, &w); err != nil {
		return nil, err
	}
	return &w, nil
}

// ---------------------------------------------------------------------------------------
// factory side (parent process only)

type maker struct {
	once  sync.Once
	err   error
	f     *rig.Factory
	trunk []*types.Block
	tw    []*wblock
	keys  [][]byte
	mu    sync.Mutex
}

var mk = &maker{}

func (m *maker) init(seed int64) error {
	m.once.Do(func() {
		f, err := rig.NewFactory(seed)
		if err != nil {
			m.err = err
			return
		}
		m.f = f
		acc := account.NewCoinsAccount(f.N.Cfg)
		for _, a := range append([]string{f.GenesisAddr(), f.SenderAddr()}, f.Addrs...) {
			m.keys = append(m.keys, acc.AccountKey(a))
		}
		g, err := f.N.Genesis()
		if err != nil {
			m.err = err
			return
		}
		bits, _ := rig.WorkBits(1)
		m.trunk = []*types.Block{g}
		parent := g
		for h := 1; h <= trunkH; h++ {
			tx := f.CoinsTx(h, int64(h)*100000)
			if h == 1 {
				tx = f.FundTx(1e15)
			}
			b, err := f.Make(parent, []*types.Transaction{tx}, bits)
			if err != nil {
				m.err = err
				return
			}
			m.trunk = append(m.trunk, b)
			parent = b
		}
		for h, b := range m.trunk {
			wb, err := m.describe(b, -h, -h+1)
			if err != nil {
				m.err = err
				return
			}
			m.tw = append(m.tw, wb)
		}
	})
	return m.err
}

func (m *maker) close() {
	if m.f != nil {
		m.f.Close()
	}
}

func hx(b []byte) string { return hex.EncodeToString(b) }

// describe reads the expected state of a block from the factory's store.
func (m *maker) describe(b *types.Block, id, parent int) (*wblock, error) {
	wb := &wblock{ID: id, Parent: parent, Height: b.Height, Hash: hx(b.Hash(m.f.N.Cfg)), State: hx(b.StateHash),
		Hex: hx(types.Encode(b)), Values: map[string]string{}}
	for _, tx := range b.Txs {
		wb.Txs = append(wb.Txs, hx(tx.Hash()))
	}
	api := m.f.N.Mock.GetAPI()
	r, err := api.StoreGet(&types.StoreGet{StateHash: b.StateHash, Keys: m.keys})
	if err != nil {
		return nil, fmt.Errorf("factory state of block %d: %v", id, err)
	}
	for i, k := range m.keys {
		wb.Values[hx(k)] = hx(r.Values[i])
	}
	tc, err := api.StoreGetTotalCoins(&types.IterateRangeByStateHash{StateHash: b.StateHash, Start: []byte("mavl-coins-bty-"),
		End: []byte("mavl-coins-bty-exec"), Count: 100000})
	if err != nil {
		return nil, fmt.Errorf("factory coins of block %d: %v", id, err)
	}
	wb.Coins = [2]int64{tc.Num, tc.Amount}
	if tc.Num < 1 {
		return nil, fmt.Errorf("factory coins of block %d: %d accounts", id, tc.Num)
	}
	return wb, nil
}

// build manufactures the tree. conc seeds the concretisation: 1-3 transactions per block (coins
// transfers and "none" transactions); a block with an elder sibling may carry the sibling's first
// transaction as well (the same transaction on both branches of a fork).
func (m *maker) build(ts treeSpec, conc int64) (*worldFile, error) {
	m.mu.Lock()
	defer m.mu.Unlock()
	rnd := rand.New(rand.NewSource(conc*7919 + 13))
	w := &worldFile{Conc: conc, Trunk: m.tw, Tree: ts}
	for _, k := range m.keys {
		w.Keys = append(w.Keys, hx(k))
	}
	bits, _ := rig.WorkBits(1)
	blocks := make([]*types.Block, ts.N+1)
	blocks[0] = m.trunk[trunkH]
	firstTx := make([]*types.Transaction, ts.N+1)
	for b := 1; b <= ts.N; b++ {
		p := ts.Parent[b-1]
		if p < 0 || p >= b {
			return nil, fmt.Errorf("tree: parent %d of block %d", p, b)
		}
		var txs []*types.Transaction
		k := 1 + rnd.Intn(3)
		for i := 0; i < k; i++ {
			if rnd.Intn(4) == 0 {
				txs = append(txs, m.f.NoneTx())
			} else {
				txs = append(txs, m.f.CoinsTx(rnd.Intn(4), int64(1+rnd.Intn(9))*10000))
			}
		}
		firstTx[b] = txs[0]
		for s := 1; s < b; s++ {
			if ts.Parent[s-1] == p && rnd.Intn(2) == 0 {
				txs = append(txs, firstTx[s])
				break
			}
		}
		blk, err := m.f.Make(blocks[p], txs, bits)
		if err != nil {
			return nil, fmt.Errorf("tree: block %d: %v", b, err)
		}
		blocks[b] = blk
		wb, err := m.describe(blk, b, p)
		if err != nil {
			return nil, err
		}
		w.Free = append(w.Free, wb)
	}
	return w, nil
}

func (w *worldFile) save(path string) error {
	raw, err := json.Marshal(w)
	if err != nil {
		return err
	}
	return os.WriteFile(path, raw, 0o644)
}
