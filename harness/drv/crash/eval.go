package main

// The invariant of C29 evaluated on what a (restarted) node serves through its public API,
// independently of the TLA+ model: height, last header, last block, height index, headers,
// bodies with receipts, total difficulties and transaction index agree with each other and
// describe one chain of known blocks on top of the trunk; nothing is served above the tip;
// transactions of blocks that are not on the chain are absent from the index; every state key
// reads, at the tip's state hash, the value the factory's (never crashed) store holds for it.

import (
	"fmt"
	"math/big"
	"sort"
)

type verdict struct {
	Height   int64    `json:"height"`
	Chain    []int    `json:"chain"` // ids of the blocks above the trunk tip, in chain order
	Tip      int      `json:"tip"`
	Problems []string `json:"problems"` // distinct inconsistency classes, sorted
	Details  []string `json:"details,omitempty"`
}

func evaluate(w *worldFile, o *obs) *verdict {
	v := &verdict{Height: o.Height, Chain: []int{}, Problems: []string{}}
	seen := map[string]bool{}
	bad := func(class, format string, a ...any) {
		if !seen[class] {
			seen[class] = true
			v.Problems = append(v.Problems, class)
		}
		if len(v.Details) < 12 {
			v.Details = append(v.Details, class+": "+fmt.Sprintf(format, a...))
		}
	}
	// height, last header, last block
	if o.Height != o.DBHeight || o.Height != o.LastHdrH || o.Height != o.LastBlkH {
		bad("height-mismatch", "height %d, stored %d, last header %d, last block %d", o.Height, o.DBHeight, o.LastHdrH, o.LastBlkH)
	}
	if o.LastHdrErr != "" || o.LastBlkErr != "" {
		bad("last-unreadable", "header %q block %q", o.LastHdrErr, o.LastBlkErr)
	}
	if int64(len(o.Blocks)) != o.Height+1 {
		bad("index-gap", "%d heights read for height %d", len(o.Blocks), o.Height)
	}
	ids := make([]int, len(o.Blocks))
	var prevTd *big.Int
	for h, b := range o.Blocks {
		ids[h] = 999
		if b.HashAt == "" {
			bad("index-gap", "no hash at height %d (%s)", h, b.HashErr)
			prevTd = nil
			continue
		}
		id, ok := w.idOf(b.HashAt)
		if !ok {
			bad("index-foreign", "unknown hash at height %d", h)
			prevTd = nil
			continue
		}
		ids[h] = id
		wb := w.block(id)
		if wb.Height != int64(h) {
			bad("index-misplaced", "block %d of height %d at height %d", id, wb.Height, h)
		}
		if h <= trunkH && id != -h {
			bad("trunk-lost", "height %d holds block %d", h, id)
		}
		if h > trunkH {
			v.Chain = append(v.Chain, id)
			want := wb.Parent
			if want == 0 {
				want = -trunkH
			}
			if ids[h-1] != want {
				bad("link-broken", "block %d at height %d on top of %d", id, h, ids[h-1])
			}
		}
		if b.HdrErr != "" || b.HdrHash != b.HashAt || b.HdrHeight != int64(h) || b.HdrState != wb.State {
			bad("header-mismatch", "height %d: %q hash %.12s/%.12s height %d", h, b.HdrErr, b.HdrHash, b.HashAt, b.HdrHeight)
		}
		if h > 0 && ids[h-1] != 999 && b.HdrErr == "" && b.HdrParent != o.Blocks[h-1].HashAt {
			bad("link-broken", "header at height %d names another parent", h)
		}
		if b.BodyErr != "" {
			bad("body-missing", "height %d: %s", h, b.BodyErr)
		} else {
			if !sameStrings(b.Txs, wb.Txs) {
				bad("body-mismatch", "height %d: %d transactions, expected %d", h, len(b.Txs), len(wb.Txs))
			}
			if b.Receipts != len(wb.Txs) {
				bad("receipts-missing", "height %d by hash: %d receipts for %d transactions", h, b.Receipts, len(wb.Txs))
			}
		}
		if b.DErr != "" {
			bad("body-missing", "height %d (details): %s", h, b.DErr)
		} else {
			if b.DHash != b.HashAt || !sameStrings(b.DTxs, wb.Txs) {
				bad("body-mismatch", "height %d (details)", h)
			}
			if b.DReceipts != len(wb.Txs) {
				bad("receipts-missing", "height %d by height: %d receipts for %d transactions", h, b.DReceipts, len(wb.Txs))
			}
		}
		if b.TdErr != "" {
			bad("td-missing", "height %d: %s", h, b.TdErr)
			prevTd = nil
		} else {
			td, _ := new(big.Int).SetString(b.Td, 10)
			work, ok := new(big.Int).SetString(b.Work, 10)
			if td == nil {
				bad("td-missing", "height %d: %q", h, b.Td)
			} else if ok && work != nil {
				if h == 0 {
					if td.Cmp(work) != 0 {
						bad("td-mismatch", "genesis td %s work %s", td, work)
					}
				} else if prevTd != nil && new(big.Int).Add(prevTd, work).Cmp(td) != 0 {
					bad("td-mismatch", "height %d: td %s, parent td %s, work %s", h, td, prevTd, work)
				}
			}
			prevTd = td
		}
	}
	v.Tip = 999
	if n := len(ids); n > 0 {
		v.Tip = ids[n-1]
		if o.LastHdr != o.Blocks[n-1].HashAt || o.LastBlk != o.Blocks[n-1].HashAt {
			bad("last-mismatch", "last header %.12s, last block %.12s, hash at height %.12s", o.LastHdr, o.LastBlk, o.Blocks[n-1].HashAt)
		}
	}
	if o.Height < trunkH {
		bad("trunk-lost", "height %d", o.Height)
	}
	for i, a := range o.Above {
		if a != "" {
			bad("index-stale", "a hash is served for height %d above the tip", o.Height+1+int64(i))
		}
	}
	// transaction index
	type loc struct{ h, i int64 }
	want := map[string]loc{}
	for h, id := range ids {
		if id == 999 {
			continue
		}
		for i, th := range w.block(id).Txs {
			want[th] = loc{int64(h), int64(i)}
		}
	}
	var ths []string
	for th := range o.Txs {
		ths = append(ths, th)
	}
	sort.Strings(ths)
	for _, th := range ths {
		t := o.Txs[th]
		l, on := want[th]
		switch {
		case on && !t.Found:
			bad("tx-missing", "transaction %.12s of height %d is not in the index", th, l.h)
		case on && (t.Height != l.h || t.Index != l.i):
			bad("tx-misplaced", "transaction %.12s indexed at %d/%d, is at %d/%d", th, t.Height, t.Index, l.h, l.i)
		case on && t.Ty == 0:
			bad("tx-noreceipt", "transaction %.12s has no receipt", th)
		case !on && t.Found:
			bad("tx-stale", "transaction %.12s is indexed at %d/%d but not on the chain", th, t.Height, t.Index)
		}
	}
	// the tip's state
	if v.Tip != 999 {
		wb := w.block(v.Tip)
		if o.LastState != wb.State {
			bad("tip-state-mismatch", "last header state %.12s, block's %.12s", o.LastState, wb.State)
		}
		if o.StateErr != "" {
			bad("state-unreadable", "%s", o.StateErr)
		} else {
			for _, k := range w.Keys {
				exp, got := wb.Values[k], o.State[k]
				if exp != got {
					if got == "" {
						bad("state-unreadable", "key %.40s reads nothing at the tip's state", k)
					} else {
						bad("state-mismatch", "key %.40s", k)
					}
				}
			}
		}
		if o.CoinsErr != "" {
			bad("state-unreadable", "coins scan: %s", o.CoinsErr)
		} else if o.Coins != wb.Coins {
			if o.Coins[0] < wb.Coins[0] {
				bad("state-unreadable", "coins scan finds %d of %d accounts", o.Coins[0], wb.Coins[0])
			} else {
				bad("state-mismatch", "coins scan %v, expected %v", o.Coins, wb.Coins)
			}
		}
	}
	sort.Strings(v.Problems)
	return v
}

func sameStrings(a, b []string) bool {
	if len(a) != len(b) {
		return false
	}
	for i := range a {
		if a[i] != b[i] {
			return false
		}
	}
	return true
}
