package main

// Hook H2 (repo commit 2c26213, build tag verif): common/db calls VerifWriteHook BEFORE every
// durable LevelDB write and VerifOpenHook when a database is opened. Here: every durable write
// of the blockchain database ("chain") and of the state store ("store") that happens while the
// counter is armed gets a number and a line in the write log; when the counter stands at
// crashAt the process exits instead of performing the next write. So "crash at k" = the first
// k durable writes of the history returned, the (k+1)-th never started.
//
// Assumption (stated in the evidence): process stop, not power loss - a write that returned is
// durable, and a LevelDB batch is atomic.

import (
	"encoding/hex"
	"encoding/json"
	"fmt"
	"os"
	"path/filepath"
	"runtime"
	"strings"
	"sync"

	dbm "github.com/33cn/chain33/common/db"
)

const crashExit = 77

type writeRec struct {
	I      int    `json:"i"`      // 1-based number among the armed chain/store writes (0: not counted)
	DB     string `json:"db"`     // chain | store | other:<path>
	Kind   string `json:"kind"`   // Set SetSync Delete DeleteSync BatchWrite TxCommit
	N      int    `json:"n"`      // operations in the write
	Key    string `json:"key"`    // printable prefix of the key of a point write
	Origin string `json:"origin"` // maybe | commit | conn | disc | other:<function>
}

var hk struct {
	mu      sync.Mutex
	names   map[interface{}]string
	armed   bool
	count   int
	crashAt int // -1: never
	log     *os.File
}

func logLine(v any) {
	if hk.log == nil {
		return
	}
	b, _ := json.Marshal(v)
	hk.log.Write(append(b, '\n'))
}

func dbName(path string) string {
	base := filepath.Base(path)
	switch {
	case strings.HasPrefix(base, "blockchain"):
		return "chain"
	case strings.Contains(path, "mavltree") || strings.HasPrefix(base, "store"):
		return "store"
	}
	return "other:" + base
}

// origin names the code path a write comes from, by the functions on the writer's stack.
func origin() string {
	pc := make([]uintptr, 48)
	n := runtime.Callers(3, pc)
	fr := runtime.CallersFrames(pc[:n])
	first := ""
	for {
		f, more := fr.Next()
		fn := f.Function
		switch {
		case strings.Contains(fn, "dbMaybeStoreBlock"):
			return "maybe"
		case strings.Contains(fn, "disconnectBlock"):
			return "disc"
		case strings.Contains(fn, "connectBlock"):
			return "conn"
		case strings.Contains(fn, "mavl.(*Store).Commit"):
			return "commit"
		}
		if first == "" && strings.Contains(fn, "33cn/chain33") && !strings.Contains(fn, "common/db.") {
			first = fn[strings.LastIndex(fn, "/")+1:]
		}
		if !more {
			break
		}
	}
	return "other:" + first
}

func installHooks(logPath string, crashAt int) error {
	hk.names = map[interface{}]string{}
	hk.crashAt = crashAt
	if logPath != "" {
		f, err := os.OpenFile(logPath, os.O_CREATE|os.O_WRONLY|os.O_APPEND, 0o644)
		if err != nil {
			return err
		}
		hk.log = f
	}
	dbm.VerifOpenHook = func(db interface{}, path string) {
		hk.mu.Lock()
		hk.names[db] = dbName(path)
		logLine(map[string]any{"ev": "Open", "db": hk.names[db], "path": path})
		hk.mu.Unlock()
	}
	dbm.VerifWriteHook = func(db interface{}, kind string, key []byte, n int) {
		hk.mu.Lock()
		defer hk.mu.Unlock()
		name, ok := hk.names[db]
		if !ok {
			name = fmt.Sprintf("other:%T", db)
		}
		rec := writeRec{DB: name, Kind: kind, N: n, Origin: origin()}
		if len(key) > 0 {
			k := key
			if len(k) > 24 {
				k = k[:24]
			}
			rec.Key = printable(k)
		}
		if !hk.armed || (name != "chain" && name != "store") {
			// not a crash point of the experiment (start-up, close, another database): logged, not numbered
			logLine(map[string]any{"ev": "Write", "w": rec})
			return
		}
		if hk.count == hk.crashAt {
			logLine(map[string]any{"ev": "Crash", "at": hk.count, "next": rec})
			if hk.log != nil {
				hk.log.Sync()
			}
			os.Exit(crashExit)
		}
		hk.count++
		rec.I = hk.count
		logLine(map[string]any{"ev": "Write", "w": rec})
	}
	return nil
}

func arm(on bool) {
	hk.mu.Lock()
	hk.armed = on
	hk.mu.Unlock()
}

func printable(b []byte) string {
	for _, c := range b {
		if c < 0x20 || c > 0x7e {
			return "0x" + hex.EncodeToString(b)
		}
	}
	return string(b)
}
