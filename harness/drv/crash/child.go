package main

// Child-process modes of the driver binary.
//
//   child-run      open the node on --opt dir=..., deliver the blocks named by order=... through
//                  ProcAddBlockMsg, with the write hook armed: every durable write of the chain / store
//                  database is logged, and at write number crashat the process exits with code 77
//                  (crashat=-1: never, the node is closed properly).
//   child-inspect  open the node on the same directories (the restart), read everything the property
//                  talks about through the public API, deliver order=... (the continuation), read again,
//                  close; the result is written as JSON to out=...

import (
	"encoding/hex"
	"encoding/json"
	"fmt"
	"os"
	"strconv"
	"strings"

	"github.com/33cn/chain33/blockchain"
	"github.com/33cn/chain33/types"
	"verif/harness/core"
	"verif/harness/drv/chain/rig"
)

func parseOrder(s string) []int {
	var out []int
	for _, p := range strings.Split(s, ".") {
		if p == "" {
			continue
		}
		n, err := strconv.Atoi(p)
		if err == nil {
			out = append(out, n)
		}
	}
	return out
}

func orderString(o []int) string {
	var p []string
	for _, x := range o {
		p = append(p, strconv.Itoa(x))
	}
	return strings.Join(p, ".")
}

type delivery struct {
	B      int    `json:"b"`
	Err    string `json:"err"`
	Tip    int    `json:"tip"` // model id of the tip afterwards (999: foreign)
	Height int64  `json:"height"`
}

func (n *node) tipID(w *worldFile) (int, int64) {
	hash, h, err := n.rn.Tip()
	if err != nil {
		return 999, -1
	}
	id, ok := w.idOf(hx(hash))
	if !ok {
		return 999, h
	}
	return id, h
}

func (n *node) deliver(w *worldFile, id int) (delivery, error) {
	b, err := w.decode(id)
	if err != nil {
		return delivery{}, err
	}
	logLine(map[string]any{"ev": "Deliver", "b": id})
	_, derr := n.chain.ProcAddBlockMsg(false, &types.BlockDetail{Block: b}, "peer")
	d := delivery{B: id, Err: rig.ErrClass(derr)}
	d.Tip, d.Height = n.tipID(w)
	logLine(map[string]any{"ev": "Done", "b": id, "err": d.Err, "tip": d.Tip, "height": d.Height})
	return d, nil
}

func childRun(env *core.Env, _ []string) int {
	dir, wp := env.Opt("dir", ""), env.Opt("world", "")
	crashAt := env.OptInt("crashat", -1)
	if err := installHooks(env.Opt("log", ""), crashAt); err != nil {
		fmt.Fprintln(os.Stderr, "child-run:", err)
		return 2
	}
	w, err := loadWorld(wp)
	if err != nil {
		fmt.Fprintln(os.Stderr, "child-run: world:", err)
		return 2
	}
	n, err := openNode(dir)
	if err != nil {
		fmt.Fprintln(os.Stderr, "child-run: open:", err)
		return 2
	}
	logLine(map[string]any{"ev": "Phase", "p": "history"})
	arm(true)
	for _, id := range parseOrder(env.Opt("order", "")) {
		if _, err := n.deliver(w, id); err != nil {
			fmt.Fprintln(os.Stderr, "child-run: deliver:", err)
			return 2
		}
	}
	arm(false)
	logLine(map[string]any{"ev": "End", "writes": hk.count})
	n.close()
	return 0
}

// ---------------------------------------------------------------------------------------
// observation through the public API

type blockObs struct {
	HashAt    string   `json:"hashAt"` // GetBlockHashByHeight ("" + HashErr when absent)
	HashErr   string   `json:"hashErr,omitempty"`
	HdrHash   string   `json:"hdrHash"` // header served for the height
	HdrParent string   `json:"hdrParent"`
	HdrHeight int64    `json:"hdrHeight"`
	HdrState  string   `json:"hdrState"`
	HdrErr    string   `json:"hdrErr,omitempty"`
	Txs       []string `json:"txs"`      // block by hash: transactions
	Receipts  int      `json:"receipts"` // block by hash: number of receipts
	BodyErr   string   `json:"bodyErr,omitempty"`
	DTxs      []string `json:"dtxs"` // block details by height
	DReceipts int      `json:"dreceipts"`
	DHash     string   `json:"dhash"`
	DErr      string   `json:"dErr,omitempty"`
	Td        string   `json:"td"`
	TdErr     string   `json:"tdErr,omitempty"`
	Work      string   `json:"work"` // CalcWork of the block's difficulty bits
}

type txObs struct {
	Found  bool  `json:"found"`
	Height int64 `json:"height"`
	Index  int64 `json:"index"`
	Ty     int32 `json:"ty"`
}

type obs struct {
	Height     int64             `json:"height"`   // GetBlockHeight
	DBHeight   int64             `json:"dbHeight"` // the stored last height
	LastHdr    string            `json:"lastHdr"`
	LastHdrH   int64             `json:"lastHdrH"`
	LastHdrErr string            `json:"lastHdrErr,omitempty"`
	LastState  string            `json:"lastState"`
	LastBlk    string            `json:"lastBlk"`
	LastBlkH   int64             `json:"lastBlkH"`
	LastBlkErr string            `json:"lastBlkErr,omitempty"`
	Blocks     []blockObs        `json:"blocks"`
	Above      []string          `json:"above"` // hashes served for heights above the tip ("" = none)
	Txs        map[string]txObs  `json:"txs"`
	State      map[string]string `json:"state"`
	StateErr   string            `json:"stateErr,omitempty"`
	Coins      [2]int64          `json:"coins"`
	CoinsErr   string            `json:"coinsErr,omitempty"`
}

func es(err error) string {
	if err == nil {
		return ""
	}
	return err.Error()
}

func (n *node) observe(w *worldFile) *obs {
	o := &obs{Txs: map[string]txObs{}, State: map[string]string{}}
	c := n.chain
	o.Height = c.GetBlockHeight()
	dbh, err := blockchain.LoadBlockStoreHeight(c.GetDB())
	if err != nil {
		dbh = -2
	}
	o.DBHeight = dbh
	if h, err := c.ProcGetLastHeaderMsg(); err != nil || h == nil {
		o.LastHdrErr = "err:" + es(err)
	} else {
		o.LastHdr, o.LastHdrH, o.LastState = hx(h.Hash), h.Height, hx(h.StateHash)
	}
	if b, err := c.ProcGetLastBlockMsg(); err != nil || b == nil {
		o.LastBlkErr = "err:" + es(err)
	} else {
		o.LastBlk, o.LastBlkH = hx(b.Hash(n.cfg)), b.Height
	}
	top := o.Height
	if top > 64 {
		top = 64
	}
	for h := int64(0); h <= top; h++ {
		var bo blockObs
		hash, err := n.rn.HashAt(h)
		if err != nil {
			bo.HashErr = err.Error()
		}
		bo.HashAt = hx(hash)
		hs, err := c.ProcGetHeadersMsg(&types.ReqBlocks{Start: h, End: h})
		if err != nil || hs == nil || len(hs.Items) != 1 {
			bo.HdrErr = "err:" + es(err)
		} else {
			x := hs.Items[0]
			bo.HdrHash, bo.HdrParent, bo.HdrHeight, bo.HdrState = hx(x.Hash), hx(x.ParentHash), x.Height, hx(x.StateHash)
		}
		if len(hash) > 0 {
			d, err := c.ProcGetBlockByHashMsg(hash)
			if err != nil || d == nil || d.Block == nil {
				bo.BodyErr = "err:" + es(err)
			} else {
				for _, tx := range d.Block.Txs {
					bo.Txs = append(bo.Txs, hx(tx.Hash()))
				}
				bo.Receipts = len(d.Receipts)
				bo.Work = rig.Work(d.Block).String()
			}
			td, err := c.GetStore().GetTdByBlockHash(hash)
			if err != nil || td == nil {
				bo.TdErr = "err:" + es(err)
			} else {
				bo.Td = td.String()
			}
		}
		ds, err := c.ProcGetBlockDetailsMsg(&types.ReqBlocks{Start: h, End: h, IsDetail: true})
		if err != nil || ds == nil || len(ds.Items) != 1 || ds.Items[0] == nil || ds.Items[0].Block == nil {
			bo.DErr = "err:" + es(err)
		} else {
			d := ds.Items[0]
			for _, tx := range d.Block.Txs {
				bo.DTxs = append(bo.DTxs, hx(tx.Hash()))
			}
			bo.DReceipts = len(d.Receipts)
			bo.DHash = hx(d.Block.Hash(n.cfg))
		}
		o.Blocks = append(o.Blocks, bo)
	}
	for h := o.Height + 1; h <= o.Height+4; h++ {
		hash, _ := n.rn.HashAt(h)
		o.Above = append(o.Above, hx(hash))
	}
	look := func(b *wblock) {
		for _, th := range b.Txs {
			if _, ok := o.Txs[th]; ok {
				continue
			}
			raw, _ := hex.DecodeString(th)
			d, err := c.ProcQueryTxMsg(raw)
			if err != nil || d == nil {
				o.Txs[th] = txObs{}
				continue
			}
			o.Txs[th] = txObs{Found: true, Height: d.Height, Index: d.Index, Ty: d.GetReceipt().GetTy()}
		}
	}
	for _, b := range w.Trunk {
		look(b)
	}
	for _, b := range w.Free {
		look(b)
	}
	if o.LastHdrErr == "" {
		sh, _ := hex.DecodeString(o.LastState)
		var keys [][]byte
		for _, k := range w.Keys {
			kb, _ := hex.DecodeString(k)
			keys = append(keys, kb)
		}
		r, err := n.api.StoreGet(&types.StoreGet{StateHash: sh, Keys: keys})
		if err != nil || r == nil || len(r.Values) != len(keys) {
			o.StateErr = "err:" + es(err)
		} else {
			for i, k := range w.Keys {
				o.State[k] = hx(r.Values[i])
			}
		}
		tc, err := n.api.StoreGetTotalCoins(&types.IterateRangeByStateHash{StateHash: sh, Start: []byte("mavl-coins-bty-"),
			End: []byte("mavl-coins-bty-exec"), Count: 100000})
		if err != nil || tc == nil {
			o.CoinsErr = "err:" + es(err)
		} else {
			o.Coins = [2]int64{tc.Num, tc.Amount}
		}
	}
	return o
}

type inspectOut struct {
	OpenErr    string     `json:"openErr,omitempty"`
	Obs1       *obs       `json:"obs1"`
	Deliveries []delivery `json:"deliveries"`
	Obs2       *obs       `json:"obs2"`
}

func childInspect(env *core.Env, _ []string) int {
	dir, wp, outp := env.Opt("dir", ""), env.Opt("world", ""), env.Opt("out", "")
	if err := installHooks(env.Opt("log", ""), env.OptInt("crashat", -1)); err != nil {
		fmt.Fprintln(os.Stderr, "child-inspect:", err)
		return 2
	}
	w, err := loadWorld(wp)
	if err != nil {
		fmt.Fprintln(os.Stderr, "child-inspect: world:", err)
		return 2
	}
	var out inspectOut
	write := func() int {
		raw, _ := json.Marshal(&out)
		if err := os.WriteFile(outp+".tmp", raw, 0o644); err != nil {
			fmt.Fprintln(os.Stderr, "child-inspect:", err)
			return 2
		}
		if err := os.Rename(outp+".tmp", outp); err != nil {
			fmt.Fprintln(os.Stderr, "child-inspect:", err)
			return 2
		}
		return 0
	}
	logLine(map[string]any{"ev": "Phase", "p": "open"})
	n, err := openNode(dir)
	if err != nil {
		out.OpenErr = err.Error()
		return write()
	}
	logLine(map[string]any{"ev": "Phase", "p": "observe"})
	out.Obs1 = n.observe(w)
	if rc := write(); rc != 0 { // the delivery below may stop the process
		return rc
	}
	logLine(map[string]any{"ev": "Phase", "p": "continue"})
	arm(true)
	for _, id := range parseOrder(env.Opt("order", "")) {
		d, err := n.deliver(w, id)
		if err != nil {
			fmt.Fprintln(os.Stderr, "child-inspect: deliver:", err)
			return 2
		}
		out.Deliveries = append(out.Deliveries, d)
	}
	arm(false)
	logLine(map[string]any{"ev": "Phase", "p": "final"})
	out.Obs2 = n.observe(w)
	logLine(map[string]any{"ev": "End", "writes": hk.count})
	n.close()
	return write()
}
