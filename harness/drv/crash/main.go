// Driver for the Crash family (C29): block connection is crash-consistent.
//
// A history (deliveries of a small block tree on top of a 12-block trunk: linear growth, a
// reorganisation, orphans) runs in a child process on a real node assembled on fixed data
// directories; hook H2 numbers the durable writes of the blockchain and store databases and stops
// the process at write k; a second child restarts a node on the same directories, reads height,
// last header / block, height index, headers, bodies, transaction index, total difficulties and
// the tip's state through the public API, continues the delivery and reads again.
package main

import (
	"fmt"
	"os"
	"path/filepath"
	"strconv"
	"strings"

	"verif/harness/core"
	"verif/harness/drv/chain/rig"
)

// sweep removes scratch directories left by dead processes of this driver (tmpfs is memory).
func sweep() {
	for _, pat := range []string{"/dev/shm/verif-crash-*", filepath.Join(os.TempDir(), "verif-crash-*"), "/dev/shm/verif-chain-*"} {
		ds, _ := filepath.Glob(pat)
		for _, d := range ds {
			p := strings.Split(filepath.Base(d), "-")
			if len(p) < 3 {
				continue
			}
			pid, err := strconv.Atoi(p[2])
			if err != nil {
				continue
			}
			if _, err := os.Stat(fmt.Sprintf("/proc/%d", pid)); err != nil {
				os.RemoveAll(d)
			}
		}
	}
}

func main() {
	child := len(os.Args) > 1 && strings.HasPrefix(os.Args[1], "child-")
	cleanup := func() {}
	if !child {
		sweep()
		if len(os.Args) > 1 && os.Args[1] == "sweep" {
			return
		}
		cleanup = rig.UseFastTmp() // the factory node's data directory
	}
	fin := func() {
		mk.close()
		if scratchRoot != "" {
			os.RemoveAll(scratchRoot)
		}
		cleanup()
	}
	defer fin()
	wrap := func(f func(*core.Env, []string) int) func(*core.Env, []string) int {
		return func(e *core.Env, a []string) int {
			rc := f(e, a)
			if !child {
				fin()
			}
			return rc
		}
	}
	core.Main(&core.Family{
		Name:      "crash",
		NewDriver: newDriver,
		Recorders: map[string]core.Recorder{"default": recordDefault},
		Extra: map[string]func(*core.Env, []string) int{
			"child-run":     childRun,
			"child-inspect": childInspect,
			"child-corrupt": childCorrupt,
			"dry":           wrap(dryRun),
			"selftest":      wrap(selfTest),
			"sweep":         func(*core.Env, []string) int { return 0 },
		},
	})
}
