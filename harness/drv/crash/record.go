package main

// Recorder (binding B): seeded random crash experiments on real nodes - random trees (the named
// histories and random shapes with a unique deepest leaf), random delivery orders (so that blocks
// also arrive as orphans), a crash at a random durable-write index, a random delivery order after
// the restart, sometimes a second crash during the continuation - written as the event trace that
// Crash_Trace validates: Reset, then per life of the node Deliver / Write / Done, Crash, Recover
// (what the restarted node serves), and Final.

import (
	"fmt"
	"math/rand"
	"sync"

	"verif/harness/core"
)

func randomTree(rnd *rand.Rand, n int) treeSpec {
	for {
		ts := treeSpec{N: n}
		depth := make([]int, n+1)
		for b := 1; b <= n; b++ {
			p := rnd.Intn(b)
			if rnd.Intn(3) > 0 && b > 1 {
				p = b - 1 - rnd.Intn(2)%b
				if p < 0 {
					p = 0
				}
			}
			ts.Parent = append(ts.Parent, p)
			depth[b] = depth[p] + 1
		}
		max, cnt := 0, 0
		for b := 1; b <= n; b++ {
			if depth[b] > max {
				max, cnt = depth[b], 1
			} else if depth[b] == max {
				cnt++
			}
		}
		if cnt == 1 {
			return ts
		}
	}
}

func perm(rnd *rand.Rand, n int) []int {
	p := rnd.Perm(n)
	for i := range p {
		p[i]++
	}
	return p
}

type recPlan struct {
	ts   treeSpec
	conc int64
	segs []segment
}

func recordDefault(env *core.Env, emit func(map[string]any)) (*core.Summary, error) {
	n := env.OptInt("n", 6)
	two := env.OptInt("two", 0) // every two-th experiment gets a second crash (0: never)
	par := env.OptInt("par", 6)
	rnd := rand.New(rand.NewSource(env.Seed*1000003 + int64(env.OptInt("salt", 0))))
	sum := &core.Summary{Counters: map[string]int{}}
	named := []treeSpec{namedTrees["reorg"].ts, namedTrees["linear"].ts, {N: 3, Parent: []int{0, 0, 2}}, {N: 6, Parent: []int{0, 1, 2, 0, 4, 5}}}
	// plans (the crash indices need the write counts of the uninterrupted orders: two phases)
	var plans []*recPlan
	for i := 0; i < n; i++ {
		p := &recPlan{conc: 100 + int64(rnd.Intn(3))}
		switch {
		case i%3 == 0:
			p.ts = named[(i/3)%len(named)]
		default:
			p.ts = randomTree(rnd, 4+rnd.Intn(3))
		}
		order := perm(rnd, p.ts.N)
		if i%3 == 0 && rnd.Intn(2) == 0 {
			order = nil
			for b := 1; b <= p.ts.N; b++ {
				order = append(order, b)
			}
		}
		p.segs = []segment{{Order: order, CrashAt: -2}, {Order: perm(rnd, p.ts.N), CrashAt: -1}}
		if two > 0 && i%two == 1 {
			p.segs[1].CrashAt = rnd.Intn(9)
			p.segs = append(p.segs, segment{Order: perm(rnd, p.ts.N), CrashAt: -1})
		}
		plans = append(plans, p)
	}
	type result struct {
		p  *recPlan
		l  *lab
		rs []*segResult
		e  error
	}
	results := make([]result, len(plans))
	var wg sync.WaitGroup
	sem := make(chan struct{}, par)
	var rmu sync.Mutex
	for i, p := range plans {
		wg.Add(1)
		k := rnd.Int63()
		go func(i int, p *recPlan, k int64) {
			defer wg.Done()
			sem <- struct{}{}
			defer func() { <-sem }()
			l, err := labFor(env, p.ts, p.conc)
			if err == nil {
				var w int
				w, err = l.writeCount(p.segs[0].Order)
				if err == nil {
					p.segs[0].CrashAt = int(k % int64(w+1))
					var rs []*segResult
					rs, err = l.run(p.segs)
					rmu.Lock()
					results[i] = result{p: p, l: l, rs: rs}
					rmu.Unlock()
				}
			}
			if err != nil {
				rmu.Lock()
				results[i] = result{p: p, e: err}
				rmu.Unlock()
			}
		}(i, p, k)
	}
	wg.Wait()
	for _, r := range results {
		if r.e != nil {
			return nil, r.e
		}
		emit(map[string]any{"ev": "Reset", "n": r.p.ts.N, "parent": r.p.ts.Parent})
		inside := false
		for si, sr := range r.rs {
			if si > 0 {
				emit(recoverEvent(r.l.w, sr))
			}
			if sr.Out == nil || sr.Out.OpenErr != "" || sr.Out.Obs1 == nil {
				break
			}
			evs := filterLog(sr.Log)
			for i, e := range evs {
				switch e.Ev {
				case "Deliver":
					emit(map[string]any{"ev": "Deliver", "b": e.B})
				case "Write":
					emit(map[string]any{"ev": "Write", "db": e.W.DB, "o": e.W.Origin})
				case "Done":
					emit(map[string]any{"ev": "Done", "b": e.B, "err": e.Err, "tip": tipModel(e.Tip)})
				case "Crash":
					if i > 0 && evs[i-1].Ev == "Write" {
						inside = true
					}
				}
			}
			if sr.Died != "" {
				emit(map[string]any{"ev": "Died", "info": tail(sr.Died, 300)})
				break
			}
			if si < len(r.rs)-1 {
				emit(map[string]any{"ev": "Crash", "real": sr.Crashed})
			} else {
				fe := map[string]any{"ev": "Final", "chain": []int{}, "problems": []string{"node-died"}}
				if sr.Out.Obs2 != nil {
					v := evaluate(r.l.w, sr.Out.Obs2)
					fe["chain"], fe["problems"] = v.Chain, v.Problems
				}
				emit(fe)
			}
		}
		sum.Behaviours++
		if inside {
			sum.NonTrivial++
		}
		if len(sum.Samples) < 2 {
			sum.Samples = append(sum.Samples, map[string]any{"tree": r.p.ts.Parent, "segments": r.p.segs})
		}
		sum.Counters["children"] = int(r.l.children)
	}
	return sum, nil
}

func recoverEvent(w *worldFile, sr *segResult) map[string]any {
	if sr.Out == nil || sr.Out.OpenErr != "" || sr.Out.Obs1 == nil {
		info := sr.Died
		if sr.Out != nil {
			info = sr.Out.OpenErr
		}
		return map[string]any{"ev": "Recover", "ok": false, "chain": []int{}, "problems": []string{"restart-failed"}, "info": tail(fmt.Sprint(info), 300)}
	}
	v := evaluate(w, sr.Out.Obs1)
	ev := map[string]any{"ev": "Recover", "ok": true, "chain": v.Chain, "problems": v.Problems}
	if len(v.Details) > 0 {
		ev["details"] = v.Details
	}
	return ev
}
