package main

import (
	"encoding/json"
	"fmt"
	"os"

	"verif/harness/core"
)

var namedTrees = map[string]struct {
	ts    treeSpec
	order []int
}{
	"linear": {treeSpec{N: 3, Parent: []int{0, 1, 2}}, []int{1, 2, 3}},
	"reorg":  {treeSpec{N: 5, Parent: []int{0, 1, 0, 3, 4}}, []int{1, 2, 3, 4, 5}},
	"orphan": {treeSpec{N: 5, Parent: []int{0, 1, 0, 3, 4}}, []int{4, 5, 1, 2, 3}},
}

// dryRun (debug aid): vh-crash dry --opt tree=reorg,conc=1[,crashat=7][,order=1.2.3][,cont=...]
// prints the write log of the history and the evaluation of the restart.
func dryRun(env *core.Env, _ []string) int {
	nt, ok := namedTrees[env.Opt("tree", "reorg")]
	if !ok {
		fmt.Fprintln(os.Stderr, "unknown tree")
		return 2
	}
	if err := mk.init(env.Seed); err != nil {
		fmt.Fprintln(os.Stderr, "factory:", err)
		return 2
	}
	w, err := mk.build(nt.ts, int64(env.OptInt("conc", 1)))
	if err != nil {
		fmt.Fprintln(os.Stderr, "build:", err)
		return 2
	}
	l, err := newLab(w, "dry")
	if err != nil {
		fmt.Fprintln(os.Stderr, "lab:", err)
		return 2
	}
	defer l.close()
	order := nt.order
	if s := env.Opt("order", ""); s != "" {
		order = parseOrder(s)
	}
	cont := order
	if s := env.Opt("cont", ""); s != "" {
		cont = parseOrder(s)
	}
	segs := []segment{{Order: order, CrashAt: env.OptInt("crashat", -1)}, {Order: cont, CrashAt: env.OptInt("crashat2", -1)}}
	if segs[1].CrashAt >= 0 {
		segs = append(segs, segment{Order: cont, CrashAt: -1})
	}
	rs, err := l.run(segs)
	if err != nil {
		fmt.Fprintln(os.Stderr, "run:", err)
		return 2
	}
	for i, r := range rs {
		for _, e := range r.Log {
			fmt.Println(i, core.J(e))
		}
		fmt.Println(i, "crashed", r.Crashed, "next", core.J(r.Next), "died", r.Died)
		if r.Out != nil {
			if env.Opt("raw", "") != "" {
				b, _ := json.MarshalIndent(r.Out, "", " ")
				fmt.Println(string(b))
			}
			fmt.Println(i, "openErr", r.Out.OpenErr)
			if r.Out.Obs1 != nil {
				fmt.Println(i, "at start:", core.J(evaluate(w, r.Out.Obs1)))
			}
			fmt.Println(i, "deliveries", core.J(r.Out.Deliveries))
			if r.Out.Obs2 != nil {
				fmt.Println(i, "at end:", core.J(evaluate(w, r.Out.Obs2)))
			}
		}
	}
	return 0
}
