package main

import (
	"encoding/json"
	"fmt"
	"os"

	"verif/harness/core"
)

var namedTrees = map[string]struct {
	ts    treeSpec
	order []int
}{
	"linear": {treeSpec{N: 3, Parent: []int{0, 1, 2}}, []int{1, 2, 3}},
	"reorg":  {treeSpec{N: 5, Parent: []int{0, 1, 0, 3, 4}}, []int{1, 2, 3, 4, 5}},
	"orphan": {treeSpec{N: 5, Parent: []int{0, 1, 0, 3, 4}}, []int{4, 5, 1, 2, 3}},
}

// dryRun (debug aid): vh-crash dry --opt tree=reorg,conc=1[,crashat=7][,order=1.2.3][,cont=...]
// prints the write log of the history and the evaluation of the restart.
func dryRun(env *core.Env, _ []string) int {
	nt, ok := namedTrees[env.Opt("tree", "reorg")]
	if !ok {
		fmt.Fprintln(os.Stderr, "unknown tree")
		return 2
	}
	if err := mk.init(env.Seed); err != nil {
		fmt.Fprintln(os.Stderr, "factory:", err)
		return 2
	}
	w, err := mk.build(nt.ts, int64(env.OptInt("conc", 1)))
	if err != nil {
		fmt.Fprintln(os.Stderr, "build:", err)
		return 2
	}
	l, err := newLab(w, "dry")
	if err != nil {
		fmt.Fprintln(os.Stderr, "lab:", err)
		return 2
	}
	defer l.close()
	order := nt.order
	if s := env.Opt("order", ""); s != "" {
		order = parseOrder(s)
	}
	cont := order
	if s := env.Opt("cont", ""); s != "" {
		cont = parseOrder(s)
	}
	r, err := l.run(order, env.OptInt("crashat", -1), cont)
	if err != nil {
		fmt.Fprintln(os.Stderr, "run:", err)
		return 2
	}
	for _, e := range r.Log1 {
		fmt.Println("1", core.J(e))
	}
	fmt.Println("crashed", r.Crashed, "next", core.J(r.Next), "died", r.Died)
	for _, e := range r.Log2 {
		fmt.Println("2", core.J(e))
	}
	if r.Inspect != nil {
		if env.Opt("raw", "") != "" {
			b, _ := json.MarshalIndent(r.Inspect, "", " ")
			fmt.Println(string(b))
		}
		fmt.Println("openErr", r.Inspect.OpenErr)
		if r.Inspect.Obs1 != nil {
			v := evaluate(w, r.Inspect.Obs1)
			fmt.Println("after restart:", core.J(v))
		}
		fmt.Println("deliveries", core.J(r.Inspect.Deliveries))
		if r.Inspect.Obs2 != nil {
			v := evaluate(w, r.Inspect.Obs2)
			fmt.Println("final:", core.J(v))
		}
	}
	return 0
}
