// C19: the process that answers validity questions. It is started
//   - once per history (the "long-lived" process whose caches the history fills), and
//   - fresh for oracle questions (a batch at one height, or a single question).
// It reads one JSON request per line on stdin and writes one JSON reply per line on stdout.
package main

import (
	"bufio"
	"encoding/json"
	"fmt"
	"math/rand"
	"os"
	"strings"

	"github.com/33cn/chain33/client/mocks"
	"github.com/33cn/chain33/common"
	"github.com/33cn/chain33/common/address"
	"github.com/33cn/chain33/common/crypto"
	cryptocli "github.com/33cn/chain33/common/crypto/client"
	"github.com/33cn/chain33/system/address/btc"
	"github.com/33cn/chain33/system/address/eth"
	"github.com/33cn/chain33/system/dapp"
	"github.com/33cn/chain33/types"
	"github.com/decred/base58"
	ecommon "github.com/ethereum/go-ethereum/common"
	"verif/harness/core"
)

// Question is one validity query; the concrete input is derived from (seed, cls, inst) inside the child.
type Question struct {
	Op   string `json:"op"`
	Cls  string `json:"cls"`
	Inst int    `json:"inst"`
}

func (q Question) Key() string { return fmt.Sprintf("%s|%s|%d", q.Op, q.Cls, q.Inst) }

type request struct {
	H  int64      `json:"h"`
	Qs []Question `json:"qs"`
}

type reply struct {
	Ans []string `json:"ans"`
	Err string   `json:"err,omitempty"`
}

// pureCfg is the node configuration of a C19 run (all through public Init / config APIs).
type pureCfg struct {
	EnMs, EnEth        int64 // address driver enable heights
	FkMs, FkB58, FkFmt int64 // fork heights
	SigType            string
	EnSig              int64
}

func pureCfgOf(env *core.Env) pureCfg {
	c := pureCfg{
		EnMs: int64(env.OptInt("enms", 0)), EnEth: int64(env.OptInt("eneth", 0)),
		FkMs: int64(env.OptInt("fkms", 0)), FkB58: int64(env.OptInt("fkb58", 0)), FkFmt: int64(env.OptInt("fkfmt", 0)),
		SigType: env.Opt("sigtype", "ed25519"), EnSig: int64(env.OptInt("ensig", 0)),
	}
	return c
}

func (c pureCfg) boundaries() []int64 {
	return []int64{c.EnMs, c.EnEth, c.FkMs, c.FkB58, c.FkFmt, c.EnSig}
}

var errNames = map[error]string{
	address.ErrCheckVersion: "ErrCheckVersion", address.ErrCheckChecksum: "ErrCheckChecksum",
	address.ErrAddressChecksum: "ErrAddressChecksum", address.ErrDecodeBase58: "ErrDecodeBase58",
	address.ErrAddressLength: "ErrAddressLength", address.ErrUnknownAddressDriver: "ErrUnknownAddressDriver",
	address.ErrUnknownAddressType: "ErrUnknownAddressType", address.ErrAddressDriverNotEnable: "ErrAddressDriverNotEnable",
	eth.ErrInvalidEthAddr: "ErrInvalidEthAddr", btc.ErrInvalidAddrFormat: "ErrInvalidAddrFormat",
	crypto.ErrUnknownDriver: "crypto.ErrUnknownDriver", crypto.ErrDriverNotEnable: "crypto.ErrDriverNotEnable",
}

// errName identifies the exact error value (sentinel identity first, text otherwise).
func errName(err error) string {
	if err == nil {
		return "nil"
	}
	if n, ok := errNames[err]; ok {
		return n
	}
	return "err:" + err.Error()
}

type childState struct {
	seed int64
	cfg  *types.Chain33Config
	pc   pureCfg
	addr map[string]string
	keys map[string][]byte
	txs  map[string]*types.Transaction
}

func crand(seed int64, cls string, inst int) *rand.Rand {
	h := int64(0)
	for _, c := range cls {
		h = h*131 + int64(c)
	}
	return rand.New(rand.NewSource(seed*7919 + h*104729 + int64(inst)*15485863))
}

func b58(ver byte, body []byte, good bool) string {
	b := append([]byte{ver}, body...)
	ck := common.Sha2Sum(b)[:4]
	ck = append([]byte{}, ck...)
	if !good {
		ck[1] ^= 0x10
	}
	return base58.Encode(append(b, ck...))
}

// concAddr maps an input class to a concrete address string.
func (st *childState) concAddr(cls string, inst int) string {
	k := fmt.Sprintf("%s|%d", cls, inst)
	if a, ok := st.addr[k]; ok {
		return a
	}
	r := crand(st.seed, cls, inst)
	var a string
	switch cls {
	case "btc":
		a = b58(address.NormalVer, rbytes(r, 20), true)
	case "ms":
		a = b58(address.MultiSignVer, rbytes(r, 20), true)
	case "badver":
		vers := []byte{1, 7, 48, 111, 196, 255}
		a = b58(vers[r.Intn(len(vers))], rbytes(r, 20), true)
	case "badsum":
		a = b58(address.NormalVer, rbytes(r, 20), false)
	case "longsum":
		a = b58(address.NormalVer, rbytes(r, 21+r.Intn(12)), false)
	case "junk":
		pool := []string{"", "0", "hello world!!", "0x12345", "1111", "OIl0OIl0OIl0OIl0OIl0OIl0OIl0OIl0", "0xZZ0b295669a9fd93d5f28d9ec85e40f4cb697bae", "地址"}
		a = pool[(inst+r.Intn(len(pool)))%len(pool)]
	case "eth":
		a = strings.ToLower(ecommon.BytesToAddress(rbytes(r, 20)).Hex())
	case "ethmix":
		for {
			a = ecommon.BytesToAddress(rbytes(r, 20)).Hex()
			if a != strings.ToLower(a) {
				break
			}
		}
	case "exec":
		a = dapp.ExecAddress(fmt.Sprintf("verifx%d", inst))
	default:
		panic("unknown address class " + cls)
	}
	st.addr[k] = a
	return a
}

// concKey maps a key class (k33 compressed secp256k1, k65 uncompressed, k32 ed25519) to public key bytes.
func (st *childState) concKey(cls string, inst int) []byte {
	k := fmt.Sprintf("%s|%d", cls, inst)
	if p, ok := st.keys[k]; ok {
		return p
	}
	r := crand(st.seed, cls, inst)
	var pub []byte
	switch cls {
	case "k33":
		p, err := privKey("secp256k1", rbytes(r, 32))
		if err != nil {
			panic(err)
		}
		pub = p.PubKey().Bytes()
	case "k65":
		p, err := privKey("secp256k1eth", rbytes(r, 32))
		if err != nil {
			panic(err)
		}
		pub = p.PubKey().Bytes()
	case "k32":
		p, err := privKey("ed25519", rbytes(r, 32))
		if err != nil {
			panic(err)
		}
		pub = p.PubKey().Bytes()
	default:
		panic("unknown key class " + cls)
	}
	st.keys[k] = pub
	return pub
}

// concTx: a transaction signed with crypto driver `name` and address format `format`.
func (st *childState) concTx(name string, format int32, inst int) *types.Transaction {
	k := fmt.Sprintf("%s|%d|%d", name, format, inst)
	if t, ok := st.txs[k]; ok {
		return t
	}
	r := crand(st.seed, "tx"+k, inst)
	priv, err := privKey(name, rbytes(r, 32))
	if err != nil {
		panic(err)
	}
	tx := &types.Transaction{Execer: []byte("coins"), Payload: append([]byte{7}, rbytes(r, 40)...), Fee: 100000, Nonce: r.Int63(),
		To: b58(address.NormalVer, rbytes(r, 20), true), ChainID: st.cfg.GetChainID()}
	tx.Sign(types.EncodeSignID(int32(crypto.GetType(name)), format), priv)
	st.txs[k] = tx
	return tx
}

func (st *childState) answer(q Question, h int64) (ans string) {
	defer func() {
		if r := recover(); r != nil {
			ans = fmt.Sprintf("panic:%v", r)
		}
	}()
	switch q.Op {
	case "addr":
		return errName(address.CheckAddress(st.concAddr(q.Cls, q.Inst), h))
	case "dapp":
		return errName(dapp.CheckAddress(st.cfg, st.concAddr(q.Cls, q.Inst), h))
	case "type":
		id, err := address.GetAddressType(st.concAddr(q.Cls, q.Inst))
		if err != nil {
			return errName(err)
		}
		return fmt.Sprintf("id%d", id)
	case "load": // cls "drv", inst = driver id
		_, err := address.LoadDriver(int32(q.Inst), h)
		return errName(err)
	case "pk2a": // cls "<keyclass>:<format>"
		p := strings.SplitN(q.Cls, ":", 2)
		var format int32
		fmt.Sscan(p[1], &format)
		return address.PubKeyToAddr(format, st.concKey(p[0], q.Inst))
	case "from": // cls "<format>"
		var format int32
		fmt.Sscan(q.Cls, &format)
		return st.concTx("secp256k1", format, q.Inst).From()
	case "sign": // cls = crypto driver name
		return fmt.Sprint(st.concTx(q.Cls, 0, q.Inst).CheckSign(h))
	case "execaddr": // cls = exec name
		return address.ExecAddress(q.Cls)
	}
	return "unknown-op"
}

func newChildState(env *core.Env) *childState {
	pc := pureCfgOf(env)
	address.Init(&address.Config{DefaultDriver: "btc", EnableHeight: map[string]int64{"btcMultiSign": pc.EnMs, "eth": pc.EnEth}})
	if env.Opt("enh", "") == "" && pc.EnSig != 0 {
		env.Opts["enh"] = fmt.Sprintf("%s:%d", pc.SigType, pc.EnSig)
	}
	initCrypto(env)
	cfg := chain33Cfg()
	cfg.SetFork("ForkMultiSignAddress", pc.FkMs)
	cfg.SetFork("ForkBase58AddressCheck", pc.FkB58)
	cfg.SetFork(address.ForkFormatAddressKey, pc.FkFmt)
	api := &mocks.QueueProtocolAPI{}
	api.On("GetConfig").Return(cfg)
	cryptocli.SetQueueAPI(api)
	for i := 0; i < 8; i++ {
		dapp.Register(cfg, fmt.Sprintf("verifx%d", i), func() dapp.Driver { return nil }, 0)
	}
	return &childState{seed: env.Seed, cfg: cfg, pc: pc, addr: map[string]string{}, keys: map[string][]byte{}, txs: map[string]*types.Transaction{}}
}

func nodeHeight(h int64) int64 {
	if h < 0 {
		return 0
	}
	return h
}

func cmdChild(env *core.Env, args []string) int {
	st := newChildState(env)
	in := bufio.NewReaderSize(os.Stdin, 1<<20)
	out := bufio.NewWriter(os.Stdout)
	for {
		line, err := in.ReadBytes('\n')
		if len(line) > 0 {
			var rq request
			if e := json.Unmarshal(line, &rq); e != nil {
				b, _ := json.Marshal(reply{Err: e.Error()})
				out.Write(append(b, '\n'))
				out.Flush()
				return 2
			}
			// the node is at height h when it checks something for height h
			cryptocli.SetCurrentBlock(nodeHeight(rq.H), 1600000000+nodeHeight(rq.H))
			rp := reply{}
			for _, q := range rq.Qs {
				rp.Ans = append(rp.Ans, st.answer(q, rq.H))
			}
			b, _ := json.Marshal(rp)
			out.Write(append(b, '\n'))
			out.Flush()
		}
		if err != nil {
			return 0
		}
	}
}

// cmdVerdicts prints ValidateAddr of every address driver on one input of every class (cross-check of
// the table V in Pure.tla) and the concrete inputs.
func cmdVerdicts(env *core.Env, args []string) int {
	st := newChildState(env)
	out := map[string]any{}
	for _, cls := range addrClasses {
		row := map[string]string{"input": st.concAddr(cls, 0)}
		for id, d := range address.GetDriverList() {
			row[fmt.Sprint(id)] = errName(d.ValidateAddr(st.concAddr(cls, 0)))
			if row[fmt.Sprint(id)] == "err:ErrAddressType" {
				row[fmt.Sprint(id)] = "ErrAddressType"
			}
		}
		out[cls] = row
	}
	return jsonOut(env, out)
}
