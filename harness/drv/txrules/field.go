// C16: field mutation table on types.Transaction (Hash / FullHash / Clone / CloneTx / Sign / CheckSign).
package main

import (
	"bytes"
	"fmt"
	"math/rand"

	"github.com/33cn/chain33/common/address"
	"github.com/33cn/chain33/common/crypto"
	"github.com/33cn/chain33/types"
	"google.golang.org/protobuf/proto"
	"google.golang.org/protobuf/reflect/protoreflect"
	"verif/harness/core"
)

// cmdFields prints the protobuf field lists read by reflection and the registered crypto drivers.
func cmdFields(env *core.Env, args []string) int {
	out := map[string]any{}
	list := func(m protoreflect.Message) (names []string, kinds map[string]string) {
		kinds = map[string]string{}
		fs := m.Descriptor().Fields()
		for i := 0; i < fs.Len(); i++ {
			f := fs.Get(i)
			names = append(names, string(f.Name()))
			kinds[string(f.Name())] = f.Kind().String()
		}
		return
	}
	tn, tk := list((&types.Transaction{}).ProtoReflect())
	sn, sk := list((&types.Signature{}).ProtoReflect())
	var msg []string
	for _, n := range tn {
		if tk[n] == "message" {
			msg = append(msg, n)
		}
	}
	out["tx_fields"], out["tx_kinds"] = tn, tk
	out["sig_fields"], out["sig_kinds"] = sn, sk
	out["msg_fields"] = msg
	names, ids := crypto.GetCryptoList()
	cl := map[string]int32{}
	for i := range names {
		cl[names[i]] = ids[i]
	}
	out["crypto"] = cl
	var can []string
	for _, n := range sortedKeys(cl) {
		if _, ok := signers[n]; ok || n == "none" {
			can = append(can, n)
		}
	}
	out["crypto_usable"] = can
	fm := []int32{}
	for id := range address.GetDriverList() {
		fm = append(fm, id)
	}
	out["addr_ids"] = fm
	return jsonOut(env, out)
}

// signers: how a deterministic private key of each keyed type is made from 32 seed bytes
var signers = map[string]int{"secp256k1": 32, "ed25519": 32, "sm2": 32, "secp256r1": 32, "secp256k1eth": 32}

func privKey(name string, seed []byte) (crypto.PrivKey, error) {
	c, err := crypto.Load(name, -1)
	if err != nil {
		return nil, err
	}
	// keep the scalar inside every curve order
	s := append([]byte{}, seed[:32]...)
	s[0] &= 0x7f
	if s[0] == 0 && s[1] == 0 {
		s[1] = 1
	}
	return c.PrivKeyFromBytes(s)
}

type fieldDrv struct {
	env   *core.Env
	r     *rand.Rand
	tx    *types.Transaction
	orig  *types.Transaction
	sig   string
	mut   string
	wire  bool
	above int64
	grind bool // the history truncates the signature bytes: look for a signature ending in a zero byte
}

func (d *fieldDrv) Reset(env *core.Env, b *core.Behaviour) error {
	initCrypto(env)
	d.env = env
	d.r = rng(env, b.ID, "field")
	d.wire = env.Opt("via", "") == "wire"
	d.mut = ""
	d.grind = false
	for _, s := range b.Steps {
		if s.Op() == "Mutate" && s.Str("scope") == "sig" && s.Str("field") == "signature" && s.Str("mut") == "trunc" {
			d.grind = true
		}
	}
	d.above = 1 + int64(d.r.Intn(5))*int64(d.r.Intn(1000000)+1)
	execers := []string{"coins", "none", "token", "user.p.test.coins", "user.write", "user.evm.0xabc", "x"}
	sizes := []int{1, 7, 32, 200, 999, 1000, 1001, 3000}
	to := address.PubKeyToAddr(address.DefaultID, rbytes(d.r, 33))
	d.tx = &types.Transaction{
		Execer:     []byte(execers[d.r.Intn(len(execers))]),
		Payload:    rbytes(d.r, sizes[d.r.Intn(len(sizes))]),
		Fee:        2 + d.r.Int63n(1<<40),
		Expire:     2 + d.r.Int63n(1<<50),
		Nonce:      2 + d.r.Int63n(1<<62),
		To:         to,
		GroupCount: 2 + int32(d.r.Intn(19)),
		Header:     rbytes(d.r, 32),
		Next:       rbytes(d.r, 32),
		ChainID:    2 + int32(d.r.Intn(1<<20)),
	}
	d.tx.Payload[0] = 7 // never a well-formed protobuf message (secp256k1eth looks into evm payloads)
	// every field must start non-default, otherwise mutation "zero" would not alter it
	m := d.tx.ProtoReflect()
	fs := m.Descriptor().Fields()
	for i := 0; i < fs.Len(); i++ {
		f := fs.Get(i)
		if f.Kind() == protoreflect.MessageKind || m.Has(f) {
			continue
		}
		switch f.Kind() {
		case protoreflect.BytesKind:
			m.Set(f, protoreflect.ValueOfBytes(rbytes(d.r, 16)))
		case protoreflect.StringKind:
			m.Set(f, protoreflect.ValueOfString("verif-new-field"))
		case protoreflect.Int64Kind, protoreflect.Sint64Kind, protoreflect.Sfixed64Kind:
			m.Set(f, protoreflect.ValueOfInt64(7))
		case protoreflect.Int32Kind, protoreflect.Sint32Kind, protoreflect.Sfixed32Kind:
			m.Set(f, protoreflect.ValueOfInt32(7))
		case protoreflect.Uint64Kind, protoreflect.Fixed64Kind:
			m.Set(f, protoreflect.ValueOfUint64(7))
		case protoreflect.Uint32Kind, protoreflect.Fixed32Kind:
			m.Set(f, protoreflect.ValueOfUint32(7))
		case protoreflect.BoolKind:
			m.Set(f, protoreflect.ValueOfBool(true))
		default:
			return fmt.Errorf("field %s of kind %s: no base value rule", f.Name(), f.Kind())
		}
	}
	return nil
}

func (d *fieldDrv) Close() {}

func (d *fieldDrv) height(hc string) int64 {
	if typeOff(d.sig) {
		switch hc {
		case "below":
			return 0
		case "at":
			return 1
		}
		return d.above
	}
	e := enableHeight(d.sig)
	switch hc {
	case "below":
		return e - 1
	case "at":
		return e
	}
	if e == 0 {
		return d.above
	}
	return e + 1
}

func (d *fieldDrv) Apply(s core.Step) (any, any, error) {
	switch s.Op() {
	case "Sign":
		d.sig = s.Str("sig")
		id := crypto.GetType(d.sig)
		if id == 0 {
			return nil, nil, fmt.Errorf("crypto driver %q not registered", d.sig)
		}
		ty := types.EncodeSignID(int32(id), int32(s.Int("fmt")))
		if d.sig == "none" {
			d.tx.Signature = &types.Signature{Ty: ty, Pubkey: rbytes(d.r, 33), Signature: rbytes(d.r, 64)}
		} else {
			priv, err := privKey(d.sig, rbytes(d.r, 32))
			if err != nil {
				return nil, nil, fmt.Errorf("key for %s: %v", d.sig, err)
			}
			d.tx.Sign(ty, priv)
			// hostile representation for "truncate the signature": a fixed-width parser that pads a short
			// signature with zeros accepts the truncation exactly when the dropped byte was zero
			for i := 0; d.grind && i < 3000; i++ {
				sb := d.tx.Signature.Signature
				if len(sb) > 0 && sb[len(sb)-1] == 0 {
					break
				}
				d.tx.Nonce++
				d.tx.Sign(ty, priv)
			}
		}
		if d.wire {
			var t types.Transaction
			if err := types.Decode(types.Encode(d.tx), &t); err != nil {
				return nil, nil, err
			}
			d.tx = &t
		}
		d.orig = proto.Clone(d.tx).(*types.Transaction)
		return "ok", nil, nil
	case "Mutate":
		var m protoreflect.Message
		if s.Str("scope") == "sig" {
			// never touch the signature object shared with orig
			d.tx.Signature = proto.Clone(d.tx.Signature).(*types.Signature)
			m = d.tx.Signature.ProtoReflect()
		} else {
			m = d.tx.ProtoReflect()
		}
		f := m.Descriptor().Fields().ByName(protoreflect.Name(s.Str("field")))
		if f == nil {
			return nil, nil, fmt.Errorf("no field %s.%s", s.Str("scope"), s.Str("field"))
		}
		if err := mutate(d.r, m, f, s.Str("mut")); err != nil {
			return nil, nil, err
		}
		if proto.Equal(d.tx, d.orig) {
			return nil, nil, fmt.Errorf("mutation %s of %s.%s did not alter the transaction", s.Str("mut"), s.Str("scope"), s.Str("field"))
		}
		d.mut = fmt.Sprintf("%s.%s:%s", s.Str("scope"), s.Str("field"), s.Str("mut"))
		if d.wire {
			var t types.Transaction
			if err := types.Decode(types.Encode(d.tx), &t); err != nil {
				return nil, nil, err
			}
			d.tx = &t
		}
		return "ok", nil, nil
	case "Observe":
		h := d.height(s.Str("hc"))
		cmp := func(a, b []byte) string {
			if bytes.Equal(a, b) {
				return "same"
			}
			return "changed"
		}
		ret := map[string]any{}
		hash, full := d.tx.Hash(), d.tx.FullHash()
		ret["hash"] = cmp(hash, d.orig.Hash())
		ret["full"] = cmp(full, d.orig.FullHash())
		c1, c2 := d.tx.Clone(), types.CloneTx(d.tx)
		cl := "same"
		switch {
		case !bytes.Equal(c1.Hash(), hash):
			cl = "Clone.Hash differs"
		case !bytes.Equal(c1.FullHash(), full):
			cl = "Clone.FullHash differs"
		case !bytes.Equal(c2.Hash(), hash):
			cl = "CloneTx.Hash differs"
		case !bytes.Equal(c2.FullHash(), full):
			cl = "CloneTx.FullHash differs"
		case !bytes.Equal(d.tx.Hash(), hash) || !bytes.Equal(d.tx.FullHash(), full):
			cl = "hash not stable"
		}
		ret["clone"] = cl
		ret["sign"] = fmt.Sprint(d.tx.CheckSign(h))
		return ret, nil, nil
	}
	return nil, nil, fmt.Errorf("unknown op %q", s.Op())
}

// mutate alters field f of message m; every rule yields a value different from a non-default original.
func mutate(r *rand.Rand, m protoreflect.Message, f protoreflect.FieldDescriptor, mut string) error {
	bmut := func(b []byte) ([]byte, error) {
		n := append([]byte{}, b...)
		switch mut {
		case "flip": // a bit of any byte but the first (flip0 owns the first byte: format / version prefixes)
			if len(n) == 0 {
				return nil, fmt.Errorf("flip of empty value")
			}
			i := 0
			if len(n) > 1 {
				i = 1 + r.Intn(len(n)-1)
			}
			n[i] ^= 1 << uint(r.Intn(8))
		case "flip0":
			if len(n) == 0 {
				return nil, fmt.Errorf("flip0 of empty value")
			}
			n[0] ^= 1 << uint(r.Intn(8))
		case "zero":
			n = nil
		case "ext1":
			n = append(n, byte(r.Intn(256)))
		case "ext32":
			n = append(n, rbytes(r, 32)...)
		case "trunc":
			if len(n) == 0 {
				return nil, fmt.Errorf("trunc of empty value")
			}
			n = n[:len(n)-1]
		default:
			return nil, fmt.Errorf("unknown mutation %q", mut)
		}
		return n, nil
	}
	imut := func(v int64, bits uint) (int64, error) {
		switch mut {
		case "flip":
			return v ^ (1 << uint(1+r.Intn(int(bits)-3))), nil
		case "flip0":
			return v ^ 1, nil
		case "zero":
			return 0, nil
		case "ext1":
			return v + 1, nil
		case "ext32":
			return v + (1 << (bits / 2)), nil
		case "trunc":
			return v >> 1, nil
		}
		return 0, fmt.Errorf("unknown mutation %q", mut)
	}
	switch f.Kind() {
	case protoreflect.BytesKind:
		n, err := bmut(m.Get(f).Bytes())
		if err != nil {
			return err
		}
		if n == nil {
			m.Clear(f)
		} else {
			m.Set(f, protoreflect.ValueOfBytes(n))
		}
	case protoreflect.StringKind:
		s := []byte(m.Get(f).String())
		switch mut {
		case "flip", "flip0": // stay inside valid UTF-8: another ASCII letter
			i := 0
			if mut == "flip" && len(s) > 1 {
				i = 1 + r.Intn(len(s)-1)
			}
			c := byte('a' + r.Intn(26))
			if c == s[i] {
				c = 'Z'
			}
			s[i] = c
		case "ext1":
			s = append(s, byte('a'+r.Intn(26)))
		case "ext32":
			for i := 0; i < 32; i++ {
				s = append(s, byte('a'+r.Intn(26)))
			}
		default:
			n, err := bmut(s)
			if err != nil {
				return err
			}
			s = n
		}
		m.Set(f, protoreflect.ValueOfString(string(s)))
	case protoreflect.Int64Kind, protoreflect.Sint64Kind, protoreflect.Sfixed64Kind:
		n, err := imut(m.Get(f).Int(), 64)
		if err != nil {
			return err
		}
		m.Set(f, protoreflect.ValueOfInt64(n))
	case protoreflect.Int32Kind, protoreflect.Sint32Kind, protoreflect.Sfixed32Kind:
		n, err := imut(m.Get(f).Int(), 32)
		if err != nil {
			return err
		}
		m.Set(f, protoreflect.ValueOfInt32(int32(n)))
	case protoreflect.Uint64Kind, protoreflect.Fixed64Kind:
		n, err := imut(int64(m.Get(f).Uint()), 64)
		if err != nil {
			return err
		}
		m.Set(f, protoreflect.ValueOfUint64(uint64(n)))
	case protoreflect.Uint32Kind, protoreflect.Fixed32Kind:
		n, err := imut(int64(m.Get(f).Uint()), 32)
		if err != nil {
			return err
		}
		m.Set(f, protoreflect.ValueOfUint32(uint32(n)))
	case protoreflect.BoolKind:
		m.Set(f, protoreflect.ValueOfBool(!m.Get(f).Bool()))
	case protoreflect.MessageKind:
		if mut != "zero" {
			return fmt.Errorf("message field %s: only mutation zero", f.Name())
		}
		m.Clear(f)
	default:
		return fmt.Errorf("field %s: kind %s not handled", f.Name(), f.Kind())
	}
	return nil
}

// NonTrivial (C16): a mutated field, or a height-gated / disabled signature type (rows other than the baseline).
func (d *fieldDrv) NonTrivial(env *core.Env, b *core.Behaviour) bool {
	for _, s := range b.Steps {
		if s.Op() == "Mutate" {
			return true
		}
		if s.Op() == "Sign" && (typeOff(s.Str("sig")) || enableHeight(s.Str("sig")) > 0) {
			return true
		}
	}
	return false
}

// Signature: table | signature type | mutation | differing observation | expected | observed
// (the height class only when nothing was mutated, i.e. the height gate itself is wrong).
func (d *fieldDrv) Signature(b *core.Behaviour, idx int, field string, exp, obs any) string {
	s := b.Steps[idx]
	if field == "panic" {
		return fmt.Sprintf("field|sig=%s|mut=%s|panic|%s", d.sig, orDash(d.mut), s.Op())
	}
	e, _ := exp.(map[string]any)
	o, _ := obs.(map[string]any)
	for _, k := range []string{"hash", "full", "clone", "sign"} {
		if !core.Match(e[k], o[k]) {
			hc := ""
			if d.mut == "" {
				hc = "|hc=" + s.Str("hc")
			}
			return fmt.Sprintf("field|sig=%s|mut=%s%s|%s|exp=%v|got=%v", d.sig, orDash(d.mut), hc, k, e[k], o[k])
		}
	}
	return fmt.Sprintf("field|sig=%s|mut=%s|%s|exp=%s|got=%s", d.sig, orDash(d.mut), s.Op(), core.J(exp), core.J(obs))
}

func protoName(s string) protoreflect.Name { return protoreflect.Name(s) }

func orDash(s string) string {
	if s == "" {
		return "-"
	}
	return s
}
