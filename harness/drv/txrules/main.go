// Driver for the TxRules family:
//
//	C16 (TxField.tla)  field x mutation x signature type x height class on types.Transaction
//	C17 (TxGroup.tla)  group size x mutation rows on types.CreateTxGroup / Transactions.Check / CheckSign
//	C19 (Pure.tla)     query histories on the address / public key / signature validity checks, replayed in a
//	                   long-lived child process and compared with fresh child processes
//
// The table a behaviour belongs to is recognised from its first step.
package main

import (
	"encoding/json"
	"fmt"
	"hash/fnv"
	"math/rand"
	"os"
	"sort"
	"strconv"
	"strings"
	"sync"

	"github.com/33cn/chain33/common/crypto"
	clog "github.com/33cn/chain33/common/log"
	_ "github.com/33cn/chain33/system/address"
	_ "github.com/33cn/chain33/system/crypto/init"
	"github.com/33cn/chain33/types"
	"verif/harness/core"
)

type drv struct {
	sub core.Driver
}

func (d *drv) Reset(env *core.Env, b *core.Behaviour) error {
	if len(b.Steps) == 0 {
		return fmt.Errorf("empty behaviour")
	}
	switch b.Steps[0].Op() {
	case "Sign":
		d.sub = &fieldDrv{}
	case "Create":
		d.sub = &groupDrv{}
	case "QueryAll", "Query":
		d.sub = &pureDrv{}
	default:
		return fmt.Errorf("unknown table for first op %q", b.Steps[0].Op())
	}
	return d.sub.Reset(env, b)
}

func (d *drv) Apply(s core.Step) (any, any, error) { return d.sub.Apply(s) }

func (d *drv) Close() {
	if d.sub != nil {
		d.sub.Close()
	}
}

func (d *drv) NonTrivial(env *core.Env, b *core.Behaviour) bool {
	if c, ok := d.sub.(core.Classifier); ok {
		return c.NonTrivial(env, b)
	}
	return true
}

func (d *drv) Signature(b *core.Behaviour, idx int, field string, exp, obs any) string {
	if idx >= len(b.Steps) { // a panic is reported with the count of started steps
		idx = len(b.Steps) - 1
	}
	if idx < 0 {
		idx = 0
	}
	if s, ok := d.sub.(core.Signer); ok {
		return s.Signature(b, idx, field, exp, obs)
	}
	return ""
}

// ---------------------------------------------------------------------------------------
// process-wide configuration of the crypto drivers (options entypes / enh), applied once
// through the public crypto.Init API with a sub-configuration for secp256k1eth.

var (
	cryptoOnce sync.Once
	enHeights  = map[string]int64{}
	enTypes    []string
	cfgOnce    sync.Once
	chainCfg   *types.Chain33Config
)

const evmChainID = 3999

// parseHeights parses "name:h+name:h".
func parseHeights(s string) map[string]int64 {
	m := map[string]int64{}
	for _, kv := range strings.Split(s, "+") {
		p := strings.SplitN(kv, ":", 2)
		if len(p) != 2 {
			continue
		}
		n, err := strconv.ParseInt(p[1], 10, 64)
		if err == nil {
			m[p[0]] = n
		}
	}
	return m
}

func initCrypto(env *core.Env) {
	cryptoOnce.Do(func() {
		if v := env.Opt("entypes", ""); v != "" {
			enTypes = strings.Split(v, "+")
		}
		enHeights = parseHeights(env.Opt("enh", ""))
		sub := map[string][]byte{"secp256k1eth": []byte(fmt.Sprintf(`{"evmChainID":%d}`, evmChainID))}
		crypto.Init(&crypto.Config{EnableTypes: enTypes, EnableHeight: enHeights}, sub)
	})
}

func chain33Cfg() *types.Chain33Config {
	cfgOnce.Do(func() {
		chainCfg = types.NewChain33Config(types.GetDefaultCfgstring())
	})
	return chainCfg
}

// typeOff mirrors what crypto.Init does with the options: is the type disabled at every height?
func typeOff(name string) bool {
	en := name != "none" // none registers with WithRegOptionDefaultDisable
	if len(enTypes) > 0 {
		en = false
		for _, t := range enTypes {
			if t == name {
				en = true
			}
		}
	}
	if !en {
		return true
	}
	if h, ok := enHeights[name]; ok && h < 0 {
		return true
	}
	return false
}

func enableHeight(name string) int64 {
	if h, ok := enHeights[name]; ok && !typeOff(name) {
		return h
	}
	return 0
}

// ---------------------------------------------------------------------------------------
// seeded randomness per behaviour

func rng(env *core.Env, id string, extra string) *rand.Rand {
	h := fnv.New64a()
	h.Write([]byte(id))
	h.Write([]byte{0})
	h.Write([]byte(extra))
	return rand.New(rand.NewSource(env.Seed*1000003 + int64(h.Sum64()>>1) + int64(env.OptInt("salt", 0))*7919))
}

func rbytes(r *rand.Rand, n int) []byte {
	b := make([]byte, n)
	r.Read(b)
	return b
}

func jsonOut(env *core.Env, v any) int {
	b, _ := json.MarshalIndent(v, "", " ")
	if p := env.Opt("out", ""); p != "" {
		if err := os.WriteFile(p, b, 0o644); err != nil {
			fmt.Fprintln(os.Stderr, err)
			return 2
		}
		return 0
	}
	fmt.Println(string(b))
	return 0
}

func sortedKeys[V any](m map[string]V) []string {
	ks := make([]string, 0, len(m))
	for k := range m {
		ks = append(ks, k)
	}
	sort.Strings(ks)
	return ks
}

func main() {
	clog.SetLogLevel("crit") // rejected signatures are logged at error level by some drivers
	core.Main(&core.Family{
		Name:      "TxRules",
		NewDriver: func() core.Driver { return &drv{} },
		Recorders: map[string]core.Recorder{"pure": recordPure},
		Extra: map[string]func(env *core.Env, args []string) int{
			"fields":   cmdFields,
			"child":    cmdChild,
			"verdicts": cmdVerdicts,
		},
	})
}
