package main

import (
	"fmt"
	"os"
	"time"

	"github.com/33cn/chain33/common/address"
	"github.com/33cn/chain33/common/crypto"
	_ "github.com/33cn/chain33/system/address"
	"github.com/33cn/chain33/system/address/btc"
	_ "github.com/33cn/chain33/system/crypto/init"
	"github.com/decred/base58"
	"github.com/33cn/chain33/common"
)

func mk(ver byte, n int, good bool) string {
	b := make([]byte, 1+n)
	b[0] = ver
	for i := 1; i <= n; i++ {
		b[i] = byte(i * 7)
	}
	var ck []byte
	if n == 20 {
		ck = common.Sha2Sum(b)[:4]
	} else {
		ck = common.Sha2Sum(b)[:4]
	}
	if !good {
		ck[0] ^= 1
	}
	return base58.Encode(append(b, ck...))
}

func main() {
	t0 := time.Now()
	if len(os.Args) > 1 && os.Args[1] == "noop" {
		return
	}
	address.Init(&address.Config{EnableHeight: map[string]int64{"eth": 100, "btcMultiSign": 0}})
	crypto.Init(&crypto.Config{}, nil)
	_ = btc.NormalName
	ins := map[string]string{
		"btc": mk(0, 20, true), "ms": mk(5, 20, true), "badver": mk(7, 20, true), "badsum": mk(0, 20, false),
		"long": mk(0, 24, false), "longok": mk(0, 24, true), "junk": "hello world!!", "eth": "0xde0b295669a9fd93d5f28d9ec85e40f4cb697bae",
		"ethmix": "0xde0B295669a9FD93d5F28D9Ec85E40f4cb697BAe", "short": "1111", "empty": "",
	}
	for k, a := range ins {
		for id, d := range address.GetDriverList() {
			fmt.Printf("%-7s drv=%d %v\n", k, id, d.ValidateAddr(a))
		}
	}
	a := ins["eth"]
	fmt.Println("eth@50", address.CheckAddress(a, 50), "eth@150", address.CheckAddress(a, 150))
	b := ins["ethmix"]
	fmt.Println("ethmix@150", address.CheckAddress(b, 150), "ethmix@50", address.CheckAddress(b, 50))
	fmt.Println(time.Since(t0))
}
