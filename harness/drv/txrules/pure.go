// C19: replay of query histories. Every history runs in its own long-lived child process; every answer is
// compared with the binding table of fresh-process answers keyed by (op, input, h) under the run's configuration.
package main

import (
	"bufio"
	"encoding/json"
	"fmt"
	"io"
	"math/rand"
	"os"
	"os/exec"
	"sort"
	"strings"
	"sync"

	"verif/harness/core"
)

var addrClasses = []string{"btc", "ms", "eth", "ethmix", "badver", "badsum", "longsum", "junk", "exec"}

// questions of one operation group on one class ("" = every class)
func addrQuestions(cls string, ninst int) []Question {
	var qs []Question
	for _, c := range addrClasses {
		if cls != "" && c != cls {
			continue
		}
		for i := 0; i < ninst; i++ {
			for _, op := range []string{"addr", "dapp", "type"} {
				qs = append(qs, Question{Op: op, Cls: c, Inst: i})
			}
		}
	}
	return qs
}

func keyQuestions(pc pureCfg, ninst int) []Question {
	var qs []Question
	for id := 0; id < 4; id++ {
		qs = append(qs, Question{Op: "load", Cls: "drv", Inst: id})
	}
	for i := 0; i < ninst; i++ {
		for _, k := range []string{"k33", "k65", "k32"} {
			for _, f := range []string{"0", "1", "2"} {
				qs = append(qs, Question{Op: "pk2a", Cls: k + ":" + f, Inst: i})
			}
		}
		for _, f := range []string{"0", "2"} {
			qs = append(qs, Question{Op: "from", Cls: f, Inst: i})
		}
		for _, t := range []string{"secp256k1", pc.SigType} {
			qs = append(qs, Question{Op: "sign", Cls: t, Inst: i})
		}
	}
	qs = append(qs, Question{Op: "execaddr", Cls: "coins"}, Question{Op: "execaddr", Cls: "user.p.test.token"})
	return qs
}

func allQuestions(pc pureCfg, ninst int) []Question {
	return append(addrQuestions("", ninst), keyQuestions(pc, (ninst+1)/2)...)
}

// ---------------------------------------------------------------------------------------
// child process handle

type childProc struct {
	cmd *exec.Cmd
	in  io.WriteCloser
	out *bufio.Reader
}

func childArgs(env *core.Env) []string {
	var kv []string
	for _, k := range sortedKeys(env.Opts) {
		kv = append(kv, k+"="+env.Opts[k])
	}
	return []string{"child", "--seed", fmt.Sprint(env.Seed), "--opt", strings.Join(kv, ",")}
}

func startChild(env *core.Env) (*childProc, error) {
	cmd := exec.Command(os.Args[0], childArgs(env)...)
	cmd.Stderr = io.Discard
	in, err := cmd.StdinPipe()
	if err != nil {
		return nil, err
	}
	out, err := cmd.StdoutPipe()
	if err != nil {
		return nil, err
	}
	if err := cmd.Start(); err != nil {
		return nil, err
	}
	return &childProc{cmd: cmd, in: in, out: bufio.NewReaderSize(out, 1<<20)}, nil
}

func (c *childProc) ask(h int64, qs []Question) ([]string, error) {
	b, _ := json.Marshal(request{H: h, Qs: qs})
	if _, err := c.in.Write(append(b, '\n')); err != nil {
		return nil, fmt.Errorf("child write: %v", err)
	}
	line, err := c.out.ReadBytes('\n')
	if err != nil {
		return nil, fmt.Errorf("child read: %v", err)
	}
	var rp reply
	if err := json.Unmarshal(line, &rp); err != nil {
		return nil, fmt.Errorf("child reply: %v (%s)", err, line)
	}
	if rp.Err != "" || len(rp.Ans) != len(qs) {
		return nil, fmt.Errorf("child reply error %q (%d answers for %d questions)", rp.Err, len(rp.Ans), len(qs))
	}
	return rp.Ans, nil
}

func (c *childProc) stop() {
	if c == nil {
		return
	}
	c.in.Close()
	c.cmd.Wait()
}

// ---------------------------------------------------------------------------------------
// binding table of fresh answers, per height: `reps` fresh processes answer the whole question list
// at that height only (each in its own order); `strict` further fresh processes answer one single
// question each. An entry on which the fresh processes disagree is unstable (itself a violation:
// the answer is not a function of (input, h, cfg)).

type freshEntry struct {
	once     sync.Once
	table    map[string]string
	unstable map[string][]string
	err      error
}

var (
	freshMu  sync.Mutex
	freshTab = map[int64]*freshEntry{}
	procSem  = make(chan struct{}, 6) // fresh oracle processes running at once
)

func shuffled(r *rand.Rand, qs []Question) []Question {
	out := append([]Question{}, qs...)
	r.Shuffle(len(out), func(i, j int) { out[i], out[j] = out[j], out[i] })
	return out
}

func freshAt(env *core.Env, pc pureCfg, h int64) *freshEntry {
	freshMu.Lock()
	e := freshTab[h]
	if e == nil {
		e = &freshEntry{}
		freshTab[h] = e
	}
	freshMu.Unlock()
	e.once.Do(func() {
		ninst := env.OptInt("inst", 3)
		reps := env.OptInt("reps", 5)
		strict := env.OptInt("strict", 6)
		qs := allQuestions(pc, ninst)
		r := rand.New(rand.NewSource(env.Seed*31 + h))
		e.table = map[string]string{}
		e.unstable = map[string][]string{}
		var mu sync.Mutex
		var wg sync.WaitGroup
		note := func(k, a string) {
			mu.Lock()
			defer mu.Unlock()
			if old, ok := e.table[k]; !ok {
				e.table[k] = a
			} else if old != a {
				if len(e.unstable[k]) == 0 {
					e.unstable[k] = []string{old}
				}
				e.unstable[k] = append(e.unstable[k], a)
			}
		}
		run := func(list []Question) {
			defer wg.Done()
			procSem <- struct{}{}
			defer func() { <-procSem }()
			c, err := startChild(env)
			if err == nil {
				var ans []string
				ans, err = c.ask(h, list)
				c.stop()
				for i := range ans {
					note(list[i].Key(), ans[i])
				}
			}
			if err != nil {
				mu.Lock()
				e.err = err
				mu.Unlock()
			}
		}
		for i := 0; i < reps; i++ {
			wg.Add(1)
			go run(shuffled(r, qs))
		}
		sq := shuffled(r, qs)
		if strict < 0 || strict > len(sq) {
			strict = len(sq)
		}
		for i := 0; i < strict; i++ {
			wg.Add(1)
			go run(sq[i : i+1])
		}
		wg.Wait()
	})
	return e
}

// ---------------------------------------------------------------------------------------

type pureDrv struct {
	env   *core.Env
	pc    pureCfg
	r     *rand.Rand
	child *childProc
	ninst int
	hist  []string
	sig   string
}

func (d *pureDrv) Reset(env *core.Env, b *core.Behaviour) error {
	d.env = env
	d.pc = pureCfgOf(env)
	d.r = rng(env, b.ID, "pure")
	d.ninst = env.OptInt("inst", 3)
	d.hist = nil
	d.sig = ""
	c, err := startChild(env)
	if err != nil {
		return err
	}
	d.child = c
	return nil
}

func (d *pureDrv) Close() {
	if d.child != nil {
		d.child.stop()
		d.child = nil
	}
}

func ansClass(a string) string {
	switch {
	case strings.HasPrefix(a, "0x") && len(a) == 42 && a == strings.ToLower(a):
		return "eth-lower"
	case strings.HasPrefix(a, "0x") && len(a) == 42:
		return "eth-mixed"
	case len(a) >= 26 && len(a) <= 36 && !strings.ContainsAny(a, ":| "):
		return "base58"
	case strings.HasPrefix(a, "panic:"):
		return "panic"
	}
	return a
}

func (d *pureDrv) Apply(s core.Step) (any, any, error) {
	h := int64(s.Int("h"))
	var qs []Question
	switch s.Op() {
	case "QueryAll":
		qs = allQuestions(d.pc, d.ninst)
	case "Query":
		if s.Str("q") == "addr" {
			qs = addrQuestions(s.Str("cls"), d.ninst)
		} else {
			qs = keyQuestions(d.pc, (d.ninst+1)/2)
		}
	default:
		return nil, nil, fmt.Errorf("unknown op %q", s.Op())
	}
	qs = shuffled(d.r, qs)
	fe := freshAt(d.env, d.pc, h)
	if fe.err != nil {
		return nil, nil, fmt.Errorf("fresh oracle at h=%d: %v", h, fe.err)
	}
	ans, err := d.child.ask(h, qs)
	if err != nil {
		return nil, nil, err
	}
	d.hist = append(d.hist, fmt.Sprint(h))
	type diff struct{ key, fresh, got string }
	var diffs []diff
	for i, q := range qs {
		k := q.Key()
		if u := fe.unstable[k]; len(u) > 0 {
			diffs = append(diffs, diff{k, "unstable:" + strings.Join(uniq(u), "/"), ans[i]})
			continue
		}
		f, ok := fe.table[k]
		if !ok {
			return nil, nil, fmt.Errorf("no fresh answer for %s at h=%d", k, h)
		}
		if f != ans[i] {
			diffs = append(diffs, diff{k, f, ans[i]})
		}
	}
	if len(diffs) == 0 {
		return "pure", nil, nil
	}
	sort.Slice(diffs, func(i, j int) bool { return diffs[i].key < diffs[j].key })
	x := diffs[0]
	p := strings.Split(x.key, "|")
	d.sig = fmt.Sprintf("pure|%s|cls=%s|h=%d|fresh=%s|got=%s|cfg=%s", p[0], p[1], h, ansClass(x.fresh), ansClass(x.got), d.env.Opt("cfg", "?"))
	if strings.HasPrefix(x.fresh, "unstable:") {
		d.sig = fmt.Sprintf("pure|fresh-processes-disagree|%s|cls=%s|h=%d|answers=%s|cfg=%s", p[0], p[1], h, strings.TrimPrefix(x.fresh, "unstable:"), d.env.Opt("cfg", "?"))
	}
	all := []any{}
	for i, y := range diffs {
		if i < 12 {
			all = append(all, map[string]any{"q": y.key, "fresh": y.fresh, "got": y.got})
		}
	}
	return map[string]any{"history_heights": strings.Join(d.hist, ","), "differing": len(diffs), "first": all}, nil, nil
}

func uniq(a []string) []string {
	m := map[string]bool{}
	var out []string
	for _, x := range a {
		if !m[x] {
			m[x] = true
			out = append(out, x)
		}
	}
	sort.Strings(out)
	return out
}

func crosses(bounds []int64, a, b int64) bool {
	for _, e := range bounds {
		if e == 0 {
			continue
		}
		sa, sb := a >= e || a < 0, b >= e || b < 0
		if e < 0 { // disabled at every height, but on without height context
			sa, sb = a < 0, b < 0
		}
		if sa != sb {
			return true
		}
	}
	return false
}

// NonTrivial (C19): some input is queried at two heights on different sides of an enable / fork height.
func (d *pureDrv) NonTrivial(env *core.Env, b *core.Behaviour) bool {
	bounds := pureCfgOf(env).boundaries()
	seen := map[string][]int64{}
	for _, s := range b.Steps {
		k := "*"
		if s.Op() == "Query" {
			k = s.Str("q") + s.Str("cls")
			if s.Str("q") != "addr" {
				k = "key"
			}
		}
		h := int64(s.Int("h"))
		for kk, hs := range seen {
			if kk == k || kk == "*" || k == "*" {
				for _, p := range hs {
					if crosses(bounds, p, h) {
						return true
					}
				}
			}
		}
		seen[k] = append(seen[k], h)
	}
	return false
}

func (d *pureDrv) Signature(b *core.Behaviour, idx int, field string, exp, obs any) string {
	if d.sig != "" {
		return d.sig
	}
	return fmt.Sprintf("pure|%s|%s", b.Steps[idx].Op(), field)
}

// ---------------------------------------------------------------------------------------
// recorder: random single-question histories over more heights, as an ndjson trace for Pure_Trace.tla

func recordPure(env *core.Env, emit func(map[string]any)) (*core.Summary, error) {
	pc := pureCfgOf(env)
	ntr := env.OptInt("n", 6)
	depth := env.OptInt("depth", 25)
	ninst := env.OptInt("inst", 3)
	r := rand.New(rand.NewSource(env.Seed*977 + 13))
	var heights []int64
	hs := map[int64]bool{-1: true, 0: true, 1: true}
	for _, e := range pc.boundaries() {
		if e > 0 {
			hs[e-1], hs[e], hs[e+1] = true, true, true
		}
	}
	for h := range hs {
		heights = append(heights, h)
	}
	sort.Slice(heights, func(i, j int) bool { return heights[i] < heights[j] })
	sum := &core.Summary{Counters: map[string]int{}}
	emit(map[string]any{"ev": "Reset"})
	// the binding table first
	for _, h := range heights {
		fe := freshAt(env, pc, h)
		if fe.err != nil {
			return nil, fe.err
		}
		for _, k := range sortedKeys(fe.table) {
			emit(map[string]any{"ev": "Fresh", "key": fmt.Sprintf("%s|%d", k, h), "ret": fe.table[k]})
			for _, other := range fe.unstable[k] {
				emit(map[string]any{"ev": "Fresh", "key": fmt.Sprintf("%s|%d", k, h), "ret": other})
			}
		}
	}
	bounds := pc.boundaries()
	for t := 0; t < ntr; t++ {
		if t > 0 {
			emit(map[string]any{"ev": "Reset"})
		}
		c, err := startChild(env)
		if err != nil {
			return nil, err
		}
		nt := false
		var prev []int64
		var steps []any
		for i := 0; i < depth; i++ {
			h := heights[r.Intn(len(heights))]
			q, cls := "addr", addrClasses[r.Intn(len(addrClasses))]
			var qs []Question
			if r.Intn(4) == 0 {
				q, cls = "key", "btc"
				qs = keyQuestions(pc, (ninst+1)/2)
			} else {
				qs = addrQuestions(cls, ninst)
			}
			if r.Intn(6) == 0 { // a node step: everything at this height
				q, cls = "all", "-"
				qs = allQuestions(pc, ninst)
			}
			qs = shuffled(r, qs)
			ans, err := c.ask(h, qs)
			if err != nil {
				c.stop()
				return nil, err
			}
			emit(map[string]any{"ev": "Query", "q": q, "cls": cls, "h": h})
			for j := range qs {
				emit(map[string]any{"ev": "Ans", "key": fmt.Sprintf("%s|%d", qs[j].Key(), h), "ret": ans[j]})
			}
			for _, p := range prev {
				if crosses(bounds, p, h) {
					nt = true
				}
			}
			prev = append(prev, h)
			if len(steps) < 12 {
				steps = append(steps, map[string]any{"op": "Query", "q": q, "cls": cls, "h": h})
			}
		}
		c.stop()
		sum.Behaviours++
		sum.Steps += depth
		if nt {
			sum.NonTrivial++
		}
		if len(sum.Samples) < 2 {
			sum.Samples = append(sum.Samples, map[string]any{"id": fmt.Sprintf("rec-%d", t), "steps": steps})
		}
	}
	return sum, nil
}
