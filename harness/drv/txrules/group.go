// C17: transaction group rows on types.CreateTxGroup / Transactions.Check / CheckSign / Transaction.GetTxGroup.
package main

import (
	"fmt"
	"math/rand"
	"time"

	"github.com/33cn/chain33/common"
	"github.com/33cn/chain33/common/address"
	"github.com/33cn/chain33/common/crypto"
	"github.com/33cn/chain33/types"
	"google.golang.org/protobuf/proto"
	"verif/harness/core"
)

type member struct {
	ty   int32
	priv crypto.PrivKey
}

type groupDrv struct {
	env     *core.Env
	r       *rand.Rand
	cfg     *types.Chain33Config
	txs     []*types.Transaction
	keys    []member
	kind    string
	feeRate int64
	height  int64
	mut     string
}

var mainExecs = []string{"coins", "token", "none", "user.write", "user.evm.0xd996a3", "manage"}
var paraExecs = []string{"user.p.test.coins", "user.p.test.token", "user.p.test.none", "user.p.test.user.write"}
var groupSigTypes = []string{"secp256k1", "ed25519", "sm2", "secp256r1", "secp256k1eth"}

func (d *groupDrv) Reset(env *core.Env, b *core.Behaviour) error {
	initCrypto(env)
	d.env = env
	d.r = rng(env, b.ID, "group")
	d.cfg = chain33Cfg()
	d.feeRate = d.cfg.GetMinTxFeeRate()
	hs := []int64{1, 10, 1000000, 100000000}
	d.height = hs[d.r.Intn(len(hs))]
	d.mut = ""
	return nil
}

func (d *groupDrv) Close() {}

func (d *groupDrv) newKey() member {
	name := groupSigTypes[d.r.Intn(len(groupSigTypes))]
	if d.env.Opt("sigs", "mixed") == "secp256k1" {
		name = "secp256k1"
	}
	priv, err := privKey(name, rbytes(d.r, 32))
	if err != nil {
		panic(err)
	}
	fm := []int32{0, 2}[d.r.Intn(2)]
	return member{ty: types.EncodeSignID(int32(crypto.GetType(name)), fm), priv: priv}
}

func (d *groupDrv) newTx() *types.Transaction {
	execs := mainExecs
	if d.kind == "para" {
		execs = paraExecs
	}
	// payload sizes around the 1000-byte fee steps (the fee is per started kilobyte)
	sizes := []int{0, 1, 40, 300, 560, 600, 650, 700, 880, 990, 1000, 1500, 1990, 2900}
	tx := &types.Transaction{
		Execer:  []byte(execs[d.r.Intn(len(execs))]),
		Payload: rbytes(d.r, sizes[d.r.Intn(len(sizes))]),
		Nonce:   d.r.Int63(),
		To:      address.PubKeyToAddr(address.DefaultID, rbytes(d.r, 33)),
		ChainID: d.cfg.GetChainID(),
	}
	if len(tx.Payload) > 0 {
		tx.Payload[0] = 7 // never a well-formed protobuf message (secp256k1eth looks into evm payloads)
	}
	switch d.r.Intn(5) {
	case 0:
		tx.Expire = 0
	case 1:
		tx.Expire = 1 + d.r.Int63n(1000000) // a height
	case 2:
		tx.Expire = time.Now().Unix() + 120 + d.r.Int63n(100000) // a time
	case 3:
		tx.Expire = types.TxHeightFlag + 1 + d.r.Int63n(1000000) // "H:" form
	case 4:
		tx.SetExpire(d.cfg, time.Duration(120+d.r.Intn(10000))*time.Second)
	}
	if d.r.Intn(3) == 0 {
		tx.Fee = d.r.Int63n(3 * d.feeRate) // what a member asked for before grouping
	}
	return tx
}

func (d *groupDrv) signAll() {
	for i := range d.txs {
		d.txs[i].Sign(d.keys[i].ty, d.keys[i].priv)
	}
}

func (d *groupDrv) group() *types.Transactions { return &types.Transactions{Txs: d.txs} }

func (d *groupDrv) required() int64 {
	t := int64(0)
	for _, tx := range d.txs {
		f, err := tx.GetRealFee(d.feeRate)
		if err != nil {
			panic(err)
		}
		t += f
	}
	return t
}

func cloneTxs(txs []*types.Transaction) []*types.Transaction {
	out := make([]*types.Transaction, len(txs))
	for i, t := range txs {
		out[i] = proto.Clone(t).(*types.Transaction)
	}
	return out
}

func (d *groupDrv) Apply(s core.Step) (any, any, error) {
	switch s.Op() {
	case "Create":
		n := s.Int("n")
		d.kind = s.Str("kind")
		d.txs, d.keys = nil, nil
		for i := 0; i < n; i++ {
			d.txs = append(d.txs, d.newTx())
			d.keys = append(d.keys, d.newKey())
		}
		g, err := types.CreateTxGroup(d.txs, d.feeRate)
		if err != nil {
			return "err:" + err.Error(), nil, nil
		}
		for i := range g.Txs {
			if err := g.SignN(i, d.keys[i].ty, d.keys[i].priv); err != nil {
				return "err:" + err.Error(), nil, nil
			}
		}
		d.txs = g.Txs
		return "ok", nil, nil
	case "Mutate":
		if err := d.mutate(s); err != nil {
			return nil, nil, err
		}
		return "ok", nil, nil
	case "Observe":
		g := d.group()
		maxFee := d.cfg.GetMaxTxFee(d.height)
		errc := g.Check(d.cfg, d.height, d.feeRate, maxFee)
		direct := errc == nil && g.CheckSign(d.height)
		// the same group as the network carries it: one transaction whose header holds the members
		via := false
		if t := g.Tx(); t != nil {
			var w types.Transaction
			if err := types.Decode(types.Encode(t), &w); err != nil {
				return nil, nil, err
			}
			if w.Check(d.cfg, d.height, d.feeRate, maxFee) == nil {
				tc := types.NewTransactionCache(&w)
				via = tc.Check(d.cfg, d.height, d.feeRate, maxFee) == nil && tc.CheckSign(d.height)
			}
		}
		ret := map[string]any{"pass": direct}
		if via != direct {
			ret["via_tx"] = via
		}
		return ret, nil, nil
	}
	return nil, nil, fmt.Errorf("unknown op %q", s.Op())
}

func flipBytes(r *rand.Rand, b []byte) []byte {
	n := append([]byte{}, b...)
	if len(n) == 0 {
		return rbytes(r, 32)
	}
	n[r.Intn(len(n))] ^= 1 << uint(r.Intn(8))
	return n
}

func (d *groupDrv) alter(tx *types.Transaction, f string) error {
	switch f {
	case "execer":
		execs := mainExecs
		if d.kind == "para" {
			execs = paraExecs
		}
		for {
			e := execs[d.r.Intn(len(execs))]
			if e != string(tx.Execer) {
				tx.Execer = []byte(e)
				break
			}
		}
	case "payload":
		tx.Payload = flipBytes(d.r, tx.Payload)
	case "signature":
		sg := proto.Clone(tx.Signature).(*types.Signature)
		sg.Signature = flipBytes(d.r, sg.Signature)
		tx.Signature = sg
	case "fee":
		tx.Fee++
	case "expire":
		tx.Expire++
	case "nonce":
		tx.Nonce++
	case "to":
		tx.To = address.PubKeyToAddr(address.DefaultID, rbytes(d.r, 33))
	case "groupCount":
		tx.GroupCount++
	case "header":
		tx.Header = flipBytes(d.r, tx.Header)
	case "next":
		tx.Next = flipBytes(d.r, tx.Next)
	case "chainID":
		tx.ChainID++
	default:
		// a field this driver has no rule for (added to the message later): alter it generically
		m := tx.ProtoReflect()
		fd := m.Descriptor().Fields().ByName(protoName(f))
		if fd == nil {
			return fmt.Errorf("no field %q", f)
		}
		return mutate(d.r, m, fd, "ext1")
	}
	return nil
}

func (d *groupDrv) mutate(s core.Step) error {
	name := s.Str("mut")
	i, j := s.Int("i")-1, s.Int("j")-1
	n := len(d.txs)
	d.txs = cloneTxs(d.txs)
	d.keys = append([]member{}, d.keys...)
	d.mut = name
	switch name {
	case "swap":
		d.txs[i], d.txs[j] = d.txs[j], d.txs[i]
		d.keys[i], d.keys[j] = d.keys[j], d.keys[i]
	case "drop":
		d.txs = append(d.txs[:i:i], d.txs[i+1:]...)
		d.keys = append(d.keys[:i:i], d.keys[i+1:]...)
	case "append":
		tx, k := d.newTx(), d.newKey()
		tx.Fee, tx.GroupCount, tx.Header, tx.Next = 0, int32(n), d.txs[0].Header, nil
		tx.Sign(k.ty, k.priv)
		d.txs, d.keys = append(d.txs, tx), append(d.keys, k)
	case "subst":
		tx, k := d.newTx(), d.newKey()
		v := d.txs[i]
		tx.Fee, tx.GroupCount, tx.Header, tx.Next = v.Fee, v.GroupCount, v.Header, v.Next
		tx.Sign(k.ty, k.priv)
		d.txs[i], d.keys[i] = tx, k
	case "alter":
		d.mut = "alter:" + s.Str("field")
		if s.Bool("resign") {
			d.mut += "+resign"
		}
		before := proto.Clone(d.txs[i]).(*types.Transaction)
		if err := d.alter(d.txs[i], s.Str("field")); err != nil {
			return err
		}
		if proto.Equal(before, d.txs[i]) {
			return fmt.Errorf("alter %s did not change member %d", s.Str("field"), i)
		}
		if s.Bool("resign") {
			d.txs[i].Sign(d.keys[i].ty, d.keys[i].priv)
		}
	case "alterRebuild":
		d.txs[i].Payload = flipBytes(d.r, d.txs[i].Payload)
		d.group().RebuiltGroup()
		d.txs[i].Sign(d.keys[i].ty, d.keys[i].priv)
	case "feeBelowSum":
		// the first member pays one unit less than the members require at the configured rate
		for k := 0; ; k++ {
			d.txs[0].Fee = d.required() - 1
			d.group().RebuiltGroup()
			d.signAll()
			if d.txs[0].Fee < d.required() {
				break
			}
			if k > 5 {
				return fmt.Errorf("cannot construct a fee below the required sum")
			}
		}
	case "memberFee":
		d.txs[i].Fee = 1 + d.r.Int63n(d.feeRate)
		d.group().RebuiltGroup()
		d.signAll()
	case "wrongCount":
		for _, tx := range d.txs {
			tx.GroupCount = int32(n + s.Int("j"))
		}
		d.group().RebuiltGroup()
		d.signAll()
	case "staleHeader":
		// the header every member signed is the first member's hash before its fee was settled
		t0 := proto.Clone(d.txs[0]).(*types.Transaction)
		t0.Fee = 0
		h := t0.Hash()
		if d.r.Intn(2) == 0 {
			h = common.Sha256(rbytes(d.r, 8))
		}
		for _, tx := range d.txs {
			tx.Header = h
		}
		d.signAll()
	case "staleNext":
		t := proto.Clone(d.txs[i+1]).(*types.Transaction)
		t.Nonce++
		d.txs[i].Next = t.Hash()
		d.signAll()
	default:
		return fmt.Errorf("unknown group mutation %q", name)
	}
	return nil
}

// NonTrivial (C17): a mutation row.
func (d *groupDrv) NonTrivial(env *core.Env, b *core.Behaviour) bool {
	for _, s := range b.Steps {
		if s.Op() == "Mutate" {
			return true
		}
	}
	return false
}

// Signature: table | mutation (with field / resign) | size class | what was expected and seen.
func (d *groupDrv) Signature(b *core.Behaviour, idx int, field string, exp, obs any) string {
	n := 0
	for _, s := range b.Steps {
		if s.Op() == "Create" {
			n = s.Int("n")
		}
	}
	sz := "n>2"
	if n == 2 {
		sz = "n=2"
	}
	if field == "panic" {
		return fmt.Sprintf("group|mut=%s|%s|panic|%s", orDash(d.mut), sz, b.Steps[idx].Op())
	}
	return fmt.Sprintf("group|mut=%s|kind=%s|%s|%s|exp=%s|got=%s", orDash(d.mut), d.kind, sz, b.Steps[idx].Op(), core.J(exp), core.J(obs))
}
