package main

import (
	"crypto/sha256"
	"fmt"
	"math/rand"
	"sync"

	"github.com/33cn/chain33/common/address"
	"github.com/33cn/chain33/common/crypto"
	"github.com/33cn/chain33/types"
)

// deterministic secp256k1 keys: key i is sha256("verif-pack-key-<i>")
var (
	keyMu    sync.Mutex
	keyCache = map[int]crypto.PrivKey{}
)

func privKey(i int) crypto.PrivKey { return privKeyTy(i, types.SECP256K1) }

// privKeyTy: key i for the crypto driver of signature type sigTy (secp256k1, secp256k1eth share
// the same scalar; ed25519 uses the same 32 seed bytes)
func privKeyTy(i int, sigTy int32) crypto.PrivKey {
	cid := types.ExtractCryptoID(sigTy)
	keyMu.Lock()
	defer keyMu.Unlock()
	ck := i*16 + int(cid)
	if k, ok := keyCache[ck]; ok {
		return k
	}
	c, err := crypto.Load(types.GetSignName("", int(cid)), -1)
	if err != nil {
		panic(err)
	}
	h := sha256.Sum256([]byte(fmt.Sprintf("verif-pack-key-%d", i)))
	k, err := c.PrivKeyFromBytes(h[:])
	if err != nil {
		panic(err)
	}
	keyCache[ck] = k
	return k
}

func btcAddr(i int) string { return address.PubKeyToAddr(0, privKey(i).PubKey().Bytes()) }
func ethAddr(i int) string { return address.PubKeyToAddr(2, privKey(i).PubKey().Bytes()) }

// shared filler for payloads (payload slices alias it; never written after init)
var (
	fillOnce sync.Once
	filler   []byte
)

func fill(n int) []byte {
	fillOnce.Do(func() {
		filler = make([]byte, 21<<20)
		r := rand.New(rand.NewSource(42))
		// cheap pseudo-random content: a 64 KiB random block repeated with a counter
		blk := make([]byte, 1<<16)
		r.Read(blk)
		for off := 0; off < len(filler); off += len(blk) {
			copy(filler[off:], blk)
			filler[off] = byte(off >> 16)
		}
	})
	if n > len(filler) {
		panic("filler too small")
	}
	return filler[:n]
}

// memberSpec describes one transaction to build.
type memberSpec struct {
	// hostileHash (first member of a group only): choose the nonce so that the 32-byte group
	// hash, which every expanded member carries in Header, parses as a protobuf message
	hostileHash bool
	key         int // signing key index
	sigTy  int32  // signature type id (crypto id | address id)
	to     string // recipient
	expire int64
	nonce  int64
	size   int // exact encoded size wanted (0: do not care)
	exec   string
}

func baseTx(cfg *types.Chain33Config, m memberSpec, payloadLen int) *types.Transaction {
	ex := m.exec
	if ex == "" {
		ex = "none"
	}
	return &types.Transaction{Execer: []byte(ex), Payload: fill(payloadLen), Fee: 1e6, Expire: m.expire,
		Nonce: m.nonce, To: m.to, ChainID: cfg.GetChainID()}
}

// buildItem builds a single transaction (len(ms)==1) or a transaction group whose members have
// approximately the requested sizes and whose TOTAL encoded size is exactly the sum of the
// requested sizes (signature lengths vary with the signed content, so only the total is
// steered: the property speaks about the size of the item). It returns the expanded member
// transactions (as they appear in a block) and the pool form (for a group: a copy of the head
// carrying the encoded group in Header, what the mempool hands to consensus).
func buildItem(cfg *types.Chain33Config, ms []memberSpec) (members []*types.Transaction, offered *types.Transaction, err error) {
	pl := make([]int, len(ms))
	want, sized := 0, true
	for i, m := range ms {
		pl[i] = m.size - 260
		if pl[i] < 0 {
			pl[i] = 0
		}
		want += m.size
		if m.size == 0 {
			sized = false
		}
	}
	for iter := 0; iter < 200; iter++ {
		txs := make([]*types.Transaction, len(ms))
		for i, m := range ms {
			txs[i] = baseTx(cfg, m, pl[i])
			txs[i].Nonce = m.nonce + int64(iter) // re-rolls the (deterministic) signatures each round
			if iter >= 100 {
				// stuck on a varint boundary: change the width of the nonce
				txs[i].Nonce = m.nonce>>uint(iter%5*7) + int64(iter)
			}
		}
		if len(ms) > 1 {
			for i := range txs {
				txs[i].GroupCount = int32(len(txs))
				txs[i].Fee = 0
			}
			txs[0].Fee = int64(len(txs)) * 1e6
			g := &types.Transactions{Txs: txs}
			g.RebuiltGroup()
			if ms[0].hostileHash {
				for try := 0; try < 20000; try++ {
					var probe types.Transactions
					if types.Decode(txs[0].Hash(), &probe) == nil {
						break
					}
					txs[0].Nonce++
				}
				g.RebuiltGroup()
			}
		}
		got := 0
		for i, m := range ms {
			txs[i].Sign(m.sigTy, privKeyTy(m.key, m.sigTy))
			got += txs[i].Size()
		}
		if !sized || got == want {
			if len(ms) == 1 {
				return txs, txs[0], nil
			}
			return txs, (&types.Transactions{Txs: txs}).Tx(), nil
		}
		// steer the total through the member with the largest payload
		j := 0
		for i := range pl {
			if pl[i] > pl[j] {
				j = i
			}
		}
		pl[j] += want - got
		if pl[j] < 0 {
			return nil, nil, fmt.Errorf("item size %d too small", want)
		}
	}
	return nil, nil, fmt.Errorf("could not reach exact total size %d for %d members", want, len(ms))
}
