package main

import (
	"bytes"
	"fmt"
	"math/rand"
	"os"
	"sync"

	"github.com/33cn/chain33/queue"
	"github.com/33cn/chain33/system/consensus"
	"github.com/33cn/chain33/types"
	"verif/harness/core"
)

// ---------------------------------------------------------------------------------
// C30: rows of Pack.tla replayed into the real BaseClient.AddTxsToBlock / CheckTxExpire.

// blacklisted accounts of the Pack family (process-global list, set once in main)
const (
	packBlkKeyBtc = 900 // blacklisted as base58 address
	packBlkKeyEth = 901 // blacklisted as 0x address (mixed case in the list)
)

func packBlacklist() []string {
	return []string{btcAddr(packBlkKeyBtc), mixCase(ethAddr(packBlkKeyEth))}
}

func mixCase(a string) string {
	b := []byte(a)
	for i := 2; i < len(b); i += 2 {
		if b[i] >= 'a' && b[i] <= 'f' {
			b[i] -= 32
		}
	}
	return string(b)
}

type baseEnv struct {
	cfg *types.Chain33Config
	q   queue.Queue
	bc  *consensus.BaseClient
}

var (
	beMu    sync.Mutex
	beCache = map[string]*baseEnv{}
)

func getBase(p cfgParams) *baseEnv {
	beMu.Lock()
	defer beMu.Unlock()
	if e, ok := beCache[p.key()]; ok {
		return e
	}
	cfg := getCfg(p)
	q := queue.New("channel")
	q.SetConfig(cfg)
	bc := consensus.NewBaseClient(cfg.GetModuleConfig().Consensus)
	bc.InitClient(q.Client(), func() {})
	e := &baseEnv{cfg: cfg, q: q, bc: bc}
	beCache[p.key()] = e
	return e
}

type item struct {
	n      int
	sz     int
	c      string
	bl, ex bool
}

func parseItems(s core.Step) []item {
	var out []item
	for _, x := range s.List("items") {
		m, _ := x.(map[string]any)
		it := item{n: core.ToInt(m["n"]), sz: core.ToInt(m["sz"])}
		it.c, _ = m["c"].(string)
		it.bl, _ = m["bl"].(bool)
		it.ex, _ = m["ex"].(bool)
		out = append(out, it)
	}
	return out
}

type packDrv struct {
	env *core.Env
	b   *core.Behaviour
	r   *rand.Rand
	// concretisation record of the last row (for replay files / signatures)
	last map[string]any
}

func bhash(id string) int64 {
	h := int64(0)
	for _, c := range id {
		h = h*131 + int64(c)
	}
	return h
}

func (d *packDrv) Reset(env *core.Env, b *core.Behaviour) error {
	d.env, d.b = env, b
	d.r = rand.New(rand.NewSource(env.Seed*1000003 + bhash(b.ID) + int64(env.OptInt("salt", 0))*7919))
	return nil
}

func (d *packDrv) Close() {}

const blockTime = int64(1700000000)

// expiry values around the (height, blocktime) the check is made at
func (d *packDrv) expireVal(expired bool, h int64) (int64, string) {
	if expired {
		switch d.r.Intn(5) {
		case 0:
			return h, "height=h"
		case 1:
			if h > 1 {
				return h - 1, "height=h-1"
			}
			return h, "height=h"
		case 2:
			return blockTime, "time=blocktime"
		case 3:
			return blockTime - 1, "time=blocktime-1"
		default:
			return types.TxHeightFlag + h + types.LowAllowPackHeight + 1, "txheight>h+low"
		}
	}
	switch d.r.Intn(6) {
	case 0:
		return 0, "never"
	case 1:
		return h + 1, "height=h+1"
	case 2:
		return blockTime + 1, "time=blocktime+1"
	case 3:
		return types.TxHeightFlag + h, "txheight=h"
	case 4:
		return types.TxHeightFlag + h + types.LowAllowPackHeight, "txheight=h+low"
	default:
		return blockTime + 3600, "time=later"
	}
}

type builtItem struct {
	members []*types.Transaction
	offered *types.Transaction
	hashes  [][]byte
	desc    map[string]any
}

// build the offered items of a row. unit: bytes per size unit (0: sizes do not matter, small txs).
func (d *packDrv) buildItems(cfg *types.Chain33Config, its []item, unit int, h int64) ([]*builtItem, error) {
	var out []*builtItem
	nonce := d.r.Int63n(1 << 40)
	for k, it := range its {
		ms := make([]memberSpec, it.n)
		// split the item's bytes over its members
		sizes := make([]int, it.n)
		if unit > 0 {
			total := it.sz * unit
			const minTx = 300
			if total < minTx*it.n {
				return nil, fmt.Errorf("item of %d units too small for %d members at unit %d", it.sz, it.n, unit)
			}
			rest := total - minTx*it.n
			for j := 0; j < it.n; j++ {
				sizes[j] = minTx
			}
			if it.c == "s" {
				for j := 0; j < it.n; j++ {
					sizes[j] = total / it.n
				}
				sizes[0] += total - (total/it.n)*it.n
			} else {
				for j := 0; j < it.n-1; j++ {
					x := 0
					if rest > 0 {
						x = d.r.Intn(rest + 1)
					}
					sizes[j] += x
					rest -= x
				}
				sizes[it.n-1] += rest
			}
		}
		blMember, blPos, blAcc := -1, "", ""
		if it.bl {
			blMember = d.r.Intn(it.n)
			blPos = []string{"from", "to"}[d.r.Intn(2)]
			blAcc = []string{"btc", "eth"}[d.r.Intn(2)]
		}
		exMember, exForm := -1, ""
		if it.ex {
			exMember = d.r.Intn(it.n)
		}
		for j := 0; j < it.n; j++ {
			nonce++
			m := memberSpec{key: 1 + (k*4+j)%40, sigTy: types.SECP256K1, to: btcAddr(50 + (k+j)%10), nonce: nonce, size: sizes[j]}
			if d.r.Intn(2) == 0 {
				m.sigTy = types.ED25519
			}
			if d.r.Intn(4) == 0 { // some clean eth-style senders / recipients too
				m.to = ethAddr(60 + (k+j)%5)
			}
			var f string
			m.expire, f = d.expireVal(j == exMember, h)
			if j == exMember {
				exForm = f
			}
			if j == blMember {
				switch {
				case blPos == "from" && blAcc == "btc":
					m.key = packBlkKeyBtc
					m.sigTy = types.SECP256K1
				case blPos == "from" && blAcc == "eth":
					m.key = packBlkKeyEth
					m.sigTy = types.EncodeSignID(types.SECP256K1, 2)
				case blPos == "to" && blAcc == "btc":
					m.to = btcAddr(packBlkKeyBtc)
				default:
					m.to = ethAddr(packBlkKeyEth)
				}
			}
			ms[j] = m
		}
		if unit == 0 && it.n > 1 && d.r.Intn(2) == 0 {
			ms[0].hostileHash = true
		}
		mem, off, err := buildItem(cfg, ms)
		if err != nil {
			return nil, err
		}
		bi := &builtItem{members: mem, offered: off, desc: map[string]any{"n": it.n, "sizes": sizes}}
		if ms[0].hostileHash {
			var probe types.Transactions
			bi.desc["grouphash"] = fmt.Sprintf("parses-as-protobuf=%v", types.Decode(mem[0].Header, &probe) == nil)
		}
		if it.bl {
			bi.desc["bl"] = fmt.Sprintf("member %d %s %s", blMember+1, blPos, blAcc)
		}
		if it.ex {
			bi.desc["ex"] = fmt.Sprintf("member %d %s", exMember+1, exForm)
		}
		for _, t := range mem {
			bi.hashes = append(bi.hashes, t.Hash())
		}
		out = append(out, bi)
	}
	return out, nil
}

// flatten maps block transactions back to <<item, member>> pairs (0,0 for a foreign tx)
func flatten(items []*builtItem, txs []*types.Transaction) [][2]int {
	var out [][2]int
	for _, t := range txs {
		h := t.Hash()
		p := [2]int{0, 0}
	find:
		for k, it := range items {
			for j, hh := range it.hashes {
				if bytes.Equal(h, hh) {
					p = [2]int{k + 1, j + 1}
					break find
				}
			}
		}
		out = append(out, p)
	}
	return out
}

// structural checks on a flattened block
func wholeOK(its []item, b [][2]int) bool {
	for i, p := range b {
		k, j := p[0], p[1]
		if k < 1 || k > len(its) || j < 1 || j > its[k-1].n {
			return false
		}
		if j != 1 && !(i > 0 && b[i-1] == [2]int{k, j - 1}) {
			return false
		}
		if j != its[k-1].n && !(i+1 < len(b) && b[i+1] == [2]int{k, j + 1}) {
			return false
		}
	}
	return true
}

func orderOK(b [][2]int) bool {
	for i := 1; i < len(b); i++ {
		x, y := b[i-1], b[i]
		if !(x[0] < y[0] || (x[0] == y[0] && x[1] < y[1])) {
			return false
		}
	}
	return true
}

// selection (item indices) of a flattened block that is whole; else the raw pairs
func selOf(its []item, b [][2]int) any {
	if !wholeOK(its, b) {
		var raw []any
		for _, p := range b {
			raw = append(raw, []any{p[0], p[1]})
		}
		return map[string]any{"raw": raw}
	}
	sel := []any{}
	for _, p := range b {
		if p[1] == 1 {
			sel = append(sel, p[0])
		}
	}
	return sel
}

func sameSel(a any, b []any) bool { return core.Match(core.Norm(b), core.Norm(a)) }

func (d *packDrv) Apply(s core.Step) (any, any, error) {
	switch s.Op() {
	case "Offer":
		return nil, nil, nil
	case "Pack":
		return d.pack(s)
	case "Expire":
		return d.expire(s)
	}
	return nil, nil, fmt.Errorf("unknown op %q", s.Op())
}

var (
	padOnce sync.Once
	padBuf  []byte
)

func (d *packDrv) pack(s core.Step) (any, any, error) {
	p := cfgParams{title: "verifpack", forkH: int64(s.Int("forkh")), limitH: int64(s.Int("limith")),
		lim0: int64(s.Int("lim0")), lim1: int64(s.Int("lim1")), ethEnable: true}
	be := getBase(p)
	cfg := be.cfg
	its := parseItems(s)
	h := int64(s.Int("h"))
	pre := s.Int("pre")
	capU := s.Int("cap")
	maxtx := int64(s.Int("maxtx"))
	if got := cfg.GetP(h).MaxTxNumber; got != maxtx && d.env.Opt("trustcfg", "") == "" {
		// the configuration is the harness's own translation of the spec constants: a
		// disagreement here is a property disagreement only if GetP is wrong; report as such
		return map[string]any{"sel": "cfg", "maxtx": got}, nil, nil
	}
	// block that is being assembled: pre transactions already inside, padded so that exactly
	// cap*unit + slack bytes are left below the packer's bound
	unit := 0
	mode := d.env.Opt("unit", "")
	switch mode {
	case "big":
		unit = -1
	case "":
		unit = []int{400, 611, 1000, 4099}[d.r.Intn(4)]
	default:
		fmt.Sscan(mode, &unit)
	}
	blk := &types.Block{Height: h, BlockTime: blockTime, ParentHash: make([]byte, 32)}
	var preTxs []*types.Transaction
	for i := 0; i < pre; i++ {
		m := memberSpec{key: 45 + i, sigTy: types.SECP256K1, to: btcAddr(70 + i), nonce: d.r.Int63n(1 << 30)}
		mem, _, err := buildItem(cfg, []memberSpec{m})
		if err != nil {
			return nil, nil, err
		}
		preTxs = append(preTxs, mem[0])
	}
	blk.Txs = append(blk.Txs, preTxs...)
	maxEff := types.MaxBlockSize - 100000
	slackMode := d.env.Opt("slack", "")
	var slack int
	if unit < 0 {
		avail := maxEff - blk.Size()
		unit = avail / capU
		slack = avail - unit*capU
	} else {
		switch slackMode {
		case "0":
			slack = 0
		case "max":
			slack = unit - 1
		default:
			switch d.r.Intn(3) {
			case 0:
				slack = 0
			case 1:
				slack = unit - 1
			default:
				slack = d.r.Intn(unit)
			}
		}
		padOnce.Do(func() { padBuf = make([]byte, types.MaxBlockSize) })
		want := maxEff - capU*unit - slack // size the block must have before packing
		padLen := want - blk.Size()
		for i := 0; i < 6 && padLen > 0; i++ {
			blk.ParentHash = padBuf[:32+padLen]
			diff := want - blk.Size()
			if diff == 0 {
				break
			}
			padLen += diff
		}
		if blk.Size() != want {
			return nil, nil, fmt.Errorf("cannot pad block to %d (got %d)", want, blk.Size())
		}
	}
	built, err := d.buildItems(cfg, its, unit, h)
	if err != nil {
		return nil, nil, err
	}
	var offered []*types.Transaction
	var descs []any
	for _, bi := range built {
		offered = append(offered, bi.offered)
		descs = append(descs, bi.desc)
	}
	size0 := blk.Size()
	d.last = map[string]any{"unit": unit, "slack": slack, "size0": size0, "items": descs}
	added := be.bc.AddTxsToBlock(blk, offered)
	_ = added
	// observation
	okPre := len(blk.Txs) >= pre
	for i := 0; okPre && i < pre; i++ {
		okPre = blk.Txs[i] == preTxs[i]
	}
	if !okPre {
		return map[string]any{"sel": "pre-existing transactions disturbed"}, nil, nil
	}
	flat := flatten(built, blk.Txs[pre:])
	nobl := true
	if s.Bool("active") {
		for _, p := range flat {
			if p[0] >= 1 && p[0] <= len(its) && its[p[0]-1].bl {
				nobl = false
			}
		}
	}
	obsSel := selOf(its, flat)
	allowed := false
	for _, a := range s.List("allowed") {
		if l, ok := a.([]any); ok && sameSel(obsSel, l) {
			allowed = true
		}
	}
	chk := map[string]any{
		"count":   int64(len(blk.Txs)) <= maxtx,
		"size":    blk.Size() <= types.MaxBlockSize,
		"whole":   wholeOK(its, flat),
		"order":   orderOK(flat),
		"nobl":    nobl,
		"allowed": allowed,
	}
	d.last["block_size"] = blk.Size()
	d.last["block_txs"] = len(blk.Txs)
	return map[string]any{"sel": obsSel}, chk, nil
}

func (d *packDrv) expire(s core.Step) (any, any, error) {
	p := cfgParams{title: "verifpack", forkH: 8, limitH: 5, lim0: 3, lim1: 4, ethEnable: true}
	be := getBase(p)
	its := parseItems(s)
	h := int64(s.Int("h"))
	built, err := d.buildItems(be.cfg, its, 0, h)
	if err != nil {
		return nil, nil, err
	}
	var txs []*types.Transaction
	var descs []any
	for _, bi := range built {
		txs = append(txs, bi.members...)
		descs = append(descs, bi.desc)
	}
	d.last = map[string]any{"items": descs}
	if os.Getenv("VERIF_PACK_DEBUG") != "" {
		for i, t := range txs {
			g, err := t.GetTxGroup()
			ng := -1
			if g != nil {
				ng = len(g.Txs)
			}
			fmt.Fprintf(os.Stderr, "member %d groupcount=%d expire=%d GetTxGroup: txs=%d err=%v own-IsExpire=%v\n", i, t.GroupCount, t.Expire, ng, err, t.IsExpire(be.cfg, h, blockTime))
		}
	}
	out := be.bc.CheckTxExpire(txs, h, blockTime)
	flat := flatten(built, out)
	noexp := true
	for _, pp := range flat {
		if pp[0] >= 1 && pp[0] <= len(its) && its[pp[0]-1].ex {
			noexp = false
		}
	}
	chk := map[string]any{"whole": wholeOK(its, flat), "order": orderOK(flat), "noexp": noexp}
	return map[string]any{"kept": selOf(its, flat)}, chk, nil
}

// NonTrivial (C30): the list reaches the count or size bound (some non-blacklisted item is
// not taken), or contains a group; for Expire: a group with an expired member.
func (d *packDrv) NonTrivial(env *core.Env, b *core.Behaviour) bool {
	for _, s := range b.Steps {
		its := parseItems(s)
		switch s.Op() {
		case "Pack":
			if s.Bool("open") {
				return true
			}
			taken := 0
			if a := s.List("allowed"); len(a) > 0 {
				if l, ok := a[0].([]any); ok {
					taken = len(l)
				}
			}
			nbl := 0
			for _, it := range its {
				if it.n > 1 {
					return true
				}
				if it.bl && s.Bool("active") {
					nbl++
				}
			}
			if taken < len(its)-nbl {
				return true
			}
		case "Expire":
			for _, it := range its {
				if it.n > 1 && it.ex {
					return true
				}
			}
		}
	}
	return false
}

func itemDesc(it item) string { return fmt.Sprintf("n=%d,c=%s,bl=%v,ex=%v", it.n, it.c, it.bl, it.ex) }

// Signature: op | field | which clause / where the selection diverges | regime
func (d *packDrv) Signature(b *core.Behaviour, idx int, field string, exp, obs any) string {
	s := b.Steps[idx]
	its := parseItems(s)
	regime := fmt.Sprintf("active=%v,pre=%d,maxtx=%d", s.Bool("active"), s.Int("pre"), s.Int("maxtx"))
	if field == "chk" {
		e, _ := exp.(map[string]any)
		o, _ := obs.(map[string]any)
		var bad []string
		for _, k := range []string{"count", "size", "whole", "order", "nobl", "noexp", "allowed"} {
			if ev, ok := e[k]; ok && !core.Match(ev, o[k]) {
				bad = append(bad, k)
			}
		}
		return fmt.Sprintf("%s|violated=%v|%s", s.Op(), bad, regime)
	}
	key := "sel"
	if s.Op() == "Expire" {
		key = "kept"
	}
	em, _ := exp.(map[string]any)
	om, _ := obs.(map[string]any)
	el, _ := em[key].([]any)
	ol, ok := om[key].([]any)
	if !ok {
		// not a sequence of whole items: name the first item that is present only in part
		if rm, isRaw := om[key].(map[string]any); isRaw {
			cnt := map[int]int{}
			raw, _ := rm["raw"].([]any)
			for _, p := range raw {
				if pp, ok := p.([]any); ok && len(pp) == 2 {
					cnt[core.ToInt(pp[0])]++
				}
			}
			for k := 1; k <= len(its); k++ {
				if c := cnt[k]; c > 0 && c != its[k-1].n {
					return fmt.Sprintf("%s|%s|got=partial-group(%d of %s)|%s", s.Op(), key, c, itemDesc(its[k-1]), regime)
				}
			}
			return fmt.Sprintf("%s|%s|got=not-whole-items|%s", s.Op(), key, regime)
		}
		return fmt.Sprintf("%s|%s|got=%s|%s", s.Op(), key, clipS(core.J(om[key]), 40), regime)
	}
	for i := 0; i < len(el) || i < len(ol); i++ {
		var e, o int
		if i < len(el) {
			e = core.ToInt(el[i])
		}
		if i < len(ol) {
			o = core.ToInt(ol[i])
		}
		if e != o {
			de, do := "end", "end"
			if e >= 1 && e <= len(its) {
				de = itemDesc(its[e-1])
			}
			if o >= 1 && o <= len(its) {
				do = itemDesc(its[o-1])
			}
			conc := ""
			if its2, ok := d.last["items"].([]any); ok {
				for _, x := range []int{e, o} {
					if x >= 1 && x <= len(its2) {
						if m, ok := its2[x-1].(map[string]any); ok {
							if v, ok := m["bl"]; ok {
								conc += fmt.Sprintf("|bl:%v", v)
							}
							if v, ok := m["ex"]; ok {
								conc += fmt.Sprintf("|ex:%v", v)
							}
							if v, ok := m["grouphash"]; ok {
								conc += fmt.Sprintf("|grouphash:%v", v)
							}
						}
					}
				}
			}
			return fmt.Sprintf("%s|%s|exp-next=(%s)|got-next=(%s)|%s%s", s.Op(), key, de, do, regime, conc)
		}
	}
	return fmt.Sprintf("%s|%s|%s", s.Op(), key, regime)
}

func clipS(s string, n int) string {
	if len(s) > n {
		return s[:n]
	}
	return s
}
