package main

import (
	"fmt"
	"sort"
	"strings"
	"sync"

	"github.com/33cn/chain33/types"
)

// Chain configurations are generated as toml text (the way a node operator configures the
// fork heights): a non-"local" title so that fork heights are honoured, every fork at 0
// except the account-blacklist fork (forkH) and ForkChainParamV1 (limitH), which switches
// mver.consensus.maxTxNumber from lim0 to lim1.

var (
	cfgMu    sync.Mutex
	cfgCache = map[string]*types.Chain33Config{}
	forkOnce sync.Once
	forkAll  map[string]int64
)

// The fork names are listed statically: creating a throw-away "local" configuration to ask
// for them would bind the executor types (RegExecInit runs once per process) to a non-para
// configuration, and the para-chain rows need the FIRST configuration of the process to be the
// para one. getCfg verifies after creation that no registered fork was missed.
var staticForks = []string{"ForkAccountBlacklist", "ForkBase58AddressCheck", "ForkBlockCheck", "ForkBlockHash",
	"ForkCacheDriver", "ForkChainParamV1", "ForkChainParamV2", "ForkCheckBlockTime", "ForkCheckEthTxSort", "ForkCheckTxDup",
	"ForkEnableParaRegExec", "ForkEthAddressFormat", "ForkExecKey", "ForkExecRollback", "ForkFormatAddressKey",
	"ForkLocalDBAccess", "ForkMaxTxFeeV1", "ForkMinerTime", "ForkMultiSignAddress", "ForkParaFee", "ForkProxyExec",
	"ForkResetTx0", "ForkRootHash", "ForkStateDBSet", "ForkTicketFundAddrV1", "ForkTransferExec", "ForkTxChainIDStrict",
	"ForkTxGroup", "ForkTxGroupPara", "ForkTxHeight", "ForkWithdraw",
	"coins.Enable", "coins.ForkFriendExecer", "manage.Enable", "manage.ForkManageAutonomyEnable", "manage.ForkManageExec",
	"none.ForkUseTimeDelay"}

func allForks() map[string]int64 {
	forkOnce.Do(func() {
		forkAll = map[string]int64{}
		for _, k := range staticForks {
			forkAll[k] = 0
		}
	})
	return forkAll
}

type cfgParams struct {
	title            string
	forkH, limitH    int64
	lim0, lim1       int64
	ethEnable        bool
	extraSub         []string // additional executors allowed in [fork.sub.*]
	minerStart       bool
	maxTxNumPerAcc   int64
	blacklistSection []string // optional [blacklist] accountBlacklist entries
}

func (p cfgParams) key() string {
	return fmt.Sprintf("%s|%d|%d|%d|%d|%v|%v|%v|%v", p.title, p.forkH, p.limitH, p.lim0, p.lim1, p.ethEnable, p.extraSub, p.minerStart, p.blacklistSection)
}

func mkToml(p cfgParams) string {
	s := types.GetDefaultCfgstring()
	rep := func(old, new string, n int) {
		if !strings.Contains(s, old) {
			panic("default config no longer contains " + old)
		}
		s = strings.Replace(s, old, new, n)
	}
	rep(`Title="local"`, "Title=\""+p.title+"\"\nDisableForkCheck=true", 1)
	// first occurrence: [mver.consensus], second: [mver.consensus.ForkChainParamV1]
	rep("maxTxNumber = 10000", fmt.Sprintf("maxTxNumber = %d", p.lim0), 1)
	rep("maxTxNumber = 10000", fmt.Sprintf("maxTxNumber = %d", p.lim1), 1)
	if p.ethEnable {
		rep("eth=-2", "eth=0", 1)
	}
	if !p.minerStart {
		rep("minerstart=true", "minerstart=false", 1)
	}
	var sys, subs []string
	sub := map[string][]string{}
	for k := range allForks() {
		if i := strings.Index(k, "."); i >= 0 {
			sub[k[:i]] = append(sub[k[:i]], k[i+1:])
		} else {
			sys = append(sys, k)
		}
	}
	sort.Strings(sys)
	var b strings.Builder
	b.WriteString("\n[fork.system]\n")
	for _, k := range sys {
		v := int64(0)
		switch k {
		case "ForkBlockHash", "ForkRootHash":
			v = 1
		case "ForkChainParamV1":
			v = p.limitH
		case types.ForkAccountBlacklist:
			v = p.forkH
		}
		fmt.Fprintf(&b, "%s=%d\n", k, v)
	}
	for k := range sub {
		subs = append(subs, k)
	}
	for _, e := range p.extraSub {
		if _, ok := sub[e]; !ok {
			sub[e] = nil
			subs = append(subs, e)
		}
	}
	sort.Strings(subs)
	for _, e := range subs {
		fmt.Fprintf(&b, "[fork.sub.%s]\n", e)
		names := sub[e]
		sort.Strings(names)
		hasEnable := false
		for _, n := range names {
			if n == "Enable" {
				hasEnable = true
			}
			fmt.Fprintf(&b, "%s=0\n", n)
		}
		if !hasEnable {
			b.WriteString("Enable=0\n")
		}
	}
	if len(p.blacklistSection) > 0 {
		b.WriteString("[blacklist]\naccountBlacklist=[")
		for i, a := range p.blacklistSection {
			if i > 0 {
				b.WriteString(",")
			}
			fmt.Fprintf(&b, "%q", a)
		}
		b.WriteString("]\n")
	}
	return s + b.String()
}

func getCfg(p cfgParams) *types.Chain33Config {
	cfgMu.Lock()
	defer cfgMu.Unlock()
	if c, ok := cfgCache[p.key()]; ok {
		return c
	}
	c := types.NewChain33Config(mkToml(p))
	// safety net: a fork registered by the code but unknown to the static list keeps its
	// test-net default height; give it the "local" value 0 so that the node behaves like the
	// unit-test configuration everywhere except at the two heights under test
	if m, err := c.GetForks(); err == nil {
		known := allForks()
		for k := range m {
			if _, ok := known[k]; ok || strings.HasPrefix(k, "evm.") {
				continue
			}
			if i := strings.Index(k, "."); i >= 0 {
				c.SetDappFork(k[:i], k[i+1:], 0)
			} else {
				c.SetFork(k, 0)
			}
		}
	}
	cfgCache[p.key()] = c
	return c
}
