package main

import (
	"fmt"
	"math/rand"

	"github.com/33cn/chain33/types"
	"verif/harness/core"
)

// recordRows (code -> spec, C30): seeded random rows much larger than what TLC enumerates —
// 10..24 offered items, arbitrary byte sizes, groups up to 6 members, several blacklisted and
// expired members, pre-filled blocks — run through the real AddTxsToBlock / CheckTxExpire of a
// BaseClient configured with limits 7 -> 12 at height 20 and the blacklist fork at height 30.
// Each event carries the measured byte sizes and the flattened real block; Pack_Trace decides.
func recordRows(env *core.Env, emit func(map[string]any)) (*core.Summary, error) {
	sum := &core.Summary{Counters: map[string]int{}}
	n := env.OptInt("n", 60)
	p := cfgParams{title: "verifpackrec", forkH: 30, limitH: 20, lim0: 7, lim1: 12, ethEnable: true}
	be := getBase(p)
	cfg := be.cfg
	r := rand.New(rand.NewSource(env.Seed*7919 + 17))
	heights := []int64{1, 19, 20, 21, 29, 30, 31, 1000}
	maxEff := types.MaxBlockSize - 100000
	padOnce.Do(func() { padBuf = make([]byte, types.MaxBlockSize) })
	for t := 0; t < n; t++ {
		d := &packDrv{env: env, r: rand.New(rand.NewSource(r.Int63()))}
		h := heights[r.Intn(len(heights))]
		flavour := []string{"random", "count-edge", "size-edge", "expire"}[t%4]
		nitems := 10 + r.Intn(15)
		var its []item
		for k := 0; k < nitems; k++ {
			it := item{n: 1, c: "x"}
			if r.Intn(3) == 0 {
				it.n = 2 + r.Intn(5)
			}
			it.bl = r.Intn(6) == 0
			it.ex = r.Intn(5) == 0
			its = append(its, it)
		}
		emit(map[string]any{"ev": "Reset"})
		if flavour == "expire" {
			built, err := d.buildItems(cfg, its, 0, h)
			if err != nil {
				return nil, err
			}
			var txs []*types.Transaction
			for _, bi := range built {
				txs = append(txs, bi.members...)
			}
			out := be.bc.CheckTxExpire(txs, h, blockTime)
			emit(map[string]any{"ev": "Expire", "h": h, "items": evItems(its, built), "blk": evBlk(flatten(built, out))})
			sum.Behaviours++
			grp := false
			for _, it := range its {
				if it.n > 1 && it.ex {
					grp = true
				}
			}
			if grp {
				sum.NonTrivial++
			}
			continue
		}
		// sizes: every member gets its own payload length; the block is padded so that the
		// packer's budget lands inside the list
		unit := 300 + r.Intn(3000)
		for k := range its {
			its[k].sz = its[k].n * (1 + r.Intn(4)) // in "units" for buildItems: total = sz*unit
			its[k].c = "x"
		}
		built, err := d.buildItems(cfg, its, unit, h)
		if err != nil {
			return nil, err
		}
		total := 0
		sizes := make([]int, len(its))
		for k, bi := range built {
			for _, m := range bi.members {
				sizes[k] += m.Size()
			}
			total += sizes[k]
		}
		pre := r.Intn(3)
		blk := &types.Block{Height: h, BlockTime: blockTime, ParentHash: make([]byte, 32)}
		var preTxs []*types.Transaction
		for i := 0; i < pre; i++ {
			mem, _, err := buildItem(cfg, []memberSpec{{key: 45 + i, sigTy: types.SECP256K1, to: btcAddr(70 + i), nonce: r.Int63n(1 << 30)}})
			if err != nil {
				return nil, err
			}
			preTxs = append(preTxs, mem[0])
		}
		blk.Txs = append(blk.Txs, preTxs...)
		// budget in bytes left below the packer's bound
		var avail int
		switch flavour {
		case "count-edge":
			avail = total + 1000 // size never binds; the count limit does
		case "size-edge":
			// budget ends exactly at (or one byte before) the end of some item
			cut := 1 + r.Intn(len(its))
			for k := 0; k < cut; k++ {
				if !(its[k].bl && h >= 30) {
					avail += sizes[k]
				}
			}
			avail -= r.Intn(2)
		default:
			avail = r.Intn(total + 1)
		}
		want := maxEff - avail
		padLen := want - blk.Size()
		for i := 0; i < 6 && padLen > 0; i++ {
			blk.ParentHash = padBuf[:32+padLen]
			if diff := want - blk.Size(); diff != 0 {
				padLen += diff
			} else {
				break
			}
		}
		if blk.Size() != want {
			return nil, fmt.Errorf("cannot pad block to %d", want)
		}
		size0 := blk.Size()
		var offered []*types.Transaction
		for _, bi := range built {
			offered = append(offered, bi.offered)
		}
		be.bc.AddTxsToBlock(blk, offered)
		for i := 0; i < pre; i++ {
			if i >= len(blk.Txs) || blk.Txs[i] != preTxs[i] {
				return nil, fmt.Errorf("pre-existing transactions disturbed")
			}
		}
		flat := flatten(built, blk.Txs[pre:])
		for k := range its {
			its[k].sz = sizes[k]
		}
		emit(map[string]any{"ev": "Pack", "h": h, "pre": pre, "maxtx": cfg.GetP(h).MaxTxNumber,
			"active": cfg.IsFork(h, types.ForkAccountBlacklist), "cap": maxEff - size0, "hard": types.MaxBlockSize,
			"blocksize": blk.Size(), "items": evItems(its, built), "blk": evBlk(flat), "flavour": flavour})
		sum.Behaviours++
		clean := 0
		for _, it := range its {
			if !(it.bl && h >= 30) {
				clean += it.n
			}
		}
		if len(flat) < clean {
			sum.NonTrivial++
		}
		if len(sum.Samples) < 2 {
			sum.Samples = append(sum.Samples, map[string]any{"recorded": flavour, "h": h, "pre": pre, "items": evItems(its, built), "blk": evBlk(flat)})
		}
	}
	return sum, nil
}

func evItems(its []item, built []*builtItem) []any {
	var out []any
	for _, it := range its {
		out = append(out, map[string]any{"n": it.n, "sz": it.sz, "c": it.c, "bl": it.bl, "ex": it.ex})
	}
	return out
}

func evBlk(flat [][2]int) []any {
	out := []any{}
	for _, p := range flat {
		out = append(out, []any{p[0], p[1]})
	}
	return out
}
