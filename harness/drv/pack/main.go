// Driver for the Pack (C30) and Blacklist (C31) families: the real consensus BaseClient
// (AddTxsToBlock / CheckTxExpire), executor, mempool and blockchain of chain33.
package main

import (
	"os"

	"github.com/33cn/chain33/common/log"
	_ "github.com/33cn/chain33/system"
	"github.com/33cn/chain33/types"
	"verif/harness/core"
)

// mux chooses the family driver by the first operation of the behaviour.
type mux struct {
	p   packDrv
	bl  blDrv
	cur interface {
		core.Driver
		core.Classifier
		core.Signer
	}
}

func (m *mux) Reset(env *core.Env, b *core.Behaviour) error {
	m.cur = &m.p
	if len(b.Steps) > 0 && (b.Steps[0].Op() == "Row" || b.Steps[0].Op() == "DelayChain") {
		m.cur = &m.bl
	}
	return m.cur.Reset(env, b)
}
func (m *mux) Apply(s core.Step) (any, any, error) { return m.cur.Apply(s) }
func (m *mux) Close()                              { m.cur.Close() }
func (m *mux) NonTrivial(env *core.Env, b *core.Behaviour) bool {
	return m.cur.NonTrivial(env, b)
}
func (m *mux) Signature(b *core.Behaviour, idx int, field string, exp, obs any) string {
	return m.cur.Signature(b, idx, field, exp, obs)
}

func main() {
	log.SetLogLevel("crit")
	if os.Getenv("VERIF_PACK_LOG") != "" {
		log.SetLogLevel(os.Getenv("VERIF_PACK_LOG"))
	}
	types.SetBlockedAccountsForTest(packBlacklist())
	core.Main(&core.Family{
		Name:      "pack",
		NewDriver: func() core.Driver { return &mux{} },
		Recorders: map[string]core.Recorder{"rows": recordRows},
		Extra: map[string]func(env *core.Env, args []string) int{
			"bldebug": func(env *core.Env, args []string) int {
				r, err := getRig("main", 4)
				if err != nil {
					println(err.Error())
					return 2
				}
				for key := 711; key <= 715; key++ {
					for _, ty := range []int32{types.SECP256K1, types.EncodeSignID(types.SECP256K1, 2), ethSigTy()} {
						tx := r.coinsTxUnsigned(btcAddr(41), btcAddr(41), 1)
						r.sign(tx, key, ty)
						acc := r.mock.GetAccount(r.tip.StateHash, tx.From())
						println(key, "sigTy", ty, "from", tx.From(), "ethAddr", ethAddr(key), "balance", acc.GetBalance())
					}
				}
				return 0
			},
			"forks": func(env *core.Env, args []string) int {
				for k, v := range allForks() {
					println(k, v)
				}
				return 0
			},
		},
	})
}
