package main

import (
	"errors"
	"fmt"
	"math/rand"
	"strings"
	"sync"
	"time"

	"github.com/33cn/chain33/blockchain"
	"github.com/33cn/chain33/client"
	"github.com/33cn/chain33/common"
	"github.com/33cn/chain33/common/address"
	"github.com/33cn/chain33/common/log/log15"
	"github.com/33cn/chain33/queue"
	"github.com/33cn/chain33/system/consensus"
	cty "github.com/33cn/chain33/system/dapp/coins/types"
	"github.com/33cn/chain33/system/dapp"
	nty "github.com/33cn/chain33/system/dapp/none/types"
	"github.com/33cn/chain33/types"
	"github.com/33cn/chain33/util"
	"github.com/33cn/chain33/util/testnode"
	ethcommon "github.com/ethereum/go-ethereum/common"
	"verif/harness/core"
)

// ---------------------------------------------------------------------------------
// C31: rows of Blacklist.tla on a real node (executor, mempool, blockchain, BaseClient).
//
// The node does not mine; blocks are produced by the harness (EventAddBlockDetail, the
// producer path solo uses) and foreign blocks are delivered through ProcAddBlockMsg with a
// peer id (the verifying path). The account blacklist is process-global; every leg of a row
// is run twice on the IDENTICAL transaction: with the list cleared (control: the transaction
// must be accepted / ExecOk, otherwise the row proves nothing and the harness fails) and with
// the list installed (the observation that is compared with the table).

const blForkH = 5

// blacklisted accounts: id -> key index, kind, how the account is spelled in the list
type blAcct struct {
	key  int
	kind string // "b58" / "eth"
	list func(a string) string
}

var blAccts = map[string]blAcct{
	"a1": {711, "b58", func(a string) string { return a }},
	"a2": {712, "eth", func(a string) string { return spellEth(a, "lower") }},
	"a3": {713, "eth", func(a string) string { return spellEth(a, "mixed") }},
	"a4": {714, "eth", func(a string) string { return spellEth(a, "nox-upper") }},
	"a5": {715, "eth", func(a string) string { return spellEth(a, "0X-upper") }},
}

func (a blAcct) addr() string {
	if a.kind == "b58" {
		return btcAddr(a.key)
	}
	return ethAddr(a.key)
}

func blList() []string {
	var l []string
	for _, id := range []string{"a1", "a2", "a3", "a4", "a5"} {
		a := blAccts[id]
		l = append(l, a.list(a.addr()))
	}
	return l
}

// spellEth renders a canonical (0x + lower case) eth address in another accepted spelling
func spellEth(a, how string) string {
	hexs := strings.ToLower(strings.TrimPrefix(strings.TrimPrefix(a, "0x"), "0X"))
	switch how {
	case "lower":
		return "0x" + hexs
	case "upper":
		return "0x" + strings.ToUpper(hexs)
	case "mixed":
		return ethcommon.HexToAddress("0x" + hexs).Hex() // EIP-55 checksum case
	case "nox-lower":
		return hexs
	case "nox-upper":
		return strings.ToUpper(hexs)
	case "0X-upper":
		return "0X" + strings.ToUpper(hexs)
	}
	return a
}

// ruleMu: legs hold it shared; toggling the process-global list holds it exclusively
var ruleMu sync.RWMutex

// The list itself is installed the way an operator does it: the [blacklist] section of the
// node's toml configuration (types/config.go parses it when the configuration is created).
// withRule(false) clears it for the controls through the exported test switch and restores it.
func withRule(on bool, f func()) {
	ruleMu.Lock()
	defer ruleMu.Unlock()
	if !on {
		restore := types.SetBlockedAccountsForTest(nil)
		defer restore()
	} else if !types.IsBlockedAccount(blAccts["a1"].addr()) || !types.IsBlockedAccount(blAccts["a4"].addr()) {
		panic("harness: the [blacklist] section of the configuration did not install the list")
	}
	f()
}

// ---- synthetic "evm" executor: accepts any payload, writes nothing --------------------------
type evmApp struct{ *dapp.DriverBase }

func newEvmApp() dapp.Driver {
	a := &evmApp{DriverBase: &dapp.DriverBase{}}
	a.SetChild(a)
	return a
}
func (a *evmApp) GetDriverName() string { return "evm" }
func (a *evmApp) Allow(tx *types.Transaction, index int) error {
	if a.AllowIsSame(tx.Execer) || a.AllowIsUserDot1(tx.Execer) || a.AllowIsUserDot2(tx.Execer) {
		return nil
	}
	return types.ErrNotAllow
}
func (a *evmApp) CheckTx(tx *types.Transaction, index int) error { return nil }
func (a *evmApp) Exec(tx *types.Transaction, index int) (*types.Receipt, error) {
	return &types.Receipt{Ty: types.ExecOk}, nil
}
func (a *evmApp) ExecLocal(tx *types.Transaction, r *types.ReceiptData, index int) (*types.LocalDBSet, error) {
	return &types.LocalDBSet{}, nil
}
func (a *evmApp) ExecDelLocal(tx *types.Transaction, r *types.ReceiptData, index int) (*types.LocalDBSet, error) {
	return &types.LocalDBSet{}, nil
}

var evmOnce sync.Once

func registerEvm(cfg *types.Chain33Config) {
	evmOnce.Do(func() { dapp.Register(cfg, "evm", newEvmApp, 0) })
	for _, a := range types.AllowUserExec {
		if string(a) == "evm" {
			return
		}
	}
	types.AllowUserExec = append(types.AllowUserExec, []byte("evm"))
}

// ---- the node ---------------------------------------------------------------------------------
type blRig struct {
	chain string
	cfg   *types.Chain33Config
	mock  *testnode.Chain33Mock
	cli   queue.Client
	api   client.QueueProtocolAPI
	bchn  *blockchain.BlockChain
	bc    *consensus.BaseClient
	mu    sync.Mutex // serialises the legs that change the node (pool, blocks)
	nonce int64
	tip   *types.Block
	coins string // coins executor name on this chain
	evm   string
	lastErr string
}

var (
	rigMu  sync.Mutex
	rigs   = map[string]*blRig{}
	rigErr = map[string]error{}
)

const (
	senderBase    = 1  // clean btc-format senders 1..12
	ethSenderBase = 20 // clean eth-format senders 20..25 (secp256k1eth, used for proxy exec)
	cleanToBase   = 40 // clean recipients
)

func getRig(chain string, tip int64) (*blRig, error) {
	rigMu.Lock()
	defer rigMu.Unlock()
	k := fmt.Sprintf("%s/%d", chain, tip)
	if r, ok := rigs[k]; ok {
		return r, rigErr[k]
	}
	r, err := newRig(chain, tip)
	rigs[k], rigErr[k] = r, err
	return r, err
}

func newRig(chain string, tip int64) (*blRig, error) {
	title := "verifbl"
	if chain == "para" {
		title = "user.p.verifbl."
	}
	p := cfgParams{title: title, forkH: blForkH, limitH: 1, lim0: 10000, lim1: 10000, ethEnable: true,
		extraSub: []string{"evm"}, minerStart: false, blacklistSection: blList()}
	cfg := getCfg(p)
	registerEvm(cfg)
	log15.Root().SetHandler(log15.DiscardHandler())
	mock := testnode.NewWithConfig(cfg, nil)
	if mock == nil {
		return nil, errors.New("testnode did not start")
	}
	log15.Root().SetHandler(log15.DiscardHandler())
	r := &blRig{chain: chain, cfg: cfg, mock: mock, cli: mock.GetClient(), api: mock.GetAPI(), bchn: mock.GetBlockChain()}
	r.coins, r.evm = "coins", "evm"
	if chain == "para" {
		r.coins, r.evm = title+"coins", title+"evm"
	}
	if err := mock.WaitHeightTimeout(0, 120); err != nil {
		return nil, fmt.Errorf("no genesis block: %v", err)
	}
	r.tip = mock.GetBlock(0)
	r.bc = consensus.NewBaseClient(cfg.GetModuleConfig().Consensus)
	r.bc.InitClient(r.cli, func() {})
	r.nonce = 1 << 33
	// funding (list cleared): every sender and every blacklisted account gets coins
	var ferr error
	withRule(false, func() {
		var txs []*types.Transaction
		fund := func(to string) {
			txs = append(txs, r.coinsTx(-1, types.SECP256K1, to, to, 1000*types.DefaultCoinPrecision))
		}
		for i := 0; i < 12; i++ {
			fund(btcAddr(senderBase + i))
		}
		for i := 0; i < 6; i++ {
			fund(ethAddr(ethSenderBase + i))
		}
		for _, a := range blAccts {
			fund(a.addr())
		}
		if ferr = r.produce(txs, len(txs)); ferr != nil {
			return
		}
		for r.tip.Height < tip {
			if ferr = r.produce([]*types.Transaction{r.coinsTx(senderBase, types.SECP256K1, btcAddr(cleanToBase), btcAddr(cleanToBase), 1)}, 1); ferr != nil {
				return
			}
		}
	})
	if ferr != nil {
		return nil, ferr
	}
	if r.tip.Height != tip {
		return nil, fmt.Errorf("rig is at height %d, wanted %d", r.tip.Height, tip)
	}
	return r, nil
}

func (r *blRig) nextNonce() int64 { r.nonce++; return r.nonce }

// produce: the producer path (what solo's WriteBlock does); wantTxs transactions must survive
func (r *blRig) produce(txs []*types.Transaction, wantTxs int) error {
	blk := util.CreateNewBlock(r.cfg, r.tip, txs)
	msg := r.cli.NewMessage("blockchain", types.EventAddBlockDetail, &types.BlockDetail{Block: blk})
	if err := r.cli.Send(msg, true); err != nil {
		return err
	}
	resp, err := r.cli.WaitTimeout(msg, 120*time.Second)
	if err != nil {
		return err
	}
	d, ok := resp.GetData().(*types.BlockDetail)
	if !ok {
		return fmt.Errorf("producing block %d failed: %v", blk.Height, resp.GetData())
	}
	if wantTxs >= 0 && len(d.Block.Txs) != wantTxs {
		return fmt.Errorf("produced block %d kept %d of %d transactions", blk.Height, len(d.Block.Txs), wantTxs)
	}
	r.tip = d.Block
	return nil
}

// key -1 is the genesis key
func (r *blRig) sign(tx *types.Transaction, key int, sigTy int32) {
	if key < 0 {
		tx.Sign(types.SECP256K1, r.mock.GetGenesisKey())
		return
	}
	tx.Sign(sigTy, privKeyTy(key, sigTy))
}

// coins transfer. toField is tx.To, payTo the recipient inside the payload.
func (r *blRig) coinsTxUnsigned(toField, payTo string, amount int64) *types.Transaction {
	act := &cty.CoinsAction{Ty: cty.CoinsActionTransfer,
		Value: &cty.CoinsAction_Transfer{Transfer: &types.AssetsTransfer{Amount: amount, To: payTo}}}
	return &types.Transaction{Execer: []byte(r.coins), Payload: types.Encode(act), To: toField, Fee: 1e6,
		Nonce: r.nextNonce(), ChainID: r.cfg.GetChainID()}
}

func (r *blRig) coinsTx(key int, sigTy int32, toField, payTo string, amount int64) *types.Transaction {
	tx := r.coinsTxUnsigned(toField, payTo, amount)
	r.sign(tx, key, sigTy)
	return tx
}

// ---- a row ------------------------------------------------------------------------------------
type blRow struct {
	chain, pos, shape, acct, spell string
	h                              int64
	g, m                           int
}

type builtRow struct {
	txs    []*types.Transaction // expanded block form (group members / the single tx)
	pool   *types.Transaction   // pool form
	touch  int                  // index of the touching transaction in txs
	desc   map[string]any
	inner  *types.Transaction // delayed shape: the delayed transaction itself == txs[0]
	evmTx  bool
	sender int
}

func ethSigTy() int32 { return types.EncodeSignID(types.SECP256K1ETH, 2) }

// the transaction that carries the blacklisted account in position pos (or a clean twin for "none")
func (d *blDrv) mkTouching(r *blRig, row blRow, slot int, forProxyInner bool) (tx *types.Transaction, key int, sigTy int32, desc string) {
	acct, has := blAccts[row.acct]
	spelled := ""
	if has {
		spelled = acct.addr()
		if acct.kind == "eth" && row.spell != "derived" && row.spell != "raw" {
			spelled = spellEth(spelled, row.spell)
		}
	}
	key, sigTy = senderBase+slot, int32(types.SECP256K1)
	if d.r.Intn(3) == 0 {
		key, sigTy = ethSenderBase+slot%6, types.EncodeSignID(types.SECP256K1, 2) // clean eth-format sender
	}
	cleanTo := btcAddr(cleanToBase + slot)
	if d.r.Intn(3) == 0 {
		cleanTo = ethAddr(cleanToBase + slot)
	}
	switch row.pos {
	case "none":
		// control rows take the shape of the neighbouring positions at random
		k := d.r.Intn(3)
		if forProxyInner || r.chain == "para" {
			k = 1
		}
		switch k {
		case 0:
			tx = r.evmTxUnsigned(d.evmName(r), ethAddr(cleanToBase+slot), nil)
			desc = "clean evm call"
		default:
			if r.chain == "para" {
				tx = r.coinsTxUnsigned(address.ExecAddress(r.coins), cleanTo, 1e6)
			} else {
				tx = r.coinsTxUnsigned(cleanTo, cleanTo, 1e6)
			}
			desc = "clean transfer"
		}
	case "from":
		key = acct.key
		sigTy = types.SECP256K1
		if acct.kind == "eth" {
			sigTy = types.EncodeSignID(types.SECP256K1, 2)
			if d.r.Intn(2) == 0 || forProxyInner {
				sigTy = ethSigTy()
			}
		}
		if r.chain == "para" {
			tx = r.coinsTxUnsigned(address.ExecAddress(r.coins), cleanTo, 1e6)
		} else {
			tx = r.coinsTxUnsigned(cleanTo, cleanTo, 1e6)
		}
		desc = fmt.Sprintf("sigTy=%d", sigTy)
	case "to":
		if r.chain == "para" {
			tx = r.coinsTxUnsigned(spelled, cleanTo, 1e6) // tx.To blacklisted, payload recipient clean
		} else {
			tx = r.coinsTxUnsigned(spelled, spelled, 1e6)
		}
	case "realTo":
		tx = r.coinsTxUnsigned(address.ExecAddress(r.coins), spelled, 1e6)
	case "evmContract":
		n := d.evmName(r)
		tx = r.evmTxUnsigned(n, spelled, nil)
		desc = "exec=" + n
	case "evmPara":
		n := d.evmName(r)
		raw, err := address.NewBtcAddress(acct.addr())
		var b []byte
		if err == nil {
			b = raw.Hash160[:]
		} else {
			b, _ = common.FromHex(acct.addr())
		}
		tx = r.evmTxUnsigned(n, address.ExecAddress(n), b)
		desc = "exec=" + n
	}
	return tx, key, sigTy, desc
}

func (d *blDrv) evmName(r *blRig) string {
	if r.chain == "para" {
		return r.evm
	}
	return []string{"evm", "evm", "user.evm.v1"}[d.r.Intn(3)]
}

func (r *blRig) evmTxUnsigned(execName, contract string, para []byte) *types.Transaction {
	act := &types.EVMContractAction4Chain33{Amount: 0, GasLimit: 100000, GasPrice: 1, ContractAddr: contract, Para: para}
	return &types.Transaction{Execer: []byte(execName), Payload: types.Encode(act), To: address.ExecAddress(execName),
		Fee: 1e6, Nonce: r.nextNonce(), ChainID: r.cfg.GetChainID()}
}

func (d *blDrv) build(r *blRig, row blRow) (*builtRow, error) {
	d.r = rand.New(rand.NewSource(d.seed))
	br := &builtRow{desc: map[string]any{}}
	switch row.shape {
	case "single", "delayed":
		tx, key, sigTy, desc := d.mkTouching(r, row, 0, false)
		r.sign(tx, key, sigTy)
		br.txs, br.pool, br.touch = []*types.Transaction{tx}, tx, 0
		br.desc["tx"] = desc
		if row.shape == "delayed" {
			br.inner = tx
		}
	case "group":
		txs := make([]*types.Transaction, row.g)
		keys := make([]int, row.g)
		sigs := make([]int32, row.g)
		for i := 0; i < row.g; i++ {
			if i == row.m-1 {
				var desc string
				txs[i], keys[i], sigs[i], desc = d.mkTouching(r, row, i, false)
				br.desc["tx"] = desc
			} else {
				clean := blRow{chain: row.chain, pos: "none"}
				txs[i], keys[i], sigs[i], _ = d.mkTouching(r, clean, i, false)
			}
		}
		g, err := types.CreateTxGroup(txs, r.cfg.GetMinTxFeeRate())
		if err != nil {
			return nil, err
		}
		for i := range g.Txs {
			r.sign(g.Txs[i], keys[i], sigs[i])
		}
		br.txs, br.pool, br.touch = g.Txs, g.Tx(), row.m-1
	case "proxy":
		// outer: evm transaction to the proxy-exec address, signed with an eth key; its payload
		// carries the real chain33 transaction, which the executor runs with the outer signature
		inner, key, _, desc := d.mkTouching(r, row, 0, true)
		if row.pos != "from" {
			key = ethSenderBase + d.r.Intn(6)
		}
		act := &types.EVMContractAction4Chain33{GasLimit: 100000, GasPrice: 1, Para: types.Encode(inner)}
		outer := &types.Transaction{Execer: []byte("evm"), Payload: types.Encode(act),
			To: r.cfg.GetModuleConfig().Exec.ProxyExecAddress, Fee: 1e6, Nonce: 0, ChainID: r.cfg.GetChainID()}
		r.sign(outer, key, ethSigTy())
		br.txs, br.pool, br.touch = []*types.Transaction{outer}, outer, 0
		br.desc["tx"] = "proxied " + desc
	default:
		return nil, fmt.Errorf("unknown shape %q", row.shape)
	}
	return br, nil
}

// ---- legs ---------------------------------------------------------------------------------------

// exec: EventExecTxList at the declared height on the tip state; status of the touching tx
func (r *blRig) legExec(br *builtRow, h int64) (string, error) {
	blk := &types.Block{Height: h, BlockTime: r.tip.BlockTime + 1, ParentHash: r.tip.Hash(r.cfg), Txs: br.txs}
	rc, err := util.ExecTx(r.cli, r.tip.StateHash, blk)
	if err != nil {
		return "", err
	}
	if len(rc.Receipts) != len(br.txs) {
		return "", fmt.Errorf("%d receipts for %d transactions", len(rc.Receipts), len(br.txs))
	}
	if rc.Receipts[br.touch].Ty == types.ExecOk {
		return "ok", nil
	}
	r.lastErr = ""
	for _, l := range rc.Receipts[br.touch].Logs {
		r.lastErr += fmt.Sprintf("[%d %s]", l.Ty, string(l.Log))
	}
	return "notok", nil
}

// unpool removes a transaction from the pool (the controls must not linger: the pool keeps
// one transaction per eth sender and nonce)
func (r *blRig) unpool(tx *types.Transaction) {
	msg := r.cli.NewMessage("mempool", types.EventDelTxList, &types.TxHashList{Hashes: [][]byte{tx.Hash()}})
	if r.cli.Send(msg, true) == nil {
		r.cli.WaitTimeout(msg, 60*time.Second)
	}
}

// pack: AddTxsToBlock at the declared height
func (r *blRig) legPack(br *builtRow, h int64) string {
	blk := &types.Block{Height: h, BlockTime: r.tip.BlockTime + 1, ParentHash: r.tip.Hash(r.cfg)}
	r.bc.AddTxsToBlock(blk, []*types.Transaction{br.pool})
	if len(blk.Txs) == 0 {
		return "skipped"
	}
	return "taken"
}

// pool: SendTx (and for the delayed shape EventAddDelayTx)
func (r *blRig) legPool(tx *types.Transaction) string {
	reply, err := r.api.SendTx(tx)
	if err != nil || reply == nil || !reply.IsOk {
		return "rejected"
	}
	return "accepted"
}

func (r *blRig) legAddDelay(tx *types.Transaction) (string, error) {
	msg := r.cli.NewMessage("mempool", types.EventAddDelayTx, &types.DelayTx{Tx: tx, EndDelayTime: r.tip.BlockTime + 1000})
	if err := r.cli.Send(msg, true); err != nil {
		return "", err
	}
	resp, err := r.cli.WaitTimeout(msg, 60*time.Second)
	if err != nil {
		return "", err
	}
	rep, ok := resp.GetData().(*types.Reply)
	if !ok {
		return "", fmt.Errorf("unexpected reply %T", resp.GetData())
	}
	if rep.IsOk {
		return "accepted", nil
	}
	return "rejected", nil
}

// twin: an identical transaction with another nonce (the pool refuses duplicates); build
// re-seeds its random choices, so the twin takes exactly the same shape
func (d *blDrv) twin(r *blRig, row blRow) (*builtRow, error) { return d.build(r, row) }

// block: a foreign block at tip+1 carrying the row's transactions, manufactured with the list
// cleared (an un-upgraded producer), delivered through the verifying path with the list installed
func (r *blRig) legBlock(br *builtRow) (string, error) {
	var blk *types.Block
	var err error
	withRule(false, func() {
		b := util.CreateNewBlock(r.cfg, r.tip, br.txs)
		var detail *types.BlockDetail
		detail, _, err = util.ExecBlock(r.cli, r.tip.StateHash, b, false, true, false)
		if err == nil {
			if len(detail.Block.Txs) != len(br.txs) {
				err = fmt.Errorf("factory dropped transactions (%d of %d left)", len(detail.Block.Txs), len(br.txs))
				return
			}
			for _, rc := range detail.Receipts {
				if rc.Ty != types.ExecOk {
					err = fmt.Errorf("factory receipt %d", rc.Ty)
					return
				}
			}
			blk = detail.Block
		}
	})
	if err != nil {
		return "", fmt.Errorf("manufacturing the foreign block: %v", err)
	}
	var out string
	withRule(true, func() {
		_, perr := r.bchn.ProcAddBlockMsg(false, &types.BlockDetail{Block: blk}, "verif-peer")
		last, lerr := r.api.GetLastHeader()
		if lerr != nil {
			err = lerr
			return
		}
		if last.Height == r.tip.Height {
			out = "absent"
			return
		}
		// the block was connected: is the touching transaction on the chain with ExecOk?
		_ = perr
		d, qerr := r.api.QueryTx(&types.ReqHash{Hash: br.txs[br.touch].Hash()})
		nb := r.mock.GetBlock(last.Height)
		r.tip = nb
		if qerr == nil && d != nil && d.Receipt != nil && d.Receipt.Ty == types.ExecOk {
			out = "onchain-ok"
		} else {
			out = "absent"
		}
	})
	return out, err
}

// ---- driver -------------------------------------------------------------------------------------
type blDrv struct {
	env  *core.Env
	b    *core.Behaviour
	r    *rand.Rand
	seed int64
	last map[string]any
}

func (d *blDrv) Reset(env *core.Env, b *core.Behaviour) error {
	d.env, d.b = env, b
	d.seed = env.Seed*1000003 + bhash(b.ID) + int64(env.OptInt("salt", 0))*7919
	d.r = rand.New(rand.NewSource(d.seed))
	d.last = nil
	return nil
}
func (d *blDrv) Close() {}

func parseRow(s core.Step) blRow {
	return blRow{chain: s.Str("chain"), pos: s.Str("pos"), shape: s.Str("shape"), acct: s.Str("acct"), spell: s.Str("spell"),
		h: int64(s.Int("h")), g: s.Int("g"), m: s.Int("m")}
}

func (d *blDrv) Apply(s core.Step) (any, any, error) {
	row := parseRow(s)
	rig, err := getRig(row.chain, int64(d.env.OptInt("tip", int(row.h)-1)))
	if err != nil {
		return nil, nil, err
	}
	switch s.Op() {
	case "Row":
		return d.row(rig, row, s)
	case "DelayChain":
		return d.delayChain(rig, row, s)
	}
	return nil, nil, fmt.Errorf("unknown op %q", s.Op())
}

func (d *blDrv) row(rig *blRig, row blRow, s core.Step) (any, any, error) {
	rig.mu.Lock()
	defer rig.mu.Unlock()
	touch := row.pos != "none"
	active := row.h >= blForkH
	br, err := d.build(rig, row)
	if err != nil {
		return nil, nil, err
	}
	d.last = br.desc
	ret := map[string]any{}
	// exec
	var ctl, obs string
	withRule(false, func() { ctl, err = rig.legExec(br, row.h) })
	if err != nil {
		return nil, nil, err
	}
	if ctl != "ok" {
		dbg := ""
		for _, t := range br.txs {
			dbg += fmt.Sprintf(" {from=%s bal=%d exec=%s to=%s fee=%d}", t.From(), rig.mock.GetAccount(rig.tip.StateHash, t.From()).GetBalance(), t.Execer, t.To, t.Fee)
		}
		return nil, nil, fmt.Errorf("control failed: with the list cleared the %s/%s transaction is not ExecOk at height %d (%v): %s%s", row.pos, row.shape, row.h, br.desc, rig.lastErr, dbg)
	}
	withRule(true, func() { obs, err = rig.legExec(br, row.h) })
	if err != nil {
		return nil, nil, err
	}
	ret["exec"] = obs
	// pack
	withRule(false, func() { ctl = rig.legPack(br, row.h) })
	if ctl != "taken" {
		return nil, nil, fmt.Errorf("control failed: with the list cleared AddTxsToBlock does not take the %s/%s transaction", row.pos, row.shape)
	}
	withRule(true, func() { obs = rig.legPack(br, row.h) })
	ret["pack"] = obs
	// pool: control on a twin (same transaction, next nonce), observation on the row's transaction
	{
		tw, err := d.twin(rig, row)
		if err != nil {
			return nil, nil, err
		}
		withRule(false, func() { ctl = rig.legPool(tw.pool) })
		if ctl != "accepted" {
			rep, e2 := rig.api.SendTx(tw.pool)
			return nil, nil, fmt.Errorf("control failed: with the list cleared the pool refuses the %s/%s transaction: %v %v (%v)", row.pos, row.shape, rep, e2, br.desc)
		}
		rig.unpool(tw.pool)
		withRule(true, func() { obs = rig.legPool(br.pool) })
		if obs == "accepted" {
			rig.unpool(br.pool)
		}
		if row.shape == "delayed" {
			var o2 string
			tw2, err := d.twin(rig, row)
			if err != nil {
				return nil, nil, err
			}
			var c2 string
			withRule(false, func() { c2, err = rig.legAddDelay(tw2.pool) })
			if err != nil {
				return nil, nil, err
			}
			if c2 != "accepted" {
				return nil, nil, fmt.Errorf("control failed: with the list cleared EventAddDelayTx refuses the transaction")
			}
			withRule(true, func() { o2, err = rig.legAddDelay(br.pool) })
			if err != nil {
				return nil, nil, err
			}
			if o2 != "rejected" {
				obs = "delay-" + o2
			}
		}
		ret["pool"] = obs
	}
	// block (only where something is demanded: the block must be refused, so the tip stays)
	ret["block"] = "n/a"
	if touch && active {
		// the block is delivered at tip+1: that is the row height unless an earlier row's block was
		// (wrongly) connected and moved the tip; the rule must be active there in any case
		if rig.tip.Height+1 < blForkH {
			return nil, nil, fmt.Errorf("rig tip %d: a block at height %d would be below the fork", rig.tip.Height, rig.tip.Height+1)
		}
		obs, err = rig.legBlock(br)
		if err != nil {
			return nil, nil, err
		}
		ret["block"] = obs
	}
	return ret, nil, nil
}

// delayChain: the commit-in-a-block path. A clean carrier (none CommitDelayTx) holding the
// row's transaction is produced in a block; after the delay has expired the delayed transaction
// must not have reached the pool or the chain. Control rows must arrive (positive control).
func (d *blDrv) delayChain(rig *blRig, row blRow, s core.Step) (any, any, error) {
	rig.mu.Lock()
	defer rig.mu.Unlock()
	br, err := d.build(rig, row)
	if err != nil {
		return nil, nil, err
	}
	d.last = br.desc
	inner := br.txs[0]
	mkCarrier := func(dtx *types.Transaction, key int) *types.Transaction {
		act := &nty.NoneAction{Ty: nty.TyCommitDelayTxAction, Value: &nty.NoneAction_CommitDelayTx{CommitDelayTx: &nty.CommitDelayTx{
			DelayTx: common.ToHex(types.Encode(dtx)), RelativeDelayTime: 1, RelativeDelayHeight: 1}}}
		c := &types.Transaction{Execer: []byte(nty.NoneX), Payload: types.Encode(act), To: address.ExecAddress(nty.NoneX),
			Fee: 1e6, Nonce: rig.nextNonce(), ChainID: rig.cfg.GetChainID()}
		rig.sign(c, key, types.SECP256K1)
		return c
	}
	// a clean marker is committed right behind the row's transaction with the same delay: the pool
	// releases both in block order, so once the marker is in the pool the row's transaction has
	// been handed to the pool's entry check as well (no sleeping, no guessing)
	marker := rig.coinsTx(senderBase+5, types.SECP256K1, btcAddr(cleanToBase+2), btcAddr(cleanToBase+2), 1)
	arrived := "never"
	var perr error
	withRule(true, func() {
		if perr = rig.produce([]*types.Transaction{mkCarrier(inner, senderBase+3), mkCarrier(marker, senderBase+6)}, 2); perr != nil {
			return
		}
		// two more blocks so that the delay is over and the pool has been told
		for i := 0; i < 2 && perr == nil; i++ {
			perr = rig.produce([]*types.Transaction{rig.coinsTx(senderBase+4, types.SECP256K1, btcAddr(cleanToBase+1), btcAddr(cleanToBase+1), 1)}, 1)
		}
	})
	if perr != nil {
		return nil, nil, perr
	}
	deadline := time.Now().Add(time.Duration(d.env.OptInt("delaywait", 120000)) * time.Millisecond)
	sawMarker := false
	for !sawMarker {
		l, err := rig.api.GetMempool(&types.ReqGetMempool{})
		if err == nil {
			for _, t := range l.Txs {
				if string(t.Hash()) == string(marker.Hash()) {
					sawMarker = true
				}
			}
			if sawMarker {
				for _, t := range l.Txs {
					if string(t.Hash()) == string(inner.Hash()) {
						arrived = "in-pool"
					}
				}
			}
		}
		if !sawMarker {
			if time.Now().After(deadline) {
				return nil, nil, fmt.Errorf("the clean marker delayed transaction never reached the pool")
			}
			time.Sleep(20 * time.Millisecond)
		}
	}
	rig.unpool(marker)
	if arrived == "in-pool" {
		rig.unpool(inner)
	}
	if row.pos == "none" && arrived != "in-pool" {
		return nil, nil, fmt.Errorf("control failed: a clean delayed transaction did not reach the pool after its delay")
	}
	return map[string]any{"delaychain": arrived}, nil, nil
}

// NonTrivial (C31): a row at or above the fork height with a blacklisted position
func (d *blDrv) NonTrivial(env *core.Env, b *core.Behaviour) bool {
	for _, s := range b.Steps {
		if s.Str("pos") != "none" && (int64(s.Int("h")) >= blForkH || s.Op() == "DelayChain") {
			return true
		}
	}
	return false
}

// Signature: leg | position | shape (member/size) | listing spelling -> tx spelling | height relation
func (d *blDrv) Signature(b *core.Behaviour, idx int, field string, exp, obs any) string {
	s := b.Steps[idx]
	row := parseRow(s)
	e, _ := exp.(map[string]any)
	o, _ := obs.(map[string]any)
	var legs []string
	for _, k := range []string{"exec", "pack", "pool", "block", "delaychain"} {
		if ev, ok := e[k]; ok && !core.Match(ev, o[k]) {
			legs = append(legs, fmt.Sprintf("%s=%v", k, o[k]))
		}
	}
	rel := "below-fork"
	if row.h >= blForkH {
		rel = "at-or-above-fork"
	}
	shape := row.shape
	if row.shape == "group" {
		shape = fmt.Sprintf("group(member %d of %d)", row.m, row.g)
	}
	listed := "-"
	if a, ok := blAccts[row.acct]; ok {
		listed = map[string]string{"a1": "b58", "a2": "lower", "a3": "mixed", "a4": "nox-upper", "a5": "0X-upper"}[row.acct]
		_ = a
	}
	return fmt.Sprintf("%s|%s|%s|pos=%s|shape=%s|listed=%s|spelled=%s|%s", s.Op(), row.chain, strings.Join(legs, ","), row.pos, shape, listed, row.spell, rel)
}
