// The rig: a real chain33 test node (store, blockchain with its local DB, executor, queue)
// on which blocks of script transactions are executed through the public entry points
// util.ExecTx (EventExecTxList), util.PreExecBlock, BlockChain.ProcAddBlockMsg and the
// executor's EventAddBlock / EventDelBlock.  One rig lives in one (child) process.
package main

import (
	"bytes"
	"crypto/sha256"
	"encoding/hex"
	"encoding/json"
	"fmt"
	"os"
	"runtime"
	"strings"
	"sync"

	"github.com/33cn/chain33/blockchain"
	"github.com/33cn/chain33/client"
	"github.com/33cn/chain33/common/address"
	"github.com/33cn/chain33/common/crypto"
	"github.com/33cn/chain33/common/log/log15"
	"github.com/33cn/chain33/common/merkle"
	"github.com/33cn/chain33/queue"
	cty "github.com/33cn/chain33/system/dapp/coins/types"
	"github.com/33cn/chain33/types"
	"github.com/33cn/chain33/util"
	"github.com/33cn/chain33/util/testnode"

	_ "github.com/33cn/chain33/system"
)

// TxSpec is one transaction of a block: an executor name and a script (verif* executors),
// or a coins transfer / none transaction.
type TxSpec struct {
	Exec   string `json:"exec"`
	Script []Op   `json:"script,omitempty"`
	To     string `json:"to,omitempty"`     // coins: receiver
	Amount int64  `json:"amount,omitempty"` // coins: amount
}

// Outcome is everything observable about one execution of a block.
type Outcome struct {
	Rejected bool       `json:"rej"`
	Err      string     `json:"err,omitempty"`
	Tys      []int      `json:"tys,omitempty"`
	Echo     [][]Echo   `json:"echo,omitempty"`
	ErrLogs  []string   `json:"errlogs,omitempty"`
	KV       [][]string `json:"kv,omitempty"` // state write set (after DelDupKey), key/value as strings
	Root     string     `json:"root,omitempty"`
	LocalAdd [][]string `json:"ladd,omitempty"`
	LocalDel [][]string `json:"ldel,omitempty"`
	LocalErr string     `json:"lerr,omitempty"`
	FeeDelta int64      `json:"fee"`
	FeeWant  int64      `json:"feewant"`
	Height   int64      `json:"height"`
	Prior    string     `json:"prior"`
	Dropped  int        `json:"dropped"`
	BlockID  string     `json:"blockid"` // sha256 of the encoded block as built
	// digests (hex sha256) of the byte encodings: receipts, state write set, root, local add set, local del set
	DRcpt  string `json:"drcpt,omitempty"`
	DRcpt1 string `json:"drcpt1,omitempty"` // receipts of EventExecTxList alone
	DKV   string `json:"dkv,omitempty"`
	DLAdd string `json:"dladd,omitempty"`
	DLDel string `json:"dldel,omitempty"`
}

// Rig is the node plus the chain tip the next block is built on.
type Rig struct {
	mock  *testnode.Chain33Mock
	cfg   *types.Chain33Config
	cli   queue.Client
	api   client.QueueProtocolAPI
	chain *blockchain.BlockChain
	priv  crypto.PrivKey
	from  string
	tip   *types.Block
	para  bool
}

func silenceLogs() {
	if os.Getenv("VH_EXEC_DEBUG") != "" {
		return
	}
	log15.Root().SetHandler(log15.DiscardHandler())
}

// NewRig starts a fresh node. plugins: "default" or "all" (stat and addrfeeindex on as well).
func NewRig(para bool, plugins string) (*Rig, error) {
	s := types.GetDefaultCfgstring()
	if para {
		s = strings.Replace(s, `Title="local"`, `Title="user.p.para."`, 1)
	}
	cfg := types.NewChain33Config(s)
	m := cfg.GetModuleConfig()
	m.Consensus.Minerstart = false
	if plugins == "all" || plugins == "mvcc" {
		m.Exec.EnableStat = true
		m.Exec.EnableAddrFeeIndex = true
	}
	if plugins == "mvcc" {
		// not used by the checks: with the executor's MVCC on, the version record of the genesis
		// state is stored as an empty value (= deleted) and block 1 cannot be executed
		m.Exec.EnableMVCC = true
	}
	registerApps(cfg)
	silenceLogs()
	mock := testnode.NewWithConfig(cfg, nil)
	if mock == nil {
		return nil, fmt.Errorf("testnode did not start")
	}
	silenceLogs()
	r := &Rig{mock: mock, cfg: cfg, cli: mock.GetClient(), api: mock.GetAPI(), chain: mock.GetBlockChain(), para: para}
	r.priv = mock.GetGenesisKey()
	r.from = mock.GetGenesisAddress()
	if err := mock.WaitHeightTimeout(0, 20); err != nil {
		mock.Close()
		return nil, fmt.Errorf("no genesis block: %v", err)
	}
	r.tip = mock.GetBlock(0)
	return r, nil
}

// GenesisDigest is the digest of what executing the genesis block on the empty database left in the
// local data as far as it is readable back: the plugin flag records and the fee / statistic
// records of height 0, together with the genesis state root.
func (r *Rig) GenesisDigest() string {
	keys := []string{string(types.StatisticFlag()), string(types.FlagKeyMVCC), string(types.FlagTxQuickIndex)}
	vals, found, err := r.GetLocal(keys)
	parts := [][]byte{[]byte(fmt.Sprintf("root=%x err=%v", r.tip.StateHash, err))}
	for i := range keys {
		if err == nil {
			parts = append(parts, []byte(fmt.Sprintf("%s found=%v value=%x", keys[i], found[i], vals[i])))
		}
	}
	for _, pfx := range []string{"TotalFeeKey:", "Statistic"} {
		l, lerr := r.api.LocalList(&types.LocalDBList{Prefix: []byte(pfx), Direction: 1, Count: 0})
		if lerr == nil && l != nil {
			for _, v := range l.Values {
				parts = append(parts, []byte(pfx), v)
			}
		}
	}
	return dig(parts...)
}

// Close stops the node and removes its data directory.
func (r *Rig) Close() {
	if r.mock != nil {
		r.mock.Close()
		r.mock = nil
	}
}

const txFee = 1000000

func (r *Rig) newTx(sp *TxSpec, nonce int64) (*types.Transaction, error) {
	tx := &types.Transaction{Execer: []byte(sp.Exec), Fee: txFee, Nonce: nonce, Expire: 0, ChainID: r.cfg.GetChainID()}
	switch {
	case sp.Exec == "coins" || strings.HasSuffix(sp.Exec, ".coins"):
		act := &cty.CoinsAction{Ty: cty.CoinsActionTransfer,
			Value: &cty.CoinsAction_Transfer{Transfer: &types.AssetsTransfer{Amount: sp.Amount, Note: []byte("v")}}}
		tx.Payload = types.Encode(act)
		tx.To = sp.To
	case sp.Exec == "none":
		tx.Payload = []byte("none-payload")
		tx.To = address.ExecAddress(sp.Exec)
	default:
		b, err := json.Marshal(sp.Script)
		if err != nil {
			return nil, err
		}
		tx.Payload = b
		tx.To = address.ExecAddress(sp.Exec)
	}
	return tx, nil
}

// BuildBlock makes the next block on the tip. items: single transactions (len 1) and groups (len >= 2).
// Nonces depend only on (height, position, salt), signatures are deterministic, so the block is
// byte-identical in every process that builds it on the same tip.
func (r *Rig) BuildBlock(items [][]TxSpec, salt int64) (*types.Block, int64, error) {
	b, fee, _, err := r.buildBlock(items, salt)
	return b, fee, err
}

func (r *Rig) buildBlock(items [][]TxSpec, salt int64) (*types.Block, int64, [][]*types.Transaction, error) {
	height := r.tip.Height + 1
	var txs []*types.Transaction
	var perItem [][]*types.Transaction
	feeWant := int64(0)
	pos := int64(0)
	for _, it := range items {
		var g []*types.Transaction
		for i := range it {
			pos++
			tx, err := r.newTx(&it[i], height*100000+salt*1000+pos)
			if err != nil {
				return nil, 0, nil, err
			}
			g = append(g, tx)
		}
		if len(g) == 1 {
			g[0].Sign(types.SECP256K1, r.priv)
			feeWant += g[0].Fee
		} else {
			grp, err := types.CreateTxGroup(g, r.cfg.GetMinTxFeeRate())
			if err != nil {
				return nil, 0, nil, err
			}
			for i := range grp.Txs {
				grp.SignN(i, types.SECP256K1, r.priv)
			}
			g = grp.GetTxs()
			feeWant += g[0].Fee
		}
		txs = append(txs, g...)
		perItem = append(perItem, g)
	}
	b := &types.Block{Height: height, BlockTime: r.tip.BlockTime + 1, ParentHash: r.tip.Hash(r.cfg), Txs: txs}
	b.TxHash = merkle.CalcMerkleRoot(r.cfg, b.Height, b.Txs)
	return b, feeWant, perItem, nil
}

func kvStrings(kvs []*types.KeyValue) [][]string {
	out := make([][]string, 0, len(kvs))
	for _, kv := range kvs {
		out = append(out, []string{hex.EncodeToString(kv.Key), hex.EncodeToString(kv.Value)})
	}
	return out
}

func dig(parts ...[]byte) string {
	h := sha256.New()
	for _, p := range parts {
		var l [8]byte
		n := len(p)
		for i := 0; i < 8; i++ {
			l[i] = byte(n >> (8 * i))
		}
		h.Write(l[:])
		h.Write(p)
	}
	return hex.EncodeToString(h.Sum(nil))
}

func (r *Rig) balance(root []byte) int64 {
	return r.mock.GetAccount(root, r.from).Balance
}

// localSets asks the executor for the local write set of adding / removing the block.
func (r *Rig) localSets(detail *types.BlockDetail, del bool) (*types.LocalDBSet, error) {
	ev := int64(types.EventAddBlock)
	if del {
		ev = types.EventDelBlock
	}
	msg := r.cli.NewMessage("execs", ev, detail)
	if err := r.cli.Send(msg, true); err != nil {
		return nil, err
	}
	resp, err := r.cli.Wait(msg)
	if err != nil {
		return nil, err
	}
	set, ok := resp.GetData().(*types.LocalDBSet)
	if !ok {
		return nil, fmt.Errorf("unexpected reply %T", resp.GetData())
	}
	return set, nil
}

// Exec executes the block on the tip's state without connecting it: receipts of
// EventExecTxList, the state write set and root of PreExecBlock, the local add set of
// EventAddBlock. The pending store update is rolled back afterwards.
func (r *Rig) Exec(blk *types.Block, feeWant int64) (*Outcome, *types.BlockDetail) {
	prior := r.tip.StateHash
	out := &Outcome{Height: blk.Height, Prior: hex.EncodeToString(prior), FeeWant: feeWant, BlockID: dig(types.Encode(blk))}
	b1 := types.Clone(blk).(*types.Block)
	rc, err := util.ExecTx(r.cli, prior, b1)
	if err != nil {
		out.Rejected, out.Err = true, err.Error()
		return out, nil
	}
	out.DRcpt = dig(types.Encode(rc))
	out.DRcpt1 = out.DRcpt
	for _, x := range rc.Receipts {
		out.Tys = append(out.Tys, int(x.Ty))
		var es []Echo
		el := ""
		for _, l := range x.Logs {
			if l.Ty == TyLogEcho {
				var e Echo
				if err := json.Unmarshal(l.Log, &e); err == nil {
					es = append(es, e)
				}
			}
			if l.Ty == types.TyLogErr {
				el = string(l.Log)
			}
		}
		out.Echo = append(out.Echo, es)
		out.ErrLogs = append(out.ErrLogs, el)
	}
	b2 := types.Clone(blk).(*types.Block)
	detail, deltx, err := util.PreExecBlock(r.cli, prior, b2, false, true, false)
	if err != nil {
		out.Rejected, out.Err = true, "preexec: "+err.Error()
		return out, nil
	}
	out.Dropped = len(deltx)
	out.KV = kvStrings(detail.KV)
	out.Root = hex.EncodeToString(detail.Block.StateHash)
	out.DKV = dig(types.Encode(&types.LocalDBSet{KV: detail.KV}))
	// second observation of the receipts inside the same process: PreExecBlock's ReceiptData
	var rd []byte
	for _, x := range detail.Receipts {
		rd = append(rd, types.Encode(x)...)
	}
	out.DRcpt = dig([]byte(out.DRcpt), rd)
	out.FeeDelta = r.balance(prior) - r.balance(detail.Block.StateHash)
	set, err := r.localSets(detail, false)
	if err != nil {
		// the executor refuses to produce the block's local data: the block cannot be added
		out.LocalErr = err.Error()
		out.Rejected, out.Err = true, "addblock: "+err.Error()
	} else {
		out.LocalAdd = kvStrings(set.KV)
		out.DLAdd = dig(types.Encode(set))
	}
	if !bytes.Equal(detail.Block.StateHash, prior) {
		if err := util.ExecKVSetRollback(r.cli, detail.Block.StateHash); err != nil {
			out.Err = "rollback: " + err.Error()
		}
	}
	return out, detail
}

// ExecConcurrent sends the block to the executor n times at once (the executor serves every
// EventExecTxList in its own goroutine) while a side block is executed as well; returns the digest
// of each reply's receipts.
func (r *Rig) ExecConcurrent(blk *types.Block, side *types.Block, n int) []*Outcome {
	outs := make([]*Outcome, n)
	prior := r.tip.StateHash
	var wg sync.WaitGroup
	for i := 0; i < n; i++ {
		wg.Add(1)
		go func(i int) {
			defer wg.Done()
			o := &Outcome{Height: blk.Height, Prior: hex.EncodeToString(prior), BlockID: dig(types.Encode(blk))}
			rc, err := util.ExecTx(r.cli, prior, types.Clone(blk).(*types.Block))
			if err != nil {
				o.Rejected, o.Err = true, err.Error()
			} else {
				o.DRcpt1 = dig(types.Encode(rc))
			}
			outs[i] = o
		}(i)
	}
	if side != nil {
		wg.Add(1)
		go func() {
			defer wg.Done()
			util.ExecTx(r.cli, prior, types.Clone(side).(*types.Block))
		}()
	}
	wg.Wait()
	return outs
}

// Connect executes the block (as Exec) and then connects it to the chain through
// BlockChain.ProcAddBlockMsg, which executes it again and persists state and local data.
//
// peer: the block is delivered as a block received from a peer - pre-executed header fields
// (TxHash, StateHash) filled in, so that ProcAddBlockMsg also verifies the transaction signatures
// (types.VerifySignature, parallel over the CPUs), the transaction root and the state root.
func (r *Rig) Connect(blk *types.Block, feeWant int64, peer bool) *Outcome {
	out, pre := r.Exec(blk, feeWant)
	if out.Rejected && out.LocalErr == "" {
		return out
	}
	b3 := types.Clone(blk).(*types.Block)
	pid := "self"
	if peer && pre != nil && pre.Block != nil {
		b3 = types.Clone(pre.Block).(*types.Block)
		pid = "verif-peer"
	}
	detail, err := r.chain.ProcAddBlockMsg(false, &types.BlockDetail{Block: b3}, pid)
	if err != nil {
		out.Rejected, out.Err = true, "connect: "+err.Error()
		return out
	}
	if detail == nil || detail.Block == nil {
		out.Rejected, out.Err = true, "connect: no block detail"
		return out
	}
	if out.LocalErr != "" {
		// the chain connected a block whose local data the executor refused to produce
		out.Rejected = false
		out.LocalErr = "connected although: " + out.LocalErr
		out.Err = ""
	}
	if got := hex.EncodeToString(detail.Block.StateHash); got != out.Root {
		out.Err = "connect: state root differs from PreExecBlock: " + got
	}
	r.tip = r.mock.GetBlock(blk.Height)
	full := &types.BlockDetail{Block: r.tip, Receipts: detail.Receipts, KV: detail.KV, PrevStatusHash: detail.PrevStatusHash}
	set, err := r.localSets(full, true)
	if err != nil {
		out.LocalErr += " del: " + err.Error()
	} else {
		out.LocalDel = kvStrings(set.KV)
		out.DLDel = dig(types.Encode(set))
	}
	return out
}

// GetState reads keys at the tip's state root through the store module.
func (r *Rig) GetState(keys []string) ([]string, []bool, error) {
	q := &types.StoreGet{StateHash: r.tip.StateHash}
	for _, k := range keys {
		q.Keys = append(q.Keys, []byte(k))
	}
	rep, err := r.api.StoreGet(q)
	if err != nil {
		return nil, nil, err
	}
	vals := make([]string, len(keys))
	found := make([]bool, len(keys))
	for i := range keys {
		if i < len(rep.Values) && rep.Values[i] != nil {
			vals[i], found[i] = string(rep.Values[i]), true
		}
	}
	return vals, found, nil
}

// GetLocal reads keys from the blockchain's local DB (outside any transaction).
func (r *Rig) GetLocal(keys []string) ([]string, []bool, error) {
	q := &types.LocalDBGet{}
	for _, k := range keys {
		q.Keys = append(q.Keys, []byte(k))
	}
	rep, err := r.api.LocalGet(q)
	if err != nil {
		return nil, nil, err
	}
	vals := make([]string, len(keys))
	found := make([]bool, len(keys))
	for i := range keys {
		if i < len(rep.Values) && rep.Values[i] != nil {
			vals[i], found[i] = string(rep.Values[i]), true
		}
	}
	return vals, found, nil
}

// Activity performs process-local activity that must not influence later executions.
func (r *Rig) Activity(kind string, items [][]TxSpec) error {
	switch kind {
	case "gc":
		runtime.GC()
		runtime.GC()
	case "query":
		if _, err := r.api.GetLastHeader(); err != nil {
			return err
		}
		if _, err := r.api.GetBlocks(&types.ReqBlocks{Start: 0, End: r.tip.Height, IsDetail: true}); err != nil {
			return err
		}
		r.balance(r.tip.StateHash)
	case "side", "checktx":
		blk, fee, per, err := r.buildBlock(items, 7)
		if err != nil {
			return err
		}
		if kind == "side" {
			r.Exec(blk, fee)
			return nil
		}
		// as the mempool does: a group travels as its first transaction carrying the encoded group
		var txs []*types.Transaction
		for _, g := range per {
			if len(g) == 1 {
				txs = append(txs, g[0])
			} else {
				txs = append(txs, (&types.Transactions{Txs: g}).Tx())
			}
		}
		list := &types.ExecTxList{StateHash: r.tip.StateHash, ParentHash: blk.ParentHash, Txs: txs,
			BlockTime: blk.BlockTime, Height: blk.Height, IsMempool: true}
		msg := r.cli.NewMessage("execs", types.EventCheckTx, list)
		if err := r.cli.Send(msg, true); err != nil {
			return err
		}
		if _, err := r.cli.Wait(msg); err != nil {
			return err
		}
	default:
		return fmt.Errorf("unknown activity %q", kind)
	}
	return nil
}
