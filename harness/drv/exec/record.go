// Recorder for C13 (binding B): seeded random scenarios - a prior chain, a focal block larger than
// the model checker's, a schedule of executions in the long-running process (with process-local
// activity in between) and in fresh child processes, with GOMAXPROCS 1 / 2 / 16 - are run on the
// real node; every execution is recorded as an event carrying the identity of (block bytes,
// prior state root) and the digest observed.  Exec_Trace accepts the trace iff equal identities
// carry equal digests.
package main

import (
	"fmt"
	"math/rand"

	"verif/harness/core"
)

type interner struct{ m map[string]int }

func (i *interner) id(s string) int {
	if v, ok := i.m[s]; ok {
		return v
	}
	v := len(i.m) + 1
	i.m[s] = v
	return v
}

func genScript(rng *rand.Rand, exec, tag string, num int, nops int) []Op {
	var ops []Op
	sk := func() string { return fmt.Sprintf("mavl-%s-%sk%d", exec, tag, 1+rng.Intn(3)) }
	lk := func() string { return fmt.Sprintf("LODB-%s-%sk%d", exec, tag, 1+rng.Intn(2)) }
	val := fmt.Sprintf("v%d|%s", num, []string{"", "x", "pppppppppppppppppppp"}[rng.Intn(3)])
	for i := 0; i < nops; i++ {
		switch rng.Intn(12) {
		case 0, 1, 2:
			ops = append(ops, Op{O: "S", K: sk(), V: val, M: "both"})
		case 3:
			ops = append(ops, Op{O: "S", K: sk(), V: val, M: []string{"wnr", "rnw"}[rng.Intn(2)]})
		case 4, 5:
			ops = append(ops, Op{O: "RS", K: sk()})
		case 6:
			ops = append(ops, Op{O: "RL", K: lk()})
		case 7:
			ops = append(ops, Op{O: "LL", K: "LODB-" + exec + "-" + tag})
		case 8:
			if rng.Intn(3) == 0 {
				ops = append(ops, Op{O: []string{"F", "P"}[rng.Intn(2)]})
			}
		case 9, 10:
			ops = append(ops, Op{O: "L", K: lk(), V: val, M: []string{"ret", "both"}[rng.Intn(2)]})
		case 11:
			ops = append(ops, Op{O: "LD", K: lk(), M: "ret"})
		}
	}
	return ops
}

func genBlock(rng *rand.Rand, tag string, base int, maxItems int) [][]TxSpec {
	var items [][]TxSpec
	n := 1 + rng.Intn(maxItems)
	num := base
	for i := 0; i < n; i++ {
		size := 1
		if rng.Intn(3) == 0 {
			size = 2 + rng.Intn(2)
		}
		var it []TxSpec
		for j := 0; j < size; j++ {
			num++
			switch rng.Intn(8) {
			case 0:
				it = append(it, TxSpec{Exec: "coins", To: "1DVyHDFyEPfhESQNRCKanqhZXqPieyFDWW", Amount: int64(1 + rng.Intn(1000))})
			case 1:
				it = append(it, TxSpec{Exec: "none"})
			case 2:
				it = append(it, TxSpec{Exec: "user.verifx.sub", Script: genScript(rng, "user.verifx.sub", tag, num, 1+rng.Intn(4))})
			default:
				it = append(it, TxSpec{Exec: "verifx", Script: genScript(rng, "verifx", tag, num, 1+rng.Intn(5))})
			}
		}
		items = append(items, it)
	}
	return items
}

func recDet(env *core.Env, emit func(map[string]any)) (*core.Summary, error) {
	n := env.OptInt("n", 4)
	reps := env.OptInt("reps", 5)
	mode := "connect"
	if env.Opt("peer", "1") == "1" {
		mode = "connectpeer" // connected blocks pass through the parallel signature verification
	}
	rng := rand.New(rand.NewSource(env.Seed*7907 + int64(env.OptInt("salt", 0))))
	sum := &core.Summary{Counters: map[string]int{}}
	blocks, roots, digs := &interner{m: map[string]int{}}, &interner{m: map[string]int{}}, &interner{m: map[string]int{}}
	for sc := 0; sc < n; sc++ {
		emit(map[string]any{"ev": "Reset"})
		plug := []string{"default", "all"}[sc%2]
		long, err := startChild(0)
		if err != nil {
			return nil, err
		}
		fail := func(err error) (*core.Summary, error) { long.stop(); return nil, err }
		nr, err := long.call(&Cmd{Cmd: "node", Plugins: plug}, callTimeout)
		if err != nil {
			return fail(err)
		}
		// the genesis block on an empty database: this chain, and a second chain instance of the same process
		emit(map[string]any{"ev": "Gen", "cfg": sc % 2, "proc": "long", "dig": digs.id("gen|" + nr.Gen)})
		cr, err := long.call(&Cmd{Cmd: "chain", Plugins: plug}, callTimeout)
		if err != nil {
			return fail(err)
		}
		emit(map[string]any{"ev": "Gen", "cfg": sc % 2, "proc": "long-second-chain", "dig": digs.id("gen|" + cr.Gen)})
		tag := fmt.Sprintf("r%d.", sc)
		var chain [][][]TxSpec
		for i := rng.Intn(3); i > 0; i-- {
			b := genBlock(rng, tag, len(chain)*100, 4)
			r, err := long.call(&Cmd{Cmd: "block", Items: b, Mode: mode, Reps: 1}, callTimeout)
			if err != nil {
				return fail(err)
			}
			if !r.Outs[0].Rejected {
				chain = append(chain, b)
			}
		}
		focal := genBlock(rng, tag, 1000, 6)
		conds := map[string]bool{}
		record := func(o *Outcome, proc string, gmp, rep int) {
			emit(map[string]any{"ev": "Run", "blk": blocks.id(o.BlockID), "prior": roots.id(o.Prior), "proc": proc, "gmp": gmp,
				"rep": rep, "dig": digs.id(execDigest(o))})
			sum.Counters["executions"]++
		}
		nruns := 3 + rng.Intn(3)
		for k := 0; k < nruns; k++ {
			proc := []string{"long", "fresh"}[rng.Intn(2)]
			if k == 0 {
				proc = "long"
			}
			gmp := []int{1, 2, 16}[rng.Intn(3)]
			conds[fmt.Sprintf("%s/%d", proc, gmp)] = true
			if proc == "long" {
				for a := rng.Intn(3); a > 0; a-- {
					kind := []string{"gc", "query", "side", "checktx"}[rng.Intn(4)]
					items := focal
					if kind == "side" {
						items = genBlock(rng, tag+"s", 5000, 3)
					}
					if _, err := long.call(&Cmd{Cmd: "act", Kind: kind, Items: items}, callTimeout); err != nil {
						return fail(err)
					}
				}
				if _, err := long.call(&Cmd{Cmd: "gmp", Gmp: gmp}, callTimeout); err != nil {
					return fail(err)
				}
				r, err := long.call(&Cmd{Cmd: "block", Items: focal, Mode: "exec", Reps: reps}, callTimeout)
				if err != nil {
					return fail(err)
				}
				for i, o := range r.Outs {
					record(o, proc, gmp, i)
				}
			} else {
				c, err := startChild(gmp)
				if err != nil {
					return fail(err)
				}
				fr, err := c.call(&Cmd{Cmd: "node", Plugins: plug}, callTimeout)
				if err != nil {
					c.stop()
					return fail(err)
				}
				emit(map[string]any{"ev": "Gen", "cfg": sc % 2, "proc": "fresh", "dig": digs.id("gen|" + fr.Gen)})
				for _, b := range chain {
					if _, err := c.call(&Cmd{Cmd: "block", Items: b, Mode: mode, Reps: 1}, callTimeout); err != nil {
						c.stop()
						return fail(err)
					}
				}
				r, err := c.call(&Cmd{Cmd: "block", Items: focal, Mode: mode, Reps: reps}, callTimeout)
				c.stop()
				if err != nil {
					return fail(err)
				}
				for i, o := range r.Outs {
					record(o, proc, gmp, i)
				}
				last := r.Outs[len(r.Outs)-1]
				emit(map[string]any{"ev": "Del", "blk": blocks.id(last.BlockID), "prior": roots.id(last.Prior), "proc": proc, "gmp": gmp,
					"dig": digs.id("del|" + last.DLDel)})
			}
		}
		r, err := long.call(&Cmd{Cmd: "block", Items: focal, Mode: mode, Reps: 1}, callTimeout)
		if err != nil {
			return fail(err)
		}
		o := r.Outs[0]
		record(o, "long", 0, 0)
		emit(map[string]any{"ev": "Del", "blk": blocks.id(o.BlockID), "prior": roots.id(o.Prior), "proc": "long", "gmp": 0,
			"dig": digs.id("del|" + o.DLDel)})
		long.stop()
		sum.Behaviours++
		if len(conds) >= 2 {
			sum.NonTrivial++
		}
		if len(sum.Samples) < 2 {
			sum.Samples = append(sum.Samples, map[string]any{"scenario": sc, "plugins": plug, "prior_blocks": len(chain),
				"focal_items": len(focal), "conditions": len(conds), "focal": focal})
		}
	}
	return sum, nil
}
