// Driver for the Exec family (C11, C12, C13): block execution over script transactions.
package main

import (
	"verif/harness/core"
)

func main() {
	core.Main(&core.Family{
		Name:      "Exec",
		NewDriver: newDriver,
		Recorders: map[string]core.Recorder{"default": recDet, "det": recDet},
		Extra:     map[string]func(env *core.Env, args []string) int{"child": childMain},
	})
}
