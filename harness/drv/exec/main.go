// Driver for the Exec family (C11, C12, C13).
package main

import (
	"encoding/json"
	"fmt"
	"os"
	"time"

	"verif/harness/core"
)

func probe(env *core.Env, args []string) int {
	t0 := time.Now()
	r, err := NewRig(env.Opt("para", "0") == "1", env.Opt("plugins", "default"))
	if err != nil {
		fmt.Fprintln(os.Stderr, "rig:", err)
		return 2
	}
	defer func() { t := time.Now(); r.Close(); fmt.Fprintln(os.Stderr, "close in", time.Since(t)) }()
	fmt.Fprintln(os.Stderr, "node up in", time.Since(t0))
	ex := env.Opt("exec", "verifx")
	la := "LODB-" + ex + "-a"
	items := [][]TxSpec{
		{{Exec: ex, Script: []Op{{O: "L", K: la, V: "1", M: "ret"}}}, {Exec: ex, Script: []Op{{O: "F"}}}},
		{{Exec: ex, Script: []Op{{O: "S", K: "mavl-" + ex + "-x", V: "1", M: "both"}}}},
		{{Exec: ex, Script: []Op{{O: "RL", K: la}, {O: "RS", K: "mavl-" + ex + "-x"}}}},
	}
	t0 = time.Now()
	blk, fee, err := r.BuildBlock(items, 0)
	if err != nil {
		fmt.Fprintln(os.Stderr, "build:", err)
		return 2
	}
	out := r.Connect(blk, fee)
	fmt.Fprintln(os.Stderr, "block in", time.Since(t0))
	b, _ := json.MarshalIndent(out, "", " ")
	fmt.Println(string(b))
	return 0
}

func main() {
	core.Main(&core.Family{
		Name:      "Exec",
		NewDriver: func() core.Driver { return nil },
		Extra:     map[string]func(env *core.Env, args []string) int{"probe": probe},
	})
}
