// Synthetic executors for the Exec family (C11, C12, C13).
//
// verifx / verifz : ExecutorOrder() = ExecLocalSameTime (local data written while the block executes)
// verifn          : default order (local data written only when the block is added)
//
// They are registered from the harness through the public dapp.Register and
// types.AllowUserExec (no hook in /repo).  A transaction's payload is a JSON script:
//
//	{"o":"S","k":key,"v":val,"m":"both"|"wnr"|"rnw"}  state write: Set+reported / Set only / reported only
//	{"o":"RS","k":key}                                  state read, echoed into a receipt log
//	{"o":"RL","k":key}                                  local read during Exec, echoed into a receipt log
//	{"o":"LL","k":prefix}                               local List during Exec, echoed into a receipt log
//	{"o":"F"} / {"o":"P"}                               Exec returns an error / panics at this point
//	{"o":"L","k":key,"v":val,"m":"ret"|"both"|"set"}    local write in ExecLocal: returned / Set+returned / Set only
//	{"o":"LD","k":key,"m":...}                          local delete (nil value), same modes
//	{"o":"FL"}                                          ExecLocal returns an error at this point
//
// Exec runs the S/R*/LL/F/P operations in script order; ExecLocal (only for an ExecOk
// receipt, as every real executor does) runs the L/LD/FL operations in script order.
package main

import (
	"bytes"
	"encoding/json"
	"errors"
	"sync"

	"github.com/33cn/chain33/system/dapp"
	"github.com/33cn/chain33/types"
)

// Op is one script operation.
type Op struct {
	O string `json:"o"`
	K string `json:"k,omitempty"`
	V string `json:"v,omitempty"`
	M string `json:"m,omitempty"`
}

// Echo is the payload of a read log.
type Echo struct {
	O     string   `json:"o"`
	K     string   `json:"k"`
	Found bool     `json:"f"`
	V     string   `json:"v"`
	List  []string `json:"l,omitempty"`
	Err   string   `json:"e,omitempty"`
}

// TyLogEcho is the receipt log type of an echoed read.
const TyLogEcho = 9901

var errScriptFail = errors.New("verifx: script failure")

type verifApp struct {
	*dapp.DriverBase
	name  string
	order int64
}

func newApp(name string, order int64) dapp.DriverCreate {
	return func() dapp.Driver {
		a := &verifApp{DriverBase: &dapp.DriverBase{}, name: name, order: order}
		a.SetChild(a)
		return a
	}
}

var registerOnce sync.Once

// registerApps registers the synthetic executors once per process and (re)extends the
// user-executor allow list (types.NewChain33Config resets it).
func registerApps(cfg *types.Chain33Config) {
	registerOnce.Do(func() {
		dapp.Register(cfg, "verifx", newApp("verifx", dapp.ExecLocalSameTime), 0)
		dapp.Register(cfg, "verifz", newApp("verifz", dapp.ExecLocalSameTime), 0)
		dapp.Register(cfg, "verifn", newApp("verifn", 0), 0)
	})
	for _, n := range []string{"verifx", "verifz", "verifn"} {
		found := false
		for _, a := range types.AllowUserExec {
			if string(a) == n {
				found = true
			}
		}
		if !found {
			types.AllowUserExec = append(types.AllowUserExec, []byte(n))
		}
	}
}

func (a *verifApp) GetDriverName() string { return a.name }
func (a *verifApp) ExecutorOrder() int64  { return a.order }

// Allow: the executor's own name, user.<name> and user.<name>.<x> (also behind this chain's para title).
func (a *verifApp) Allow(tx *types.Transaction, index int) error {
	if a.AllowIsSame(tx.Execer) || a.AllowIsUserDot1(tx.Execer) || a.AllowIsUserDot2(tx.Execer) {
		return nil
	}
	return types.ErrNotAllow
}

// IsFriend: the executor lets anybody write the part of its namespace whose key tail starts with "fr.".
func (a *verifApp) IsFriend(myexec, writekey []byte, othertx *types.Transaction) bool {
	return bytes.Contains(writekey, []byte("-fr.")) || bytes.Contains(writekey, []byte(":fr."))
}

func (a *verifApp) CheckReceiptExecOk() bool { return true }

func decodeScript(tx *types.Transaction) ([]Op, error) {
	var ops []Op
	if err := json.Unmarshal(tx.Payload, &ops); err != nil {
		return nil, err
	}
	return ops, nil
}

func echoLog(e *Echo) *types.ReceiptLog {
	b, _ := json.Marshal(e)
	return &types.ReceiptLog{Ty: TyLogEcho, Log: b}
}

// Exec interprets the state part of the script.
func (a *verifApp) Exec(tx *types.Transaction, index int) (*types.Receipt, error) {
	ops, err := decodeScript(tx)
	if err != nil {
		return nil, err
	}
	r := &types.Receipt{Ty: types.ExecOk}
	st := a.GetStateDB()
	for _, op := range ops {
		switch op.O {
		case "S":
			kv := &types.KeyValue{Key: []byte(op.K), Value: []byte(op.V)}
			if op.M != "rnw" {
				if err := st.Set(kv.Key, kv.Value); err != nil {
					return nil, err
				}
			}
			if op.M != "wnr" {
				r.KV = append(r.KV, kv)
			}
		case "RS":
			v, err := st.Get([]byte(op.K))
			e := &Echo{O: "RS", K: op.K, Found: err == nil, V: string(v)}
			if err != nil && err != types.ErrNotFound {
				e.Err = err.Error()
			}
			r.Logs = append(r.Logs, echoLog(e))
		case "RL":
			v, err := a.GetLocalDB().Get([]byte(op.K))
			e := &Echo{O: "RL", K: op.K, Found: err == nil, V: string(v)}
			if err != nil && err != types.ErrNotFound {
				e.Err = err.Error()
			}
			r.Logs = append(r.Logs, echoLog(e))
		case "LL":
			vals, err := a.GetLocalDB().List([]byte(op.K), nil, 0, 1)
			e := &Echo{O: "LL", K: op.K, Found: err == nil}
			for _, v := range vals {
				e.List = append(e.List, string(v))
			}
			if err != nil && err != types.ErrNotFound {
				e.Err = err.Error()
			}
			r.Logs = append(r.Logs, echoLog(e))
		case "F":
			return nil, errScriptFail
		case "P":
			panic("verifx: script panic")
		}
	}
	return r, nil
}

func (a *verifApp) local(tx *types.Transaction, receipt *types.ReceiptData, del bool) (*types.LocalDBSet, error) {
	set := &types.LocalDBSet{}
	if receipt.GetTy() != types.ExecOk {
		return set, nil
	}
	ops, err := decodeScript(tx)
	if err != nil {
		return set, nil
	}
	for _, op := range ops {
		switch op.O {
		case "L", "LD":
			kv := &types.KeyValue{Key: []byte(op.K), Value: []byte(op.V)}
			if op.O == "LD" || del {
				kv.Value = nil
			}
			if !del && (op.M == "both" || op.M == "set") {
				if err := a.GetLocalDB().Set(kv.Key, kv.Value); err != nil {
					return nil, err
				}
			}
			if op.M != "set" {
				set.KV = append(set.KV, kv)
			}
		case "FL":
			if !del {
				return nil, errScriptFail
			}
		}
	}
	return set, nil
}

// ExecLocal interprets the local part of the script.
func (a *verifApp) ExecLocal(tx *types.Transaction, receipt *types.ReceiptData, index int) (*types.LocalDBSet, error) {
	return a.local(tx, receipt, false)
}

// ExecDelLocal removes the keys the script wrote.
func (a *verifApp) ExecDelLocal(tx *types.Transaction, receipt *types.ReceiptData, index int) (*types.LocalDBSet, error) {
	return a.local(tx, receipt, true)
}
