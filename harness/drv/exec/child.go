// Child process protocol: the driver re-executes its own binary ("vh-exec child") and talks to it
// with JSON lines (commands on stdin, replies on fd 3).  One child hosts at most one node at a
// time; executor registration and the other process-global state of chain33 therefore never mix
// between concurrently replayed behaviours, and C13 gets its fresh / long-running processes.
package main

import (
	"bufio"
	"encoding/json"
	"fmt"
	"io"
	"os"
	"os/exec"
	"runtime"
	"strconv"
	"sync"
	"time"

	"verif/harness/core"
)

// Cmd is a request to the child.
type Cmd struct {
	Cmd     string     `json:"cmd"`
	Para    bool       `json:"para,omitempty"`
	Plugins string     `json:"plugins,omitempty"`
	Items   [][]TxSpec `json:"items,omitempty"`
	Mode    string     `json:"mode,omitempty"` // "exec" | "connect" | "connectpeer"
	Reps    int        `json:"reps,omitempty"`
	Salt    int64      `json:"salt,omitempty"`
	Gmp     int        `json:"gmp,omitempty"`
	Kind    string     `json:"kind,omitempty"`
	State   []string   `json:"state,omitempty"`
	Local   []string   `json:"local,omitempty"`
}

// Reply is the child's answer.
type Reply struct {
	OK     bool       `json:"ok"`
	Err    string     `json:"err,omitempty"`
	Outs   []*Outcome `json:"outs,omitempty"`
	SVals  []string   `json:"svals,omitempty"`
	SFound []bool     `json:"sfound,omitempty"`
	LVals  []string   `json:"lvals,omitempty"`
	LFound []bool     `json:"lfound,omitempty"`
	Root   string     `json:"root,omitempty"`
	Gmp    int        `json:"gmp,omitempty"`
	Pid    int        `json:"pid,omitempty"`
	Gen    string     `json:"gen,omitempty"` // digest of the genesis block's local data
}

func childMain(env *core.Env, args []string) int {
	out := os.NewFile(3, "reply")
	if out == nil {
		fmt.Fprintln(os.Stderr, "child: fd 3 missing")
		return 2
	}
	silenceLogs()
	w := bufio.NewWriter(out)
	sc := bufio.NewScanner(os.Stdin)
	sc.Buffer(make([]byte, 1<<20), 1<<28)
	var rig *Rig
	cleanup := func() {
		if rig != nil {
			rig.Close()
			rig = nil
		}
		// the private temp directory the parent made for this child (node data directories live in it)
		if d := os.Getenv("VH_EXEC_TMP"); d != "" {
			os.RemoveAll(d)
		}
	}
	defer cleanup()
	send := func(r *Reply) {
		r.Pid = os.Getpid()
		b, _ := json.Marshal(r)
		w.Write(b)
		w.WriteByte('\n')
		w.Flush()
	}
	for sc.Scan() {
		var c Cmd
		if err := json.Unmarshal(sc.Bytes(), &c); err != nil {
			send(&Reply{Err: "bad command: " + err.Error()})
			continue
		}
		func() {
			defer func() {
				if r := recover(); r != nil {
					send(&Reply{Err: fmt.Sprintf("child panic: %v", r)})
				}
			}()
			switch c.Cmd {
			case "node":
				if rig != nil {
					rig.Close()
					rig = nil
				}
				var err error
				rig, err = NewRig(c.Para, c.Plugins)
				if err != nil {
					send(&Reply{Err: err.Error()})
					return
				}
				send(&Reply{OK: true, Root: fmt.Sprintf("%x", rig.tip.StateHash), Gmp: runtime.GOMAXPROCS(0), Gen: rig.GenesisDigest()})
			case "chain":
				// another chain instance (its own empty databases) started, its genesis executed, stopped -
				// in this process, whatever ran here before
				r2, err := NewRig(c.Para, c.Plugins)
				if err != nil {
					send(&Reply{Err: "second chain: " + err.Error()})
					return
				}
				g := r2.GenesisDigest()
				r2.Close()
				send(&Reply{OK: true, Gen: g})
			case "gmp":
				runtime.GOMAXPROCS(c.Gmp)
				send(&Reply{OK: true, Gmp: runtime.GOMAXPROCS(0)})
			case "block":
				if rig == nil {
					send(&Reply{Err: "no node"})
					return
				}
				reps := c.Reps
				if reps < 1 {
					reps = 1
				}
				rep := &Reply{OK: true}
				if c.Mode == "execconc" {
					blk, fee, err := rig.BuildBlock(c.Items, c.Salt)
					if err != nil {
						send(&Reply{Err: "build: " + err.Error()})
						return
					}
					side, _, _ := rig.BuildBlock([][]TxSpec{{{Exec: "none"}}, {{Exec: "verifx", Script: []Op{{O: "S", K: "mavl-verifx-conc", V: "v1|", M: "both"}}}}}, 9)
					rep.Outs = rig.ExecConcurrent(blk, side, reps)
					o, _ := rig.Exec(blk, fee)
					rep.Outs = append(rep.Outs, o)
					rep.Gmp = runtime.GOMAXPROCS(0)
					send(rep)
					return
				}
				for i := 0; i < reps; i++ {
					blk, fee, err := rig.BuildBlock(c.Items, c.Salt)
					if err != nil {
						send(&Reply{Err: "build: " + err.Error()})
						return
					}
					if (c.Mode == "connect" || c.Mode == "connectpeer") && i == reps-1 {
						rep.Outs = append(rep.Outs, rig.Connect(blk, fee, c.Mode == "connectpeer"))
					} else {
						o, _ := rig.Exec(blk, fee)
						rep.Outs = append(rep.Outs, o)
					}
				}
				rep.Gmp = runtime.GOMAXPROCS(0)
				send(rep)
			case "get":
				if rig == nil {
					send(&Reply{Err: "no node"})
					return
				}
				rep := &Reply{OK: true}
				var err error
				if len(c.State) > 0 {
					if rep.SVals, rep.SFound, err = rig.GetState(c.State); err != nil {
						send(&Reply{Err: "get state: " + err.Error()})
						return
					}
				}
				if len(c.Local) > 0 {
					if rep.LVals, rep.LFound, err = rig.GetLocal(c.Local); err != nil {
						send(&Reply{Err: "get local: " + err.Error()})
						return
					}
				}
				send(rep)
			case "act":
				if rig == nil {
					send(&Reply{Err: "no node"})
					return
				}
				if err := rig.Activity(c.Kind, c.Items); err != nil {
					send(&Reply{Err: "activity: " + err.Error()})
					return
				}
				send(&Reply{OK: true})
			case "quit":
				cleanup()
				send(&Reply{OK: true})
				os.Exit(0)
			default:
				send(&Reply{Err: "unknown command " + c.Cmd})
			}
		}()
	}
	return 0
}

// childProc is the parent's handle.
type childProc struct {
	cmd   *exec.Cmd
	in    io.WriteCloser
	out   *bufio.Reader
	rd    *os.File
	mu    sync.Mutex
	dead  bool
	para  bool
	plug  string
	hasNd bool
	gen   string
}

func startChild(gmp int) (*childProc, error) {
	self, err := os.Executable()
	if err != nil {
		return nil, err
	}
	r, w, err := os.Pipe()
	if err != nil {
		return nil, err
	}
	c := exec.Command(self, "child")
	c.ExtraFiles = []*os.File{w}
	c.Stdout = io.Discard
	if os.Getenv("VH_EXEC_DEBUG") != "" {
		c.Stderr = os.Stderr
		c.Stdout = os.Stderr
	} else {
		c.Stderr = io.Discard
	}
	c.Env = os.Environ()
	if tmp, err := os.MkdirTemp("", "vh-exec-"); err == nil {
		c.Env = append(c.Env, "TMPDIR="+tmp, "VH_EXEC_TMP="+tmp)
	}
	if gmp > 0 {
		c.Env = append(c.Env, "GOMAXPROCS="+strconv.Itoa(gmp))
	}
	in, err := c.StdinPipe()
	if err != nil {
		return nil, err
	}
	if err := c.Start(); err != nil {
		return nil, err
	}
	w.Close()
	return &childProc{cmd: c, in: in, out: bufio.NewReaderSize(r, 1<<20), rd: r}, nil
}

// call sends one command and waits for the reply (deadline: the child is killed, harness error).
func (c *childProc) call(cmd *Cmd, timeout time.Duration) (*Reply, error) {
	c.mu.Lock()
	defer c.mu.Unlock()
	if c.dead {
		return nil, fmt.Errorf("child is dead")
	}
	b, _ := json.Marshal(cmd)
	if _, err := c.in.Write(append(b, '\n')); err != nil {
		c.dead = true
		return nil, fmt.Errorf("child write: %v", err)
	}
	type res struct {
		line []byte
		err  error
	}
	ch := make(chan res, 1)
	go func() {
		l, err := c.out.ReadBytes('\n')
		ch <- res{l, err}
	}()
	select {
	case x := <-ch:
		if x.err != nil {
			c.dead = true
			return nil, fmt.Errorf("child read: %v", x.err)
		}
		var rep Reply
		if err := json.Unmarshal(x.line, &rep); err != nil {
			return nil, fmt.Errorf("child reply: %v", err)
		}
		if !rep.OK {
			return &rep, fmt.Errorf("child: %s", rep.Err)
		}
		return &rep, nil
	case <-time.After(timeout):
		c.dead = true
		c.cmd.Process.Kill()
		return nil, fmt.Errorf("child timeout after %v on %s", timeout, cmd.Cmd)
	}
}

func (c *childProc) stop() {
	if c == nil {
		return
	}
	if !c.dead {
		c.call(&Cmd{Cmd: "quit"}, 60*time.Second)
	}
	c.in.Close()
	done := make(chan struct{})
	go func() { c.cmd.Wait(); close(done) }()
	select {
	case <-done:
	case <-time.After(30 * time.Second):
		c.cmd.Process.Kill()
	}
	c.rd.Close()
	c.dead = true
}
