// Replay driver: turns the steps of an Exec behaviour (TxBegin / W / R / LL / Fail / LW / LFail /
// TxEnd ... EndBlock, Run, Act) into blocks of script transactions, executes them on the real node
// in a child process and reports what was observed in the shape of the specification's prediction.
package main

import (
	"encoding/hex"
	"fmt"
	"math/rand"
	"sort"
	"strconv"
	"strings"
	"time"

	"github.com/33cn/chain33/common/address"
	"verif/harness/core"
)

const callTimeout = 600 * time.Second
const genesisAddr = "14KEKbYtKKQm4wMthSK9J4La4nAiidGozt"

type drv struct {
	env    *core.Env
	child  *childProc
	nbeh   int
	tag    string
	salt   int64
	rnd    *rand.Rand
	para   bool
	plug   string
	items  [][]TxSpec
	item   []TxSpec
	itemN  int
	wroteS []string // state key ids written in the open item
	wroteL []string
	sIDs   map[string]string // key id -> concrete key
	lIDs   map[string]string
	revS   map[string]string
	revL   map[string]string
	hist   [][][]TxSpec // blocks connected in this behaviour
	bind   map[string]string
	nruns  int
}

func newDriver() core.Driver { return &drv{} }

func (d *drv) Reset(env *core.Env, b *core.Behaviour) error {
	d.env = env
	d.nbeh++
	d.tag = fmt.Sprintf("t%d.", d.nbeh)
	h := int64(0)
	for _, c := range b.ID {
		h = h*131 + int64(c)
	}
	d.salt = int64(env.OptInt("salt", 0))
	d.rnd = rand.New(rand.NewSource(env.Seed*1000003 + h + d.salt*7919))
	d.items, d.item, d.itemN = nil, nil, 0
	d.wroteS, d.wroteL = nil, nil
	d.sIDs, d.lIDs, d.revS, d.revL = map[string]string{}, map[string]string{}, map[string]string{}, map[string]string{}
	d.hist = nil
	d.bind = map[string]string{}
	d.nruns = 0
	d.plug = env.Opt("plugins", "default")
	d.para = false
	if len(b.Steps) > 0 && b.Steps[0].Op() == "Init" {
		d.para = b.Steps[0].Bool("para")
	} else if env.Opt("para", "0") == "1" {
		d.para = true
	}
	if err := d.ensureNode(env.Opt("fresh", "0") == "1"); err != nil {
		return err
	}
	// the genesis of this behaviour's chain: first observation of the term "genesis"
	d.bindDigest("genesis", d.child.gen)
	return nil
}

func (d *drv) ensureNode(fresh bool) error {
	if d.child != nil && d.child.dead {
		d.child = nil
	}
	if d.child == nil {
		c, err := startChild(0)
		if err != nil {
			return err
		}
		d.child = c
	}
	if fresh || !d.child.hasNd || d.child.para != d.para || d.child.plug != d.plug {
		r, err := d.child.call(&Cmd{Cmd: "node", Para: d.para, Plugins: d.plug}, callTimeout)
		if err != nil {
			return err
		}
		d.child.hasNd, d.child.para, d.child.plug = true, d.para, d.plug
		d.child.gen = r.Gen
	}
	return nil
}

// Close keeps the child (and its node) for the next behaviour of this worker; the child exits
// and removes its data directory when the driver process ends (stdin EOF).
func (d *drv) Close() {}

// ---- concretisation ------------------------------------------------------------------------

var foreignSpellings = []string{"nosuch", "verifxx", "verif", "VERIFX", "verifx.", "xverifx", "verifx_"}
var syms = []string{"bty", "t", "coins.x", ""}

func (d *drv) concS(id string) string {
	if k, ok := d.sIDs[id]; ok {
		return k
	}
	raw := id
	wf := true
	if strings.HasPrefix(id, "!") {
		wf = false
		id = id[1:]
	}
	p := strings.Split(id, "/")
	for len(p) < 4 {
		p = append(p, "")
	}
	ns, area, fr, i := p[0], p[1], p[2] == "f", p[3]
	var k string
	if !wf {
		switch (atoi(i) + int(d.salt)) % 4 {
		case 1:
			k = "mavx-verifx-" + d.tag + "k" + i
		case 2:
			k = "mavl-verifx" + strings.ReplaceAll(d.tag, "-", "") + "k" + i // no '-' after the executor
		case 3:
			k = "MAVL-verifx-" + d.tag + "k" + i
		default:
			k = "mavl" + d.tag + "k" + i
		}
	} else {
		if ns == "nosuch" {
			ns = foreignSpellings[(int(d.salt)+d.rnd.Intn(len(foreignSpellings)))%len(foreignSpellings)]
		}
		tail := ""
		if area != "" {
			tail = syms[(int(d.salt)+len(d.sIDs))%len(syms)] + "-exec-" + address.ExecAddress(area) + ":"
		}
		if fr {
			tail += "fr."
		}
		k = "mavl-" + ns + "-" + tail + d.tag + "k" + i
	}
	d.sIDs[raw] = k
	d.revS[k] = raw
	return k
}

func (d *drv) concL(id string) string {
	if k, ok := d.lIDs[id]; ok {
		return k
	}
	raw := id
	wf := true
	if strings.HasPrefix(id, "!") {
		wf = false
		id = id[1:]
	}
	p := strings.Split(id, "/")
	for len(p) < 2 {
		p = append(p, "")
	}
	ns, i := p[0], p[1]
	var k string
	if wf {
		k = "LODB-" + ns + "-" + d.tag + "k" + i
	} else {
		switch (atoi(i) + int(d.salt)) % 5 {
		case 1:
			k = "LODX-" + ns + "-" + d.tag + "k" + i // wrong common prefix
		case 2:
			k = "LODB-" + ns + d.tag + "k" + i // no '-' after the executor name
		case 3:
			k = "LODB_" + ns + "-" + d.tag + "k" + i // wrong first separator
		case 4:
			k = "LODB-x" + ns + "-" + d.tag + "k" + i // another name ending in the executor's
		default:
			k = "LODB-" + ns + "x-" + d.tag + "k" + i // another name starting with the executor's
		}
	}
	d.lIDs[raw] = k
	d.revL[k] = raw
	return k
}

func atoi(s string) int { n, _ := strconv.Atoi(s); return n }

func (d *drv) val(v int, key string) string {
	n := 0
	for _, c := range key {
		n = n*31 + int(c)
	}
	if n < 0 {
		n = -n
	}
	pad := []string{"", "x", strings.Repeat("p", 40), strings.Repeat("\xff", 3), strings.Repeat("q", 300)}[(n+int(d.salt))%5]
	return "v" + strconv.Itoa(v) + "|" + pad
}

func parseVal(s string, found bool) any {
	if !found || s == "" {
		return 0
	}
	if !strings.HasPrefix(s, "v") {
		return "garbage:" + clipS(s, 30)
	}
	i := strings.IndexByte(s, '|')
	if i < 0 {
		return "garbage:" + clipS(s, 30)
	}
	n, err := strconv.Atoi(s[1:i])
	if err != nil {
		return "garbage:" + clipS(s, 30)
	}
	return n
}

func clipS(s string, n int) string {
	if len(s) > n {
		return s[:n]
	}
	return s
}

// ---- steps ----------------------------------------------------------------------------------

func (d *drv) curTx() *TxSpec { return &d.item[len(d.item)-1] }

func (d *drv) Apply(s core.Step) (any, any, error) {
	switch s.Op() {
	case "Init", "Verify", "LocalDone":
		return nil, nil, nil
	case "TxBegin":
		if s.Int("i") == 1 {
			d.item, d.itemN = nil, s.Int("n")
			d.wroteS, d.wroteL = nil, nil
		}
		d.item = append(d.item, TxSpec{Exec: s.Str("e")})
		return nil, nil, nil
	case "W":
		k := d.concS(s.Str("k"))
		d.wroteS = append(d.wroteS, s.Str("k"))
		t := d.curTx()
		t.Script = append(t.Script, Op{O: "S", K: k, V: d.val(s.Int("v"), k), M: s.Str("m")})
		return nil, nil, nil
	case "R":
		t := d.curTx()
		if s.Str("sp") == "S" {
			t.Script = append(t.Script, Op{O: "RS", K: d.concS(s.Str("k"))})
		} else {
			t.Script = append(t.Script, Op{O: "RL", K: d.concL(s.Str("k"))})
		}
		return nil, nil, nil
	case "LL":
		t := d.curTx()
		t.Script = append(t.Script, Op{O: "LL", K: "LODB-" + s.Str("e") + "-" + d.tag})
		return nil, nil, nil
	case "Fail":
		t := d.curTx()
		t.Script = append(t.Script, Op{O: s.Str("kind")})
		return nil, nil, nil
	case "LW":
		k := d.concL(s.Str("k"))
		d.wroteL = append(d.wroteL, s.Str("k"))
		o := Op{O: "L", K: k, V: d.val(s.Int("v"), k), M: s.Str("m")}
		if s.Bool("del") {
			o.O, o.V = "LD", ""
		}
		t := d.curTx()
		t.Script = append(t.Script, o)
		return nil, nil, nil
	case "LFail":
		t := d.curTx()
		t.Script = append(t.Script, Op{O: "FL"})
		return nil, nil, nil
	case "TxEnd":
		// members after a failed one are never executed: pad them with scripts that would be
		// visible if they were (they overwrite every key the item touched)
		for p := 0; p < s.Int("pad"); p++ {
			pad := TxSpec{Exec: d.item[0].Exec}
			for _, id := range d.wroteS {
				k := d.concS(id)
				pad.Script = append(pad.Script, Op{O: "S", K: k, V: d.val(9000+p, k), M: "both"})
			}
			for _, id := range d.wroteL {
				k := d.concL(id)
				pad.Script = append(pad.Script, Op{O: "L", K: k, V: d.val(9000+p, k), M: "ret"})
			}
			d.item = append(d.item, pad)
		}
		if len(d.item) != d.itemN {
			return nil, nil, fmt.Errorf("item has %d members, expected %d", len(d.item), d.itemN)
		}
		d.items = append(d.items, d.item)
		d.item = nil
		return nil, nil, nil
	case "Act":
		if s.Str("kind") == "chain" {
			// another chain instance in the long-running process, and one in a fresh process: the
			// genesis block on an empty database must leave the same local data everywhere
			r, err := d.child.call(&Cmd{Cmd: "chain", Para: d.para, Plugins: d.plug}, callTimeout)
			if err != nil {
				return nil, nil, err
			}
			res := d.bindDigest("genesis", r.Gen)
			c, err := startChild(0)
			if err != nil {
				return nil, nil, err
			}
			defer c.stop()
			f, err := c.call(&Cmd{Cmd: "node", Para: d.para, Plugins: d.plug}, callTimeout)
			if err != nil {
				return nil, nil, err
			}
			if x := d.bindDigest("genesis", f.Gen); x != "same" {
				res = x
			}
			if res != "same" {
				res = "differs:genesis-local-data"
			}
			return res, nil, nil
		}
		side := [][]TxSpec{{{Exec: "verifx", Script: []Op{{O: "S", K: "mavl-verifx-" + d.tag + "side", V: "v1|", M: "both"},
			{O: "L", K: "LODB-verifx-" + d.tag + "side", V: "v1|", M: "ret"}}}}, {{Exec: "none"}}}
		items := side
		if s.Str("kind") == "checktx" {
			items = d.items
		}
		if _, err := d.child.call(&Cmd{Cmd: "act", Kind: s.Str("kind"), Items: items}, callTimeout); err != nil {
			return nil, nil, err
		}
		return "same", nil, nil
	case "Run":
		return d.run(s)
	case "EndBlock":
		return d.endBlock(s)
	}
	return nil, nil, fmt.Errorf("unknown op %q", s.Op())
}

func tyName(t int) string {
	switch t {
	case 2:
		return "ok"
	case 1:
		return "pack"
	case 0:
		return "err"
	}
	return "ty" + strconv.Itoa(t)
}

func emptyLike(exp any) any {
	if _, ok := exp.([]any); ok {
		return []any{}
	}
	return map[string]any{}
}

func expField(s core.Step, f string) any {
	if r, ok := s["ret"].(map[string]any); ok {
		return r[f]
	}
	return nil
}

// observe renders an Outcome in the shape of RunResult.
func (d *drv) observe(s core.Step, o *Outcome, det string) map[string]any {
	obs := map[string]any{"rej": o.Rejected, "det": det}
	if o.Rejected {
		obs["sw"], obs["lw"], obs["tys"], obs["rd"], obs["fee"] = []any{}, []any{}, []any{}, []any{}, 0
		return obs
	}
	tys := []any{}
	for _, t := range o.Tys {
		tys = append(tys, tyName(t))
	}
	obs["tys"] = tys
	rd := []any{}
	for i := range o.Tys {
		one := []any{}
		if o.Tys[i] == 2 && i < len(o.Echo) {
			for _, e := range o.Echo[i] {
				if e.Err != "" {
					one = append(one, []any{"err:" + e.Err})
					continue
				}
				if e.O == "LL" {
					l := []any{}
					for _, v := range e.List {
						l = append(l, parseVal(v, true))
					}
					one = append(one, l)
				} else {
					one = append(one, []any{parseVal(e.V, e.Found)})
				}
			}
		}
		rd = append(rd, one)
	}
	obs["rd"] = rd
	if o.FeeDelta == o.FeeWant && o.Dropped == 0 {
		obs["fee"] = len(d.items)
	} else {
		obs["fee"] = fmt.Sprintf("charged %d, the items' fees are %d, dropped %d", o.FeeDelta, o.FeeWant, o.Dropped)
	}
	sw := map[string]any{}
	for _, kv := range o.KV {
		k, _ := hex.DecodeString(kv[0])
		v, _ := hex.DecodeString(kv[1])
		if id, ok := d.revS[string(k)]; ok {
			sw[id] = parseVal(string(v), true)
		} else if string(k) != "mavl-coins-bty-"+genesisAddr {
			sw["?"+string(k)] = clipS(string(v), 20)
		}
	}
	lw := map[string]any{}
	for _, kv := range o.LocalAdd {
		k, _ := hex.DecodeString(kv[0])
		v, _ := hex.DecodeString(kv[1])
		if id, ok := d.revL[string(k)]; ok {
			lw[id] = parseVal(string(v), len(v) > 0)
		} else if strings.HasPrefix(string(k), "LOD") {
			lw["?"+string(k)] = clipS(string(v), 20)
		}
	}
	if o.LocalErr != "" {
		lw["?err"] = o.LocalErr
	}
	obs["sw"], obs["lw"] = any(sw), any(lw)
	if len(sw) == 0 {
		obs["sw"] = emptyLike(expField(s, "sw"))
	}
	if len(lw) == 0 {
		obs["lw"] = emptyLike(expField(s, "lw"))
	}
	return obs
}

func execDigest(o *Outcome) string {
	return strings.Join([]string{"rej=" + strconv.FormatBool(o.Rejected), o.DRcpt, o.DKV, o.Root, o.DLAdd}, "|")
}

// bindDigest: the first observation of a term binds it, every later one must be byte-identical.
func (d *drv) bindDigest(term string, digest string) string {
	if prev, ok := d.bind[term]; ok {
		if prev == digest {
			return "same"
		}
		a, b := strings.Split(prev, "|"), strings.Split(digest, "|")
		names := []string{"rejected", "receipts", "state-write-set", "state-root", "local-add-set", "local-del-set"}
		for i := range a {
			if i < len(b) && a[i] != b[i] && i < len(names) {
				return "differs:" + names[i]
			}
		}
		return "differs"
	}
	d.bind[term] = digest
	return "same"
}

func (d *drv) matchOrAlt(s core.Step, obs map[string]any) any {
	n := core.Norm(obs)
	if core.Match(s["ret"], n) {
		return obs
	}
	if alt, ok := s["alt"]; ok && core.Match(alt, n) {
		return s["ret"] // the other acceptable outcome of a refused local key
	}
	return obs
}

func (d *drv) connectMode() string {
	if d.env.Opt("peer", "0") == "1" {
		return "connectpeer"
	}
	return "connect"
}

func (d *drv) endBlock(s core.Step) (any, any, error) {
	rep, err := d.child.call(&Cmd{Cmd: "block", Items: d.items, Mode: d.connectMode(), Reps: 1}, callTimeout)
	if err != nil {
		return nil, nil, err
	}
	o := rep.Outs[0]
	det := "same"
	if term := s.Str("term"); term != "" {
		det = d.bindDigest(term+"/exec", execDigest(o))
		if x := d.bindDigest(term+"/rcpt", "receipts="+o.DRcpt1); x != "same" && det == "same" {
			det = "differs:receipts(EventExecTxList)"
		}
		if det == "same" && o.DLDel != "" {
			det = d.bindDigest(term+"/del", o.DLDel)
			if det != "same" {
				det = "differs:local-del-set"
			}
		}
	}
	if o.Err != "" && !o.Rejected {
		return nil, nil, fmt.Errorf("rig: %s", o.Err)
	}
	obs := d.observe(s, o, det)
	// values of every model key after the block
	exp, _ := s["ret"].(map[string]any)
	var sids, lids, sk, lk []string
	if m, ok := exp["st"].(map[string]any); ok {
		for id := range m {
			sids = append(sids, id)
		}
	}
	if m, ok := exp["lo"].(map[string]any); ok {
		for id := range m {
			lids = append(lids, id)
		}
	}
	sort.Strings(sids)
	sort.Strings(lids)
	for _, id := range sids {
		sk = append(sk, d.concS(id))
	}
	for _, id := range lids {
		lk = append(lk, d.concL(id))
	}
	g, err := d.child.call(&Cmd{Cmd: "get", State: sk, Local: lk}, callTimeout)
	if err != nil {
		return nil, nil, err
	}
	st, lo := map[string]any{}, map[string]any{}
	for i, id := range sids {
		st[id] = parseVal(g.SVals[i], g.SFound[i])
	}
	for i, id := range lids {
		lo[id] = parseVal(g.LVals[i], g.LFound[i])
	}
	obs["st"], obs["lo"] = st, lo
	if !o.Rejected {
		d.hist = append(d.hist, d.items)
	}
	d.items = nil
	return d.matchOrAlt(s, obs), nil, nil
}

// run executes the block built so far (without connecting it) under the step's condition.
func (d *drv) run(s core.Step) (any, any, error) {
	reps := d.env.OptInt("reps", 5)
	gmp := s.Int("gmp")
	term := s.Str("term")
	var outs []*Outcome
	var delDigest string
	genDiff := false
	if s.Str("proc") == "fresh" {
		c, err := startChild(gmp)
		if err != nil {
			return nil, nil, err
		}
		defer c.stop()
		nr, err := c.call(&Cmd{Cmd: "node", Para: d.para, Plugins: d.plug}, callTimeout)
		if err != nil {
			return nil, nil, err
		}
		genDiff = d.bindDigest("genesis", nr.Gen) != "same"
		for _, b := range d.hist {
			r, err := c.call(&Cmd{Cmd: "block", Items: b, Mode: d.connectMode(), Reps: 1}, callTimeout)
			if err != nil {
				return nil, nil, err
			}
			if r.Outs[0].Rejected {
				return nil, nil, fmt.Errorf("fresh child refused a block of the prior chain: %s", r.Outs[0].Err)
			}
		}
		r, err := c.call(&Cmd{Cmd: "block", Items: d.items, Mode: d.connectMode(), Reps: reps}, callTimeout)
		if err != nil {
			return nil, nil, err
		}
		outs = r.Outs
		delDigest = outs[len(outs)-1].DLDel
	} else {
		if _, err := d.child.call(&Cmd{Cmd: "gmp", Gmp: gmp}, callTimeout); err != nil {
			return nil, nil, err
		}
		mode := "exec"
		if s.Str("proc") == "conc" {
			mode = "execconc" // reps concurrent EventExecTxList requests, then one full execution
		}
		r, err := d.child.call(&Cmd{Cmd: "block", Items: d.items, Mode: mode, Reps: reps}, callTimeout)
		if err != nil {
			return nil, nil, err
		}
		outs = r.Outs
	}
	d.nruns++
	det := "same"
	for _, o := range outs {
		if o.Err != "" && !o.Rejected {
			return nil, nil, fmt.Errorf("rig: %s", o.Err)
		}
		// the receipts of EventExecTxList alone (all executions, including the concurrent ones) ...
		if x := d.bindDigest(term+"/rcpt", "receipts="+o.DRcpt1); x != "same" {
			det = "differs:receipts(EventExecTxList)"
		}
		if o.DRcpt == "" && !o.Rejected {
			continue // a concurrent execution: receipts only
		}
		// ... and the complete digest
		if x := d.bindDigest(term+"/exec", execDigest(o)); x != "same" {
			det = x
		}
	}
	if det == "same" && delDigest != "" {
		if x := d.bindDigest(term+"/del", delDigest); x != "same" {
			det = "differs:local-del-set"
		}
	}
	if genDiff && det == "same" {
		det = "differs:genesis-local-data"
	}
	obs := d.observe(s, outs[len(outs)-1], det)
	return d.matchOrAlt(s, obs), nil, nil
}
