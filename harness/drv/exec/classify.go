// Non-triviality rules (DESIGN §4 "Evidence") and narrow signatures of disagreements.
package main

import (
	"fmt"
	"strings"

	"verif/harness/core"
)

type txInfo struct {
	num     int
	exec    string
	block   int
	item    int
	out     string // ok | fail | reject | "" (open)
	wroteS  map[string]bool
	wroteL  map[string]bool
	readsS  []string
	readsL  []string
	lists   bool
	foreign bool
	reads   []readInfo // in script order (R and LL)
	delL    map[string]bool
	modes   map[string]string // key id -> reporting mode of the last write
}

type readInfo struct{ sp, k string }

// scan reconstructs per-transaction facts from the steps.
func scan(b *core.Behaviour, upto int) []*txInfo {
	var txs []*txInfo
	var item []*txInfo
	blk, it := 0, 0
	for idx, s := range b.Steps {
		if upto >= 0 && idx > upto {
			break
		}
		switch s.Op() {
		case "TxBegin":
			if s.Int("i") == 1 {
				item = nil
				it++
			}
			t := &txInfo{num: s.Int("tx"), exec: s.Str("e"), block: blk, item: it, wroteS: map[string]bool{}, wroteL: map[string]bool{}, delL: map[string]bool{}, modes: map[string]string{}}
			txs = append(txs, t)
			item = append(item, t)
		case "W":
			t := txs[len(txs)-1]
			t.wroteS[s.Str("k")] = true
			t.modes[s.Str("k")] = s.Str("m")
			id := s.Str("k")
			if !strings.HasPrefix(id, t.exec+"//n/") {
				t.foreign = true
			}
		case "LW":
			t := txs[len(txs)-1]
			t.wroteL[s.Str("k")] = true
			t.modes["L:"+s.Str("k")] = s.Str("m")
			if s.Bool("del") {
				t.delL[s.Str("k")] = true
			}
			if !strings.HasPrefix(s.Str("k"), t.exec+"/") {
				t.foreign = true
			}
		case "R":
			t := txs[len(txs)-1]
			if s.Str("sp") == "S" {
				t.readsS = append(t.readsS, s.Str("k"))
			} else {
				t.readsL = append(t.readsL, s.Str("k"))
			}
			t.reads = append(t.reads, readInfo{s.Str("sp"), s.Str("k")})
		case "LL":
			txs[len(txs)-1].lists = true
			txs[len(txs)-1].reads = append(txs[len(txs)-1].reads, readInfo{"LL", ""})
		case "TxEnd":
			for _, t := range item {
				t.out = s.Str("out")
			}
			// members that follow a failed one are in the block (padding) but have no steps
			for p := 0; p < s.Int("pad"); p++ {
				txs = append(txs, &txInfo{num: 9000 + p, exec: item[0].exec, block: blk, item: it, out: s.Str("out"),
					wroteS: map[string]bool{}, wroteL: map[string]bool{}, delL: map[string]bool{}})
			}
		case "EndBlock":
			blk++
		}
	}
	return txs
}

// NonTrivial per property.
func (d *drv) NonTrivial(env *core.Env, b *core.Behaviour) bool {
	txs := scan(b, -1)
	switch env.Prop {
	case "C12":
		for _, t := range txs {
			if t.foreign {
				return true
			}
		}
		return false
	case "C13":
		conds := map[string]map[string]bool{}
		for _, s := range b.Steps {
			if s.Op() == "Run" || s.Op() == "EndBlock" {
				t := s.Str("term")
				if conds[t] == nil {
					conds[t] = map[string]bool{}
				}
				conds[t][s.Op()+s.Str("proc")+s.Str("gmp")] = true
			}
		}
		for _, c := range conds {
			if len(c) >= 2 {
				return true
			}
		}
		return false
	}
	// C11: an item that wrote and then failed, followed in the same block by a read of one of those keys
	for i, t := range txs {
		if t.out != "fail" || (len(t.wroteS) == 0 && len(t.wroteL) == 0) {
			continue
		}
		for _, u := range txs[i+1:] {
			if u.block != t.block || u.item == t.item {
				continue
			}
			for _, k := range u.readsS {
				if t.wroteS[k] {
					return true
				}
			}
			for _, k := range u.readsL {
				if t.wroteL[k] {
					return true
				}
			}
			if u.lists && len(t.wroteL) > 0 {
				return true
			}
		}
	}
	return false
}

func whose(txs []*txInfo, v any) string {
	n, ok := v.(float64)
	if !ok {
		return fmt.Sprintf("%v", v)
	}
	if n == 0 {
		return "absent"
	}
	if n >= 9000 {
		return "write-of-unexecuted-group-member"
	}
	for _, t := range txs {
		if t.num == int(n) {
			switch t.out {
			case "fail":
				return "write-of-failed-item"
			case "reject":
				return "write-of-refused-item"
			case "ok":
				return "write-of-successful-item"
			}
			return "write-of-open-item"
		}
	}
	return "write-of-unknown-tx"
}

func firstDiff(exp, obs any, path string) (string, any, any) {
	switch e := exp.(type) {
	case map[string]any:
		o, ok := obs.(map[string]any)
		if !ok {
			return path, exp, obs
		}
		for _, k := range sortedKeys(e) {
			ov, ok := o[k]
			if !ok {
				return path + "/" + k, e[k], "missing"
			}
			if !core.Match(e[k], ov) {
				return firstDiff(e[k], ov, path+"/"+k)
			}
		}
		for _, k := range sortedKeys(o) {
			if _, ok := e[k]; !ok {
				return path + "/" + k, "missing", o[k]
			}
		}
	case []any:
		o, ok := obs.([]any)
		if !ok {
			return path, exp, obs
		}
		if len(o) != len(e) {
			return path + "/len", len(e), len(o)
		}
		for i := range e {
			if !core.Match(e[i], o[i]) {
				return firstDiff(e[i], o[i], fmt.Sprintf("%s/%d", path, i))
			}
		}
	}
	return path, exp, obs
}

// lookup follows a path of map keys / array indexes.
func lookup(v any, path []string) any {
	for _, p := range path {
		switch x := v.(type) {
		case map[string]any:
			v = x[p]
		case []any:
			i := atoi(p)
			if i < 0 || i >= len(x) {
				return nil
			}
			v = x[i]
		default:
			return nil
		}
	}
	return v
}

func sortedKeys(m map[string]any) []string {
	var ks []string
	for k := range m {
		ks = append(ks, k)
	}
	for i := range ks {
		for j := i + 1; j < len(ks); j++ {
			if ks[j] < ks[i] {
				ks[i], ks[j] = ks[j], ks[i]
			}
		}
	}
	return ks
}

func keyClass(id, exec string) string {
	if strings.HasPrefix(id, "!") {
		return "malformed"
	}
	p := strings.Split(id, "/")
	if len(p) == 2 { // local key
		if p[0] == exec {
			return "own-prefix"
		}
		return "prefix:" + p[0]
	}
	for len(p) < 4 {
		p = append(p, "")
	}
	c := "ns:" + p[0]
	if p[0] == exec {
		c = "own-ns"
	}
	if p[1] != "" {
		if p[1] == exec {
			c += "+own-deposit-area"
		} else {
			c += "+deposit-area-of:" + p[1]
		}
	}
	if p[2] == "f" {
		c += "+friend-mark"
	}
	return c
}

// Signature: op | field | class of the first difference (whose write was seen / what the key was).
func (d *drv) Signature(b *core.Behaviour, idx int, field string, expected, observed any) string {
	if idx < 0 || idx >= len(b.Steps) {
		return ""
	}
	op := b.Steps[idx].Op()
	if field != "ret" {
		return fmt.Sprintf("%s|%s", op, field)
	}
	if op == "Act" {
		return fmt.Sprintf("Act|%s|%v", b.Steps[idx].Str("kind"), observed)
	}
	txs := scan(b, idx)
	path, e, o := firstDiff(expected, observed, "")
	// report the most telling field first
	if em, ok := expected.(map[string]any); ok {
		if om, ok := observed.(map[string]any); ok {
			for _, f := range []string{"rej", "det", "tys", "rd", "sw", "lw", "st", "lo", "fee"} {
				if !core.Match(em[f], om[f]) {
					path, e, o = firstDiff(em[f], om[f], "/"+f)
					break
				}
			}
		}
	}
	parts := strings.Split(strings.TrimPrefix(path, "/"), "/")
	top := parts[0]
	switch top {
	case "det":
		return fmt.Sprintf("%s|det|%v", op, o)
	case "rej":
		// which keys did the last transaction of the block write
		cls := ""
		if len(txs) > 0 {
			t := txs[len(txs)-1]
			var ks []string
			for k := range t.wroteS {
				ks = append(ks, keyClass(k, t.exec)+"("+t.modes[k]+")")
			}
			for k := range t.wroteL {
				ks = append(ks, "L:"+keyClass(k, t.exec)+"("+t.modes["L:"+k]+")")
			}
			cls = "|exec=" + t.exec + "|keys=" + strings.Join(sortStrings(ks), ",")
		}
		return fmt.Sprintf("%s|rej|exp=%v|got=%v%s", op, e, o, cls)
	case "rd":
		// which transaction of the current block, which of its reads
		cur := 0
		if len(txs) > 0 {
			cur = txs[len(txs)-1].block
		}
		var blockTxs []*txInfo
		for _, t := range txs {
			if t.block == cur {
				blockTxs = append(blockTxs, t)
			}
		}
		kind := "read"
		var ri *readInfo
		var rt *txInfo
		if len(parts) >= 3 && atoi(parts[1]) < len(blockTxs) {
			rt = blockTxs[atoi(parts[1])]
			if atoi(parts[2]) < len(rt.reads) {
				ri = &rt.reads[atoi(parts[2])]
				kind = map[string]string{"S": "state-read", "L": "local-read", "LL": "local-list"}[ri.sp]
			}
		}
		// a key of the local data deleted by a failed item earlier in the block
		deletedByFailed := func(k string) bool {
			for _, t := range blockTxs {
				if t == rt {
					break
				}
				if t.out == "fail" && (t.delL[k] || k == "") && len(t.delL) > 0 {
					return true
				}
			}
			return false
		}
		if ri != nil && ri.sp == "LL" {
			el, _ := lookup(expected, parts[:3]).([]any)
			ol, _ := lookup(observed, parts[:3]).([]any)
			in := func(l []any, v any) bool {
				for _, x := range l {
					if core.Match(x, v) {
						return true
					}
				}
				return false
			}
			for _, v := range ol {
				if !in(el, v) {
					return fmt.Sprintf("%s|rd|%s|extra=%s", op, kind, whose(txs, v))
				}
			}
			for _, v := range el {
				if !in(ol, v) {
					why := ""
					if deletedByFailed("") {
						why = "(a failed item deleted local keys)"
					}
					return fmt.Sprintf("%s|rd|%s|missing=%s%s", op, kind, whose(txs, v), why)
				}
			}
			return fmt.Sprintf("%s|rd|%s|order", op, kind)
		}
		got := whose(txs, o)
		if got == "absent" && ri != nil && ri.sp == "L" && deletedByFailed(ri.k) {
			got = "absent(deleted-by-failed-item)"
		}
		return fmt.Sprintf("%s|rd|%s|exp=%s|got=%s", op, kind, whose(txs, e), got)
	case "st", "lo", "sw", "lw":
		// first key (sorted) whose value differs: whose write was expected / seen
		em, _ := lookup(expected, []string{top}).(map[string]any)
		om, _ := lookup(observed, []string{top}).(map[string]any)
		keys := map[string]any{}
		for k := range em {
			keys[k] = nil
		}
		for k := range om {
			keys[k] = nil
		}
		for _, k := range sortedKeys(keys) {
			ev, eok := em[k]
			ov, ook := om[k]
			if eok && ook && core.Match(ev, ov) {
				continue
			}
			es, os := "not-in-set", "not-in-set"
			if eok {
				es = whose(txs, ev)
			}
			if ook {
				os = whose(txs, ov)
			}
			kc := "key"
			if strings.HasPrefix(k, "?") {
				kc = "key-unknown-to-the-model"
			}
			return fmt.Sprintf("%s|%s|%s|exp=%s|got=%s", op, top, kc, es, os)
		}
		return fmt.Sprintf("%s|%s|exp=%s|got=%s", op, top, whose(txs, e), whose(txs, o))
	case "tys":
		cls := ""
		if len(parts) >= 2 {
			cur := 0
			if len(txs) > 0 {
				cur = txs[len(txs)-1].block
			}
			n := 0
			for _, t := range txs {
				if t.block != cur {
					continue
				}
				if n == atoi(parts[1]) {
					var ks []string
					for k := range t.wroteS {
						ks = append(ks, keyClass(k, t.exec)+"("+t.modes[k]+")")
					}
					for k := range t.wroteL {
						ks = append(ks, "L:"+keyClass(k, t.exec)+"("+t.modes["L:"+k]+")")
					}
					cls = "exec=" + t.exec + "|keys=" + strings.Join(sortStrings(ks), ",")
				}
				n++
			}
		}
		return fmt.Sprintf("%s|tys|exp=%v|got=%v|%s", op, e, o, cls)
	case "fee":
		return fmt.Sprintf("%s|fee", op)
	}
	return fmt.Sprintf("%s|%s", op, top)
}

func sortStrings(s []string) []string {
	for i := range s {
		for j := i + 1; j < len(s); j++ {
			if s[j] < s[i] {
				s[i], s[j] = s[j], s[i]
			}
		}
	}
	return s
}
