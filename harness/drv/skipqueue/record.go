package main

import (
	"fmt"
	"math/rand"

	"verif/harness/core"
)

// record: seeded random push/remove sequences over a larger alphabet (opt ids, scores -k..k, capacities 1..maxcap)
// on the real queue; every call is logged with its reply and the observed projection. Validated by SkipQueue_Trace.
func record(env *core.Env, emit func(map[string]any)) (*core.Summary, error) {
	sum := &core.Summary{Counters: map[string]int{}}
	n := env.OptInt("n", 20)
	nids := env.OptInt("ids", 12)
	k := env.OptInt("k", 2)
	maxcap := env.OptInt("maxcap", 6)
	depth := env.OptInt("depth", 60)
	r := rand.New(rand.NewSource(env.Seed*13 + 5))
	for t := 0; t < n; t++ {
		d := &drv{}
		cap := 1 + r.Intn(maxcap)
		d.open(env, fmt.Sprintf("rec-%d-%d", env.Seed, t), cap, nids)
		emit(map[string]any{"ev": "Reset", "cap": cap})
		var evs []any
		nt := false
		size := map[int]int{}
		for i := 0; i < depth; i++ {
			id := 1 + r.Intn(nids)
			var st core.Step
			if r.Intn(10) < 6 {
				if _, ok := size[id]; !ok || r.Intn(4) == 0 {
					size[id] = r.Intn(1000)
				}
				st = core.Step{"op": "Push", "id": float64(id), "score": float64(r.Intn(2*k+1) - k), "size": float64(size[id])}
			} else {
				st = core.Step{"op": "Remove", "id": float64(id)}
			}
			ret, chk, err := safeApply(d, st)
			if err != nil {
				return nil, err
			}
			ev := map[string]any{"ev": st.Op(), "ret": ret, "chk": core.Norm(chk)}
			if chk == nil {
				delete(ev, "chk")
			}
			for kk, v := range st {
				if kk != "op" {
					ev[kk] = v
				}
			}
			if ret == "full" {
				nt = true
			}
			emit(ev)
			sum.Steps++
			if rs, ok := ret.(string); ok && len(rs) > 6 && rs[:6] == "panic:" {
				break // the object is in an unknown state; the trace specification rejects this event
			}
			if len(evs) < 8 {
				evs = append(evs, ev)
			}
		}
		sum.Behaviours++
		if nt {
			sum.NonTrivial++
		}
		if len(sum.Samples) < 2 {
			sum.Samples = append(sum.Samples, map[string]any{"cap": cap, "trace_prefix": evs})
		}
	}
	return sum, nil
}

// safeApply: a panic of the code under test is an observed reply ("panic:..."), not a harness failure
func safeApply(d *drv, st core.Step) (ret any, chk any, err error) {
	defer func() {
		if r := recover(); r != nil {
			ret, chk, err = fmt.Sprintf("panic: %v", r), nil, nil
		}
	}()
	return d.Apply(st)
}
