// Driver for the SkipQueue family (C24): common/skiplist Queue with a test Scorer.
//
// The skip list draws its node levels from the global math/rand source; every behaviour is
// replayed under the seed given by option rseed (the family module iterates over several),
// single-threaded so that a replay file reproduces the same levels.
package main

import (
	"fmt"
	"math/rand"
	"sort"

	"github.com/33cn/chain33/common/skiplist"
	"github.com/33cn/chain33/types"
	"verif/harness/core"
)

type item struct {
	id    int
	score int64
	size  int64
	arr   int
	hash  string
}

func (it *item) GetScore() int64 { return it.score }
func (it *item) Hash() []byte    { return []byte(it.hash) }
func (it *item) ByteSize() int64 { return it.size }

// Compare is only consulted for equal scores: earlier arrival ranks higher
func (it *item) Compare(o skiplist.Scorer) int {
	x, ok := o.(*item)
	if !ok {
		return skiplist.Equal
	}
	switch {
	case it.arr < x.arr:
		return skiplist.Big
	case it.arr > x.arr:
		return skiplist.Small
	}
	return skiplist.Equal
}

// hostile hashes: prefix-related, empty-looking, binary
func hashOf(id int, salt int64) string {
	pool := []string{"h", "h1", "h10", "h1\x00", "\x00", "hh", "h-1", " ", "H", "h\xff"}
	if salt%2 == 1 {
		return fmt.Sprintf("%s#%d", pool[id%len(pool)], id)
	}
	if id < len(pool) {
		return pool[id]
	}
	return fmt.Sprintf("id-%d", id)
}

type drv struct {
	env  *core.Env
	q    *skiplist.Queue
	cap  int
	arr  int
	maxi int
	salt int64
	ids  map[string]int
}

func seedOf(env *core.Env, id string) int64 {
	h := int64(0)
	for _, c := range id {
		h = h*131 + int64(c)
	}
	return env.Seed*1000003 + h + int64(env.OptInt("rseed", 0))*7919
}

func (d *drv) open(env *core.Env, id string, cap, maxid int) {
	d.env = env
	d.cap = cap
	d.arr = 0
	d.maxi = maxid + 1 // one id that is never pushed
	d.salt = int64(env.OptInt("rseed", 0))
	d.ids = map[string]int{}
	for i := 0; i <= d.maxi; i++ {
		d.ids[hashOf(i, d.salt)] = i
	}
	rand.Seed(seedOf(env, id))
	d.q = skiplist.NewQueue(int64(cap))
}

func (d *drv) Reset(env *core.Env, b *core.Behaviour) error {
	if len(b.Steps) == 0 || b.Steps[0].Op() != "New" {
		return fmt.Errorf("behaviour %s does not start with New", b.ID)
	}
	maxid := 0
	for _, s := range b.Steps {
		if s.Int("id") > maxid {
			maxid = s.Int("id")
		}
	}
	d.open(env, b.ID, b.Steps[0].Int("cap"), maxid)
	return nil
}

func (d *drv) Close() { d.q = nil }

func idOf(s skiplist.Scorer) int {
	if s == nil {
		return -1
	}
	if it, ok := s.(*item); ok && it != nil {
		return it.id
	}
	return -99
}

func (d *drv) project() any {
	walk := []any{}
	scores := []any{}
	d.q.Walk(0, func(v skiplist.Scorer) bool {
		walk = append(walk, idOf(v))
		scores = append(scores, v.GetScore())
		return true
	})
	walk2 := []any{}
	d.q.Walk(2, func(v skiplist.Scorer) bool {
		walk2 = append(walk2, idOf(v))
		return true
	})
	// a callback answering false stops the walk after the first entry
	n := 0
	d.q.Walk(0, func(v skiplist.Scorer) bool { n++; return false })
	if (len(walk) == 0 && n != 0) || (len(walk) > 0 && n != 1) {
		walk2 = append(walk2, -77)
	}
	members := []int{}
	for i := 0; i <= d.maxi; i++ {
		h := hashOf(i, d.salt)
		ex := d.q.Exist(h)
		it, err := d.q.GetItem(h)
		switch {
		case ex && err == nil && idOf(it) == i:
			members = append(members, i)
		case !ex && err == types.ErrNotFound && it == nil:
		default:
			members = append(members, -1000-i) // membership test and lookup disagree
		}
	}
	sort.Ints(members)
	mem := []any{}
	for _, m := range members {
		mem = append(mem, m)
	}
	first, last := -1, -1
	if f := d.q.First(); f != nil {
		first = idOf(f)
	}
	if l := d.q.Last(); l != nil {
		last = idOf(l)
	}
	return map[string]any{"walk": walk, "walk2": walk2, "first": first, "last": last, "size": d.q.Size(),
		"bytes": d.q.GetCacheBytes(), "members": mem, "scores": scores}
}

func class(err error) string {
	switch err {
	case nil:
		return "ok"
	case types.ErrTxExist:
		return "exist"
	case types.ErrMemFull:
		return "full"
	case types.ErrNotFound:
		return "notfound"
	}
	return "err:" + err.Error()
}

func (d *drv) Apply(s core.Step) (any, any, error) {
	switch s.Op() {
	case "New":
		if int(d.q.MaxSize()) != d.cap {
			return "maxsize", d.project(), nil
		}
		return "ok", d.project(), nil
	case "Push":
		id := s.Int("id")
		d.arr++
		it := &item{id: id, score: int64(s.Int("score")), size: int64(s.Int("size")), arr: d.arr, hash: hashOf(id, d.salt)}
		return class(d.q.Push(it)), d.project(), nil
	case "Remove":
		return class(d.q.Remove(hashOf(s.Int("id"), d.salt))), d.project(), nil
	}
	return nil, nil, fmt.Errorf("unknown op %q", s.Op())
}

// NonTrivial (C24): two members of equal score at some point, or a push on a full queue.
func (d *drv) NonTrivial(env *core.Env, b *core.Behaviour) bool {
	cap := 0
	for _, s := range b.Steps {
		if s.Op() == "New" {
			cap = s.Int("cap")
		}
		if s.Op() == "Push" && (s.Str("ret") == "full" || s.Int("evict") >= 0) {
			return true
		}
		if c, ok := s["chk"].(map[string]any); ok {
			sc := core.Step(c).Ints("scores")
			for i := 1; i < len(sc); i++ {
				if sc[i] == sc[i-1] {
					return true
				}
			}
		}
	}
	_ = cap
	return false
}

func firstDiffField(exp, obs any) string {
	e, _ := exp.(map[string]any)
	o, _ := obs.(map[string]any)
	for _, k := range []string{"walk", "size", "bytes", "members", "first", "last", "walk2", "scores"} {
		if !core.Match(e[k], o[k]) {
			return k
		}
	}
	return "?"
}

// Signature: op | reply classes, or the first differing observable and the situation
// (queue full or not, newcomer's score relative to the last entry / ties present).
func (d *drv) Signature(b *core.Behaviour, idx int, field string, exp, obs any) string {
	if field == "panic" {
		idx-- // the replayer reports the number of steps begun
	}
	if idx < 0 {
		idx = 0
	}
	if idx >= len(b.Steps) {
		idx = len(b.Steps) - 1
	}
	if field == "panic" {
		return fmt.Sprintf("%s|panic", b.Steps[idx].Op())
	}
	s := b.Steps[idx]
	sit := ""
	if idx > 0 {
		if c, ok := b.Steps[idx-1]["chk"].(map[string]any); ok {
			prev := core.Step(c)
			sc := prev.Ints("scores")
			full := len(sc) >= b.Steps[0].Int("cap")
			sit = "notfull"
			if full {
				sit = "full"
			}
			if s.Op() == "Push" && len(sc) > 0 {
				switch last := sc[len(sc)-1]; {
				case s.Int("score") > last:
					sit += ",score>last"
				case s.Int("score") == last:
					sit += ",score=last"
				default:
					sit += ",score<last"
				}
			}
			for i := 1; i < len(sc); i++ {
				if sc[i] == sc[i-1] {
					sit += ",ties"
					break
				}
			}
		}
	}
	if field == "ret" {
		return fmt.Sprintf("%s|ret|exp=%v|got=%v|%s", s.Op(), exp, obs, sit)
	}
	if field == "chk" {
		return fmt.Sprintf("%s|%s|%s", s.Op(), firstDiffField(exp, obs), sit)
	}
	return fmt.Sprintf("%s|%s|%s", s.Op(), field, sit)
}

func main() {
	core.Main(&core.Family{
		Name:      "skipqueue",
		NewDriver: func() core.Driver { return &drv{} },
		Recorders: map[string]core.Recorder{"default": record},
	})
}
