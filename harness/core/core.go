// Package core is the family-independent part of the conformance harness:
// behaviour files produced by TLC are replayed step by step into a Driver that
// wraps the real chain33 object, and every reply / projected state is compared
// with what the specification predicted (binding A). Recorders run the real code
// under a seeded random driver and write an ndjson trace that a TLA+ trace
// specification validates (binding B).
package core

import (
	"bufio"
	"crypto/sha256"
	"encoding/hex"
	"encoding/json"
	"flag"
	"fmt"
	"os"
	"path/filepath"
	"runtime/debug"
	"sort"
	"strconv"
	"strings"
	"sync"
)

// Step is one action of a behaviour: {"op":..., args..., "ret": predicted reply, "chk": predicted projection}.
type Step map[string]any

// Behaviour is one TLC-generated behaviour.
type Behaviour struct {
	Fam   string         `json:"fam,omitempty"`
	Cfg   string         `json:"cfg,omitempty"`
	ID    string         `json:"id"`
	Meta  map[string]any `json:"meta,omitempty"`
	Steps []Step         `json:"steps"`
}

// Env carries run-wide parameters to drivers.
type Env struct {
	Prop string
	Seed int64
	Tier string
	Opts map[string]string
}

// Opt returns option k or def.
func (e *Env) Opt(k, def string) string {
	if v, ok := e.Opts[k]; ok {
		return v
	}
	return def
}

// OptInt returns option k as int or def.
func (e *Env) OptInt(k string, def int) int {
	if v, ok := e.Opts[k]; ok {
		n, err := strconv.Atoi(v)
		if err == nil {
			return n
		}
	}
	return def
}

// Driver wraps the real implementation for one family.
type Driver interface {
	// Reset prepares a fresh real object for behaviour b.
	Reset(env *Env, b *Behaviour) error
	// Apply executes one step on the real code and returns the observed reply in the
	// same JSON shape as the specification's "ret". If the step carries "chk" the
	// driver returns the observed projection as second value (else nil).
	Apply(s Step) (ret any, chk any, err error)
	Close()
}

// Signer gives a narrow signature for a disagreement (used for known findings).
type Signer interface {
	Signature(b *Behaviour, idx int, field string, expected, observed any) string
}

// Classifier tells whether a behaviour is non-trivial for the property.
type Classifier interface {
	NonTrivial(env *Env, b *Behaviour) bool
}

// Mismatch describes one disagreement between spec and code.
type Mismatch struct {
	Behaviour string `json:"behaviour"`
	Step      int    `json:"step"`
	Field     string `json:"field"`
	Expected  any    `json:"expected"`
	Observed  any    `json:"observed"`
	Signature string `json:"signature"`
	Replay    string `json:"replay"`
	Error     string `json:"error,omitempty"`
}

// Summary is what a replay / record run reports to bin/check.
type Summary struct {
	Behaviours int            `json:"behaviours"`
	Steps      int            `json:"steps"`
	Compared   int            `json:"compared"`
	NonTrivial int            `json:"nontrivial"`
	Distinct   int            `json:"distinct"`
	Mismatches []Mismatch     `json:"mismatches"`
	Samples    []any          `json:"samples"`
	Counters   map[string]int `json:"counters"`
	Errors     []string       `json:"errors"`
	Notes      []string       `json:"notes,omitempty"`
}

// Norm normalises a JSON-like value (round trip) so that comparisons are structural.
func Norm(v any) any {
	b, err := json.Marshal(v)
	if err != nil {
		return fmt.Sprintf("!unmarshalable:%v", err)
	}
	var out any
	if err := json.Unmarshal(b, &out); err != nil {
		return string(b)
	}
	return out
}

// Match compares expected (from the spec) with observed (from the code). The string
// "*" in expected matches anything (the specification leaves the value open).
func Match(exp, obs any) bool {
	if s, ok := exp.(string); ok && s == "*" {
		return true
	}
	switch e := exp.(type) {
	case map[string]any:
		o, ok := obs.(map[string]any)
		if !ok || len(o) != len(e) {
			return false
		}
		for k, ev := range e {
			ov, ok := o[k]
			if !ok || !Match(ev, ov) {
				return false
			}
		}
		return true
	case []any:
		o, ok := obs.([]any)
		if !ok || len(o) != len(e) {
			return false
		}
		for i := range e {
			if !Match(e[i], o[i]) {
				return false
			}
		}
		return true
	case float64:
		o, ok := obs.(float64)
		return ok && o == e
	case string:
		o, ok := obs.(string)
		return ok && o == e
	case bool:
		o, ok := obs.(bool)
		return ok && o == e
	case nil:
		return obs == nil
	}
	return false
}

// J is a shorthand to compact JSON.
func J(v any) string {
	b, _ := json.Marshal(v)
	return string(b)
}

// Int reads an integer field of a step.
func (s Step) Int(k string) int {
	switch v := s[k].(type) {
	case float64:
		return int(v)
	case int:
		return v
	case string:
		n, _ := strconv.Atoi(v)
		return n
	}
	return 0
}

// Str reads a string field.
func (s Step) Str(k string) string {
	if v, ok := s[k].(string); ok {
		return v
	}
	if v, ok := s[k]; ok && v != nil {
		return fmt.Sprint(v)
	}
	return ""
}

// Bool reads a boolean field.
func (s Step) Bool(k string) bool {
	v, _ := s[k].(bool)
	return v
}

// List reads an array field.
func (s Step) List(k string) []any {
	v, _ := s[k].([]any)
	return v
}

// Ints reads an array of ints.
func (s Step) Ints(k string) []int {
	var out []int
	for _, x := range s.List(k) {
		out = append(out, ToInt(x))
	}
	return out
}

// ToInt converts a JSON number.
func ToInt(x any) int {
	switch v := x.(type) {
	case float64:
		return int(v)
	case int:
		return v
	case int64:
		return int(v)
	case string:
		n, _ := strconv.Atoi(v)
		return n
	}
	return 0
}

// Op is the step's action name.
func (s Step) Op() string { return s.Str("op") }

// ReadBehaviours loads an ndjson behaviour file.
func ReadBehaviours(path string) ([]*Behaviour, error) {
	f, err := os.Open(path)
	if err != nil {
		return nil, err
	}
	defer f.Close()
	var out []*Behaviour
	sc := bufio.NewScanner(f)
	sc.Buffer(make([]byte, 1<<20), 1<<28)
	for sc.Scan() {
		line := strings.TrimSpace(sc.Text())
		if line == "" {
			continue
		}
		var b Behaviour
		if err := json.Unmarshal([]byte(line), &b); err != nil {
			return nil, fmt.Errorf("bad behaviour line: %v", err)
		}
		out = append(out, &b)
	}
	return out, sc.Err()
}

// ReplayFile is the on-disk form of a failing behaviour.
type ReplayFile struct {
	Property    string            `json:"property"`
	Family      string            `json:"family"`
	Seed        int64             `json:"seed"`
	Tier        string            `json:"tier"`
	Opts        map[string]string `json:"opts"`
	Behaviour   *Behaviour        `json:"behaviour"`
	FailingStep int               `json:"failing_step"`
	Field       string            `json:"field"`
	Expected    any               `json:"expected"`
	Observed    any               `json:"observed"`
	Signature   string            `json:"signature"`
	Extra       map[string]any    `json:"extra,omitempty"`
}

func behaviourHash(b *Behaviour) string {
	h := sha256.New()
	for _, s := range b.Steps {
		c := Step{}
		for k, v := range s {
			if k == "ret" || k == "chk" {
				continue
			}
			c[k] = v
		}
		h.Write([]byte(J(c)))
		h.Write([]byte{'\n'})
	}
	return hex.EncodeToString(h.Sum(nil))[:16]
}

// RunOne replays one behaviour; returns nil if it agreed.
func RunOne(env *Env, d Driver, b *Behaviour) (mm *Mismatch, steps, compared int) {
	defer func() {
		if r := recover(); r != nil {
			mm = &Mismatch{Behaviour: b.ID, Step: steps, Field: "panic", Expected: "no panic",
				Observed: fmt.Sprint(r), Error: string(debug.Stack())}
		}
	}()
	if err := d.Reset(env, b); err != nil {
		return &Mismatch{Behaviour: b.ID, Step: -1, Field: "reset", Error: err.Error(), Expected: "reset ok", Observed: "error"}, 0, 0
	}
	defer d.Close()
	for i, s := range b.Steps {
		steps = i + 1
		ret, chk, err := d.Apply(s)
		if err != nil {
			return &Mismatch{Behaviour: b.ID, Step: i, Field: "driver", Error: err.Error(), Expected: "driver ok", Observed: "driver error"}, steps, compared
		}
		if exp, ok := s["ret"]; ok {
			compared++
			obs := Norm(ret)
			if !Match(exp, obs) {
				return &Mismatch{Behaviour: b.ID, Step: i, Field: "ret", Expected: exp, Observed: obs}, steps, compared
			}
		}
		if exp, ok := s["chk"]; ok && chk != nil {
			compared++
			obs := Norm(chk)
			if !Match(exp, obs) {
				return &Mismatch{Behaviour: b.ID, Step: i, Field: "chk", Expected: exp, Observed: obs}, steps, compared
			}
		}
	}
	return nil, steps, compared
}

func defaultSignature(b *Behaviour, mm *Mismatch) string {
	op := "?"
	if mm.Step >= 0 && mm.Step < len(b.Steps) {
		op = b.Steps[mm.Step].Op()
	}
	return fmt.Sprintf("%s|%s|exp=%s|got=%s", op, mm.Field, clip(J(mm.Expected), 60), clip(J(mm.Observed), 60))
}

func clip(s string, n int) string {
	if len(s) > n {
		return s[:n] + "…"
	}
	return s
}

// Replay runs all behaviours (par drivers in parallel) and writes replay files for mismatches.
func Replay(env *Env, fam string, newDriver func() Driver, bs []*Behaviour, par int, replayDir string, maxReplays int) *Summary {
	sum := &Summary{Counters: map[string]int{}}
	var mu sync.Mutex
	seen := map[string]bool{}
	sigSeen := map[string]int{}
	ch := make(chan *Behaviour)
	var wg sync.WaitGroup
	if par < 1 {
		par = 1
	}
	for w := 0; w < par; w++ {
		wg.Add(1)
		go func() {
			defer wg.Done()
			d := newDriver()
			cl, _ := d.(Classifier)
			sg, _ := d.(Signer)
			for b := range ch {
				mm, steps, compared := RunOne(env, d, b)
				h := behaviourHash(b)
				nt := true
				if cl != nil {
					nt = safeNonTrivial(cl, env, b)
				}
				mu.Lock()
				sum.Behaviours++
				sum.Steps += steps
				sum.Compared += compared
				if !seen[h] {
					seen[h] = true
					sum.Distinct++
					if nt {
						sum.NonTrivial++
						if len(sum.Samples) < 3 {
							sum.Samples = append(sum.Samples, b)
						}
					}
				}
				if mm != nil {
					if mm.Field == "driver" || mm.Field == "reset" {
						sum.Errors = append(sum.Errors, fmt.Sprintf("%s step %d: %s", b.ID, mm.Step, mm.Error))
					} else {
						if sg != nil {
							mm.Signature = safeSignature(sg, b, mm)
						}
						if mm.Signature == "" {
							mm.Signature = defaultSignature(b, mm)
						}
						sigSeen[mm.Signature]++
						if sigSeen[mm.Signature] <= maxReplays {
							cut := *b
							if mm.Step >= 0 && mm.Step+1 <= len(b.Steps) {
								cut.Steps = b.Steps[:mm.Step+1]
							}
							rf := &ReplayFile{Property: env.Prop, Family: fam, Seed: env.Seed, Tier: env.Tier, Opts: env.Opts,
								Behaviour: &cut, FailingStep: mm.Step, Field: mm.Field, Expected: mm.Expected, Observed: mm.Observed, Signature: mm.Signature}
							name := fmt.Sprintf("%s-%s-%d-%s.json", env.Prop, fam, env.Seed, sigHash(mm.Signature+b.ID))
							p := filepath.Join(replayDir, name)
							os.MkdirAll(replayDir, 0o755)
							bb, _ := json.MarshalIndent(rf, "", " ")
							os.WriteFile(p, bb, 0o644)
							mm.Replay = p
							sum.Mismatches = append(sum.Mismatches, *mm)
						}
						sum.Counters["mismatch_total"]++
					}
				}
				mu.Unlock()
			}
		}()
	}
	for _, b := range bs {
		ch <- b
	}
	close(ch)
	wg.Wait()
	sort.Slice(sum.Mismatches, func(i, j int) bool { return sum.Mismatches[i].Signature < sum.Mismatches[j].Signature })
	return sum
}

// a driver's classifier / signer runs on an object the failing behaviour may have corrupted:
// a panic there must not kill the replay (the disagreement is still reported with the default signature)
func safeNonTrivial(cl Classifier, env *Env, b *Behaviour) (nt bool) {
	defer func() {
		if r := recover(); r != nil {
			nt = true
		}
	}()
	return cl.NonTrivial(env, b)
}

func safeSignature(sg Signer, b *Behaviour, mm *Mismatch) (sig string) {
	defer func() {
		if r := recover(); r != nil {
			sig = ""
		}
	}()
	if mm.Step < 0 || mm.Step >= len(b.Steps) {
		return ""
	}
	return sg.Signature(b, mm.Step, mm.Field, mm.Expected, mm.Observed)
}

func sigHash(s string) string {
	h := sha256.Sum256([]byte(s))
	return hex.EncodeToString(h[:])[:10]
}

// Recorder runs the real code under a seeded random driver and appends events to w.
// It returns the number of independent traces, non-trivial traces and samples.
type Recorder func(env *Env, emit func(ev map[string]any)) (*Summary, error)

// Family bundles what a driver binary offers.
type Family struct {
	Name      string
	NewDriver func() Driver
	Recorders map[string]Recorder
	// Extra subcommands: name -> func(env, args) exit code
	Extra map[string]func(env *Env, args []string) int
}

func parseOpts(list string) map[string]string {
	m := map[string]string{}
	for _, kv := range strings.Split(list, ",") {
		if kv == "" {
			continue
		}
		p := strings.SplitN(kv, "=", 2)
		if len(p) == 2 {
			m[p[0]] = p[1]
		} else {
			m[p[0]] = "1"
		}
	}
	return m
}

func writeJSON(path string, v any) {
	b, _ := json.MarshalIndent(v, "", " ")
	if path == "" || path == "-" {
		fmt.Println(string(b))
		return
	}
	os.WriteFile(path, b, 0o644)
}

// Main is the entry point of every family binary.
func Main(f *Family) {
	if len(os.Args) < 2 {
		fmt.Fprintln(os.Stderr, "usage: vh-"+f.Name+" replay|record|one ...")
		os.Exit(2)
	}
	cmd := os.Args[1]
	fs := flag.NewFlagSet(cmd, flag.ExitOnError)
	in := fs.String("in", "", "behaviour ndjson / replay file")
	out := fs.String("out", "", "summary json / trace ndjson")
	sumPath := fs.String("summary", "", "summary json (record)")
	replays := fs.String("replays", "replays", "directory for replay files")
	prop := fs.String("prop", "", "property id")
	tier := fs.String("tier", "quick", "tier")
	seed := fs.Int64("seed", 1, "seed")
	par := fs.Int("par", 1, "parallel drivers")
	opts := fs.String("opt", "", "k=v,k=v")
	rec := fs.String("recorder", "default", "recorder name")
	maxReplays := fs.Int("max-replays", 3, "replay files per signature")
	fs.Parse(os.Args[2:])
	env := &Env{Prop: *prop, Seed: *seed, Tier: *tier, Opts: parseOpts(*opts)}
	switch cmd {
	case "replay":
		bs, err := ReadBehaviours(*in)
		if err != nil {
			fmt.Fprintln(os.Stderr, "read:", err)
			os.Exit(2)
		}
		sum := Replay(env, f.Name, f.NewDriver, bs, *par, *replays, *maxReplays)
		writeJSON(*out, sum)
		if len(sum.Errors) > 0 {
			os.Exit(2)
		}
	case "one":
		b, err := os.ReadFile(*in)
		if err != nil {
			fmt.Fprintln(os.Stderr, err)
			os.Exit(2)
		}
		var rf ReplayFile
		if err := json.Unmarshal(b, &rf); err != nil {
			fmt.Fprintln(os.Stderr, err)
			os.Exit(2)
		}
		if rf.Extra != nil && rf.Extra["kind"] != nil {
			if h, ok := f.Extra["replay-"+fmt.Sprint(rf.Extra["kind"])]; ok {
				os.Exit(h(&Env{Prop: rf.Property, Seed: rf.Seed, Tier: rf.Tier, Opts: rf.Opts}, []string{*in}))
			}
		}
		env = &Env{Prop: rf.Property, Seed: rf.Seed, Tier: rf.Tier, Opts: rf.Opts}
		if env.Opts == nil {
			env.Opts = map[string]string{}
		}
		d := f.NewDriver()
		mm, _, _ := RunOne(env, d, rf.Behaviour)
		if mm == nil {
			fmt.Println("REPLAY agrees (no disagreement)")
			os.Exit(0)
		}
		if mm.Field == "driver" || mm.Field == "reset" {
			fmt.Println("REPLAY driver error:", mm.Error)
			os.Exit(2)
		}
		fmt.Printf("REPLAY disagreement step=%d field=%s expected=%s observed=%s\n", mm.Step, mm.Field, J(mm.Expected), J(mm.Observed))
		fmt.Printf("VIOLATION property=%s replay=%s\n", rf.Property, *in)
		os.Exit(1)
	case "record":
		r, ok := f.Recorders[*rec]
		if !ok {
			fmt.Fprintln(os.Stderr, "no recorder", *rec)
			os.Exit(2)
		}
		w, err := os.Create(*out)
		if err != nil {
			fmt.Fprintln(os.Stderr, err)
			os.Exit(2)
		}
		bw := bufio.NewWriterSize(w, 1<<20)
		var mu sync.Mutex
		emit := func(ev map[string]any) {
			b, _ := json.Marshal(ev)
			mu.Lock()
			bw.Write(b)
			bw.WriteByte('\n')
			mu.Unlock()
		}
		sum, err := r(env, emit)
		bw.Flush()
		w.Close()
		if err != nil {
			fmt.Fprintln(os.Stderr, "record:", err)
			os.Exit(2)
		}
		writeJSON(*sumPath, sum)
	default:
		if h, ok := f.Extra[cmd]; ok {
			os.Exit(h(env, fs.Args()))
		}
		fmt.Fprintln(os.Stderr, "unknown command", cmd)
		os.Exit(2)
	}
}
