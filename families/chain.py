"""C25, C26, C27 — block acceptance, fork choice, reorganisation, block sequence log and invalid
blocks (blockchain/process.go, orphanpool.go, blockstore.go). Family Chain, mechanism model."""
import os
import re

FAMILY = 'Chain'
DRIVER = 'chain'
HOOK_COMMITS = []  # none: everything is reachable through exported API

_COMMON_NOTE = ('Mechanism model (ProcessBlock -> maybeAddBestChain -> maybeAcceptBlock -> connectBestChain -> connectBlock / '
                'reorganizeChain, ProcessOrphans) with orphan expiry, index eviction, finalisation (finalized = 0, margin 12) and '
                'the "self" pid not modelled; trees hang off a 12-block trunk; works are powers of two whose difficulty bits have '
                'exactly proportional work, so ties are modelled exactly; error codes are abstracted to ok / exist / invalid; '
                'receiver nodes are testnodes (solo consensus, mining off, mock p2p) on LevelDB in tmpfs.')

PROPS = {
    'C25': dict(
        text='TLC checks on the mechanism model that, for every tree shape within the bound and every delivery order with '
             'duplicates, the best chain is the unique heaviest branch once all blocks were delivered (tip at least the margin '
             'above the finalised height) and no orphan is left; every delivery order of several tree shapes and simulated '
             'orders over random trees are replayed on fresh real nodes, comparing after every delivery the ProcessBlock reply, '
             'tip, best chain, stored bodies and orphan pool with the model, and at the end the persisted chain (height index, '
             'headers, bodies with receipts, transaction index incl. transactions of losing branches, total difficulties, '
             'account state at the tip) with a fresh node fed only the heaviest branch; recorded deliveries over bigger random '
             'trees through ProcessBlock / ProcAddBlockMsg / the bus events are validated by the trace specification.',
        note=_COMMON_NOTE + ' Bounds: TLC every tree of 3 (quick) / 4-5 (thorough) free blocks plus named shapes up to 7 blocks; '
             'code: all orders of shapes with 4-5 (quick) and 6 (thorough) free blocks, sampled orders otherwise.',
    ),
    'C26': dict(
        text='TLC checks on every state of the same exploration (sequence recording on) that sequence numbers form 0..last '
             'without gaps, that the log is append-only, that every delete record removes the then-tip and that replaying the '
             'log gives the best chain; on real nodes with isRecordBlockSequence the whole log (GetBlockSequences, '
             'LoadBlockLastSequence) is compared with the model after every delivery and, independently of the model, replayed '
             'and compared with GetBlockHashByHeight at every height.',
        note=_COMMON_NOTE + ' The main-chain (non para) sequence only; push notification is C32. Database reads and writes never fail in any '
             'explored run (seeded change C26-1, a sequence number consumed but not persisted after a transient read fault inside '
             'connectBlock, is therefore not caught).',
    ),
    'C27': dict(
        text='The mechanism model stores bodies by hash before execution, keeps errLog on index nodes and does not roll a failed '
             'reorganisation back, as the code does; TLC refutes the C27 clauses on it (candidates). Every delivery order of '
             'small trees with a tampered body behind a genuine header (5 tampering kinds, and a bad block signature with all / some / none of the transactions already in the pool of the receiver), blocks invalid by themselves (6 '
             'kinds + wrong height), peer and download pids is replayed on real nodes: conformance with the model after every '
             'delivery, and the clauses of C27 evaluated on the real observations (rejected delivery leaves the best chain '
             'unchanged; a valid block is accepted once its genuine body arrives; a rejected body is not served under the hash). '
             'Violations observed on the real code are reported with narrow signatures (known findings).',
        note=_COMMON_NOTE + ' Re-execution of a rejected body is refuted on the model only (not observable without a hook); '
             'its consequence (a later valid block answered with an execution error) is observed on the code.',
    ),
}


def _cfg(ctx, d, base, name, append=None, **repl):
    """Write a variant of a cfg (constants replaced, lines appended) into the staged directory."""
    t = open(os.path.join(d, base)).read()
    for k, v in repl.items():
        t, n = re.subn(r'(?m)^\s*%s\s*(<-|=).*$' % re.escape(k), '  %s %s %s' % (k, '<-' if k == 'Trees' else '=', v), t)
        if not n:
            raise vlib.Broken('cfg %s has no constant %s' % (base, k))
    if append:
        t += '\n' + append + '\n'
    ctx.write_cfg(d, name, t)
    return name


def run(ctx):
    q = ctx.tier == 'quick'
    prop = ctx.prop
    ctx.assumptions += ['hash functions and LevelDB trusted', 'solo consensus does not validate difficulty (any bits accepted)',
                        'orphan expiry (10 min wall clock) and finalisation not exercised', 'TLC bounds as stated in the manifest note']
    b = vlib.build(DRIVER)
    try:
        if prop in ('C25', 'C26'):
            _run_conv(ctx, b, q)
        else:
            _run_bad(ctx, b, q)
    finally:
        vlib.sh([b, 'sweep'], timeout=60)


def _validate(ctx, b, d, opts):
    """Binding B: record deliveries on real nodes, validate with Chain_Trace; then corrupt one recorded
    observation (the tip of the last delivery that moved it) and demand rejection."""
    r, s = ctx.validate_recording(b, 'Chain_Trace', 'Chain_Trace.cfg', opts=opts, selftest=False, timeout=3600, stage=d)
    for n in s.get('notes') or []:
        ctx.notes.append(n)
    if not r['accepted']:
        return
    tp = max((os.path.join(ctx.scratch, f) for f in os.listdir(ctx.scratch) if f.startswith('trace-') and f.endswith('.ndjson')),
             key=os.path.getmtime)

    def mutate(ev):
        if ev.get('ev') == 'Done' and ev.get('seq'):
            ev['seq'] = ev['seq'][:-1]
            ev['last'] = ev['last'] - 1
            return True
        return False
    ctx.trace_selftest('Chain_Trace', 'Chain_Trace.cfg', tp, mutate=mutate)


def _run_conv(ctx, b, q):
    prop = ctx.prop
    ctx.rule = ('behaviours = every delivery order (TLC exhaustive export) of named tree shapes plus TLC-simulated orders with '
                'duplicates over randomly grown trees; each replayed on a fresh real node; non-trivial = '
                + ('at least one orphan reply and one reorganisation (Disconnect step)' if prop == 'C25' else
                   'at least one reorganisation, i.e. a delete record in the log') + '; distinct by abstract step sequence')
    d = ctx.stage()
    # --- model checking
    ctx.tlc_mc('Chain_MC', 'Chain_MCq.cfg', workers=4, timeout=3600, stage=d)
    ctx.tlc_mc('Chain_MC', 'Chain_MCs.cfg' if not q else _cfg(ctx, d, 'Chain_MCs.cfg', 'Chain_MCsq.cfg', Trees='ShapesQ'),
               workers=4, timeout=3600, stage=d)
    if not q:
        ctx.tlc_mc('Chain_MC', 'Chain_MC.cfg', workers=6, timeout=10800, stage=d)
        ctx.tlc_mc('Chain_MC', 'Chain_MC5.cfg', workers=6, timeout=14400, stage=d)
        ctx.tlc_mc('Chain_MC', _cfg(ctx, d, 'Chain_MCs.cfg', 'Chain_MC7.cfg', Trees='Shapes7'), workers=4, timeout=7200, stage=d)
        # anti-vacuity: every action of the mechanism is taken, and the premises of the properties are reached
        r = ctx.tlc_mc('Chain_MC', 'Chain_MCq.cfg', workers=2, timeout=7200, stage=d, coverage=True, count=False)
        if r.get('zero_actions'):
            raise vlib.Broken('vacuous: actions never taken: %s' % r['zero_actions'][:3])
        r = ctx.tlc_mc('Chain_MC', _cfg(ctx, d, 'Chain_MCs.cfg', 'Chain_MCvac.cfg', append='INVARIANTS PremiseNeverHolds'),
                       workers=2, timeout=7200, stage=d, expect_violation=True, count=False)
        if r['violation'] != 'PremiseNeverHolds':
            raise vlib.Broken('vacuous: the premise of Converged is never reached')
    # --- exhaustive delivery orders of named shapes, replayed on real nodes
    allb = ctx.tlc_genall('Chain_All', 'Chain_All.cfg' if q else _cfg(ctx, d, 'Chain_All.cfg', 'Chain_AllT.cfg', Trees='ShapesT'),
                          stage=d, timeout=3600)
    ctx.extra['exhaustive_delivery_orders'] = len(allb)
    if q:
        # S1 (24 orders) completely, every 3rd order of the two 5-block shapes
        keep = [x for i, x in enumerate(allb) if x['steps'][0]['n'] == 4 or i % 3 == 0]
    else:
        keep = [x for i, x in enumerate(allb) if x['steps'][0]['n'] <= 5 or i % 3 == 0]
    ctx.replay(b, keep, opts=dict(via='process'), par=8, timeout=7200)
    # --- simulated orders with duplicates over random trees; other entry points and configurations
    n = 60 if q else 360
    sims = ctx.tlc_sim('Chain_MC', 'Chain_Gen.cfg', num=n, depth=18, stage=d, timeout=3600)
    if not q:
        sims += ctx.tlc_sim('Chain_MC', 'Chain_Gen7.cfg', num=150, depth=11, stage=d, timeout=3600, seed=ctx.seed + 77)
        import random
        random.Random(ctx.seed).shuffle(sims)
    third = max(1, len(sims) // 3)
    ctx.replay(b, sims[:third], opts=dict(via='bus', salt=1), par=8, timeout=7200)
    ctx.replay(b, sims[third:2 * third], opts=dict(via='msg', salt=2), par=8, timeout=7200)
    if prop == 'C25':
        ctx.replay(b, sims[2 * third:], opts=dict(via='process', seq=0, salt=3), par=8, timeout=7200)
    else:
        ctx.replay(b, sims[2 * third:], opts=dict(via='process', salt=3, bcast=1), par=8, timeout=7200)
    # --- binding B
    _validate(ctx, b, d, dict(n=4 if q else 30, size=9 if q else 12))


def _run_bad(ctx, b, q):
    ctx.rule = ('behaviours = every delivery order (TLC exhaustive export) of small trees in which one block may also arrive with '
                'a tampered body behind the genuine header or is invalid by itself, with peer and download pids; non-trivial = a '
                'tampered / invalid delivery that the node executes and rejects, or that precedes the genuine block')
    d = ctx.stage()
    trees = 'BadQ' if q else 'BadT'
    base = _cfg(ctx, d, 'Chain_Bad.cfg', 'Chain_BadX.cfg', Trees=trees)
    # one exhaustive run over the mechanism: structural invariants must hold; the C27 clauses the model refutes
    # are collected (candidates, see Chain_Cand.tla) rather than reported as TLC violations
    r = ctx.tlc_mc('Chain_Cand', _cfg(ctx, d, base, 'Chain_Bad0.cfg',
                                      append='INVARIANTS TypeOK SeqConsecutive SeqReplay SeqDelOK CandMark\nPOSTCONDITION CandPost'),
                   workers=1, timeout=3600, stage=d)
    m = re.search(r'@@CAND"?,\s*\{([^}]*)\}', r['out'])
    if not m:
        raise vlib.Broken('no @@CAND line in the TLC output')
    cands = sorted(x.strip().strip('"') for x in m.group(1).split(',') if x.strip())
    ctx.extra['tlc_refutes_on_mechanism'] = cands
    ctx.notes.append('TLC refutes on the mechanism model: %s (candidates; only what is reproduced on the real code is reported)'
                     % ', '.join(cands))
    allb = ctx.tlc_genall('Chain_All', _cfg(ctx, d, 'Chain_All.cfg', 'Chain_AllBad.cfg', Trees=trees, Variants='{"g", "t"}',
                                             Pids='{"peer", "download"}'), stage=d, timeout=3600)
    ctx.extra['exhaustive_delivery_orders'] = len(allb)
    kinds = ['subst', 'sig', 'dupdrop', 'reorder', 'payload', 'blocksig']
    bk = ['state', 'txroot', 'time', 'drop', 'add', 'duptail']
    if q:
        pool = allb[::3]
    else:
        # all orders of the 3-block trees, every 2nd order of T5, every 4th of T6 (8 pid combinations each)
        pool = [x for i, x in enumerate(allb) if x['steps'][0]['n'] == 3
                or (x['steps'][0]['n'] == 4 and x['steps'][0]['kind'][1] == 'ok' and i % 2 == 0) or i % 4 == 0]
    # the orders of T7 in which the invalid download block is deleted from the index while its child stays
    # indexed (dangling node: nil fork point, fixed in d50210a) are always replayed
    def _dangling(x):
        dl = [st for st in x['steps'] if st.get('op') == 'Deliver']
        return x['steps'][0]['n'] == 5 and len(dl) > 1 and dl[0]['b'] == 1 and dl[0]['pid'] == 'download' and dl[1]['b'] == 2
    ids = {x['id'] for x in pool}
    pool += [x for x in allb if _dangling(x) and x['id'] not in ids]
    ctx.extra['replayed_delivery_orders'] = len(pool)
    for k in range(len(kinds)):
        sel = pool[k::len(kinds)]
        if sel:
            # blocksig: genuine transactions behind a block signature that does not verify, with every transaction
            # already in the receiver's pool (pooled transactions are not verified again; the block signature must be)
            ctx.replay(b, sel, opts=dict(via='process', tkind=kinds[k], bkind=bk[k % len(bk)], clause='ab', salt=k, pool='all'),
                       par=8, timeout=10800)
    # clause c (a rejected body is still served) is masked by clause b in complete orders: evaluate it alone on a subset
    ctx.replay(b, pool[::3], opts=dict(via='process', clause='c', salt=7, tkind='blocksig', pool='mix'), par=8, timeout=10800, count=False)
    ctx.replay(b, pool[1::5], opts=dict(via='bus', clause='ab', salt=8, bkind=bk[5]), par=8, timeout=10800, count=False)
    _validate(ctx, b, d, dict(n=4 if q else 24, size=7 if q else 10, bad=1))


import vlib  # noqa: E402
