"""C10 — indexed tables (common/db/table). Family Table, reference model."""
FAMILY = 'Table'
DRIVER = 'table'
HOOK_COMMITS = []
PROPS = {
    'C10': dict(
        text='TLC exhaustively checks the Table reference model (a map primary key -> row with two indexed fields: the '
             'incrementally maintained map equals the fold of the buffered operations over the saved map, Add fails iff '
             'present, Update/Del fail iff absent, every present row is listed under exactly its index values) on small '
             'constants; every call sequence of up to 4 (quick: 3) buffered operations on one key followed by a Save, from an '
             'absent and from a saved row, is exported exhaustively by TLC and replayed into the real common/db/table '
             '(memdb, LevelDB and LocalDB; one table object or a fresh one per Save) comparing every reply and, after '
             'each applied Save, GetData of every key, every index listing and the primary listing; TLC simulations over '
             '3 keys / 3 index values / 3 saves and seeded random recordings over 5 keys validated by the trace '
             'specification cover interleavings of several keys; a join-table leg (TableJoin.tla) replays TLC-simulated call '
             'sequences on a real JoinTable over two real tables comparing both member tables and both join-index listings '
             'after each Save (quick: one call per row and window; thorough: also several calls per row, left deletes mixed '
             'with right writes, foreign-key changes).',
        note='Observations are made only after a Save whose KV list was applied (nil value = delete, as blockstore does). '
             'Index values are equal-length without the separator so that the prefix match of ListIndex is equality; one '
             'untouched anchor row under every index value makes stale index entries observable. Not compared: reads '
             'while operations are pending, row order inside a listing, auto-increment keys, paging. TLC bounds: 1-3 keys, '
             '2-3 values per indexed field, <= 6 calls between saves, <= 3 saves.',
    ),
}


def run(ctx):
    q = ctx.tier == 'quick'
    ctx.rule = ('behaviours = (a) GEN-all: every sequence of <= %d Add/Replace/Update/Del calls on one primary key (4 row values) from '
                'an absent or saved row, then Save; (b) TLC -simulate of Table.tla over 3 keys; (c) seeded random recordings. '
                'After every Save the whole table (GetData of every key, all index listings, primary listing) is compared. '
                'non-trivial = >= 2 calls on one primary key between two saves, or an Update/Replace of a present row changing an '
                'indexed field; distinct by abstract call sequence' % (3 if q else 4))
    ctx.assumptions += ['index values are equal-length and contain no "-" (prefix match = equality)',
                        'Save KV list applied with nil value = delete; goleveldb/memdb trusted',
                        'TLC bounds: PKs<=3, Vals<=3, MaxOps<=6, MaxSaves<=3']
    if q:
        _mc(ctx, 'Table_MC', 'Table_MCq.cfg', workers=4, timeout=1800)
    else:
        _mc(ctx, 'Table_MC', 'Table_MCq.cfg', workers=4, timeout=3600, coverage=True)
        _mc(ctx, 'Table_MC', 'Table_MC.cfg', workers=4, timeout=7200)
    b = vlib.build(DRIVER)
    # exhaustive leg
    allb = ctx.tlc_genall('Table_All', 'Table_Allq.cfg' if q else 'Table_All.cfg', timeout=7200)
    combos = [dict(db='mem', fresh=0), dict(db='mem', fresh=1, salt=1)]
    if not q:
        combos += [dict(db='local', fresh=0, salt=2), dict(db='mem', fresh=0, salt=3, delrow=1)]
    for i, o in enumerate(combos):
        ctx.replay(b, allb, opts=o, par=8, count=(i == 0), timeout=7200)
    _replay_selftest(ctx, b, allb, dict(db='mem'))
    ctx.exhaustive = False  # exhaustive over the abstract single-key histories, sampled concretisation and interleavings
    ctx.extra['exhaustive_small_config'] = dict(cfg='Table_Allq.cfg' if q else 'Table_All.cfg', behaviours=len(allb))
    if not q:
        # two windows of <= 2 calls each on one table object / a fresh object per Save
        all2 = ctx.tlc_genall('Table_All', 'Table_All2.cfg', timeout=7200)
        ctx.replay(b, all2, opts=dict(db='mem', fresh=0, salt=4), par=8, timeout=7200)
        ctx.replay(b, all2[::7], opts=dict(db='leveldb', fresh=1, salt=5), par=8, count=False, timeout=7200)
        ctx.extra['exhaustive_small_config'].update(two_saves_cfg='Table_All2.cfg', two_saves_behaviours=len(all2))
    # simulation leg: several keys interleaved
    n = 300 if q else 3000
    for sd in range(1 if q else 3):
        bs = ctx.tlc_sim('Table_MC', 'Table_Gen.cfg', num=n, depth=22, seed=ctx.seed * 100 + sd, timeout=3600)
        ctx.replay(b, bs, opts=dict(db=('mem', 'local', 'leveldb')[sd % 3], fresh=sd % 2, salt=10 + sd), par=8, timeout=7200)
    # join-table leg (TableJoin.tla): a real JoinTable over two real tables
    jn = 250 if q else 1500
    if not q:
        _mc(ctx, 'TableJoin', 'TableJoin_MC.cfg', workers=2, timeout=3600)
    # (a) one call per row and window, fk of a saved left row fixed: must agree, also with prefix-related / '-' keys
    js = ctx.tlc_sim('TableJoin', 'TableJoin_GenSingle.cfg', num=jn, depth=24, seed=ctx.seed * 100 + 50, timeout=3600)
    ctx.replay(b, js, opts=dict(db='mem', rpk='hostile', fresh=0, salt=20), par=8, timeout=7200)
    ctx.replay(b, js, opts=dict(db='local', rpk='plain', fresh=1, salt=21), par=8, count=False, timeout=7200)
    if not q:
        # (b) plus windows deleting a left row and writing its right row: must agree
        jd = ctx.tlc_sim('TableJoin', 'TableJoin_GenDelMix.cfg', num=jn, depth=24, seed=ctx.seed * 100 + 51, timeout=3600)
        ctx.replay(b, jd, opts=dict(db='mem', rpk='hostile', fresh=1, salt=22), par=8, timeout=7200)
        # (c) several calls per row and window / (d) foreign key of a saved left row changes: JoinTable is known to
        # mis-maintain its index there (known findings, see known_findings.json); any other shape is reported
        jm = ctx.tlc_sim('TableJoin', 'TableJoin_GenMulti.cfg', num=2 * jn, depth=24, seed=ctx.seed * 100 + 52, timeout=3600)
        ctx.replay(b, jm, opts=dict(db='mem', rpk='hostile', fresh=0, salt=23), par=8, timeout=7200)
        jf = ctx.tlc_sim('TableJoin', 'TableJoin_GenFk.cfg', num=jn // 2, depth=24, seed=ctx.seed * 100 + 53, timeout=3600)
        ctx.replay(b, jf, opts=dict(db='mem', rpk='plain', fresh=0, salt=24), par=8, timeout=7200)
    ctx.validate_recording(b, 'Table_Trace', 'Table_Trace.cfg', opts=dict(n=15 if q else 150, keys=5, vals=3, pays=3, depth=40),
                           selftest=True, timeout=7200)


def _replay_selftest(ctx, b, bs, opts, par=1):
    """Anti-vacuity: one behaviour with one predicted reply flipped must be rejected by the replayer."""
    import copy
    import os
    bad = None
    for cand in bs[:50]:
        for i, st in enumerate(cand['steps']):
            if i > 0 and st.get('ret') == 'ok' and st.get('op') not in ('Save', 'Load', 'JLoad', 'New'):
                bad = copy.deepcopy(cand)
                bad['id'] = 'selftest'
                bad['steps'][i]['ret'] = 'flipped'
                break
        if bad:
            break
    if not bad:
        ctx.notes.append('replay selftest: no corruptible behaviour')
        return
    n = len(ctx.mismatches)
    ctx.replay(b, [bad], opts=opts, par=par, count=False, name='selftest-%d.ndjson' % n)
    got = ctx.mismatches[n:]
    del ctx.mismatches[n:]
    for m in got:
        try:
            os.remove(m.get('replay') or '')
        except OSError:
            pass
    if not got:
        raise vlib.Broken('binding self-test failed: a behaviour with a flipped reply was accepted by the replayer')
    ctx.extra['selftest_flipped_reply_rejected'] = True


def _mc(ctx, module, cfg, **kw):
    r = ctx.tlc_mc(module, cfg, **kw)
    if kw.get('coverage') and r.get('zero_actions'):
        raise vlib.Broken('vacuous model: actions never taken in %s/%s: %s' % (module, cfg, r['zero_actions'][:5]))
    return r


import vlib  # noqa: E402
