"""C18 — block transaction Merkle root (common/merkle). Family Merkle, reference model over a free hash constructor."""
import json
import random

FAMILY = 'Merkle'
DRIVER = 'merkle'
HOOK_COMMITS = ['d74fb0d', 'fee3185']  # H1 worker-count override for merkle.GetMerkleRoot; H1b observe the chunk size used

PROPS = {
    'C18': dict(
        text='TLA+ transcriptions of the sequential duplicate-last root, the padded chunked parallel root (worker count as a '
             'parameter), the constant-space root/branch/mutated computation, branch verification and the per-chain '
             'multi-layer root, over a free hash constructor H(l,r)=<<l,r>>. TLC checks for every leaf count up to the bound '
             'and every worker count at which the chunk size changes: parallel = sequential = constant-space root (also with the '
             'chunk-size cap and the sequential threshold scaled down so that the capped regime lies inside the bounds, and for '
             'leaf counts around every regime boundary 256w..4096w of the real constants); every '
             '(small n) or edge (large n) position\'s branch verifies; for every pair of lists of a bounded domain equal '
             'roots imply identical lists or a duplicated-tail expansion whose longer member is flagged; for every tagged '
             'transaction list up to the bound the child chains tile the list and every two-level proof verifies. TLC exports '
             'the expected tree shapes; the Go replayer evaluates them with real double SHA-256 and compares '
             'GetMerkleRoot (every worker count via hook H1; the chunk size really used is observed via hook H1b and must be a power '
             'of two, the specification\'s assumption), Computation, GetMerkleBranch, GetMerkleRootFromBranch, '
             'CalcMerkleRoot, CalcMerkleRootCache and CalcMultiLayerMerkleInfo; seeded recordings of the real functions '
             '(duplicated tails, near misses, lists above the chunking threshold) are validated by the trace specification.',
        note='Hash collision freedom of double SHA-256 is assumed (free constructor). Leaf counts are bounded (quick 160, '
             'thorough 1100 in TLC; the Go sweep compares the three implementations up to 4200 leaves, which for counts '
             'above the TLC bound is an implementation-vs-implementation comparison only). Pairwise binding is exhaustive only '
             'over small alphabets/lengths. blockchain.getMultiLayerProofs itself (it reads child-chain records from the '
             'block store) is not driven: the two-level proof is composed from CalcMultiLayerMerkleInfo\'s output with the same '
             'calls. Empty lists / nil hashes and the aliasing of the caller\'s slice by getMerkleRoot are not compared.',
    ),
}


def cfg_mc(maxn, stride, maxw, branch_all, export_all=0, export_ns=()):
    return ('SPECIFICATION Spec\nCONSTANTS\n  MaxN = %d\n  Stride = %d\n  MaxW = %d\n  BranchAll = %d\n  ExportAll = %d\n  ExportNs = {%s}\n'
            'INVARIANTS ParEqSeq ScaledParEqSeq CapMustBePow2 CompEqSeq BranchOK DupFlag Export\nCHECK_DEADLOCK FALSE\n'
            % (maxn, stride, maxw, branch_all, export_all, ', '.join(str(x) for x in sorted(export_ns))))


def cfg_bind(base, alpha, maxlen, export):
    return ('SPECIFICATION Spec\nCONSTANTS\n  Base = %d\n  Alpha = %d\n  MaxLen = %d\n  ExportOn = %s\n'
            'INVARIANTS Binding Collides RootsAgree Export\nCHECK_DEADLOCK FALSE\n'
            % (base, alpha, maxlen, 'TRUE' if export else 'FALSE'))


def cfg_multi(maxlen, export, big=False):
    return ('SPECIFICATION %s\nCONSTANTS\n  ChainOf <- MCChainOf\n  Sizes <- MCSizes\n  MaxLen = %d\n  ExportOn = %s\n'
            'INVARIANTS Tiles RunsWhenSorted ProofsVerify RootOfChildren Export\nCHECK_DEADLOCK FALSE\n'
            % ('SpecBig' if big else 'Spec', maxlen, 'TRUE' if export else 'FALSE'))


def behaviours(res, prefix):
    """The '@@B <json>' lines of a TLC run (one exported behaviour per checked state)."""
    bs = []
    for line in res['out'].splitlines():
        i = line.find('@@B')
        if i < 0:
            continue
        j = line.find('"', line.find('"', i) + 1)
        k = line.rfind('"')
        if j < 0 or k <= j:
            continue
        try:
            steps = json.loads(json.loads(line[j:k + 1]))
        except Exception as ex:
            raise vlib.Broken('cannot parse @@B line: %s (%s)' % (line[:200], ex))
        if steps:
            bs.append(dict(fam=FAMILY, cfg=res['cfg'], id='%s%05d' % (prefix, len(bs)), steps=steps))
    return bs


def run(ctx):
    q = ctx.tier == 'quick'
    rnd = random.Random(ctx.seed)
    ctx.rule = ('behaviours = TLC exports: per leaf count n the expected tree shape of the root (checked under every worker count that '
                'changes the chunk size) and of every / every edge position\'s branch; per list of the binding domain its colliding '
                'and near-miss partners; per tagged transaction list its child chains and two-level proofs; plus Go sweeps over '
                'every n of the TLC-checked range. Non-trivial = n > 80 under a chunking worker count, or a branch whose path '
                'meets an odd-sized level as its last node, or a colliding pair of different lists, or >= 2 child chains; '
                'distinct by abstract step sequence')
    ctx.assumptions += ['double SHA-256 is collision free (hash modelled as a free constructor)',
                        'TLC bounds: leaf counts <= %d; pairwise binding over %s' % (
                            160 if q else 1100,
                            'all lists of <= 6 leaves over 3 ids' if q else
                            'all lists of <= 7 leaves over 3 ids, <= 5 over 4 ids, and tails of <= 5 over the last ids of 5/6/11/12 distinct leaves'),
                        'tagged transaction lists: all lists of <= %d transactions over 5 ids in 3 chains, and 7 sorted lists with child chains of up to 200' % (5 if q else 6),
                        'worker count reaches the code through hook H1 (build tag verif)']
    st = ctx.stage()
    maxn, stride, maxw, ball = (160, 8, 48, 40) if q else (1100, 16, 280, 64)
    W = 4 if q else 8
    TO = 2400 if q else 9000

    # 1. root / branch algebra for every n <= maxn, every chunk size; exports the tree shapes of every n <= 40/64
    #    (all positions) and of a seeded sample of larger n (edge positions)
    small = set(range(1, 41 if q else 65))
    bigs = set(rnd.sample(range(81, maxn + 1), 10 if q else 40)) | {81, 96, 127, 128, 129, maxn}
    bigs |= {n for n in (255, 256, 257, 511, 512, 513, 1023, 1024, 1025) if n <= maxn}
    ctx.write_cfg(st, 'mc.cfg', cfg_mc(maxn, stride, maxw, ball, export_all=64, export_ns=small | bigs))
    shapes = behaviours(ctx.tlc_mc('Merkle_MC', 'mc.cfg', workers=W, timeout=TO, stage=st, coverage=not q), 'n')
    if len(shapes) != len(small | bigs):
        raise vlib.Broken('shape export incomplete: %d of %d' % (len(shapes), len(small | bigs)))
    for x in shapes:
        x['id'] = 'n%d' % x['steps'][0]['n']

    # 2. binding: every pair of lists of each domain; exports collisions, expansions and near misses
    pairs = []
    doms = [(0, 3, 6, True)] if q else [(0, 3, 7, False), (0, 3, 6, True), (0, 4, 5, False), (5, 3, 4, True), (6, 3, 3, True),
                                        (11, 3, 5, False), (11, 2, 5, True), (12, 2, 5, True)]
    for (base, alpha, ml, exp) in doms:
        ctx.write_cfg(st, 'bind.cfg', cfg_bind(base, alpha, ml, exp))
        ps = behaviours(ctx.tlc_mc('Merkle_Bind', 'bind.cfg', workers=W, timeout=TO, stage=st), 'p%d-%d-' % (base, alpha))
        pairs += [x for x in ps if x['steps']]

    # 3. multi-layer: all tagged lists up to the bound; sorted lists with large child chains
    ctx.write_cfg(st, 'multi.cfg', cfg_multi(5 if q else 6, True))
    ml = behaviours(ctx.tlc_mc('Merkle_MultiMC', 'multi.cfg', workers=W, timeout=TO, stage=st), 'm')
    ctx.write_cfg(st, 'multibig.cfg', cfg_multi(0, True, big=True))
    mb = behaviours(ctx.tlc_mc('Merkle_MultiMC', 'multibig.cfg', workers=2, timeout=TO, stage=st), 'mbig')
    if not shapes or not pairs or not ml or not mb:
        raise vlib.Broken('an export is empty')

    # 3b. the chunk-size regime boundaries of the code's real constants: leaf counts around 256w .. 4096w
    rws = (2, 3, 4, 16) if q else (2, 3, 4, 5, 8, 16)
    nw = sorted({(n, w) for w in rws for n in (256 * w - 1, 256 * w, 256 * w + 1, 512 * w, 512 * w + 1, 1024 * w - 1, 1024 * w,
                                                1024 * w + 37, 2048 * w + 1, 4096 * w + 3)})
    ctx.write_cfg(st, 'Merkle_RegimeMC.tla', '---- MODULE Merkle_RegimeMC ----\nEXTENDS Merkle_Regime\nMCPairs == {%s}\n====\n'
                  % ', '.join('<<%d, %d>>' % x for x in nw))
    ctx.write_cfg(st, 'regime.cfg', 'SPECIFICATION Spec\nCONSTANTS\n  NW <- MCPairs\n  ExportMax = %d\n'
                  'INVARIANTS RegimeEq Chunked Export\nCHECK_DEADLOCK FALSE\n' % (2200 if q else 4200))
    rg = behaviours(ctx.tlc_mc('Merkle_RegimeMC', 'regime.cfg', workers=W, timeout=TO, stage=st), 'r')
    if len(rg) != len(nw):
        raise vlib.Broken('regime export incomplete: %d of %d' % (len(rg), len(nw)))
    for x in rg:
        x['id'] = 'regime-n%d-w%d' % (x['steps'][-1]['n'], x['steps'][-1]['w'])

    b = vlib.build(DRIVER)
    ctx.replay(b, rg, opts=dict(salt=3), par=8, timeout=3000)
    ctx.replay(b, shapes, opts=dict(salt=1), par=8, timeout=3000)
    if not q:
        ctx.replay(b, shapes, opts=dict(salt=2), par=8, timeout=3000, count=False)
    ctx.replay(b, pairs, opts=dict(w=4), par=8, timeout=3000)
    for w in ((4,) if q else (2, 4, 16, 64)):
        ctx.replay(b, ml + mb, opts=dict(w=w, salt=w), par=8, timeout=3000, count=(w == 4))

    # 4. Go sweep: the three implementations agree for every n of the TLC-checked range (thorough: and on a sample beyond it)
    sw = [dict(fam=FAMILY, cfg='sweep', id='sweep-%d-%d' % (a, min(a + 19, maxn)),
               steps=[dict(op='Sweep', **{'from': a, 'to': min(a + 19, maxn), 'maxw': maxw, 'ret': 'same'})])
          for a in range(1, maxn + 1, 20)]
    ctx.replay(b, sw, opts=dict(salt=ctx.seed), par=8, timeout=3000)
    if not q:
        beyond = sorted(set(rnd.sample(range(maxn + 1, 4201), 60)) | {2047, 2048, 2049, 4095, 4096, 4097, 4200})
        sw2 = [dict(fam=FAMILY, cfg='sweep-beyond', id='sweepx-%d' % n,
                    steps=[dict(op='Sweep', **{'from': n, 'to': n, 'maxw': 1100, 'ret': 'same'})]) for n in beyond]
        ctx.replay(b, sw2, opts=dict(salt=ctx.seed), par=8, timeout=3000, count=False)
        ctx.extra['sweep_beyond_tlc_bound'] = dict(ns=len(beyond), note='implementation-vs-implementation only')
    ctx.exhaustive = False
    ctx.extra['exported'] = dict(shapes=len(shapes), pair_behaviours=len(pairs), multi=len(ml), multi_big=len(mb), sweeps=len(sw), regime_pairs=len(rg))

    # 5. recordings of the real code validated by the trace specification
    ctx.validate_recording(b, 'Merkle_Trace', 'Merkle_Trace.cfg', opts=dict(n=12 if q else 60, big=3), selftest=True, timeout=TO)
    if not q:
        for sd in (1, 2):
            ctx.validate_recording(b, 'Merkle_Trace', 'Merkle_Trace.cfg', opts=dict(n=60, big=2, salt=sd), selftest=False, timeout=TO)


import vlib  # noqa: E402
