"""C29 — block connection is crash-consistent (blockchain/process.go connectBlock / disconnectBlock /
reorganizeChain, blockstore.go, chain.go start-up, util.ExecBlock, mavl Commit). Family Crash: mechanism
model with a durable / volatile split, bound to real nodes that are stopped at every durable write."""
import json
import os
import re

FAMILY = 'Crash'
DRIVER = 'crash'
HOOK_COMMITS = ['2c26213']  # H2: common/db reports every durable LevelDB write (and every open) before it happens

PROPS = {
    'C29': dict(
        text='Mechanism model with durable state (store roots; chain database: header/body by hash, total difficulty, '
             'height index, last height, transaction index) and volatile state (index, best chain, orphans), one action per '
             'durable write in the order the code performs them (maybe-store batch, state commit, connect batch, disconnect '
             'batch - the order and the batching were read off the real node with the write hook and are compared again in '
             'every replay), Crash enabled in every state, Recover as NewBlockStore/InitIndexAndBestView. TLC checks in every '
             'reachable state (= for a crash at any point) that the durable chain is one the node had reached or a prefix of '
             'the one it is building, that last height, height index, headers/bodies with receipts, parent links, total '
             'difficulties and transaction index describe that one chain, that the tip state root is committed, that start-up '
             'and deliveries never fail, and (invariant + temporal property under fairness) that continued delivery ends with '
             'the chain of the uninterrupted run; deliberately broken variants of the write order / batching are refuted. '
             'Binding: TLC exports one behaviour per durable-write index of the linear-growth, reorganisation (2 off, 3 on), '
             'orphan-order and fork-of-fork histories on a 12-block trunk; each is run on a real node (queue, executor, mavl '
             'store and BlockChain on LevelDB, solo consensus, mempool) in a child process that exits at that write, a second '
             'child restarts a node on the same directories and reads height, last header/block, height index, headers, bodies '
             'and receipts by hash and by height, total difficulties, the transaction index entry of every transaction of the '
             'history (present and correctly placed on the chain, absent off it) and every touched state key plus a scan of all '
             'coins accounts at the tip state hash (compared with the factory node that never crashed), continues the delivery '
             'and reads again; the write log, the restart observation and the final chain are compared with the model step by '
             'step. Seeded random experiments (random trees, delivery orders with orphans, crash indices, second crashes) are '
             'recorded and validated by the trace specification.',
        note='Crash = process stop between two durable writes (os.Exit before the next LevelDB write of the blockchain or store '
             'database): a write that returned is durable and a batch is atomic; power loss / torn writes are not modelled. The '
             'node is assembled on fixed data directories without wallet and rpc (the wallet database is written asynchronously '
             'and is not part of the property); mavl pruning is off (default). The block sequence log, invalid blocks and '
             'crashes during the restart itself are not covered. Quick: every write index of the linear and reorganisation '
             'histories; thorough adds more continuation orders, concretisations, histories and double crashes.',
    ),
}


def _cfg(ctx, d, base, name, append=None, **repl):
    t = open(os.path.join(d, base)).read()
    for k, v in repl.items():
        op = '<-' if k in ('Trees', 'Order', 'Conts') else '='
        t, n = re.subn(r'(?m)^\s*%s\s*(<-|=).*$' % re.escape(k), '  %s %s %s' % (k, op, v), t)
        if not n:
            raise vlib.Broken('cfg %s has no constant %s' % (base, k))
    if append:
        t += '\n' + append + '\n'
    ctx.write_cfg(d, name, t)
    return name


def run(ctx):
    q = ctx.tier == 'quick'
    ctx.assumptions += ['process stop, not power loss: a durable write that returned is durable, a LevelDB batch is atomic',
                        'hash functions and LevelDB trusted', 'all blocks valid, work 1, above the finalisation margin (12-block trunk)',
                        'no crash during the restart itself', 'TLC bounds as stated in the manifest note']
    ctx.rule = ('behaviours = TLC exhaustive export: for each history (tree + delivery order) one behaviour per durable-write index '
                'k (crash after k writes), each followed by a restart and the re-delivery of all blocks; each is run on real nodes in '
                'child processes; non-trivial = the crash index lies strictly inside a connect / disconnect sequence (the delivery '
                'in progress had performed a durable write and had more to perform); distinct by abstract step sequence')
    b = vlib.build(DRIVER)
    d = ctx.stage()
    try:
        _model(ctx, d, q)
        _replay(ctx, b, d, q)
        _record(ctx, b, d, q)
        if not q:
            _selftest(ctx, b)
    finally:
        vlib.sh([b, 'sweep'], timeout=120)


def _model(ctx, d, q):
    # every tree (4 / 5 free blocks) + the 2-off/3-on reorganisation, every delivery order, a crash anywhere, every order afterwards
    ctx.tlc_mc('Crash_MC', 'Crash_MC.cfg' if q else _cfg(ctx, d, 'Crash_MC.cfg', 'Crash_MCt.cfg', Trees='TreesT'),
               workers=4, timeout=10800, stage=d)
    if not q:
        # anti-vacuity: every action of the mechanism is taken (only the FINAL coverage report counts: TLC also
        # prints interim reports, in which actions of deeper levels still stand at 0)
        r = ctx.tlc_mc('Crash_MC', _cfg(ctx, d, 'Crash_MC.cfg', 'Crash_MCcov.cfg', Trees='Trees3'), workers=2, timeout=7200,
                       stage=d, coverage=True, count=False)
        last = r['out'].split('The coverage statistics at')[-1]
        zeros = [l for l in last.splitlines() if re.search(r'^<\w+ line .*>: 0:0\s*$', l)]
        if zeros:
            raise vlib.Broken('vacuous: actions never taken: %s' % zeros[:3])
    # two crashes
    ctx.tlc_mc('Crash_MC', _cfg(ctx, d, 'Crash_MC.cfg', 'Crash_MC2.cfg', Trees='Trees3' if q else 'TreesQ', MaxCrash='2'),
               workers=4, timeout=7200, stage=d)
    # liveness: continued delivery terminates with every block delivered (Converged then names the chain)
    ctx.tlc_mc('Crash_MC', 'Crash_Live.cfg' if q else _cfg(ctx, d, 'Crash_Live.cfg', 'Crash_LiveT.cfg', Trees='OneReorg'),
               workers=2, timeout=7200, stage=d)
    # anti-vacuity: the broken variants are refuted, and each clause of Legal alone is refuted
    ref = {}
    for v in (('splitdisc',) if q else ('splitconn', 'connfirst', 'splitdisc')):
        r = ctx.tlc_mc('Crash_MC', _cfg(ctx, d, 'Crash_MC.cfg', 'Crash_Bad_%s.cfg' % v, Trees='OneReorg', Variant='"%s"' % v),
                       workers=2, timeout=3600, stage=d, expect_violation=True, count=False)
        ref[v] = r['violation']
        if r['violation'] != 'CrashSafe':
            raise vlib.Broken('self-test: variant %s of the write order is not refuted (CrashSafe holds)' % v)
    for inv in (('AVPrefix',) if q else ('AVReached', 'AVPrefix')):
        t = open(os.path.join(d, 'Crash_MC.cfg')).read()
        t = re.sub(r'(?m)^INVARIANTS.*$', 'INVARIANTS ' + inv, t).replace('TreesQ', 'OneReorg')
        ctx.write_cfg(d, 'Crash_%s.cfg' % inv, t)
        r = ctx.tlc_mc('Crash_MC', 'Crash_%s.cfg' % inv, workers=2, timeout=3600, stage=d, expect_violation=True, count=False)
        if r['violation'] != inv:
            raise vlib.Broken('vacuous: %s is never refuted (one clause of Legal is never needed)' % inv)
    ctx.extra['broken_variants_refuted'] = ref


def _replay(ctx, b, d, q):
    # (name, Trees, Order, Conts, concretisation, keep every k-th (None: all), crashes)
    hs = [('linear', 'OneLin', 'Seq123', 'ContLin', 1, None, 1),
          ('reorg', 'OneReorg', 'Seq12345', 'ContReorg', 1, None, 1),
          ('orphan', 'OneReorg', 'Seq45123', 'ContReorg', 1, 3, 1)]
    if not q:
        hs = [('linear', 'OneLin', 'Seq123', 'ContLinT', 1, None, 1),
              ('reorg', 'OneReorg', 'Seq12345', 'ContReorgT', 1, None, 1),
              ('reorg-b', 'OneReorg', 'Seq12345', 'ContReorg', 2 + ctx.seed % 5, None, 1),
              ('orphan', 'OneReorg', 'Seq45123', 'ContReorgT', 1, None, 1),
              ('deep', 'OneDeep', 'Seq8', 'ContDeep', 1, None, 1),
              ('fork', 'OneFork', 'Seq123', 'ContLin', 1, None, 1),
              ('linear2', 'OneLin', 'Seq123', 'ContLin', 1, 3, 2),
              ('reorg2', 'OneReorg', 'Seq12345', 'ContReorg', 1, 11, 2)]
    allb = []
    per = {}
    for name, trees, order, conts, conc, keep, crashes in hs:
        cfg = _cfg(ctx, d, 'Crash_All.cfg', 'Crash_All_%s.cfg' % name, Trees=trees, Order=order, Conts=conts, MaxCrash=str(crashes))
        bs = ctx.tlc_genall('Crash_All', cfg, stage=d, timeout=3600, count=True)
        per[name] = len(bs)
        for i, x in enumerate(bs):
            x['id'] = '%s-%s' % (name, x['id'])
            x['meta'] = dict(conc=conc, history=name)
        if keep:
            bs = [x for i, x in enumerate(bs) if (i + ctx.seed) % keep == 0 or i == len(bs) - 1]
        allb += bs
    ctx.extra['crash_behaviours_per_history'] = per
    ctx.extra['crash_experiments_replayed'] = len(allb)
    # every durable-write index of the linear-growth and reorganisation histories is run (the quantifier of C29);
    # the additional histories may be subsampled (keep every k-th index), see crash_experiments_replayed
    ctx.exhaustive = all(k is None for n, _, _, _, _, k, _ in hs if n in ('linear', 'reorg'))
    ctx.extra['subsampled_histories'] = sorted(n for n, _, _, _, _, k, _ in hs if k)
    s = ctx.replay(b, allb, par=6, timeout=6 * 3600)
    return s


def _record(ctx, b, d, q):
    opts = dict(n=8 if q else 40, two=0 if q else 2, par=6)
    r, s = ctx.validate_recording(b, 'Crash_Trace', 'Crash_Trace.cfg', opts=opts, selftest=False, timeout=7200, stage=d)
    if not r['accepted']:
        return
    tp = max((os.path.join(ctx.scratch, f) for f in os.listdir(ctx.scratch) if f.startswith('trace-') and f.endswith('.ndjson')),
             key=os.path.getmtime)

    # anti-vacuity of the binding: a restart that shows another chain, and a write from another code path, must be rejected
    def m_chain(ev):
        if ev.get('ev') == 'Recover' and ev.get('chain'):
            ev['chain'] = ev['chain'][:-1]
            return True
        return False

    def m_write(ev):
        if ev.get('ev') == 'Write' and ev.get('o') == 'commit':
            ev['o'] = 'conn'
            ev['db'] = 'chain'
            return True
        return False

    def m_problem(ev):
        if ev.get('ev') == 'Recover':
            ev['problems'] = ['tx-stale']
            return True
        return False
    for m in ((m_chain,) if q else (m_chain, m_write, m_problem)):
        ctx.trace_selftest('Crash_Trace', 'Crash_Trace.cfg', tp, mutate=m)


def _selftest(ctx, b):
    """The evaluation of a restarted node names damage done to the databases on purpose."""
    rc, out = vlib.sh([b, 'selftest', '--seed', str(ctx.seed)], timeout=3600)
    m = re.search(r'@@SELFTEST (.*)', out)
    if rc != 0 or not m:
        raise vlib.Broken('observation self-test failed to run:\n' + out[-2000:])
    res = json.loads(m.group(1))
    want = dict(none=[], lastheight=['tx-stale'], td=['td-missing'], tx=['tx-missing'], root=['state-unreadable'], h2h=['restart-panic'])
    for k, v in want.items():
        got = res.get(k)
        if got is None or (not v and got) or any(x not in got for x in v):
            raise vlib.Broken('observation self-test: damage %s reported as %s, expected %s' % (k, got, v))
    ctx.extra['observation_selftest'] = res


import vlib  # noqa: E402
