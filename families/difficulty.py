"""C20 — difficulty compact encoding and work order (common/difficulty). Family Difficulty, reference model on byte sequences."""
import json
import os
import random

FAMILY = 'Difficulty'
DRIVER = 'difficulty'
HOOK_COMMITS = []

PROPS = {
    'C20': dict(
        text='TLA+ model of the compact encoding on byte-sequence big numbers: Decode, Encode, Canon = Encode o Decode, an '
             'independent definition of "canonical", Trunc (the leading three bytes, two when the leading byte is >= 0x80) and '
             'the order of magnitudes. TLC checks over a stratified domain (every exponent 0..255 x both signs x boundary and '
             'seeded mantissas; non-negative integers of every byte length with boundary leading bytes): Canon(c) is canonical, '
             'keeps the value, is unique, idempotent and fixes canonical words; Decode(Encode(n)) = Trunc(n); the order of '
             'canonical positive compacts is the order of their values. TLC exports every row; the Go replayer compares '
             'CompactToBig, BigToCompact(CompactToBig(c)), CompactToBig(BigToCompact(n)) with the model and requires CalcWork to be '
             'non-increasing along the model-ordered positive targets; seeded random recordings of the real functions (arbitrary '
             '32-bit words and integers) are validated by the trace specification.',
        note='The exhaustive sweep over all 2^32 compact values named in the quantifier is out of reach of TLC (32-bit integers, '
             '256-bit and larger codomain): the specification works on byte sequences over a stratified domain covering every '
             'exponent, both signs and the mantissa boundaries plus seeded mantissas (about 1e4 words quick, 5e5 thorough); '
             'arbitrary words are otherwise only swept outside TLC (thorough: all 2^24 sign/mantissa combinations of ten exponents and a '
             '1/127 stride of the others, or all 2^32 words with VERIF_C20_FULL=1 -- executed twice on the pinned tree with no '
             'candidate -- against a Go transcription of the model calibrated on every TLC row; a candidate is re-decided by a TLC '
             'export) and sampled by recordings. Work monotonicity is compared for positive targets only: '
             'CalcWork answers 0 for zero/negative targets by design (invalid blocks), which the clause read literally would forbid. '
             'Only the order of the work is compared, not its value. Negative integers that are not exactly representable and '
             'integers beyond the format\'s range (>= 2^2039) are not compared.',
    ),
}

BOUNDARY = [0, 1, 0x7f, 0x80, 0xff, 0x100, 0x7fff, 0x8000, 0xffff, 0x10000, 0x7fffff, 0x7ffffe, 0x400000, 0xff00, 0x7f0000,
            0x7f00, 0x800000 - 0x10000, 0x8001, 0x80ff, 0x10001, 0x3fffff]


def tla_set(xs):
    return '{' + ', '.join(str(x) for x in sorted(set(xs))) + '}'


def cfg(mants, mantsu, enclens, b1, b2, b3, b4, fill, stride, export=True):
    return ('SPECIFICATION Spec\nCONSTANTS\n  Mants = %s\n  MantsU = %s\n  EncLens = %s\n  B1 = %s\n  B2 = %s\n  B3 = %s\n  B4 = %s\n  Fill = %s\n'
            '  Stride = %d\n  ExportOn = %s\n'
            'INVARIANTS CanonIsCanonical CanonKeepsValue CanonIdem CanonFix CanonUnique ZeroIsZero EncTrunc TruncBelow OrderAgrees OrderTotal Export\n'
            'CHECK_DEADLOCK FALSE\n' % (tla_set(mants), tla_set(mantsu), tla_set(enclens), tla_set(b1), tla_set(b2), tla_set(b3),
                                        tla_set(b4), tla_set(fill), stride, 'TRUE' if export else 'FALSE'))


def behaviours(res):
    bs = []
    for line in res['out'].splitlines():
        i = line.find('@@B')
        if i < 0:
            continue
        j = line.find('"', line.find('"', i) + 1)
        k = line.rfind('"')
        if j < 0 or k <= j:
            continue
        try:
            steps = json.loads(json.loads(line[j:k + 1]))
        except Exception as ex:
            raise vlib.Broken('cannot parse @@B line: %s (%s)' % (line[:200], ex))
        if steps:
            bs.append(dict(fam=FAMILY, cfg=res['cfg'], id='e%d' % steps[0]['c'][0], steps=steps))
    return bs


def sweep_all(ctx, b, bs, ints):
    """Supplementary: all 2^24 sign/mantissa combinations of ten exponents (0..5, 255, three seeded) and every 127th
    mantissa of every other exponent (VERIF_C20_FULL=1: all 2^32 words, about 70 CPU-minutes) against a Go transcription
    of the model that must first reproduce every TLC row (candidate finder only: a candidate becomes a verdict only
    through a TLC-exported row, see sweep.go)."""
    p = ctx.write_behaviours(bs, 'calib.ndjson')
    outp = os.path.join(ctx.scratch, 'sweep.json')
    full = os.environ.get('VERIF_C20_FULL') == '1'
    rnd = random.Random(ctx.seed + 17)
    exps = sorted({0, 1, 2, 3, 4, 5, 255} | set(rnd.sample(range(6, 255), 3)))
    opt = 'shards=8,mstride=1' if full else 'shards=8,mstride=127,exps=' + '+'.join(str(e) for e in exps)
    rc, out = vlib.sh([b, 'sweep', '--seed', str(ctx.seed), '--opt', opt, p, outp], timeout=14400, env=dict(GOGC='800'))
    if rc != 0 or not os.path.exists(outp):
        raise vlib.Broken('sweep failed rc=%d:\n%s' % (rc, out[-3000:]))
    sw = json.load(open(outp))
    if full and sw['words'] != 2 ** 32:
        raise vlib.Broken('sweep incomplete: %d words' % sw['words'])
    cands = (sw.get('candidates') or []) + (sw.get('work_candidates') or [])
    vlib.log('[sweep] %d words, %d calibration rows, work chain of %d canonical targets, %d candidates'
             % (sw['words'], sw['calibration_rows'], sw['work_chain'], len(cands)))
    ctx.extra['sweep_all_words'] = dict(words=sw['words'], calibration_rows=sw['calibration_rows'], work_chain=sw['work_chain'],
                                        candidates=len(cands), full_2_32=full, fully_swept_exponents=('all' if full else exps),
                                        note='candidate finder outside TLC: Go transcription of Decode/Canon calibrated on every TLC row; '
                                             'candidates are re-decided by a TLC export')
    if cands:
        ms = sorted({c[2] for c in cands})[:40]
        st = ctx.stage()
        ctx.write_cfg(st, 'cand.cfg', cfg(ms, ms, [], [1], [0], [0], [0], [0], 16))
        bs2 = behaviours(ctx.tlc_mc('Difficulty_MC', 'cand.cfg', workers=4, timeout=9000, stage=st))
        for x in bs2:
            x['id'] = 'cand-' + x['id']
        ctx.replay(b, bs2, par=8, timeout=3000, opts=dict(cand=1))


def run(ctx):
    q = ctx.tier == 'quick'
    rnd = random.Random(ctx.seed)
    ctx.rule = ('behaviours = one per exponent / byte length e in 0..255, exported by TLC: a round-trip row for every (sign, mantissa) of the '
                'stratified set, an encode row for every generated integer of byte length e, and the positive targets of exponents e, e+1 in '
                'the model\'s increasing order; non-trivial = a behaviour containing a boundary row (exponent <= 3, zero or sign-bit-adjacent '
                'mantissa, set sign bit, integer of <= 3 bytes or with leading byte >= 0x80) or an order chain; recordings count their '
                'distinct boundary words')
    nextra = 4 if q else 960
    extras = [rnd.randrange(1, 1 << 23) for _ in range(nextra)] + [rnd.randrange(1, 1 << 15) for _ in range(2 if q else 20)]
    mants = BOUNDARY + extras
    mantsu = BOUNDARY + extras[:2 if q else 12]
    if q:
        enclens = list(range(0, 41)) + [64, 128, 200, 254, 255]
        b1, b2, b3, b4, fill = [1, 0x7f, 0x80, 0xff], [0, 0x80, 0xff], [0, 0x7f, 0xff], [0, 1, 0xff], [0, 0xff]
    else:
        enclens = list(range(0, 256))
        b1 = [1, 0x7f, 0x80, 0xff, rnd.randrange(2, 0x7f), rnd.randrange(0x81, 0xff)]
        b2 = [0, 0x80, 0xff, rnd.randrange(1, 0xff)]
        b3 = [0, 0x7f, 0xff, rnd.randrange(1, 0xff)]
        b4 = [0, 1, 0x80, 0xff]
        fill = [0, 0xff, rnd.randrange(1, 0xff)]
    ctx.assumptions += ['math/big arithmetic is trusted', 'stratified domain: %d mantissas x 2 signs x 256 exponents; integers of %d byte lengths x %d leading-byte patterns'
                        % (len(set(mants)), len(enclens), len(b1) * len(b2) * len(b3) * len(b4) * len(fill)),
                        'the full 2^32 sweep is not performed by TLC; arbitrary words are sampled by the recorder']
    st = ctx.stage()
    ctx.write_cfg(st, 'mc.cfg', cfg(mants, mantsu, enclens, b1, b2, b3, b4, fill, 8 if q else 16))
    res = ctx.tlc_mc('Difficulty_MC', 'mc.cfg', workers=4 if q else 8, timeout=2400 if q else 9000, stage=st, coverage=not q)
    bs = behaviours(res)
    if len(bs) != 256:
        raise vlib.Broken('export incomplete: %d of 256 exponents' % len(bs))
    rows = sum(len(x['steps']) for x in bs)
    ctx.extra['rows'] = dict(total=rows, roundtrip=sum(1 for x in bs for s in x['steps'] if s['op'] == 'RT'),
                             encode=sum(1 for x in bs for s in x['steps'] if s['op'] == 'Enc'),
                             order_chains=sum(1 for x in bs for s in x['steps'] if s['op'] == 'Order'))
    ctx.exhaustive = False
    b = vlib.build(DRIVER)
    ctx.replay(b, bs, par=8, timeout=3000)
    if not q:
        sweep_all(ctx, b, bs, (enclens, b1, b2, b3, b4, fill))
    ctx.validate_recording(b, 'Difficulty_Trace', 'Difficulty_Trace.cfg', opts=dict(n=900 if q else 6000), selftest=True,
                           timeout=2400 if q else 9000)
    if not q:
        for sd in (1, 2):
            ctx.validate_recording(b, 'Difficulty_Trace', 'Difficulty_Trace.cfg', opts=dict(n=6000, salt=sd), selftest=False, timeout=9000)


import vlib  # noqa: E402
