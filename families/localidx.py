"""C14 — a block's local-index updates followed by its local-index removal restore every local query result
(executor/executor.go procExecAddBlock / procExecDelBlock, executor/plugin_*.go, system/dapp/coins/executor/exec_local.go
and exec_del_local.go, blockchain/blockstore.go AddTxs / DelTxs). Family LocalIdx, reference model."""
import os
import random
import re

FAMILY = 'LocalIdx'
DRIVER = 'localidx'
HOOK_COMMITS = []  # everything is reachable through exported API

PROPS = {
    'C14': dict(
        text='Reference model: the local index is a function of the chain; the model also maintains it incrementally (apply per '
             'block in transaction order, undo in reverse order with the inverse operation of the tx-index, address-index, '
             'address-fee-index, fee-total and coins-receiver updates) and TLC checks that both always agree, i.e. that undo is '
             'the exact inverse of apply for every generated block (self-transfers, one address several times as sender and '
             'receiver, failed coins / manage transactions, none transactions, a group). Generated histories of blocks added, '
             'replaced one or two blocks deep and removed are replayed on real nodes with every local-index plugin enabled (txindex, '
             'quick index, addrindex, addrfeeindex, fee, stat): blocks are manufactured by a factory node, removed by a REAL '
             'reorganisation onto a heavier sibling block and, on a node configured as a para chain, by '
             'ProcessBlock(addBlock=false) with no replacing block. After every block event the query results (tx by hash / '
             'HasTx for every transaction ever made, address tx lists in both directions and undirected in both orders, address '
             'counters and received amounts through GetAddrOverview, address fee lists, fee totals by block hash at every height '
             'and for removed blocks) are compared with the model, and - the property itself - with those of a fresh node that '
             'only ever received the blocks of the resulting chain. Recorded random blocks of up to 8 transactions over 4 '
             'addresses are validated by the trace specification.',
        note='Reference model; forward semantics follow the plugins where the property is indifferent (a self-transfer counts twice '
             'in the address counter, once in the undirected list). Query results are compared, not raw database bytes. The kvmvcc '
             'plugin cannot be enabled on a fresh node (block 1 fails with ErrExecPanic: "init state db height 1 err ErrNotFound" - '
             'the version of the genesis state hash is not found), so multi-version state is covered by C09 only; the check probes '
             'this on every run and includes the plugin when it starts. Defect found and repaired in /repo: Coins.ExecLocal counted '
             'failed transfers into the receiver\'s received amount, which the removal never subtracts.',
    ),
}


def _cfg(ctx, d, base, name, append=None, **repl):
    t = open(os.path.join(d, base)).read()
    for k, v in repl.items():
        t, n = re.subn(r'(?m)^\s*%s\s*(<-|=).*$' % re.escape(k), '  %s %s %s' % (k, '<-' if k in ('Pool', 'Groups') else '=', v), t)
        if not n:
            raise vlib.Broken('cfg %s has no constant %s' % (base, k))
    if append:
        t += '\n' + append + '\n'
    ctx.write_cfg(d, name, t)
    return name


def run(ctx):
    q = ctx.tier == 'quick'
    rnd = random.Random(ctx.seed)
    ctx.rule = ('behaviours = TLC-simulated histories (blocks of <= 5 transactions over 3 addresses built transaction by transaction, '
                'then added / put in place of the last 1-2 blocks / removed) plus a sample of the exhaustive export of all histories of '
                '2 block events over 2 addresses, each replayed on a fresh real node with a fresh reference node after every removal; '
                'non-trivial = a removed block in which some address occurs at least twice (as sender and / or receiver); distinct by '
                'abstract step sequence')
    ctx.assumptions += ['hash functions and LevelDB trusted', 'coins / none / manage executors only (the built-in ones)',
                        'reorganisations one or two blocks deep onto a single heavier block', 'kvmvcc plugin excluded unless it starts (probed)',
                        'TLC bounds as stated in the manifest note']
    b = vlib.build(DRIVER)
    d = ctx.stage()
    try:
        # can the kvmvcc plugin run on a fresh node at all?
        rc, out = vlib.sh([b, 'probe', '--seed', str(ctx.seed), 'mvcc'], timeout=1800)
        mvcc = out.strip().splitlines()[-1:] == ['ok']
        ctx.extra['kvmvcc_plugin_starts_on_fresh_node'] = mvcc
        if not mvcc:
            ctx.notes.append('kvmvcc plugin not exercised: a fresh node with exec.enableMVCC=true rejects block 1 (%s)'
                             % ' / '.join(l for l in out.strip().splitlines()[-2:])[:300])
        rc, out = vlib.sh([b, 'probe', '--seed', str(ctx.seed), 'para'], timeout=1800)
        para = out.strip().splitlines()[-1:] == ['ok']
        ctx.extra['para_style_removal_reachable'] = para
        # --- model checking
        ctx.tlc_mc('LocalIdx_MC', 'LocalIdx_MCq.cfg' if q else 'LocalIdx_MC.cfg', workers=4, timeout=14400, stage=d)
        if not q:
            ctx.tlc_mc('LocalIdx_MC', 'LocalIdx_MCq.cfg', workers=4, timeout=7200, stage=d)
            r = ctx.tlc_mc('LocalIdx_MC', 'LocalIdx_MCq.cfg', workers=2, timeout=7200, stage=d, coverage=True, count=False)
            if r.get('zero_actions'):
                raise vlib.Broken('vacuous: actions never taken: %s' % r['zero_actions'][:3])
            r = ctx.tlc_mc('LocalIdx_MC', _cfg(ctx, d, 'LocalIdx_MCq.cfg', 'LocalIdx_vac.cfg', append='INVARIANTS NeverRepeatRemoved'),
                           workers=2, timeout=3600, stage=d, expect_violation=True, count=False)
            if r['violation'] != 'NeverRepeatRemoved':
                raise vlib.Broken('vacuous: no removal of a block with a repeated address is reached')
        opts = dict(mvcc=1) if mvcc else {}
        # --- exhaustive histories of the small configuration (sampled)
        allb = ctx.tlc_genall('LocalIdx_All', 'LocalIdx_All.cfg' if para else _cfg(ctx, d, 'LocalIdx_All.cfg', 'LocalIdx_AllNP.cfg', Para='FALSE'),
                              stage=d, timeout=3600)
        ctx.extra['exhaustive_histories_2addr_2events'] = len(allb)
        removing = [x for x in allb if any(s.get('op') in ('Swap', 'Del') for s in x['steps'])]
        rnd.shuffle(removing)
        keep = removing[:30 if q else 700]
        ctx.extra['replayed_exhaustive_histories'] = len(keep)
        ctx.replay(b, keep, opts=dict(opts, ref='swap'), par=6, timeout=14400)
        # --- simulated histories: 3 addresses, blocks of <= 5, reorganisations 1-2 deep
        sims = ctx.tlc_sim('LocalIdx_MC', 'LocalIdx_Gen.cfg', num=45 if q else 600, depth=26, stage=d, timeout=3600)
        ctx.replay(b, sims, opts=dict(opts, ref='swap'), par=6, timeout=14400)
        if para:
            simp = ctx.tlc_sim('LocalIdx_MC', 'LocalIdx_GenP.cfg', num=20 if q else 300, depth=22, stage=d, timeout=3600, seed=ctx.seed + 5)
            ctx.replay(b, simp, opts=dict(opts, ref='swap', salt=1), par=6, timeout=14400)
        if not q:
            # the fresh-node comparison after every block event (also after plain additions)
            ctx.replay(b, sims[:120], opts=dict(opts, ref='each', salt=2), par=6, timeout=14400, count=False)
        # --- binding B
        ctx.validate_recording(b, 'LocalIdx_Trace', 'LocalIdx_Trace.cfg', opts=dict(n=3 if q else 30, len=5 if q else 8, maxtx=8,
                                                                                   para=1 if para else 0),
                               selftest=False, timeout=3600, stage=d)
        tp = max((os.path.join(ctx.scratch, f) for f in os.listdir(ctx.scratch) if f.startswith('trace-') and f.endswith('.ndjson')),
                 key=os.path.getmtime)

        def mutate(ev):
            # anti-vacuity: one recorded counter off by one must be rejected
            if ev.get('ev') in ('Swap', 'Del') and ev.get('rows'):
                ev['rows'][0]['cnt'] = ev['rows'][0]['cnt'] + 1
                return True
            return False
        ctx.trace_selftest('LocalIdx_Trace', 'LocalIdx_Trace.cfg', tp, mutate=mutate)
    finally:
        vlib.sh([b, 'sweep'], timeout=60)


import vlib  # noqa: E402
