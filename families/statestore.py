"""C01, C02, C04 — chain33 MAVL authenticated state store (system/store/mavl). Family StateStore,
reference model: a persistent versioned map whose versions are named by the term
<<parent root, ordered writes>>; committed / pending roots; ReadStable."""
import json
import os

FAMILY = 'StateStore'
DRIVER = 'statestore'
HOOK_COMMITS = ['d67c5e4']   # gate in mavl Tree.Save (between filling the write batch and writing it), C04 concurrent leg

_COMMON_NOTE = ('Roots are abstract terms <<parent, writes>> bound to the hashes the code returns; SHA-256 and LevelDB '
                'are trusted. TLC bounds of the exhaustive runs: 2 keys x 2 values, write lists <= 2, <= 2 roots, '
                '4-5 operations; generated behaviours: up to 24 keys, 12 roots, 16 operations; recorded traces: up to 512 keys, '
                'batches up to 300 writes. Histories in which a PENDING root has the same content as another known root are '
                'excluded (the code names pending updates by hash, two different terms may hash alike there). '
                'Not compared: reads at roots that are not committed, Tree.Get index, Remove/Del, error codes beyond ok/notfound, '
                'values under enableMVCC (not kept in the tree), pruning runs (family Prune, C05).')

PROPS = {
    'C01': dict(
        text='TLC exhaustively checks the StateStore reference model (ReadSound: a read returns the most recent write along '
             'the chain of batches of the root; ReadStable: committed roots keep their content across later batches, '
             'pending updates, rollbacks and reopen; IterSound: a range walk visits exactly the in-range keys once, ordered) on '
             'small constants. TLC-generated histories (exhaustive small export with the complete iteration table; '
             'simulated histories over 24 keys with ascending/descending/zig-zag write runs that force every AVL rotation) are '
             'replayed into the real mavl store on LevelDB (store API and mavl.Tree API, prefix on/off, in-memory node cache '
             'in a child process, Reopen = close/reopen resp. process restart) with order-preserving hostile key '
             'concretisation; after every step every key is read at EVERY committed root. Seeded random recordings of '
             'the real store (up to 512 keys, batches up to 300) are validated by the trace specification.',
        note=_COMMON_NOTE,
    ),
    'C02': dict(
        text='The state root is the term <<parent, writes>> in the specification; the harness binds every concrete term '
             '(parent hash, concrete write list) to the root hash returned by the real store and requires the binding to be '
             'a function over the whole run: every generated history (with unrelated pending updates, commits, rollbacks, '
             'reopen and re-computation of earlier updates at other heights, directly and as pending update) is applied '
             'step by step to store instances under all 12 storage configurations (prefix, prune, memTree, memTree+values, '
             'MVCC and legal combinations), both in a long-lived process that has replayed other histories before and in '
             'fresh child processes; all instances must return byte-identical roots for Set, MemSet and Commit, equal '
             'to earlier bindings of the same term; two terms may share a hash only if the specification says their '
             'contents are equal. Recorded random runs are validated with the hash binding as trace-spec variable.',
        note=_COMMON_NOTE + ' Schedules of the Go runtime and cache histories are sampled, configurations are exhaustive.',
    ),
    'C04': dict(
        text='TLC exhaustively checks on the StateStore model that MemSet, Rollback, Reopen and refused commits change no '
             'committed root (PendingNoLeak, ReadStable), that Commit publishes exactly the pending root with exactly its '
             'content (CommitExact) and that competing updates are independent (ForkIndependent). All interleavings of '
             'pending updates / commits / rollbacks / reopen within the small bounds (exhaustive export) and longer simulated '
             'histories are replayed into the real store (plain, prefix; memTree configurations in child processes where '
             'Reopen is a real process restart, graceful or by kill), reading every key at every committed root after every '
             'step and comparing Commit/Rollback replies. Concurrent leg: the store module is driven through the message '
             'bus by several client goroutines (own updates, shared committed roots; then committed updates are computed again at '
             'other heights and committed while the other clients read the committed root, free-running and with the commit held at '
             'a gate inside Tree.Save); start/end of each request are logged and TLC searches a linearisation of the recorded '
             'history in the trace specification; a crash of the store process ends the trace with an event no action matches.',
        note=_COMMON_NOTE + ' Concurrent leg: clients only commit / roll back their own pending updates and read roots whose '
             'commit has returned; goroutine schedules are sampled. Database writes never fail in any explored run: state '
             'corruption after an I/O error that the process survives (e.g. nodes published to the shared node cache after a '
             'failed batch write, seeded change C04-1) is outside what this check explores.',
    ),
}

LOCAL_PLAIN = ['plain', 'prefix', 'prune', 'mvcc', 'mvcc+prefix']
MEMCFGS = ['memtree', 'memtree+val', 'prefix+memtree', 'prefix+memtree+val', 'prune+memtree', 'prune+memtree+val',
           'mvcc+memtree+val']


def _stats(ctx, path):
    """Sum the per-process counter files the driver wrote (<path>.<pid>.json); *max* counters take the maximum."""
    import glob
    tot = {}
    for f in glob.glob(path + '.*.json'):
        try:
            d = json.load(open(f))
        except Exception:
            continue
        for k, v in d.items():
            tot[k] = max(tot.get(k, 0), v) if k.startswith('max_') else tot.get(k, 0) + v
    return tot


def _mc(ctx, q):
    cfgs = ['StateStore_MCq.cfg'] if q else ['StateStore_MC.cfg', 'StateStore_MC3.cfg']
    for cfg in cfgs:
        r = ctx.tlc_mc('StateStore_MC', cfg, workers=4, timeout=14400, coverage=not q, heap='6g')
        # Iter is not a step of the exhaustive runs (it changes no state; IterSound is checked as an invariant in every state)
        zeros = [z for z in (r.get('zero_actions') or []) if not z.startswith('<ReadIter ') and not z.startswith('<Iter ')]
        if not q and zeros:
            raise vlib.Broken('vacuous model-checking run: actions never taken: %s' % zeros[:5])


def _selftest_replay(ctx, binary, bs, opts):
    """Anti-vacuity of binding A: a behaviour with one predicted read flipped must be refused."""
    for b in bs:
        for i, s in enumerate(b['steps']):
            chk = s.get('chk')
            if chk and any(e.get('id') for e in chk):
                bad = json.loads(json.dumps(b))
                e = [e for e in bad['steps'][i]['chk'] if e.get('id')][-1]
                e['row'][0] = 1 if e['row'][0] != 1 else 2
                bad['id'] = 'selftest-' + b['id']
                p = ctx.write_behaviours([bad], 'selftest.ndjson')
                outp = p + '.summary.json'
                optstr = ','.join('%s=%s' % kv for kv in opts.items())
                rc, out = vlib.sh([binary, 'replay', '--in', p, '--out', outp, '--replays', os.path.join(ctx.scratch, 'selftest-replays'),
                                   '--prop', ctx.prop, '--seed', str(ctx.seed), '--par', '1', '--opt', optstr], timeout=600)
                s = json.load(open(outp)) if os.path.exists(outp) else None
                if not s or not s.get('mismatches'):
                    raise vlib.Broken('binding self-test failed: a behaviour with a flipped read was accepted by the replayer')
                ctx.extra['selftest_flipped_read_refused'] = True
                return
    ctx.notes.append('replay selftest: no behaviour with a non-empty committed root')


def run(ctx):
    q = ctx.tier == 'quick'
    ctx.assumptions += ['SHA-256 collision-free; LevelDB trusted', 'TLC bounds as stated in level_note',
                        'key concretisation preserves byte order (the only relation the model uses)']
    binary = vlib.build(DRIVER)
    stats = os.path.join(ctx.scratch, 'driver-stats.json')
    _mc(ctx, q)
    if ctx.prop == 'C01':
        run_c01(ctx, q, binary, stats)
    elif ctx.prop == 'C02':
        run_c02(ctx, q, binary, stats)
    else:
        run_c04(ctx, q, binary, stats)
    ctx.extra['driver_counters'] = _stats(ctx, stats)


def run_c01(ctx, q, b, stats):
    ctx.rule = ('behaviours = (a) every history of 3 Set/Reopen steps over 3 keys x 2 values with the complete iteration table '
                '(all bounds, both directions, exclusive/inclusive) compared at every committed root after every step, '
                '(b) TLC simulation of StateStore (Set, MemSet+Commit, Reopen, recomputation, Iter, Get; write lists are '
                'ascending/descending/strided/repeated-key runs) with every key read at every committed root after every '
                'step, (c) seeded random recordings validated by the trace spec; non-trivial = some key is written again '
                '(overwrite) AND reads happen at a committed root that is not the newest; distinct by abstract action sequence')
    allb = ctx.tlc_genall('StateStore_All', 'StateStore_AllC01.cfg', timeout=7200)
    ctx.extra['exhaustive_small_config'] = dict(cfg='StateStore_AllC01.cfg', behaviours=len(allb))
    for salt in range(1, 3 if q else 4):
        ctx.replay(b, allb, opts=dict(cfgs='plain/prefix', api='mix', salt=salt, stats=stats), par=8, count=(salt == 1), timeout=7200)
    _selftest_replay(ctx, b, allb, dict(cfgs='plain'))
    n = 120 if q else 400
    small = ctx.tlc_sim('StateStore_MC', 'StateStore_GenC01s.cfg', num=n, depth=18, timeout=7200)
    ctx.replay(b, small, opts=dict(cfgs='plain/prefix', api='mix', salt=1, stats=stats, shape=1), par=8, timeout=7200)
    big = ctx.tlc_sim('StateStore_MC', 'StateStore_GenC01.cfg', num=n, depth=26, timeout=7200)
    ctx.replay(b, big, opts=dict(cfgs='plain/prefix', api='mix', salt=2, stats=stats, shape=1), par=8, timeout=7200)
    # the in-memory node cache, each store in a process of its own; Reopen is a process restart
    keep = os.path.join(ctx.scratch, 'keep')
    sub = big[:len(big) // 6] if q else big[:len(big) // 10]
    ctx.replay(b, sub, opts=dict(cfgs='plain', ccfgs='memtree+val', kcfgs='prefix+memtree', api='store', salt=3, stats=stats, keepdir=keep, histdir=vlib.REPLAYS), par=6, count=False, timeout=7200)
    if not q:
        for sd in range(1, 2):
            more = ctx.tlc_sim('StateStore_MC', 'StateStore_GenC01.cfg', num=n, depth=26, seed=ctx.seed * 100 + sd, timeout=7200)
            ctx.replay(b, more, opts=dict(cfgs='plain/prefix', api='mix', salt=3 + sd, stats=stats, shape=1), par=8, timeout=7200)
            ctx.replay(b, more[:len(more) // 10], opts=dict(cfgs='prefix', ccfgs='memtree', kcfgs='prefix+memtree+val/prune+memtree', api='tree', salt=6 + sd,
                                                           restart='kill', stats=stats, keepdir=keep, histdir=vlib.REPLAYS), par=6, count=False, timeout=7200)
    # recordings over a large alphabet
    ctx.validate_recording(b, 'StateStore_Trace', 'StateStore_Trace.cfg', recorder='seq',
                           opts=dict(n=3 if q else 6, keys=64, vals=4, maxbatch=40, depth=40 if q else 80, mode='direct', cfgs='plain/prefix'),
                           selftest=True, timeout=7200)
    ctx.validate_recording(b, 'StateStore_Trace', 'StateStore_TraceBig.cfg', recorder='seq',
                           opts=dict(n=1 if q else 2, keys=512, vals=4, maxbatch=300, depth=60 if q else 120, mode='direct', cfgs='prefix/plain', salt=1),
                           selftest=False, timeout=7200)


def run_c02(ctx, q, b, stats):
    ctx.rule = ('behaviours = TLC-generated histories (exhaustive small export + simulation with a Redo action that computes '
                'earlier updates again at other heights, directly or as pending update, between unrelated pending updates, '
                'commits, rollbacks and reopen), each applied step by step to store instances under several storage '
                'configurations at once (5 without node cache + 1 memTree configuration in the long-lived replay process, '
                'the prefixing/pruning/MVCC memTree configurations in long-lived child processes whose single database serves all '
                'behaviours of a worker and in fresh child processes, rotating so that all 12 configurations occur); every Set/MemSet reply must be the '
                'same hash in all instances and equal to the process-wide binding of the concrete term; non-trivial = '
                '>= 2 instances AND (some root computed more than once OR an update computed after an unrelated pending '
                'update / rollback); distinct by abstract action sequence')
    cfg = 'StateStore_AllC02q.cfg'   # (StateStore_AllC02.cfg, 30 643 histories of 4 operations, is the next size up)
    allb = ctx.tlc_genall('StateStore_All', cfg, timeout=7200)
    ctx.extra['exhaustive_small_config'] = dict(cfg=cfg, behaviours=len(allb))
    n = 100 if q else 300
    sim = ctx.tlc_sim('StateStore_MC', 'StateStore_GenC02.cfg', num=n, depth=14, timeout=7200)
    keep = os.path.join(ctx.scratch, 'keep')
    # In the replay process itself: the configurations without node cache plus ONE of memtree / memtree+val (the global
    # cache is keyed by node hash; only without prefixing does a hash determine the children, so only then may several
    # databases share a process). The prefixing / pruning / MVCC memTree configurations run in child processes with one
    # database each: long-lived ones (kcfgs: the same store serves all behaviours of a worker, its cache history keeps
    # growing) and fresh ones (ccfgs: a new process and database per behaviour).
    PFX = ['prefix+memtree', 'prefix+memtree+val', 'prune+memtree', 'prune+memtree+val', 'mvcc+memtree+val', 'memtree', 'memtree+val']
    ctx.replay(b, allb, opts=dict(cfgs='/'.join(LOCAL_PLAIN + ['memtree+val']), kcfgs='prefix+memtree/prune+memtree+val', api='store',
                                 salt=1, variants=2, emptyval=2, stats=stats, keepdir=keep, histdir=vlib.REPLAYS), par=8, timeout=7200)
    if not q:
        ctx.replay(b, allb, opts=dict(cfgs='/'.join(LOCAL_PLAIN + ['memtree']), kcfgs='prune+memtree/mvcc+memtree+val', api='store',
                                     salt=2, variants=2, emptyval=2, stats=stats, keepdir=keep, histdir=vlib.REPLAYS), par=8, count=False, timeout=7200)
    used = set(LOCAL_PLAIN + ['memtree+val', 'prefix+memtree', 'prune+memtree+val'])
    # every history of 3 updates / commits of ONE key with TWO values, one of which is concretised to the empty byte string
    # (an overwrite with the empty value and back, under every configuration that stores / elides leaf values)
    alle = ctx.tlc_genall('StateStore_All', 'StateStore_AllC02e.cfg', timeout=7200)
    for salt in (1, 2, 3):
        ctx.replay(b, alle, opts=dict(cfgs='/'.join(LOCAL_PLAIN + ['memtree+val']), api='store', salt=salt, variants=2, emptyval=2, stats=stats),
                   par=8, count=False, timeout=7200)
    nround = 2 if q else 4
    per = 40 if q else 75
    for i in range(nround):
        mem = ['memtree', 'memtree+val'][i % 2]
        kc = [PFX[(2 * i) % len(PFX)], PFX[(2 * i + 1) % len(PFX)], PFX[(2 * i + 4) % len(PFX)]]
        cc = [PFX[(2 * i + 2) % len(PFX)], PFX[(2 * i + 3) % len(PFX)]]
        kc = [x for j, x in enumerate(kc) if x not in kc[:j]]
        used.update([mem] + kc + cc)
        k = (i * len(sim)) // nround
        bs = (sim[k:] + sim[:k])[:per]
        ctx.replay(b, bs, opts=dict(cfgs='/'.join(LOCAL_PLAIN + [mem]), kcfgs='/'.join(kc), ccfgs='/'.join(cc), api='store', salt=1 + i,
                                     variants=2, emptyval=2, stats=stats, keepdir=keep, histdir=vlib.REPLAYS, restart='kill' if i % 2 else 'close'),
                   par=6, count=(i == 0), timeout=7200)
    ctx.extra['configurations_exercised'] = sorted(used)
    _selftest_replay(ctx, b, sim, dict(cfgs='plain/prefix'))
    # code -> spec: recorded random runs on memTree configurations (fresh child per trace); the hash binding is a
    # variable of the trace specification (HashFunctional, HashOK)
    ctx.validate_recording(b, 'StateStore_Trace', 'StateStore_Trace.cfg', recorder='seq',
                           opts=dict(n=3 if q else 8, keys=48, vals=3, maxbatch=24, depth=40 if q else 70, mode='pending', proc='child',
                                     cfgs='memtree+val/prune+memtree/prefix+memtree+val/prune' if not q else 'memtree+val/prune+memtree/prefix'),   # no MVCC here: the recorder compares reads
                           selftest=True, timeout=7200)


def run_c04(ctx, q, b, stats):
    ctx.rule = ('behaviours = (a) every interleaving of MemSet / Commit / Rollback / Reopen of 5 operations over <= 3 update terms '
                'on forks at 2 heights (exhaustive export), (b) TLC simulation with refused commits/rollbacks and recomputation, '
                'each replayed into the real store with every key read at every committed root after every step, '
                '(c) recordings of the store module under concurrent clients, linearised by TLC; non-trivial = a rollback or a '
                'pending update that is never committed (or lost by reopen), followed by reads at a committed non-empty root; '
                'distinct by abstract action sequence')
    cfg = 'StateStore_AllC04q.cfg' if q else 'StateStore_AllC04.cfg'
    allb = ctx.tlc_genall('StateStore_All', cfg, timeout=7200)
    ctx.extra['exhaustive_small_config'] = dict(cfg=cfg, behaviours=len(allb))
    ctx.replay(b, allb if q else allb[::6], opts=dict(cfgs='plain/prefix', api='mix', salt=1, stats=stats), par=8, timeout=7200)
    keep = os.path.join(ctx.scratch, 'keep')
    sub = allb[::32] if q else allb[::160]
    ctx.replay(b, sub, opts=dict(cfgs='prefix', ccfgs='memtree+val', kcfgs='prefix+memtree', api='store', salt=2, restart='kill', stats=stats, keepdir=keep, histdir=vlib.REPLAYS),
               par=6, count=False, timeout=7200)
    _selftest_replay(ctx, b, allb, dict(cfgs='plain'))
    n = 120 if q else 400
    sim = ctx.tlc_sim('StateStore_MC', 'StateStore_GenC04.cfg', num=n, depth=20, timeout=7200)
    ctx.replay(b, sim, opts=dict(cfgs='plain/prefix/prune', api='mix', salt=3, stats=stats), par=8, timeout=7200)
    ctx.replay(b, sim[:len(sim) // 6] if q else sim[:len(sim) // 8], opts=dict(cfgs='plain', ccfgs='prefix+memtree/memtree+val', kcfgs='prune+memtree+val', api='mix', salt=4,
                                                                    stats=stats, keepdir=keep, histdir=vlib.REPLAYS), par=6, count=False, timeout=7200)
    if not q:
        for sd in range(1, 2):
            more = ctx.tlc_sim('StateStore_MC', 'StateStore_GenC04.cfg', num=n, depth=20, seed=ctx.seed * 100 + sd, timeout=7200)
            ctx.replay(b, more, opts=dict(cfgs='plain/prefix', api='mix', salt=4 + sd, stats=stats), par=8, timeout=7200)
            ctx.replay(b, more[:len(more) // 10], opts=dict(cfgs='prune', ccfgs='prune+memtree+val', kcfgs='memtree/prefix+memtree+val', api='store', salt=7 + sd,
                                                           restart='kill', stats=stats, keepdir=keep, histdir=vlib.REPLAYS), par=6, count=False, timeout=7200)
    # sequential recordings with pending updates, then the concurrent leg
    ctx.validate_recording(b, 'StateStore_Trace', 'StateStore_Trace.cfg', recorder='seq',
                           opts=dict(n=3 if q else 6, keys=48, vals=3, maxbatch=24, depth=50 if q else 90, mode='pending', cfgs='plain/prefix'),
                           selftest=True, timeout=7200)
    ctx.validate_recording(b, 'StateStore_Trace', 'StateStore_TraceBus.cfg', recorder='bus', dfs=True,
                           opts=dict(n=2 if q else 3, clients=4 if q else 6, reqs=25 if q else 40, keys=6, maxbatch=4, rounds=8 if q else 12, maxreads=60 if q else 15,
                                     cfgs='plain/prefix/memtree+val' if not q else 'plain/prefix'),
                           selftest=True, timeout=7200)
    if not q and os.environ.get('VERIF_SS_RACE') == '1':   # optional: needs a race-detector build of the driver (slow)
        _race_leg(ctx)


def _race_leg(ctx):
    """Thorough tier: the concurrent recording once more with the Go race detector. Race reports inside /repo code are copied
    into the evidence (race_reports); they are neither a verdict nor a failure - only a reply that disagrees with the
    specification is (DESIGN 4, C04)."""
    import glob
    try:
        rb = vlib.build(DRIVER, race=True)
    except vlib.Broken as e:
        ctx.notes.append('race-detector build not available, leg skipped: %s' % str(e)[:200])
        return
    logp = os.path.join(ctx.scratch, 'race-report')
    os.environ['GORACE'] = 'log_path=%s exitcode=0 halt_on_error=0' % logp
    try:
        ctx.validate_recording(rb, 'StateStore_Trace', 'StateStore_TraceBus.cfg', recorder='bus', dfs=True,
                               opts=dict(n=2, clients=6, reqs=30, keys=6, maxbatch=4, rounds=10, maxreads=20, cfgs='prefix/memtree+val'),
                               selftest=False, timeout=7200)
    finally:
        os.environ.pop('GORACE', None)
    reports = []
    for f in sorted(glob.glob(logp + '*')):
        for blk in open(f, errors='replace').read().split('==================')[:40]:
            if 'DATA RACE' in blk:
                lines = [l.strip() for l in blk.splitlines() if l.strip()]
                where = [l for l in lines if 'github.com/33cn/chain33/' in l][:2]
                reports.append(dict(kind=lines[0][:80], where=where))
    uniq = {}
    for r in reports:
        uniq.setdefault(json.dumps(r, sort_keys=True), r)
    ctx.extra['race_reports'] = list(uniq.values())[:20]
    ctx.extra['race_reports_total'] = len(reports)


import vlib  # noqa: E402
