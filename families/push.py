"""C32 — push subscribers receive the block sequence log in order and without gaps
(blockchain/push.go). Family Push, mechanism model."""
import concurrent.futures
import copy
import json
import os
import threading

FAMILY = 'Push'
DRIVER = 'push'
HOOK_COMMITS = ['8304a52', '16e09a3', '243952d']          # /repo: start gate, settable back-off tick, push restart/wipe/inspection
FIX_COMMITS = ['a7d6dd9', 'e949624']

PROPS = {
    'C32': dict(
        text='TLC exhaustively checks a mechanism model of blockchain/push.go (sequence log with add/del records, stored '
             'subscriber record and last pushed sequence, task entry with running flag / back-off / notification channel, '
             'task goroutines with separate spawn and start steps, batches cut by count (10) or by cumulative size (records of 1 or 2 size units against a limit), registration / re-activation, deactivation after three '
             'failures, graceful restart, endpoint answering ok/fail) against Ordered (every batch received at the endpoint '
             'starts at the first sequence after the resume point: no acknowledged sequence again, none skipped), AckedFirst '
             '(stored last pushed sequence never beyond what was acknowledged) and OneTask; the as-found mechanisms (running '
             'flag set inside the goroutine; "last <= 0" = no resume point) are refuted by TLC and were reproduced on the real '
             'node. TLC-generated behaviours (blocks, reorganisations, registrations, endpoint fault scripts, restarts; the '
             'goroutine start under a harness gate) are replayed on a real chain33 test node whose subscribers are real HTTP '
             'servers: after every settled step the stored last pushed sequence, record state, task entry and the batches in '
             'flight are compared, and a monitor evaluates order/gap-freedom/payload on what the node really posted. Executions '
             'recorded from the node with free-running tasks are validated by the TLA+ trace specification.',
        note='Safety only (no claim that a batch is eventually delivered). API calls are serial; the three writes of the '
             'deactivation path are one step; only graceful stops (a kill between acknowledgement and SetSync re-delivers by '
             'design). A subscriber that never acknowledged anything and supplied no start sequence has as resume point the '
             'latest sequence at the moment its (re)activated task first looks at the log (push.go: "start from the latest"). '
             'Bounds: <= 2 subscribers, log <= 6 records in TLC runs (<= 80 in recorded traces), <= 4 endpoint failures, '
             '<= 4 registrations, 1 restart, reorganisation depth <= 2. The batch size limit of block/header subscribers is made '
             'reachable by a verif hook (limit of a few KB against blocks padded to 4000/8000 bytes, headers of ~152 bytes); the '
             'size limit of receipt batches (1 MB) is not reached.',
    ),
}

_lock = threading.Lock()


def replay_parallel(ctx, binary, bs, procs, opts=None, timeout=5000):
    """One driver process per chunk (one node with push tasks per process: the settle detector
    reads the process's goroutine dump), merged into ctx under a lock."""
    if not bs:
        raise vlib.Broken('no behaviours to replay')
    chunks = [bs[i::procs] for i in range(procs)]
    chunks = [c for c in chunks if c]
    results = []

    def one(i, chunk):
        sub = copy.copy(ctx)
        sub.mismatches, sub.samples, sub.checker_cmds = [], [], []
        sub.evaluations = sub.traces = sub.nontrivial = 0
        s = sub.replay(binary, chunk, opts=opts, par=1, timeout=timeout, name='behaviours-%d-%d.ndjson' % (id(bs) % 100000, i))
        with _lock:
            ctx.evaluations += sub.evaluations
            ctx.traces += sub.traces
            ctx.nontrivial += sub.nontrivial
            ctx.mismatches += sub.mismatches
            for x in sub.samples:
                if len(ctx.samples) < 4:
                    ctx.samples.append(x)
        return s

    with concurrent.futures.ThreadPoolExecutor(max_workers=len(chunks)) as ex:
        futs = [ex.submit(one, i, c) for i, c in enumerate(chunks)]
        for f in futs:
            results.append(f.result())
    return results


def replay_selftest(ctx, binary, bs):
    """Anti-vacuity of binding A: one behaviour with one predicted stored-last-sequence falsified must disagree."""
    for beh in bs:
        steps = copy.deepcopy(beh['steps'])
        idx = [i for i, s in enumerate(steps) if s.get('settled') and s.get('op') == 'Return' and s.get('what') == 'persist']
        if not idx:
            continue
        st = steps[idx[-1]]
        st['chk']['last'] = [x + 1 for x in st['chk']['last']]
        sub = copy.copy(ctx)
        sub.mismatches, sub.samples, sub.checker_cmds = [], [], []
        sub.evaluations = sub.traces = sub.nontrivial = 0
        save = vlib.REPLAYS
        vlib.REPLAYS = os.path.join(ctx.scratch, 'selftest-replays')
        try:
            sub.replay(binary, [dict(beh, id=beh['id'] + '-selftest', steps=steps)], par=1, timeout=3000, count=False, name='selftest.ndjson')
        finally:
            vlib.REPLAYS = save
        if not sub.mismatches:
            raise vlib.Broken('binding self-test failed: a falsified stored last sequence was not noticed by the replay')
        ctx.extra['selftest_falsified_replay_rejected'] = True
        return
    ctx.notes.append('replay self-test: no behaviour with a settled persist step')


def run(ctx):
    q = ctx.tier == 'quick'
    ctx.rule = ('behaviours = TLC simulation of Push.tla in GenMode (harness steps AddBlock / Reorg / Register / Release / Deliver '
                'ok|fail / Restart taken in settled states, the task goroutines\' steps in between), replayed on a real node; '
                'non-trivial = at least one delivery answered with a failure and a later delivery acknowledged (retry / '
                're-activation path exercised); distinct by abstract step sequence. Recorded traces: seeded random scenarios '
                'with free-running tasks, non-trivial by the same rule.')
    ctx.assumptions += ['serial API calls', 'graceful stops only', 'deactivation writes atomic',
                        'HTTP stack / LevelDB trusted', 'TLC bounds: <=2 subscribers, log<=6, <=4 failures, <=4 registrations, 1 restart']
    # 1. exhaustive: the repaired mechanism satisfies the property ...
    r = ctx.tlc_mc('Push_MC', 'Push_MCq.cfg' if q else 'Push_MCt.cfg', workers=4, timeout=14400, coverage=not q)
    ctx.tlc_mc('Push_MC', 'Push_MCs.cfg', workers=4, timeout=14400)      # batch size limit, cut inside a batch
    if not q:
        # AddBlock / Reorg are the GenMode forms of AppendSeq + NotifySeq and cannot fire here
        zeros = [z for z in r.get('zero_actions', []) if not any(a in z for a in ('<AddBlock ', '<Reorg '))]
        if zeros:
            raise vlib.Broken('vacuous exhaustive run, actions never taken: %s' % zeros)
        ctx.tlc_mc('Push_MC', 'Push_MCr.cfg', workers=4, timeout=14400)
        ctx.tlc_mc('Push_MC', 'Push_MC2.cfg', workers=4, timeout=14400)
    # ... and the model can tell: the as-found mechanisms are refuted (anti-vacuity of the invariants)
    orig_log = vlib.log
    vlib.log = lambda *a: orig_log(*[str(x).replace('VIOLATION', '(expected) refuted:') for x in a])
    try:
        for cfg, inv, note in (('Push_MCrace.cfg', 'Ordered', 'as-found mechanism, refutation expected (anti-vacuity of the invariants)'),
                               ('Push_MCzero.cfg', 'Ordered', 'as-found mechanism, refutation expected (anti-vacuity of the invariants)'),
                               ('Push_MCscut.cfg', 'NoSizeCut', 'reachability probe: a batch cut in the middle by the size limit exists in Push_MCs.cfg')):
            r = ctx.tlc_mc('Push_MC', cfg, workers=2, timeout=7200, expect_violation=True, count=False)
            if r['violation'] != inv:
                raise vlib.Broken('%s: expected refutation of %s did not happen (violation=%s)' % (cfg, inv, r['violation']))
            ctx.mc_runs[-1]['note'] = note
    finally:
        vlib.log = orig_log
    ctx.extra['as_found_mechanisms_refuted'] = ['Push_MCrace.cfg', 'Push_MCzero.cfg']
    # 2. binding A
    b = vlib.build(DRIVER)
    procs = 4
    n1, n2 = (90, 50) if q else (700, 400)
    bs = ctx.tlc_sim('Push_MC', 'Push_Gen.cfg', num=n1, depth=45, keep_init=True, timeout=3600)
    bs += ctx.tlc_sim('Push_MC', 'Push_GenGate.cfg', num=n2, depth=45, keep_init=True, timeout=3600, seed=ctx.seed + 1000003)
    bs += ctx.tlc_sim('Push_MC', 'Push_GenCut.cfg', num=60 if q else 400, depth=45, keep_init=True, timeout=3600, seed=ctx.seed + 3000003)
    if not q:
        bs += ctx.tlc_sim('Push_MC', 'Push_GenRcpt.cfg', num=n2, depth=45, keep_init=True, timeout=3600, seed=ctx.seed + 2000003)
        bs += ctx.tlc_sim('Push_MC', 'Push_Gen.cfg', num=n1, depth=60, keep_init=True, timeout=3600, seed=ctx.seed * 100 + 7)
    else:
        bs += ctx.tlc_sim('Push_MC', 'Push_GenRcpt.cfg', num=30, depth=45, keep_init=True, timeout=3600, seed=ctx.seed + 2000003)
    replay_parallel(ctx, b, bs, procs)
    replay_selftest(ctx, b, bs)
    # 3. binding B
    for salt in range(1 if q else 4):
        opts = dict(n=12 if q else (15 if salt == 3 else 40), salt=salt, quiet=3 if salt == 3 else 2)
        try:
            ctx.validate_recording(b, 'Push_Trace', 'Push_Trace.cfg', opts=opts, dfs=True, timeout=14400, selftest=(salt == 0))
        except vlib.Broken as e:
            if 'recorder failed' not in str(e):
                raise
            # a harness failure while recording (never a verdict): say so and record once more
            ctx.notes.append('recorder failed once and was re-run: %s' % str(e)[-300:])
            vlib.log('[record] failed, one more attempt: %s' % str(e)[-300:])
            ctx.validate_recording(b, 'Push_Trace', 'Push_Trace.cfg', opts=opts, dfs=True, timeout=14400, selftest=(salt == 0))


import vlib  # noqa: E402
