"""C39 — RPC access control holds for every request shape (rpc/http.go, rpc/server.go, rpc/ethrpc/rpc.go).
Family RPC: reference decision table + mechanism model of the additive whitelist maps."""
import json
import os
import random

FAMILY = 'RPC'
DRIVER = 'rpc'
HOOK_COMMITS = ['0888329', 'db0cfd2']  # H9: JSON-RPC handler capture + gRPC auth accessor; reset of the rpc package globals
PROPS = {
    'C39': dict(
        text='TLC checks a mechanism model of the rpc package (the additive process-global IP / method white- and '
             'blacklist maps filled by InitCfg, the JSON-RPC, gRPC and Ethereum gates) against the reference decision '
             'table "handler may run = loopback or (address on the whitelist under either key or wildcard, method '
             'whitelisted and not blacklisted, basic auth ok)" for every configuration of bounded universes, also after '
             '2-3 successive configurations in one process. TLC exports every row configuration x client address x '
             'endpoint x method x credentials x request shape with its verdict; each configuration is written as TOML '
             '(both key spellings) and loaded through rpc.New in a child process whose rpc globals are fresh (reset hook between '
             'configurations; a sample runs in a genuinely new process per configuration), and every row is sent through the '
             'real JSON-RPC handler, the real grpc.Server and the real Ethereum HTTP/WebSocket handler over in-memory '
             'connections with a forged remote address; the oracle is whether a registered probe handler (or the built-in '
             'Version) actually ran. The Ethereum gate is compared with the address admission observed on the other two '
             'endpoints. TLC-simulated request sequences (one process each) and Go-side random recordings validated by a '
             'trace specification complete the check.',
        note='Only "must not run" is demanded (the statement is an only-if); whether an admitted request runs is a sanity '
             'figure. "Configured whitelist" = union of both keys, "*" or 0.0.0.0 anywhere counts as wildcard, an unset method '
             'whitelist is the documented default "*"; loopback clients and the Ethereum RPC with an empty whitelist are left '
             'open. Universes: IP lists of <= 2 entries over {*, 0.0.0.0, two IPv4, one IPv6}, method lists of <= 2 entries; 14 '
             'address classes; 33 JSON-RPC, 6 gRPC, 5 Ethereum request shapes. gRPC server-streaming methods bypass the gate '
             '(unary interceptor only): recorded as known finding, not repaired because an existing test relies on it.',
    ),
}

def _regroup(rows, seed, prefix):
    """rows: behaviours [Cfg, Req] -> one behaviour per configuration, rows in a seeded order."""
    groups, order = {}, []
    for b in rows:
        cfg, req = b['steps'][0], b['steps'][1]
        k = json.dumps(cfg.get('c'), sort_keys=True)
        if k not in groups:
            groups[k] = (cfg, [])
            order.append(k)
        groups[k][1].append(req)
    out = []
    for i, k in enumerate(order):
        cfg, reqs = groups[k]
        random.Random(seed * 1000003 + i).shuffle(reqs)
        out.append(dict(fam=FAMILY, cfg=prefix, id='%s%04d' % (prefix, i), steps=[cfg] + reqs))
    return out


def _batch(bs, k, prefix):
    """k behaviours per child process, separated by the specification's Restart action."""
    out = []
    for i in range(0, len(bs), k):
        steps = []
        for j, x in enumerate(bs[i:i + k]):
            if j:
                steps.append(dict(op='Restart', ret='ok'))
            steps += x['steps']
        out.append(dict(fam=FAMILY, cfg=bs[i].get('cfg'), id='%s%04d' % (prefix, i // k), steps=steps))
    return out


def _nontrivial(b):
    """a request from a non-loopback address whose verdict forbids a handler, and one it leaves open"""
    deny = opn = False
    for st in b['steps']:
        if st.get('op') != 'Req' or st.get('a', '').startswith('lo'):
            continue
        for v in (st.get('ret') or {}).values():
            if v == 'deny':
                deny = True
            else:
                opn = True
    return deny and opn


def _stats(ctx, paths):
    tot = dict(rows=0, children=0, fidelity_ok=0, fidelity_bad=0, open_ran=0, eth_peer_checks=0,
               admitted_ran={}, deny_rows={}, fidelity_examples=[])
    for p in paths:
        if not os.path.exists(p):
            continue
        s = json.load(open(p))
        for k in ('rows', 'children', 'fidelity_ok', 'fidelity_bad', 'open_ran', 'eth_peer_checks'):
            tot[k] += s.get(k, 0)
        for k in ('admitted_ran', 'deny_rows'):
            for e, v in (s.get(k) or {}).items():
                tot[k][e] = tot[k].get(e, 0) + v
        tot['fidelity_examples'] += (s.get('fidelity_examples') or [])[:3]
    tot['fidelity_examples'] = tot['fidelity_examples'][:8]
    return tot


def _trace_selftest(ctx):
    """Anti-vacuity of binding B: claim that a handler ran for an unlisted address under a whitelist without
    wildcard; the trace specification must reject the corrupted trace."""
    import glob
    tps = [p for p in glob.glob(os.path.join(ctx.scratch, 'trace-*.ndjson')) if p.endswith('.ndjson')]
    if not tps:
        raise vlib.Broken('trace self-test: no recorded trace found')
    tp = sorted(tps, key=os.path.getmtime)[-1]
    lines = [json.loads(l) for l in open(tp) if l.strip()]
    cfgs, idx = [], None
    for i, e in enumerate(lines):
        if e['ev'] == 'Reset':
            cfgs = []
        elif e['ev'] == 'Cfg':
            cfgs.append(e['c'])
        elif (e['ev'] == 'Req' and e.get('ep') in ('jrpc', 'grpc') and e['a'] in ('U4', 'U6', 'U4m', 'An') and not e['ran']
              and cfgs and not any(x in ('*', 'Z') for c in cfgs for x in c['wn'] + c['wo'])):
            idx = i
    if idx is None:
        ctx.notes.append('trace self-test: no corruptible event in this recording')
        return
    lines[idx]['ran'] = ['Ping']
    bad = tp + '.bad'
    with open(bad, 'w') as f:
        for l in lines:
            f.write(json.dumps(l) + '\n')
    r = ctx.tlc_trace('RPC_Trace', 'RPC_Trace.cfg', bad, timeout=3600)
    if r['accepted']:
        raise vlib.Broken('binding self-test failed: a trace claiming a forbidden handler ran (event %d) was accepted' % idx)
    ctx.extra['selftest_corrupted_trace_rejected'] = True


def run(ctx):
    q = ctx.tier == 'quick'
    ctx.rule = ('rows = TLC export of RPC.tla: every configuration of the universe (IP whitelist under `whitelist` / `whitlist` / '
                'both / "*" / 0.0.0.0 / empty, method white/blacklists incl. "*", basic auth off/on/password-only) x client address '
                'class (loopback v4/v6/mapped, listed, IPv4-mapped IPv6 of a listed address, textual neighbour, unlisted v4/v6/zone) '
                'x endpoint (jsonrpc, grpc, ethrpc http/ws) x method x credentials class x request shape, with the verdict '
                '"deny"/open per handler; one behaviour = one child process = one configuration (or a TLC-simulated sequence '
                'Cfg, Req..., Cfg, Req...) with its rows in seeded order; non-trivial = a behaviour containing a request from a '
                'non-loopback address whose verdict forbids at least one handler and one it leaves open; distinct by abstract rows')
    ctx.assumptions += ['request bytes reach the handlers through in-memory connections with a forged RemoteAddr (hook H9 for the '
                        'JSON-RPC closure; grpc.Server.Serve and the Ethereum http.Handler through exported API)',
                        'queue client / QueueProtocolAPI are testify mocks', 'TLS off',
                        'TLC bounds: IP and method lists of <= 2 entries, <= 3 configurations per process']
    # ---- the specification: mechanism vs reference --------------------------------------------------
    ctx.tlc_mc('RPC_MC', 'RPC_MCq.cfg' if q else 'RPC_MC.cfg', workers=4, timeout=7200)
    ctx.tlc_mc('RPC_MC', 'RPC_MC2q.cfg' if q else 'RPC_MC2.cfg', workers=4, timeout=7200)
    if not q:
        ctx.tlc_mc('RPC_MC', 'RPC_MC3.cfg', workers=4, timeout=7200)
    # candidate: the mechanism (unary interceptor only) lets a streaming method run for anybody
    r = ctx.tlc_mc('RPC_MC', 'RPC_MCstream.cfg', workers=2, timeout=1800, expect_violation=True, count=False)
    ctx.extra['tlc_candidate_stream_ungated'] = bool(r['violation'])
    if not q:
        # self-test of the specification: the original Ethereum gate (new key only) must violate EthSame
        r = ctx.tlc_mc('RPC_MC', 'RPC_MCethold.cfg', workers=2, timeout=1800, expect_violation=True, count=False)
        if not r['violation']:
            raise vlib.Broken('spec self-test: EthSame holds for the gate that ignores the legacy key')
        ctx.extra['selftest_spec_detects_legacy_key_defect'] = True
    # ---- binding A: exported rows and simulated sequences into the real code ----------------------------
    b = vlib.build(DRIVER)
    stats = []
    known = [k['signature'] for k in vlib.load_known() if k.get('property') == ctx.prop and k.get('status') == 'known']
    kpath = os.path.join(ctx.scratch, 'known.json')
    json.dump(known, open(kpath, 'w'))

    def replay(orig, k, tag, salt=0, restart='reset', count=True):
        """orig: behaviours of the specification (one process life each); k of them share a child."""
        p = os.path.join(ctx.scratch, 'stats-%s-%d.json' % (tag, len(stats)))
        stats.append(p)
        bs = _batch(orig, k, tag + '%d-' % len(stats))
        r = ctx.replay(b, bs, opts=dict(stats=p, salt=salt, restart=restart, known=kpath, kdir=vlib.REPLAYS), par=8,
                       timeout=14400, count=False)
        if count:  # counted per behaviour of the specification, not per child
            ctx.evaluations += len(orig)
            ctx.traces += len(orig)
            nt = [x for x in orig if _nontrivial(x)]
            ctx.nontrivial += len(nt)
            for x in nt[:2]:
                if len(ctx.samples) < 4:
                    ctx.samples.append(dict(x, steps=x['steps'][:12]))
        if os.path.exists(p):
            st1 = json.load(open(p))
            for sig, n in (st1.get('known_hits') or {}).items():
                if not any(m.get('signature') == sig for m in ctx.mismatches):
                    ctx.mismatches.append(dict(signature=sig, replay=(st1.get('known_replay') or {}).get(sig),
                                               expected='deny', observed='ran (%d rows in this leg)' % n, field='ret'))
        return r

    exports = ['RPC_Allq.cfg'] if q else ['RPC_All_ip.cfg', 'RPC_All_fn.cfg']
    nrows, fresh = 0, []
    for i, cfgf in enumerate(exports):
        rows = ctx.tlc_genall('RPC_All', cfgf, timeout=14400, count=False)
        nrows += len(rows)
        bs = _regroup(rows, ctx.seed, 'e%d-' % i)
        del rows
        # one child serves 16 (thorough: 8) configurations, separated by Restart (reset hook) ...
        replay(bs, 16 if q else 8, 'all', salt=ctx.seed % 97)
        fresh += random.Random(ctx.seed + i).sample(bs, min(len(bs), 8 if q else 24))
    ctx.extra['exported_rows'] = nrows
    ctx.exhaustive = False  # exhaustive over the abstract rows of the bounded universes; concretisation is sampled
    for k in range(1 if q else 4):
        sd = ctx.seed * 100 + k
        bs = ctx.tlc_sim('RPC_MC', 'RPC_Gen.cfg', num=120 if q else 400, depth=41, seed=sd, timeout=7200)
        replay(bs, 12, 'sim', salt=k)
        fresh += bs[:8 if q else 24]
    bs = ctx.tlc_sim('RPC_MC', 'RPC_Gen3.cfg', num=40 if q else 300, depth=46, seed=ctx.seed * 100 + 50, timeout=7200)
    replay(bs, 10, 'sim3')
    fresh += bs[:4 if q else 16]
    # ... and a sample of the same behaviours with a genuinely new process for every (re)start
    replay(fresh, 1, 'fresh', salt=1, restart='proc', count=False)
    ctx.extra['fresh_process_behaviours'] = len(fresh)
    # ---- binding B: random recordings validated by the trace specification ----------------------------------
    r, _ = ctx.validate_recording(b, 'RPC_Trace', 'RPC_Trace.cfg', opts=dict(n=8 if q else 100, depth=60 if q else 80, par=6),
                                  selftest=False, timeout=3600)
    if r['accepted']:
        _trace_selftest(ctx)
    # ---- sanity figures (never a verdict) -------------------------------------------------------------------
    st = _stats(ctx, stats)
    ctx.extra['replay_stats'] = st
    for ep in ('jrpc', 'grpc', 'eth'):
        if st['admitted_ran'].get(ep, 0) < 5 or st['deny_rows'].get(ep, 0) < 5:
            raise vlib.Broken('vacuous: endpoint %s saw %d admitted requests that ran and %d rows with a forbidden handler'
                              % (ep, st['admitted_ran'].get(ep, 0), st['deny_rows'].get(ep, 0)))
    if st['fidelity_bad']:
        ctx.notes.append('mechanism model and code differ on %d of %d predicted outcomes (not a verdict): %s'
                         % (st['fidelity_bad'], st['fidelity_bad'] + st['fidelity_ok'], st['fidelity_examples'][:3]))


import vlib  # noqa: E402
