"""C16, C17, C19 - family TxRules (decision tables + one mechanism spec for the validity caches).

C16  spec/TxRules/TxField.tla   field x mutation x signature type x height class on types.Transaction
C17  spec/TxRules/TxGroup.tla   group size x mutation rows on CreateTxGroup / Transactions.Check / CheckSign
C19  spec/TxRules/Pure.tla      query histories on the address / public key / signature validity checks
"""
import json
import os

FAMILY = 'TxRules'
DRIVER = 'txrules'
HOOK_COMMITS = []
PROPS = {
    'C16': dict(
        text='TLC enumerates the complete decision table of TxField.tla: every protobuf field of types.Transaction and '
             'types.Signature (field lists read by reflection from the generated Go types at run time) x mutation '
             '{flip a bit, flip a bit of the first byte, zero, extend by 1 / 32 bytes, truncate} x every registered signature type x address format x height '
             'class {below, at, above the enable height}, under three crypto configurations set through crypto.Init; the '
             'specification computes the expected row (Hash changes iff the field is not signature/header, FullHash always, '
             'Clone/CloneTx preserve both, CheckSign true iff unmutated and the type is enabled at h) and TLC checks the '
             'table\'s consistency invariants; every row is executed on the real Transaction API and compared.',
        note='Cryptographic soundness (forgery with a different key) is trusted: the model binds which bytes are covered. '
             'CheckSign after a mutation of signature.ty is left open (the type id is unsigned by design and the statement '
             'does not name it). Key-less type none is only exercised for the height gate. Rows are exhaustive over the '
             'abstract table; byte positions / values of a mutation are seeded samples. Unknown protobuf fields '
             '(wire data the message type does not declare) are outside the statement.',
    ),
    'C17': dict(
        text='TxGroup.tla is a reference model of CreateTxGroup / RebuiltGroup / Transactions.Check / CheckSign with hashes '
             'and signatures as free constructors; TLC proves on the model that a created and signed group passes and that '
             'every mutation (swap, drop, append, substitute, alter any field with and without re-signing, alter+rebuild, fee '
             'below the required sum, member fee, wrong group count, stale header, stale next) fails Check or CheckSign, and '
             'exports every row (sizes 2..20, main and para members); each row is executed on real groups built with '
             'types.CreateTxGroup and signed by five signature types, checked directly and through Transactions.Tx() / '
             'Transaction.GetTxGroup / TransactionCache as the mempool receives it.',
        note='Which of Check / CheckSign fails is left open (the statement says "or"). Fee rate, heights, payload sizes around '
             'the 1000-byte fee steps, expiry forms and member keys are seeded samples; the row set is exhaustive for the '
             'configured sizes (quick: 2, 3, 20 with the first/last two positions; thorough: 2..20, every position). The '
             'para/main mixing rule and executor / mempool stages beyond Transactions.Check are not part of this table.',
    ),
    'C19': dict(
        text='Pure.tla models the process-global mechanism (address validity cache, address driver map with enable heights, '
             'eth public-key cache with fork-dependent formatting, error-dependent pre-fork compatibility in dapp.CheckAddress) '
             'and states purity of every answer as an invariant; TLC proves it for the mechanism as repaired and finds the '
             'violating histories for the mechanism as found (cache keyed by address only, map iteration order, cached formatted '
             'address). TLC exports every height sequence of length <= 4 over the heights below/at/above each enable and fork '
             'height (plus -1); each is replayed in its own long-lived process asking every input class (several concrete '
             'instances) through address.CheckAddress, dapp.CheckAddress, GetAddressType, LoadDriver, PubKeyToAddr, '
             'Transaction.From and CheckSign, and every answer including the exact error is compared with a binding table of '
             'fresh-process answers keyed by (operation, input, height, configuration); recorded random histories are validated '
             'by the trace specification.',
        note='Configurations with non-zero enable heights are set through address.Init, crypto.Init, Chain33Config.SetFork and '
             'the crypto client context (public APIs) in child processes. The fresh oracle is 5 fresh processes per height '
             'answering each input once at that height only, cross-checked by fresh processes asked a single question (a '
             'sample in quick, more in thorough). Map iteration order of the Go runtime is sampled (several concrete inputs per '
             'class, repeated processes), not enumerated. TransactionCache (a per-use memo object) is out of scope.',
    ),
}

MUTS = ['flip', 'flip0', 'zero', 'ext1', 'ext32', 'trunc']
KNOWN_TX = ['execer', 'payload', 'signature', 'fee', 'expire', 'nonce', 'to', 'groupCount', 'header', 'next', 'chainID']
KNOWN_SIG = ['ty', 'pubkey', 'signature']

# crypto configurations for C16 (crypto.Init): name -> (EnableTypes, EnableHeight)
CCFGS = {
    'default': dict(entypes=[], enh={}),
    'gated': dict(entypes=['secp256k1', 'ed25519', 'sm2', 'secp256r1', 'secp256k1eth', 'none'],
                  enh={'secp256k1': 7, 'ed25519': 100, 'sm2': 250000, 'secp256r1': 1, 'secp256k1eth': 123456789, 'none': 50}),
    'select': dict(entypes=['secp256k1', 'sm2', 'secp256k1eth'], enh={'sm2': 1000, 'secp256k1eth': -1}),
}


def tla_set(xs, quote=True):
    if quote:
        return '{' + ', '.join('"%s"' % x for x in xs) + '}'
    return '{' + ', '.join(str(x) for x in xs) + '}'


def ccfg_sets(name, sigtypes):
    c = CCFGS[name]
    off, gated = [], []
    for t in sigtypes:
        en = (t != 'none') if not c['entypes'] else (t in c['entypes'])
        h = c['enh'].get(t, 0)
        if not en or h < 0:
            off.append(t)
        elif h > 0:
            gated.append(t)
    return off, gated


def ccfg_opts(name):
    c = CCFGS[name]
    o = {}
    if c['entypes']:
        o['entypes'] = '+'.join(c['entypes'])
    if c['enh']:
        o['enh'] = '+'.join('%s:%d' % kv for kv in sorted(c['enh'].items()))
    return o


def no_dead_actions(r, what):
    """-coverage 1 runs: an action that never fired makes the exhaustive run vacuous (exit 2)."""
    if r.get('zero_actions'):
        raise vlib.Broken('%s: actions never taken in the exhaustive run (vacuous): %s' % (what, r['zero_actions']))


def driver_json(ctx, binary, cmd, opts=None):
    out = os.path.join(ctx.scratch, 'drv-%s-%d.json' % (cmd, len(os.listdir(ctx.scratch))))
    o = dict(opts or {})
    o['out'] = out
    rc, txt = vlib.sh([binary, cmd, '--seed', str(ctx.seed), '--opt', ','.join('%s=%s' % kv for kv in o.items())], timeout=600)
    if rc != 0 or not os.path.exists(out):
        raise vlib.Broken('driver %s failed rc=%d:\n%s' % (cmd, rc, txt[-2000:]))
    return json.load(open(out))


# --------------------------------------------------------------------------------------------
# C16

def field_cfg(fields, sigtypes, off, gated, fmts, emit, allmod):
    lines = ['SPECIFICATION %s' % ('ASpec' if allmod else 'Spec'), 'CONSTANTS',
             '  TxFields = %s' % tla_set(fields['tx_fields']),
             '  SigFields = %s' % tla_set(fields['sig_fields']),
             '  MsgFields = %s' % tla_set(fields['msg_fields']),
             '  Muts = %s' % tla_set(MUTS),
             '  SigTypes = %s' % tla_set(sigtypes),
             '  OffTypes = %s' % tla_set(off),
             '  GatedTypes = %s' % tla_set(gated),
             '  NoKeyTypes = {"none"}',
             '  AddrFmts = %s' % tla_set(fmts, quote=False),
             '  EmitOn = %s' % ('TRUE' if emit else 'FALSE')]
    if allmod:
        lines += ['INVARIANT Export']
    else:
        lines += ['VIEW view', 'INVARIANTS TypeOK HashImpliesFull HashIgnoresOnly SignSound Covered']
    lines += ['CHECK_DEADLOCK FALSE']
    return '\n'.join(lines) + '\n'


def run_c16(ctx, b):
    q = ctx.tier == 'quick'
    ctx.rule = ('behaviours = every row of the TxField.tla table exported exhaustively by TLC: Sign(type, address format) ; '
                '[Mutate(field, mutation)] ; Observe(below/at/above the enable height); field lists come from protobuf '
                'reflection of the real Go types; non-trivial = a row with a mutated field, or a height-gated / disabled '
                'signature type (anything but the unmutated always-enabled baseline); distinct by abstract row')
    ctx.assumptions += ['cryptographic soundness trusted (which bytes are covered is checked, not the maths)',
                        'byte positions/values inside a mutated field are seeded samples',
                        'CheckSign after a mutation of signature.ty left open']
    fields = driver_json(ctx, b, 'fields')
    sigtypes = fields['crypto_usable']
    skipped = sorted(set(fields['crypto']) - set(sigtypes))
    ctx.extra['reflected_fields'] = dict(tx=fields['tx_fields'], sig=fields['sig_fields'])
    ctx.extra['fields_match_spec_constant'] = (sorted(fields['tx_fields']) == sorted(KNOWN_TX)
                                               and sorted(fields['sig_fields']) == sorted(KNOWN_SIG))
    if not ctx.extra['fields_match_spec_constant']:
        ctx.notes.append('protobuf field lists differ from KnownTxFields/KnownSigFields of TxField.tla: rows generated for the reflected lists')
    if skipped:
        ctx.notes.append('registered crypto drivers without a generic signer in the harness (not exercised): %s' % skipped)
    fmts = [0, 2]
    total = 0
    for ci, cname in enumerate(['default', 'gated', 'select']):
        off, gated = ccfg_sets(cname, sigtypes)
        d = ctx.stage()
        ctx.write_cfg(d, 'f_mc.cfg', field_cfg(fields, sigtypes, off, gated, fmts, False, False))
        ctx.write_cfg(d, 'f_all.cfg', field_cfg(fields, sigtypes, off, gated, fmts, True, True))
        r = ctx.tlc_mc('TxField_MC', 'f_mc.cfg', workers=2, timeout=3600, stage=d, coverage=(not q and ci == 0))
        no_dead_actions(r, 'TxField')
        rows = ctx.tlc_genall('TxField_All', 'f_all.cfg', stage=d, timeout=3600)
        for r in rows:
            r['id'] = '%s-%s' % (cname, r['id'])
        total += len(rows)
        opts = ccfg_opts(cname)
        opts['ccfg'] = cname
        ctx.replay(b, rows, opts=opts, par=8, timeout=3600)
        ctx.replay(b, rows, opts=dict(opts, via='wire', salt=1), par=8, timeout=3600, count=False)
        if not q:
            for salt in range(2, 5):
                ctx.replay(b, rows, opts=dict(opts, salt=salt), par=8, timeout=3600, count=False)
    ctx.exhaustive = True
    ctx.extra['table_rows'] = total
    if not q:
        selftest_flip(ctx, b, rows, ccfg_opts('select'))


def selftest_flip(ctx, b, rows, opts):
    """Binding self-test: a row with one predicted observation flipped must be rejected by the replayer."""
    import copy
    bad = None
    for r in rows:
        for s in r['steps']:
            if s.get('op') == 'Observe' and isinstance(s.get('ret'), dict) and s['ret'].get('hash') == 'changed':
                bad = copy.deepcopy(r)
                for t in bad['steps']:
                    if t.get('op') == 'Observe':
                        t['ret']['hash'] = 'same'
                break
        if bad:
            break
    if not bad:
        return
    keep, ctx.mismatches = ctx.mismatches, []
    ctx.replay(b, [bad], opts=opts, par=1, count=False)
    caught = len(ctx.mismatches) > 0
    for m in ctx.mismatches:
        try:
            os.remove(m.get('replay', ''))
        except OSError:
            pass
    ctx.mismatches = keep
    if not caught:
        raise vlib.Broken('binding self-test failed: a flipped expectation was accepted by the replayer')
    ctx.extra['selftest_flipped_row_rejected'] = True


# --------------------------------------------------------------------------------------------
# C17

def group_cfg(sizes, allpos, fields, emit, allmod):
    lines = ['SPECIFICATION %s' % ('ASpec' if allmod else 'Spec'), 'CONSTANTS',
             '  Sizes = %s' % tla_set(sizes, quote=False),
             '  Kinds = {"main", "para"}',
             '  AlterFields = %s' % tla_set(fields),
             '  AllPos = %s' % ('TRUE' if allpos else 'FALSE'),
             '  MaxGroup = 20',
             '  EmitOn = %s' % ('TRUE' if emit else 'FALSE')]
    if allmod:
        lines += ['INVARIANT Export']
    else:
        lines += ['VIEW view', 'INVARIANTS TypeOK CreatedPasses TamperEvident FeeRules']
    lines += ['CHECK_DEADLOCK FALSE']
    return '\n'.join(lines) + '\n'


def run_c17(ctx, b):
    q = ctx.tier == 'quick'
    ctx.rule = ('behaviours = every row of TxGroup.tla exported exhaustively by TLC: Create(n, main|para) ; Observe ; Mutate(m) ; '
                'Observe, the group built by types.CreateTxGroup and signed by its members; non-trivial = a row with a mutation '
                '(the unmutated group must pass, the mutated one must fail Check or CheckSign); distinct by abstract row')
    ctx.assumptions += ['hash / signature cryptography trusted (free constructors in the model)',
                        'member contents, keys, fee rate and heights are seeded samples',
                        'which of Check / CheckSign rejects is not compared']
    fields = driver_json(ctx, b, 'fields')
    txf = fields['tx_fields']
    if q:
        plans = [([2, 3, 20], False)]
    else:
        plans = [(list(range(2, 11)), True), (list(range(11, 17)), True), ([17, 18], True), ([19, 20], True)]
    total = 0
    for pi, (sizes, allpos) in enumerate(plans):
        d = ctx.stage()
        ctx.write_cfg(d, 'g_mc.cfg', group_cfg(sizes, allpos, txf, False, False))
        ctx.write_cfg(d, 'g_all.cfg', group_cfg(sizes, allpos, txf, True, True))
        r = ctx.tlc_mc('TxGroup_MC', 'g_mc.cfg', workers=2, timeout=5400, stage=d, coverage=(not q and pi == 0))
        no_dead_actions(r, 'TxGroup')
        rows = ctx.tlc_genall('TxGroup_All', 'g_all.cfg', stage=d, timeout=5400)
        for r in rows:
            r['id'] = 'p%d-%s' % (pi, r['id'])
        total += len(rows)
        ctx.replay(b, rows, opts={}, par=8, timeout=5400)
        ctx.replay(b, rows, opts=dict(salt=1, sigs='secp256k1'), par=8, timeout=5400, count=False)
        if not q and pi == 0:
            for salt in range(2, 5):
                ctx.replay(b, rows, opts=dict(salt=salt), par=8, timeout=5400, count=False)
    ctx.exhaustive = True
    ctx.extra['table_rows'] = total
    if not q:
        # binding self-test: predicted verdict flipped
        import copy
        bad = copy.deepcopy(rows[0])
        for s in bad['steps']:
            if s.get('op') == 'Observe' and s.get('mutated'):
                s['ret']['pass'] = True
        keep, ctx.mismatches = ctx.mismatches, []
        ctx.replay(b, [bad], opts={}, par=1, count=False)
        caught = len(ctx.mismatches) > 0
        for m in ctx.mismatches:
            try:
                os.remove(m.get('replay', ''))
            except OSError:
                pass
        ctx.mismatches = keep
        if not caught:
            raise vlib.Broken('binding self-test failed: a flipped verdict was accepted by the replayer')
        ctx.extra['selftest_flipped_row_rejected'] = True


# --------------------------------------------------------------------------------------------
# C19

# node configurations: enable heights of the address drivers, fork heights, gated signature type
PCFGS = {
    # the probed shape: eth address driver enabled from height 100
    'A': dict(enms=0, eneth=100, fkms=0, fkb58=0, fkfmt=0, sigtype='ed25519', ensig=100),
    # two address drivers gated at different heights, the compatibility forks between and above them
    'B': dict(enms=100, eneth=200, fkms=200, fkb58=100, fkfmt=200, sigtype='sm2', ensig=200),
    # everything enabled from 0, only the forks move (error-dependent compatibility, address formatting)
    'C': dict(enms=0, eneth=0, fkms=300, fkb58=300, fkfmt=300, sigtype='secp256r1', ensig=300),
    # the stock default: the eth address driver (and one signature type) disabled by a negative enable height -
    # off at every block height, but on where there is no height context (-1: rpc, wallet, account, CLI paths)
    'D': dict(enms=0, eneth=-2, fkms=0, fkb58=0, fkfmt=0, sigtype='secp256r1', ensig=-1),
}


def pure_heights(c):
    """below / at / above every positive boundary; a negative enable height separates -1 from every h >= 0
    (-1 itself is added by NoCtx in every configuration)."""
    hs = set()
    for k in ('enms', 'eneth', 'fkms', 'fkb58', 'fkfmt', 'ensig'):
        if c[k] > 0:
            hs |= {c[k] - 1, c[k], c[k] + 1}
        elif c[k] < 0:
            hs |= {0, 10}
    return sorted(hs)


def pure_cfg(c, heights, noctx, maxlen, mode, mech, emit, kind):
    ck, order, pk = mech
    lines = ['SPECIFICATION %s' % {'mc': 'Spec', 'all': 'ASpec', 'trace': 'TSpec'}[kind], 'CONSTANTS',
             '  Heights = %s' % tla_set(heights, quote=False),
             '  NoCtx = %s' % ('TRUE' if noctx else 'FALSE'),
             '  EnMs = %d' % max(c['enms'], 0), '  EnEth = %d' % max(c['eneth'], 0), '  FkMs = %d' % c['fkms'],
             '  FkB58 = %d' % c['fkb58'], '  FkFmt = %d' % c['fkfmt'], '  EnSig = %d' % max(c['ensig'], 0),
             '  OffDrivers = %s' % tla_set([i for i, k in ((1, 'enms'), (2, 'eneth')) if c[k] < 0], quote=False),
             '  SigOff = %s' % ('TRUE' if c['ensig'] < 0 else 'FALSE'),
             '  MaxLen = %d' % maxlen, '  Mode = "%s"' % mode,
             '  CacheKey = "%s"' % ck, '  Order = "%s"' % order, '  PkCache = "%s"' % pk,
             '  EmitOn = %s' % ('TRUE' if emit else 'FALSE')]
    if kind == 'mc':
        lines += ['VIEW view', 'INVARIANTS TypeOK Pure' + (' CacheSound' if mech == REPAIRED else '')]
    elif kind == 'all':
        lines += ['INVARIANT Export']
    else:
        lines += ['INVARIANTS Mark TypeOK Pure CacheSound', 'POSTCONDITION TraceDone']
    lines += ['CHECK_DEADLOCK FALSE']
    return '\n'.join(lines) + '\n'


REPAIRED = ('addr+enabled', 'id', 'raw')
AS_FOUND = [('addr', 'id', 'raw'), ('addr+enabled', 'map', 'raw'), ('addr+enabled', 'id', 'formatted')]
GATED_KEY = ('addr+gated', 'id', 'raw')   # key counts only positively gated drivers: wrong with a negative enable height


def run_c19(ctx, b):
    q = ctx.tier == 'quick'
    ctx.rule = ('behaviours = every height sequence of length L exported exhaustively by TLC from Pure.tla (a step = the node at '
                'height h checking every input class through every operation), each replayed in its own long-lived process and '
                'compared answer by answer with the fresh-process binding table, plus TLC-simulated single-input histories and '
                'recorded random histories validated by Pure_Trace; non-trivial = some input is queried at two heights on '
                'different sides of an enable or fork height; distinct by abstract history and configuration')
    ctx.assumptions += ['Go map iteration orders are sampled (several concrete inputs per class, repeated fresh processes), not enumerated',
                        'fresh oracle = fresh processes asked every input once at one height, cross-checked by single-question processes',
                        'configurations set through address.Init / crypto.Init / Chain33Config.SetFork / crypto client context']
    verd = driver_json(ctx, b, 'verdicts', dict(PCFGS['A'], cfg='A'))
    ctx.extra['verdict_table_matches_code'] = check_verdicts(ctx, verd)
    # (configuration, history length, export every node-step history?, process-level repetitions, simulated histories)
    if q:
        plan = [('A', 4, True, 0, 30), ('B', 4, False, 0, 30), ('D', 4, True, 0, 20)]
    else:
        plan = [('A', 4, True, 2, 200), ('B', 4, True, 2, 200), ('C', 4, True, 2, 200), ('D', 4, True, 2, 100)]
    for ci, (cname, L, export, nrep, nsim) in enumerate(plan):
        c = PCFGS[cname]
        heights = pure_heights(c)
        noctx = True
        if cname == 'B':
            # purity depends on the side of each boundary, not on adjacency: keep below/at of both boundaries
            # (100 and 199 lie between them), -1 stands above all of them
            heights = [h for h in heights if h not in (101, 201)]
        d = ctx.stage()
        # 1. the property on the mechanism as repaired (this is what the code is claimed to be)
        if export:
            ctx.write_cfg(d, 'p_mc.cfg', pure_cfg(c, heights, noctx, L, 'all', REPAIRED, False, 'mc'))
            ctx.tlc_mc('Pure_MC', 'p_mc.cfg', workers=2, timeout=3600, stage=d, coverage=(not q and ci == 0))
        if not q or not export:
            ctx.write_cfg(d, 'p_mcs.cfg', pure_cfg(c, heights, noctx, 3, 'single', REPAIRED, False, 'mc'))
            ctx.tlc_mc('Pure_MC', 'p_mcs.cfg', workers=2, timeout=3600, stage=d)
        # 2. anti-vacuity of the model: the mechanism as found violates Pure (candidates; only replays decide)
        if cname == 'B' or not q:
            found = []
            for mech in AS_FOUND:
                ctx.write_cfg(d, 'p_af.cfg', pure_cfg(c, heights, noctx, 3, 'all', mech, False, 'mc'))
                r = quiet_expected_violation(lambda: ctx.tlc_mc('Pure_MC', 'p_af.cfg', workers=2, timeout=3600, stage=d,
                                                                 expect_violation=True, count=False))
                found.append(bool(r['violation']))
            ctx.extra.setdefault('as_found_mechanisms_violate_Pure', {})[cname] = found
            if cname == 'B' and not all(found):
                raise vlib.Broken('Pure.tla: an as-found mechanism no longer violates Pure under configuration B (model vacuous)')
        if cname == 'D':
            ctx.write_cfg(d, 'p_af.cfg', pure_cfg(c, heights, noctx, 3, 'all', GATED_KEY, False, 'mc'))
            r = quiet_expected_violation(lambda: ctx.tlc_mc('Pure_MC', 'p_af.cfg', workers=2, timeout=3600, stage=d,
                                                             expect_violation=True, count=False))
            ctx.extra.setdefault('as_found_mechanisms_violate_Pure', {})['D:addr+gated'] = bool(r['violation'])
            if not r['violation']:
                raise vlib.Broken('Pure.tla: the key without negatively gated drivers no longer violates Pure under configuration D')
        opts = dict(c, cfg=cname, inst=3, reps=5, strict=(6 if q else 10))
        nhist = 0
        if export:
            # 3. every history of L node steps
            ctx.write_cfg(d, 'p_all.cfg', pure_cfg(c, heights, noctx, L, 'all', REPAIRED, True, 'all'))
            hist = ctx.tlc_genall('Pure_All', 'p_all.cfg', stage=d, timeout=3600)
            for r in hist:
                r['id'] = '%s-%s' % (cname, r['id'])
            nhist = len(hist)
            ctx.replay(b, hist, opts=opts, par=8, timeout=14400)
            if nrep:
                # process-level repetitions (map order, scheduling) of the 3-step prefixes
                seen, uniq = set(), []
                for r in hist:
                    k = json.dumps([s['h'] for s in r['steps'][:3]])
                    if k not in seen:
                        seen.add(k)
                        uniq.append(dict(r, steps=r['steps'][:3]))
                for rep in range(1, nrep + 1):
                    ctx.replay(b, uniq, opts=dict(opts, salt=rep), par=8, timeout=14400, count=False)
        # 4. single-input histories in arbitrary interleavings
        ctx.write_cfg(d, 'p_gen.cfg', pure_cfg(c, heights, noctx, 8, 'single', REPAIRED, True, 'mc').replace('VIEW view\n', '').replace('INVARIANTS TypeOK Pure CacheSound\n', ''))
        sims = ctx.tlc_sim('Pure_MC', 'p_gen.cfg', num=nsim, depth=9, stage=d)
        for r in sims:
            r['id'] = '%s-%s' % (cname, r['id'])
        ctx.replay(b, sims, opts=opts, par=8, timeout=14400)
        ctx.extra.setdefault('histories', {})[cname] = dict(node_step_histories=nhist, single_input_histories=len(sims), heights=heights + [-1])
    ctx.exhaustive = False  # exhaustive over abstract height sequences; inputs / map orders sampled
    # 5. recorded random histories, validated by the trace specification
    c = PCFGS['B']
    d = ctx.stage()
    ctx.write_cfg(d, 'p_trace.cfg', pure_cfg(c, pure_heights(c), True, 1000000, 'single', REPAIRED, False, 'trace'))
    r, _ = ctx.validate_recording(b, 'Pure_Trace', 'p_trace.cfg', recorder='pure',
                                  opts=dict(c, cfg='B', n=(3 if q else 30), depth=(15 if q else 40), inst=2, reps=3, strict=3),
                                  selftest=False, stage=d, timeout=3600)
    if r['accepted']:
        # binding self-test (anti-vacuity): one recorded answer corrupted must be rejected
        tp = os.path.join(d, 'trace.ndjson')
        lines = [json.loads(x) for x in open(tp) if x.strip()]
        idx = max(i for i, ev in enumerate(lines) if ev.get('ev') == 'Ans')
        lines[idx]['ret'] = lines[idx]['ret'] + '~'
        bad = os.path.join(ctx.scratch, 'trace-bad.ndjson')
        with open(bad, 'w') as f:
            for ev in lines:
                f.write(json.dumps(ev) + '\n')
        r2 = ctx.tlc_trace('Pure_Trace', 'p_trace.cfg', bad, stage=d, timeout=3600)
        if r2['accepted']:
            raise vlib.Broken('binding self-test failed: a corrupted answer (event %d) was accepted by Pure_Trace' % idx)
        ctx.extra['selftest_corrupted_trace_rejected'] = True


def quiet_expected_violation(fn):
    """Run a TLC self-test whose counterexample is expected: its log line must not look like a verdict."""
    old = vlib.log
    vlib.log = lambda *a: old(*[str(x).replace('VIOLATION', 'counterexample (expected, as-found mechanism):') for x in a])
    try:
        return fn()
    finally:
        vlib.log = old


V_SPEC = {  # V(d, c) of Pure.tla
    'btc': ['nil', 'ErrCheckVersion', 'ErrInvalidEthAddr', 'ErrAddressType'],
    'exec': ['nil', 'ErrCheckVersion', 'ErrInvalidEthAddr', 'ErrAddressType'],
    'ms': ['ErrCheckVersion', 'nil', 'ErrInvalidEthAddr', 'ErrAddressType'],
    'badver': ['ErrCheckVersion', 'ErrCheckVersion', 'ErrInvalidEthAddr', 'ErrAddressType'],
    'badsum': ['ErrCheckChecksum', 'ErrCheckVersion', 'ErrInvalidEthAddr', 'ErrAddressType'],
    'longsum': ['ErrAddressChecksum', 'ErrCheckVersion', 'ErrInvalidEthAddr', 'ErrAddressType'],
    'eth': ['ErrAddressLength', 'ErrAddressLength', 'nil', 'ErrAddressType'],
    'ethmix': ['ErrAddressLength', 'ErrAddressLength', 'nil', 'ErrAddressType'],
    'junk': ['ErrAddressLength', 'ErrAddressLength', 'ErrInvalidEthAddr', 'ErrAddressType'],
}


def check_verdicts(ctx, verd):
    ok = True
    for cls, exp in V_SPEC.items():
        got = [verd.get(cls, {}).get(str(i)) for i in range(4)]
        if got != exp:
            ok = False
            ctx.notes.append('driver verdict table V of Pure.tla differs from the code for class %s: spec %s, code %s '
                             '(only affects where the as-found model is order dependent)' % (cls, exp, got))
    return ok


def run(ctx):
    b = vlib.build(DRIVER)
    if ctx.prop == 'C16':
        run_c16(ctx, b)
    elif ctx.prop == 'C17':
        run_c17(ctx, b)
    elif ctx.prop == 'C19':
        run_c19(ctx, b)
    else:
        raise vlib.Broken('unknown property ' + ctx.prop)


import vlib  # noqa: E402
