"""C31 — blacklisted accounts cannot transact (types/account_blacklist.go, executor/execenv.go,
system/consensus/base.go, system/mempool/check.go + eventprocess.go). Family Blacklist, decision table."""
import copy

FAMILY = 'Blacklist'
DRIVER = 'pack'
PROPS = {
    'C31': dict(
        text='TLC enumerates the decision table Blacklist.tla — position of the blacklisted account {from, to, real recipient '
             '(para-chain payload), EVM contract, EVM 20-byte transfer target} x shape {single, member i of a group of 2-3, '
             'delayed through a none CommitDelayTx, proxy-exec EVM transaction carrying the real transaction} x listing spelling '
             '(base58, 0x-lower, checksum, upper without 0x, 0X-upper) x spelling inside the transaction (6 hex spellings) x height '
             '{fork-1, fork, fork+1}, main and para chain — and checks the statement on it. Every row is replayed on a real node '
             '(executor, mempool, blockchain, consensus BaseClient; fork height from the toml configuration): EventExecTxList at '
             'the row height, AddTxsToBlock, SendTx / EventAddDelayTx at tip heights below, at and above the fork, a foreign block '
             'manufactured with the list cleared and delivered through the verifying path, and the commit-in-a-block delay path. '
             'Each leg is first run on the identical transaction with the list cleared (must succeed), then with the list installed.',
        note='The EVM positions use a synthetic "evm" executor registered by the harness (the real EVM is a plugin outside this '
             'repository): what is exercised is the rule, not EVM execution. "Successfully executed" is receipt type ExecOk. '
             'Nothing is demanded of clean rows or below the fork (controls). Spelling variants are those the eth address driver '
             'accepts (IsHexAddress); a base58 address has a single spelling.',
    ),
}
HOOK_COMMITS = []
FORK_H = 5


def project(rows, keys, op='Row'):
    out = []
    for b in rows:
        nb = copy.deepcopy(b)
        for s in nb['steps']:
            s['op'] = op
            s['ret'] = {k: v for k, v in s['ret'].items() if k in keys}
        out.append(nb)
    return out


def run(ctx):
    q = ctx.tier == 'quick'
    ctx.rule = ('rows = every (chain, position, shape, account/listing, spelling, height) combination of the table, exported '
                'exhaustively by TLC; each row is one real transaction (coins transfer / synthetic evm call / group / proxy-exec '
                'wrapper / delayed) run through the exec, pack, pool and block legs with the list cleared (control) and installed; '
                'non-trivial = a row at or above the fork height with a blacklisted position (or a touching delayed row on the '
                'commit-in-a-block path); distinct by abstract row')
    ctx.assumptions += ['synthetic evm executor stands in for the plugin EVM', 'crypto/protobuf trusted',
                        'fork height 5; tip heights 3,4,5; group sizes 2-3']
    T = 3600
    ctx.tlc_mc('Blacklist_MC', 'Blacklist_MCq.cfg' if q else 'Blacklist_MC.cfg', workers=2, timeout=T)
    b = vlib.build(DRIVER)
    rows = ctx.tlc_genall('Blacklist_All', 'Blacklist_Allq.cfg' if q else 'Blacklist_All.cfg', timeout=T)
    rows_p = ctx.tlc_genall('Blacklist_All', 'Blacklist_AllPq.cfg' if q else 'Blacklist_AllP.cfg', timeout=T)
    for x in rows_p:
        x['id'] = 'p' + x['id'][1:]
    ctx.extra['exhaustive_rows'] = dict(main=len(rows), para=len(rows_p))
    legs = ('exec', 'pack', 'pool', 'block')
    for chain, rs in (('main', rows), ('para', rows_p)):
        for h in (FORK_H - 1, FORK_H, FORK_H + 1):
            sub = project([x for x in rs if x['steps'][0]['h'] == h], legs)
            if not sub:
                continue
            # one fresh node per (chain, height): its tip is h-1, so that the block leg can deliver a block at h
            ctx.replay(b, sub, opts=dict(tip=h - 1, chain=chain), par=1, timeout=T)
            if not q:
                ctx.replay(b, sub, opts=dict(tip=h - 1, chain=chain, salt=1), par=1, timeout=T, count=False)
    # the commit-in-a-block path of delayed transactions (independent of the row height: one height is enough)
    dl = project([x for x in rows if x['steps'][0]['shape'] == 'delayed' and x['steps'][0]['h'] == FORK_H], ('delaychain',),
                 op='DelayChain')
    for x in dl:
        x['id'] = 'd' + x['id'][1:]
    ctx.replay(b, dl, opts=dict(tip=FORK_H - 2, chain='main'), par=1, timeout=T)
    ctx.exhaustive = True   # every row of the bounded table is replayed (concretisation of free choices is seeded)
    # binding self-test: a row whose expectation is flipped must be reported by the replayer
    flip = copy.deepcopy([x for x in project(rows, legs) if x['steps'][0]['pos'] == 'to' and x['steps'][0]['shape'] == 'single'
                          and x['steps'][0]['h'] == FORK_H][:1])
    flip[0]['steps'][0]['ret']['exec'] = 'ok'
    flip[0]['id'] = 'selftest'
    saved = list(ctx.mismatches)
    ctx.replay(b, flip, opts=dict(tip=FORK_H - 1, chain='main'), par=1, timeout=T, count=False)
    caught = len(ctx.mismatches) > len(saved)
    for m in ctx.mismatches[len(saved):]:
        try:
            import os
            os.remove(m.get('replay'))
        except Exception:
            pass
    ctx.mismatches = saved
    if not caught:
        raise vlib.Broken('binding self-test failed: a flipped expectation was not reported')
    ctx.extra['selftest_flipped_expectation_reported'] = True


import vlib  # noqa: E402
