"""C24 — score-ordered queue (common/skiplist Queue). Family SkipQueue, reference model."""
FAMILY = 'SkipQueue'
DRIVER = 'skipqueue'
HOOK_COMMITS = []
PROPS = {
    'C24': dict(
        text='TLC exhaustively checks the SkipQueue reference model (queue sorted by score descending with ties in arrival '
             'order, never above capacity, no duplicate member; a full queue admits a newcomer only by evicting its last '
             'entry and only if the newcomer ranks strictly higher; relative order of members is stable) on small '
             'constants; every push/remove sequence of 5 (quick: 4) calls over 4 items with scores {0,0,1,-1} and every '
             'capacity in {1,2,3} is exported exhaustively by TLC and replayed into the real skiplist.Queue under 8 (quick: 4) '
             'math/rand seeds (the skip list levels are random), comparing after every call the reply class, Walk order, '
             'Walk with a count, First, Last, Size, GetCacheBytes and Exist/GetItem of every id; depth-40 TLC simulations '
             'over 10 ids with re-pushed ids and negative scores, and seeded random recordings over 12 ids validated by '
             'the trace specification.',
        note='Ties are broken by arrival order (the test Scorer.Compare never ranks a newcomer above an equal-score '
             'member); capacity >= 1; the level structure itself is not observed, only its effect on the public API. '
             'TLC bounds: <= 6 items, capacities 1-5, <= 12 calls exhaustive (quick: 9) / 40 simulated.',
    ),
}


def run(ctx):
    q = ctx.tier == 'quick'
    ctx.rule = ('behaviours = (a) GEN-all: every sequence of %d Push/Remove calls over 4 items (two of equal score, one higher, one '
                'negative) for each capacity, each replayed under %d math/rand seeds; (b) TLC -simulate of SkipQueue.tla (depth 40, 10 ids, '
                'capacities 1,2,3,5); (c) seeded random recordings. After every call the reply and the whole observable queue state '
                'are compared. non-trivial = two members of equal score at some point, or a push on a full queue; distinct by abstract '
                'call sequence' % (4 if q else 5, 4 if q else 8))
    ctx.assumptions += ['tie-break = arrival order (Scorer.Compare of the harness)', 'capacity >= 1',
                        'TLC bounds: <= 6 items exhaustive, <= 10 simulated, MaxOps <= 40']
    if q:
        _mc(ctx, 'SkipQueue_MC', 'SkipQueue_MCq.cfg', workers=2, timeout=1800)
    else:
        _mc(ctx, 'SkipQueue_MC', 'SkipQueue_MCq.cfg', workers=2, timeout=1800, coverage=True)
        _mc(ctx, 'SkipQueue_MC', 'SkipQueue_MC.cfg', workers=4, timeout=7200)
    b = vlib.build(DRIVER)
    allb = ctx.tlc_genall('SkipQueue_All', 'SkipQueue_Allq.cfg' if q else 'SkipQueue_All.cfg', timeout=7200)
    # par=1: the skip list uses the global math/rand source; single-threaded replays reproduce the same levels
    for rs in range(4 if q else 8):
        ctx.replay(b, allb, opts=dict(rseed=rs), par=1, count=(rs == 0), timeout=7200)
    _replay_selftest(ctx, b, allb, dict(rseed=0))
    ctx.exhaustive = False  # exhaustive over the abstract call sequences of the small config; rand seeds are sampled
    ctx.extra['exhaustive_small_config'] = dict(cfg='SkipQueue_Allq.cfg' if q else 'SkipQueue_All.cfg', behaviours=len(allb),
                                                rand_seeds=4 if q else 8)
    n = 200 if q else 1500
    for sd in range(1 if q else 3):
        bs = ctx.tlc_sim('SkipQueue_MC', 'SkipQueue_Gen.cfg', num=n, depth=41, seed=ctx.seed * 100 + sd, timeout=3600)
        for rs in range(2 if q else 4):
            ctx.replay(b, bs, opts=dict(rseed=10 * sd + rs), par=1, count=(rs == 0), timeout=7200)
    ctx.validate_recording(b, 'SkipQueue_Trace', 'SkipQueue_Trace.cfg',
                           opts=dict(n=15 if q else 120, ids=12, k=2, maxcap=6, depth=60), selftest=True, timeout=7200)


def _replay_selftest(ctx, b, bs, opts, par=1):
    """Anti-vacuity: one behaviour with one predicted reply flipped must be rejected by the replayer."""
    import copy
    import os
    bad = None
    for cand in bs[:50]:
        for i, st in enumerate(cand['steps']):
            if i > 0 and st.get('ret') == 'ok' and st.get('op') not in ('Save', 'Load', 'JLoad', 'New'):
                bad = copy.deepcopy(cand)
                bad['id'] = 'selftest'
                bad['steps'][i]['ret'] = 'flipped'
                break
        if bad:
            break
    if not bad:
        ctx.notes.append('replay selftest: no corruptible behaviour')
        return
    n = len(ctx.mismatches)
    ctx.replay(b, [bad], opts=opts, par=par, count=False, name='selftest-%d.ndjson' % n)
    got = ctx.mismatches[n:]
    del ctx.mismatches[n:]
    for m in got:
        try:
            os.remove(m.get('replay') or '')
        except OSError:
            pass
    if not got:
        raise vlib.Broken('binding self-test failed: a behaviour with a flipped reply was accepted by the replayer')
    ctx.extra['selftest_flipped_reply_rejected'] = True


def _mc(ctx, module, cfg, **kw):
    r = ctx.tlc_mc(module, cfg, **kw)
    if kw.get('coverage') and r.get('zero_actions'):
        raise vlib.Broken('vacuous model: actions never taken in %s/%s: %s' % (module, cfg, r['zero_actions'][:5]))
    return r


import vlib  # noqa: E402
