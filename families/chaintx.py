"""C28 — no replayed, expired or mis-signed transaction on the best chain, whichever way a block arrived
(util/exec.go, util/util.go PreExecBlock, blockchain/query_tx.go + txHeightCache, executor/execenv.go checkTx,
system/mempool, system/consensus/solo). Family ChainTx, mechanism model."""
import os
import random
import re

FAMILY = 'ChainTx'
DRIVER = 'chaintx'
HOOK_COMMITS = ['92bfc1f']  # system/consensus/solo: gate at the top of the block-creation loop

PROPS = {
    'C28': dict(
        text='TLC checks on a mechanism model of both arrival paths - producer: pool admission (signature, fee, chain id, expiry '
             'at the next height, duplicate lookup in the tx index / the height-window cache, pool) and one iteration of the solo '
             'block loop; peer: PreExecBlock validation of a block on the tip or of a heavier sibling of the tip (tip disconnected, '
             'its transactions re-admitted by the pool, chain left at the fork point when the sibling is invalid) - that in every '
             'reachable state every transaction of the best chain is correctly signed, unique, unexpired at its block\'s height '
             'and time and fee / chain-id valid, for transactions without expiry, height-bounded, time-bounded, TxHeight-window, '
             'under-paid, foreign-chain and hash-equal twins with other signature bytes. Exhaustively exported and simulated '
             'histories are replayed on fresh real nodes (testnode; the real solo producer run one gated iteration at a time; peer '
             'blocks manufactured by a factory node whose header state is that of a producer NOT applying the violated rule, '
             'delivered through ProcessBlock / ProcAddBlockMsg): after every step the property is evaluated on the REAL best chain '
             '(every block: CheckSign, IsExpire, Check, duplicate scan, tx lookup by hash, each doubled by the harness\'s own record '
             'of what it signed and the model\'s expiry arithmetic on the real heights and times) and the reply, best chain, pool '
             'and duplicate lookups are compared with the model. Recorded random walks over more ids and longer histories are '
             'validated by the trace specification. Histories with the start-up cache rebuild (InitCache) interleaved are exported '
             'exhaustively (SpecR) and replayed the same way.',
        note='Mechanism model; error codes abstracted to accept / reject; order inside a block not compared; a node restart is represented by '
             'its only effect on what this property reads - the start-up rebuild of the volatile lookup caches from the database '
             '(action Reinit = BlockChain.InitCache called on the idle node; the abstract state is the database, so every duplicate '
             'lookup must answer after it as before), explored exhaustively over 5-event histories with a 3-block window and the '
             'receivers\' block cache cut to 2 blocks so that the two rebuild ranges differ (catches seeded change C28-1, a narrowed '
             'rebuild window); a full process restart on the same data directory is explored by C29 only; reorganisations one '
             'block deep (after deeper ones the pool\'s re-admission depends on bus scheduling, which this property does not '
             'constrain); no transaction groups; TxHeight window shortened to LO+HI = 2..3 blocks through the node configuration '
             '(lowAllowPackHeight / highAllowPackHeight) so that both window edges lie inside the enumerated histories; time-bounded '
             'transactions reach the chain through peer blocks only (the pool compares their expiry with the wall clock). '
             'Defect found and repaired in /repo dd20715: PreExecBlock skipped the signature check by transaction hash.',
    ),
}


def _cfg(ctx, d, base, name, append=None, **repl):
    t = open(os.path.join(d, base)).read()
    for k, v in repl.items():
        t, n = re.subn(r'(?m)^\s*%s\s*(<-|=).*$' % re.escape(k), '  %s %s %s' % (k, '<-' if k == 'Profiles' else '=', v), t)
        if not n:
            raise vlib.Broken('cfg %s has no constant %s' % (base, k))
    if append:
        t += '\n' + append + '\n'
    ctx.write_cfg(d, name, t)
    return name


def run(ctx):
    q = ctx.tier == 'quick'
    rnd = random.Random(ctx.seed)
    ctx.rule = ('behaviours = every history of 3 events over 2 ids with a twin (TLC exhaustive export, sampled in the quick tier), every 5-event '
                'history over a window transaction and two fillers with the start-up cache rebuild interleaved (sampled; all sampled ones that '
                'rebuild with the window transaction three blocks deep first) plus '
                'TLC-simulated histories of 6 events over 4 ids under 4 attribute profiles, each replayed on a fresh real node with the '
                'property evaluated on the real chain after every step; non-trivial = the history offers a duplicate, expired, '
                'statically invalid or mis-signed transaction through either path (a Submit / Extend / Fork the model rejects, or a '
                'producer iteration that leaves a pooled transaction unpacked); distinct by abstract step sequence')
    ctx.assumptions += ['hash functions, secp256k1 and LevelDB trusted', 'solo consensus as producer (no other consensus plugin in the repository)',
                        'reorganisations one block deep', 'TxHeight window set to 2..3 blocks by configuration', 'TLC bounds as stated in the manifest note']
    b = vlib.build(DRIVER)
    d = ctx.stage()
    try:
        # --- model checking: the property on the mechanism (repaired code), and the refutation on the code as found
        ctx.tlc_mc('ChainTx_MC', 'ChainTx_MCq.cfg' if q else 'ChainTx_MC.cfg', workers=4, timeout=7200, stage=d)
        ctx.tlc_mc('ChainTx_MC', _cfg(ctx, d, 'ChainTx_MCq.cfg', 'ChainTx_MCw.cfg', LO='2', HI='1', MaxEv='4' if q else '5',
                                       Profiles='ProfilesT'), workers=4, timeout=7200, stage=d)
        r = ctx.tlc_mc('ChainTx_MC', 'ChainTx_Old.cfg', workers=2, timeout=3600, stage=d, expect_violation=True, count=False)
        ctx.extra['tlc_refutes_SigOK_on_code_as_found'] = (r['violation'] == 'SigOK')
        if r['violation'] != 'SigOK':
            raise vlib.Broken('the pre-repair mechanism (FixSig = FALSE) no longer yields the twin counterexample')
        if not q:
            r = ctx.tlc_mc('ChainTx_MC', 'ChainTx_MCq.cfg', workers=2, timeout=7200, stage=d, coverage=True, count=False)
            if r.get('zero_actions'):
                raise vlib.Broken('vacuous: actions never taken: %s' % r['zero_actions'][:3])
            for probe in ('NeverTwoOnChain', 'NeverReadmit'):
                r = ctx.tlc_mc('ChainTx_MC', _cfg(ctx, d, 'ChainTx_MCq.cfg', 'ChainTx_%s.cfg' % probe, append='INVARIANTS ' + probe),
                               workers=2, timeout=3600, stage=d, expect_violation=True, count=False)
                if r['violation'] != probe:
                    raise vlib.Broken('vacuous: %s is never reached' % probe)
        # --- exhaustive histories of the twin configuration
        allb = ctx.tlc_genall('ChainTx_All', 'ChainTx_All.cfg', stage=d, timeout=3600)
        ctx.extra['exhaustive_histories_2ids_3events'] = len(allb)
        # the candidate TLC finds on the code as found, and its relatives, are always replayed
        def _twin(x):
            st = x['steps']
            return any(s.get('op') == 'Submit' and s['x'] == [1, 'g'] and s['ret'] == 'ok' for s in st) and \
                any(s.get('op') in ('Extend', 'Fork') and [1, 'b'] in s['txs'] for s in st)
        twins = [x for x in allb if _twin(x)]
        rest = [x for x in allb if not _twin(x)]
        rnd.shuffle(rest)
        rnd.shuffle(twins)
        keep = twins[:40 if q else 400] + rest[:40 if q else 900]
        ctx.extra['replayed_exhaustive_histories'] = len(keep)
        half = len(keep) // 2
        ctx.replay(b, keep[:half], opts=dict(twin='sig', via='process'), par=6, timeout=14400)
        ctx.replay(b, keep[half:], opts=dict(twin='key', via='msg', salt=1), par=6, timeout=14400)
        # --- exhaustive histories around the TxHeight window: a window transaction and a filler, 4 events, single-transaction blocks
        allh = ctx.tlc_genall('ChainTx_All', 'ChainTx_AllH.cfg', stage=d, timeout=3600)
        ctx.extra['exhaustive_histories_txheight_window'] = len(allh)
        twice = [x for x in allh if sum(1 for s in x['steps'] if s.get('op') in ('Extend', 'Fork') and s['txs'] == [[1, 'g']]) >= 2]
        other = [x for x in allh if x not in twice]
        rnd.shuffle(twice)
        rnd.shuffle(other)
        keeph = twice[:70 if q else 390] + other[:20 if q else 300]
        ctx.extra['replayed_window_histories'] = len(keeph)
        ctx.replay(b, keeph, opts=dict(twin='sig', salt=5), par=6, timeout=14400)
        # --- exhaustive histories with the start-up cache rebuild (BlockChain.InitCache) interleaved: window of 3 blocks, block cache
        # of the receivers cut to 2 blocks (defCacheSize = 1) so that the two rebuild loops of InitCache cover different ranges
        allr = ctx.tlc_genall('ChainTx_AllR', 'ChainTx_AllR.cfg', stage=d, timeout=3600)
        ctx.extra['exhaustive_histories_cache_rebuild'] = len(allr)
        def _late(x):
            # a rebuild after the window transaction was put on the chain and buried under two more blocks
            st = [s for s in x['steps'] if s.get('op') != 'Cfg']
            for i, s in enumerate(st):
                if s.get('op') == 'Reinit' and len(s['chk']['best']) >= 3 and [[1, 'g']] == s['chk']['best'][-3]:
                    return True
            return False
        late = [x for x in allr if _late(x)]
        some = [x for x in allr if not _late(x) and any(s.get('op') == 'Reinit' for s in x['steps'])]
        if not late:
            raise vlib.Broken('vacuous: no exported history rebuilds the caches with the window transaction three blocks deep')
        rnd.shuffle(late)
        rnd.shuffle(some)
        keepr = late[:40 if q else 400] + some[:40 if q else 600]
        ctx.extra['replayed_cache_rebuild_histories'] = len(keepr)
        ctx.replay(b, keepr, opts=dict(twin='sig', salt=6, dcs=1), par=6, timeout=14400)
        # --- simulated histories: 4 ids, 4 profiles, 6 events
        sims = ctx.tlc_sim('ChainTx_MC', 'ChainTx_Gen.cfg', num=120 if q else 1200, depth=7, stage=d, timeout=3600)
        third = max(1, len(sims) // 3)
        ctx.replay(b, sims[:2 * third], opts=dict(twin='sig', salt=2), par=6, timeout=14400)
        ctx.replay(b, sims[2 * third:], opts=dict(twin='key', via='msg', salt=3), par=6, timeout=14400)
        # a wider TxHeight window (one process of the driver serves one window)
        simw = ctx.tlc_sim('ChainTx_MC', _cfg(ctx, d, 'ChainTx_Gen.cfg', 'ChainTx_GenW.cfg', LO='2', HI='1'), num=60 if q else 500, depth=7,
                           stage=d, timeout=3600, seed=ctx.seed + 17)
        ctx.replay(b, simw, opts=dict(twin='sig', salt=4), par=6, timeout=14400)
        # --- binding B
        ctx.validate_recording(b, 'ChainTx_Trace', 'ChainTx_Trace.cfg', opts=dict(n=4 if q else 40, len=10 if q else 14, ids=6),
                               selftest=True, timeout=3600, stage=d)
        if not q:
            ctx.validate_recording(b, 'ChainTx_Trace', _cfg(ctx, d, 'ChainTx_Trace.cfg', 'ChainTx_TraceW.cfg', LO='1', HI='2'),
                                   opts=dict(n=20, len=14, ids=6, lo=1, hi=2, salt=1, dcs=1), selftest=False, timeout=3600, stage=d)
    finally:
        vlib.sh([b, 'sweep'], timeout=60)


import vlib  # noqa: E402
