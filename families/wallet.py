"""C37 / C38 — the wallet's secret store and lock (wallet/*.go). Family Wallet.

C37 (reference model WalletEnc.tla + decision table WalletRT.tla): TLC-enumerated wallet histories
(genesis by the API or as a database written by an older release, key import, injected legacy
account records, successful / failed password changes, lock / unlock, restart) are replayed on the
real wallet; after every step the stored blobs are decrypted with the real decrypters under the
current password and DumpPrivkey / GetSeed are asked through the bus and by direct call.

C38 (mechanism model Wallet.tla): ProcWalletSetPasswd is modelled as its real step sequence; the
gates of hook H8 let TLC-generated schedules be enforced on the real code; ungated concurrent
recordings are validated by Wallet_Trace.tla. The model has a switch TempUnlock: TRUE is the
procedure as originally written (TLC refutes LockInv and QuiescentInv on it; the counterexamples
are replayed on the real code as candidates), FALSE is the repaired procedure the code must match.

Why sp3 (verify .. re-encrypt .. restore .. unlock mutex) may be one atomic model step: every other
actor either needs the wallet mutex (then it runs entirely before sp1 or after sp3) or is one of
Lock / timer / IsWalletLocked / GetWalletStatus. An observer between the pieces of sp3 sees what it
would see just before sp3; a Lock / timer between "verify" and "getSeed's status check" has the
effect of the same Lock just before sp3, and one between that check and the deferred restore has the
effect of the same Lock just after sp3 (CAS(0,tmp) then flag:=1 and flag:=1 then a no-op CAS both end
locked).
"""
import json
import os

FAMILY = 'Wallet'
DRIVER = 'wallet'
HOOK_COMMITS = ['b7ef9ac']  # verif hook: gate points in wallet ProcWalletSetPasswd (H8, two inserted lines)
FIX_COMMITS = ['11ad65a']   # fix: wallet password change no longer unlocks the wallet temporarily
PROPS = {
    'C37': dict(
        text='TLC checks the reference model of the wallet secret store (every stored blob is tagged with the current '
             'password generation; a password change re-tags everything or changes nothing) and exports wallet histories '
             '(all histories of a small configuration plus seeded simulation of a larger one); each history is replayed on '
             'the real wallet on LevelDB: genesis through SaveSeed or as a database written by an older release (legacy '
             'fixed-nonce seed blob, password of 8..30 / exactly 32 / more than 32 bytes), key import, legacy fixed-IV account '
             'records injected with the harness\'s own encoder, password changes with right / wrong / same-AES-key old '
             'passwords and valid / invalid new ones, lock, unlock, restart. After every step each stored key and the seed are '
             'decrypted by the real decrypters under the current password and through DumpPrivkey / GetSeed and compared with '
             'the originals. A decision table (password class x key/seed kind x format) is concretised with generated '
             'passwords, keys and seeds against the real encrypt / decrypt functions.',
        note='Assumes AES / GCM / LevelDB are correct; key lengths 32 (secp256k1) and 32/64 (ed25519 wallet); passwords the '
             'wallet refuses today (longer than 30 bytes) occur only as the password of a legacy database; histories bounded '
             'to 3-4 steps exhaustively (small alphabet) and 8 steps by simulation; what a decryption under a wrong password '
             'returns is not constrained.',
    ),
    'C38': dict(
        text='TLC exhaustively checks the mechanism model of the wallet lock (lock flag read without the mutex by '
             'IsWalletLocked / GetWalletStatus, mutex-protected unlock / password change / key dump / signing / GetSeed, '
             'mutex-free lock and unlock timer; ProcWalletSetPasswd as its real step sequence) for: visibly unlocked only '
             'while authorised by a successful unlock, also after every request returned, secrets only while authorised. The '
             'same model with the originally written temporary unlock is refuted by TLC; its counterexamples are replayed on '
             'the real code as candidates. TLC-simulated schedules are enforced on the real wallet with the two verification '
             'gates inside ProcWalletSetPasswd while other goroutines query the status, lock, let the unlock timer fire, and '
             'request key dumps / signatures / the seed (which may only block); the flag is compared after every step and every '
             'reply at its return. Ungated concurrent recordings (bus requests mixed with direct calls) are validated against '
             'the trace specification.',
        note='Gated schedules control only the password change (two gate points) and run every other request atomically; '
             'interleavings inside unlock and between queued mutex holders are covered by the exhaustive model run and by the '
             'ungated recordings only. The unlock timer is the real one (1-2 s): schedules the machine is too slow for are '
             'abandoned and counted. GetPrivKeyByAddr of the internal WalletOperate interface (no lock check by design) and '
             'the mining (ticket) lock are outside the statement.',
    ),
}


def run(ctx):
    if ctx.prop == 'C37':
        return run_c37(ctx)
    return run_c38(ctx)


# ---------------------------------------------------------------------------------------------
def run_c37(ctx):
    q = ctx.tier == 'quick'
    ctx.rule = ('behaviours = wallet histories exported by TLC from WalletEnc.tla (all histories of the small configuration, '
                'seeded simulation of the large one) and the rows of WalletRT.tla; non-trivial = contains a failed password '
                'change, a legacy-format blob (legacy genesis or injected account record) or a password longer than 32 bytes '
                '(rows: legacy format or a password of >= 32 bytes); distinct by abstract action sequence')
    ctx.assumptions += ['AES-CBC / AES-GCM / LevelDB trusted', 'key lengths 32 and 64 bytes',
                        'TLC bounds: 2 accounts, histories of 3-4 steps exhaustively, 8 steps by simulation']
    r = ctx.tlc_mc('WalletEnc_MC', 'WalletEnc_MCq.cfg' if q else 'WalletEnc_MC.cfg', workers=2, timeout=3600, coverage=not q)
    no_dead_actions(r)
    b = vlib.build(DRIVER)
    # decision table
    rows = ctx.tlc_genall('WalletRT', 'WalletRT.cfg', timeout=1800)
    ctx.replay(b, rows, opts=dict(n=40 if q else 400), par=4, timeout=3600)
    # exhaustive leg: every history of the small configuration
    allb = ctx.tlc_genall('WalletEnc_All', 'WalletEnc_Allq.cfg' if q else 'WalletEnc_All.cfg', timeout=3600)
    ctx.extra['exhaustive_small_config'] = dict(cfg='WalletEnc_Allq.cfg' if q else 'WalletEnc_All.cfg', behaviours=len(allb))
    s = ctx.replay(b, allb, opts=dict(sign='secp256k1'), par=8, timeout=7200)
    if not s['mismatches']:
        replay_selftest(ctx, b, allb, dict(sign='secp256k1'),
                        lambda st: st.get('op') == 'SetPasswd' and st.get('ret') == 'fail', lambda st: st.update(ret='ok'))
    if not q:
        ctx.replay(b, allb[::5], opts=dict(sign='ed25519', salt=1), par=8, timeout=7200, count=False)
    # deeper histories by simulation, both signature types (ed25519 wallets hold 64-byte keys)
    n = 300 if q else 3000
    bs = ctx.tlc_sim('WalletEnc_MC', 'WalletEnc_Gen.cfg', num=n, depth=9, timeout=3600)
    half = len(bs) // 2
    ctx.replay(b, bs[:half], opts=dict(sign='secp256k1'), par=8, timeout=7200)
    ctx.replay(b, bs[half:], opts=dict(sign='ed25519'), par=8, timeout=7200)
    if not q:
        for sd in range(1, 3):
            bs2 = ctx.tlc_sim('WalletEnc_MC', 'WalletEnc_Gen.cfg', num=n, depth=9, seed=ctx.seed * 100 + sd, timeout=3600)
            ctx.replay(b, bs2, opts=dict(sign='ed25519' if sd % 2 else 'secp256k1', salt=sd), par=8, timeout=7200)
    # binding B: long random histories over more accounts recorded from the real wallet
    ctx.validate_recording(b, 'WalletEnc_Trace', 'WalletEnc_Trace.cfg', recorder='enc',
                           opts=dict(n=8 if q else 60, accts=4, depth=24, procs=4), timeout=3600, selftest=True)
    ctx.exhaustive = False


# ---------------------------------------------------------------------------------------------
def candidate_from_counterexample(out, name):
    """The act labels of a TLC error trace -> one behaviour."""
    steps = []
    for line in out.splitlines():
        m = vlib.ACT_RE.match(line.rstrip('\n'))
        if m:
            raw = m.group(1)
            try:
                steps.append(json.loads(json.loads('"' + raw + '"')))
            except Exception:
                steps.append(json.loads(vlib.tla_unescape(raw)))
    steps = [s for s in steps if s.get('op') != 'Init']
    return dict(fam=FAMILY, cfg=name, id='cand-' + name, steps=steps)


def replay_quiet(ctx, binary, bs, opts, name):
    """Replay without merging disagreements into the verdict (candidate runs)."""
    p = ctx.write_behaviours(bs, name)
    outp = p + '.summary.json'
    rdir = os.path.join(ctx.scratch, 'cand-replays')
    optstr = ','.join('%s=%s' % kv for kv in opts.items())
    rc, out = vlib.sh([binary, 'replay', '--in', p, '--out', outp, '--replays', rdir, '--prop', ctx.prop, '--tier', ctx.tier,
                       '--seed', str(ctx.seed), '--par', '1', '--opt', optstr], cwd=ctx.scratch, timeout=1800)
    if not os.path.exists(outp):
        raise vlib.Broken('candidate replay died rc=%d:\n%s' % (rc, out[-3000:]))
    s = json.load(open(outp))
    if s.get('errors'):
        raise vlib.Broken('candidate replay driver errors: %s' % s['errors'][:3])
    return s


def no_dead_actions(r):
    if r.get('zero_actions'):
        raise vlib.Broken('vacuous model run: actions never taken: %s' % r['zero_actions'][:5])


def replay_selftest(ctx, binary, bs, opts, pick, corrupt):
    """Anti-vacuity of binding A: corrupt one predicted value of one behaviour; the replayer must disagree."""
    import copy
    for b0 in bs:
        idx = [i for i, st in enumerate(b0['steps']) if pick(st)]
        if not idx:
            continue
        bad = copy.deepcopy(b0)
        bad['id'] = b0['id'] + '-selftest'
        corrupt(bad['steps'][idx[0]])
        bad['steps'] = bad['steps'][:idx[0] + 1]
        s = replay_quiet(ctx, binary, [bad], opts, 'selftest-%d.ndjson' % len(os.listdir(ctx.scratch)))
        if s['counters'].get('inconclusive_slow_machine'):
            continue
        if not s['mismatches']:
            raise vlib.Broken('binding self-test failed: a behaviour with a corrupted prediction was accepted (%s step %d)' % (b0['id'], idx[0]))
        ctx.extra['selftest_corrupted_behaviour_rejected'] = True
        return
    ctx.notes.append('replay self-test: no suitable behaviour')


def disturbed_timeout(b):
    """timed unlock succeeded ; a failing or ticket-only unlock returned ; the Timer label (deadline reached)"""
    st = 0
    for x in b['steps']:
        if x.get('op') == 'Step' and x.get('kind') == 'Unlock' and x.get('at') == 'u2':
            st = 1
        elif st == 1 and x.get('op') == 'End' and ((x.get('kind') == 'Unlock' and x.get('ret') == 'fail') or x.get('kind') == 'UnlockT'):
            st = 2
        elif st == 2 and x.get('op') == 'Timer':
            return True
        elif x.get('op') == 'Timer':
            st = 0
    return False


def refuted_run(ctx, cfg):
    """TLC run of the model of the procedure AS ORIGINALLY WRITTEN: the invariant must be refuted. The
    log line is reworded so that an expected refutation never looks like a verdict."""
    orig = vlib.log
    vlib.log = lambda *a: orig(*[str(x).replace(' VIOLATION ', ' refuted, as expected for the original procedure: ') for x in a])
    try:
        r = ctx.tlc_mc('Wallet_MC', cfg, workers=1, timeout=3600, expect_violation=True, count=False)
    finally:
        vlib.log = orig
    ctx.mc_runs[-1]['note'] = ('model of ProcWalletSetPasswd as originally written (TempUnlock=TRUE); refutation expected: '
                               'anti-vacuity of the invariant and source of the candidate schedules')
    return r


def run_c38(ctx):
    q = ctx.tier == 'quick'
    ctx.rule = ('behaviours = schedules simulated by TLC from Wallet.tla in GenMode (requests of 3 callers, the password change '
                'advanced gate by gate) enforced on the real wallet, plus ungated concurrent recordings; non-trivial = a '
                'password change parked at a gate while another label runs (observer, lock, timer, blocked secret request), or a '
                'timed unlock followed by a failed / ticket-only unlock and then the deadline, '
                'for recordings: calls of different goroutines overlapped; distinct by abstract label sequence')
    ctx.assumptions += ['the unlock timer is the real one (schedules abandoned when the machine is too slow are counted)',
                        'TLC bounds: 2-3 callers, 3-4 requests exhaustively']
    # 1. the model of the code as it is must satisfy the property
    r = ctx.tlc_mc('Wallet_MC', 'Wallet_MCq.cfg' if q else 'Wallet_MC.cfg', workers=2 if q else 4, timeout=7200, coverage=not q)
    no_dead_actions(r)
    b = vlib.build(DRIVER)
    # 2. the model of the procedure as originally written is refuted; its counterexamples are candidates
    cands = []
    for cfg, inv in (('Wallet_Defect.cfg', 'LockInv'), ('Wallet_DefectQ.cfg', 'QuiescentInv')):
        r = refuted_run(ctx, cfg)
        if r['violation'] != inv:
            raise vlib.Broken('defect model %s: expected %s to be refuted (anti-vacuity of the invariant), got %s' % (cfg, inv, r['violation']))
        cands.append((inv, candidate_from_counterexample(r['out'], cfg.replace('.cfg', ''))))
    ctx.extra['defect_model_refuted'] = [c[0] for c in cands]
    reproduced = []
    for inv, cand in cands:
        if len(cand['steps']) < 3:
            raise vlib.Broken('could not extract the counterexample of %s' % inv)
        ok_runs = 0
        for attempt in range(3):
            s = replay_quiet(ctx, b, [cand], dict(tmo=2, salt=attempt), 'cand-%s-%d.ndjson' % (inv, attempt))
            if s['counters'].get('inconclusive_slow_machine'):
                continue
            if not s['mismatches']:
                ok_runs += 1
        if ok_runs >= 2:
            last = cand['steps'][-1]
            sig = 'C38|candidate reproduced|%s|%s' % (inv, ':'.join(str(last.get(k)) for k in ('op', 'kind', 'at') if last.get(k)))
            keep = os.path.join(vlib.REPLAYS, '%s-%s-%d-candidate-%s.json' % (ctx.prop, FAMILY, ctx.seed, inv))
            json.dump(dict(property=ctx.prop, family=FAMILY, seed=ctx.seed, tier=ctx.tier, opts=dict(tmo='2'),
                           behaviour=cand, failing_step=len(cand['steps']) - 1, field='chk',
                           expected='wallet stays locked (invariant %s)' % inv,
                           observed='the real wallet followed the refuted model into the violating state', signature=sig,
                           extra=dict(kind='candidate', invariant=inv)), open(keep, 'w'), indent=1)
            ctx.mismatches.append(dict(signature=sig, replay=keep, expected='invariant %s on the real code' % inv,
                                       observed='counterexample of the temporary-unlock model reproduced on the real wallet: '
                                                + json.dumps(cand['steps'][-3:])[:600], field='candidate'))
            reproduced.append(inv)
    ctx.extra['defect_candidates_reproduced_on_code'] = reproduced
    # 3. gated schedules of the model of the code as it is
    n = 250 if q else 2500
    bs = ctx.tlc_sim('Wallet_MC', 'Wallet_Gen.cfg', num=n, depth=45, timeout=3600)
    s = ctx.replay(b, bs, opts=dict(tmo=2), par=8, timeout=7200)
    inc = s.get('counters', {}).get('inconclusive_slow_machine', 0)
    # binding self-test: a schedule whose predicted flag is flipped while the change is parked must be rejected
    if not s['mismatches']:
        replay_selftest(ctx, b, bs, dict(tmo=2),
                        lambda st: st.get('op') == 'Step' and st.get('at') == 'sp2' and st['chk']['locked'],
                        lambda st: st['chk'].update(locked=False))
    # 3b. the timeout as an obligation: schedules around a timed unlock (failed and ticket-only unlocks
    # before the deadline must not keep the wallet unlocked past it); the Timer label waits for the lock
    bt = ctx.tlc_sim('Wallet_MC', 'Wallet_GenT.cfg', num=400 if q else 2000, depth=32, timeout=3600)
    due = [x for x in bt if disturbed_timeout(x)]
    ctx.extra['timeout_schedules'] = dict(generated=len(bt), failed_or_ticket_unlock_before_deadline=len(due))
    if len(due) < 5:
        raise vlib.Broken('only %d generated schedules contain timed unlock ; failed/ticket-only unlock ; deadline' % len(due))
    s3 = ctx.replay(b, due + [x for x in bt if not disturbed_timeout(x)][:len(due)], opts=dict(tmo=2, salt=7), par=8, timeout=7200)
    inc += s3.get('counters', {}).get('inconclusive_slow_machine', 0)
    if not q:
        for sd in range(1, 3):
            bs2 = ctx.tlc_sim('Wallet_MC', 'Wallet_Gen.cfg', num=n, depth=45, seed=ctx.seed * 100 + sd, timeout=3600)
            s2 = ctx.replay(b, bs2, opts=dict(tmo=2, salt=sd), par=8, timeout=7200)
            inc += s2.get('counters', {}).get('inconclusive_slow_machine', 0)
    ctx.extra['schedules_abandoned_slow_machine'] = inc
    if inc > 0.3 * len(bs):
        raise vlib.Broken('%d of %d gated schedules abandoned: machine too slow for the real unlock timer' % (inc, len(bs)))
    # 4. ungated concurrent recordings validated by the trace specification
    ctx.validate_recording(b, 'Wallet_Trace', 'Wallet_Trace.cfg',
                           opts=dict(n=8 if q else 64, callers=3, ops=10 if q else 14, timers=4, procs=4),
                           dfs=True, timeout=7200, selftest=True)
    ctx.exhaustive = False


import vlib  # noqa: E402
