"""C03 - MAVL state proofs are complete, sound and crash-free (system/store/mavl/db proof.go, tree.go).
Family StateProof: spec/StateProof, driver harness/drv/stateproof."""
import json
import os

FAMILY = 'StateProof'
DRIVER = 'stateproof'
HOOK_COMMITS = ['7541e9f']   # only used to reset the pruning globals in the prefix+prune configuration

PROPS = {
    'C03': dict(
        text='A TLA+ model of the MAVL tree (Node.set with all AVL rotations), proof construction and the verifier\'s fold, '
             'with the hash as a free injective constructor, is model-checked with TLC: completeness (every present key\'s '
             'proof verifies with the stored value) and soundness over the whole mutation universe (every honest proof with '
             'any single node dropped/duplicated/side-swapped/field-changed, truncated, emptied or extended, presented with '
             'EVERY root, key and value) hold on all bounded histories. TLC exports every bounded history together with the '
             'verdict of every row of the single-mutation table; the rows are performed on the real proof bytes of real '
             'trees (plain, prefix, prefix+prune; memdb and LevelDB) and compared, as are the shapes of all honest proofs; '
             'seeded recordings over 8 keys with arbitrary presentations are validated against the trace specification.',
        note='Assumes SHA-256 collision freedom (hash = injective constructor). TLC bounds: 3-5 keys x 2 values, 2-3 batches. '
             'Arbitrary proof BYTES are not decided by the model: truncations, bit flips, byte edits, random bytes, random '
             'well-formed protobuf proofs with hostile field values and wire-level hostile encodings are sampled by the '
             'driver with the run\'s seed against the oracle "never panics; any bytes with a wrong value / absent key / other '
             'root are rejected; undecodable bytes are rejected". The verdict for a mutated but decodable proof shown with the '
             'right key, value and root is compared with the fold the model defines (the property leaves it open).',
    ),
}


def fuzz(ctx, b, cfg, trees, per, keys=60):
    """large seeded byte-level leg (not decided by TLC)"""
    opt = 'cfg=%s,db=mem,trees=%d,per=%d,keys=%d,replays=%s' % (cfg, trees, per, keys, vlib.REPLAYS)
    rc, out = vlib.sh([b, 'fuzz', '--prop', ctx.prop, '--tier', ctx.tier, '--seed', str(ctx.seed), '--opt', opt], timeout=3000)
    line = [l for l in out.splitlines() if l.startswith('{')]
    if rc not in (0, 1) or not line:
        raise vlib.Broken('fuzz leg failed rc=%d:\n%s' % (rc, out[-3000:]))
    st = json.loads(line[-1])
    vlib.log('[fuzz] cfg=%s: %d samples, %d presentations, %d undecodable, panics=%d wrong_accepted=%d undecodable_accepted=%d' %
             (cfg, st['samples'], st['presentations'], st['undecodable'], st['panics'], st['wrong_accepted'], st['undecodable_accepted']))
    if rc == 1:
        f = st.get('first') or {}
        ctx.mismatches.append(dict(signature=f.get('signature', 'Malformed|%s' % cfg), replay=f.get('replay'),
                                   expected='no panic, wrong presentations rejected, undecodable rejected',
                                   observed=json.dumps({k: f.get(k) for k in ('kind', 'class', 'presentation', 'result')}), field='fuzz'))
    return st


def run(ctx):
    q = ctx.tier == 'quick'
    ctx.rule = ('behaviours = every bounded history of Set batches (TLC exhaustive export, any committed root as parent) and '
                'simulated larger ones, each ending with the full single-mutation table {none, otherValue, otherKey, otherRoot, '
                'randomRoot, proofOfOtherKey, proofFromOtherRoot, dropInner(i), dupInner(i), flipInner(i, left/right/height/size/'
                'sides), truncated(n), emptyProof, appended node} for every (root, key), performed on the real proof; non-trivial '
                '= rows other than `none` evaluated for a tree of height >= 2 (proof of >= 2 inner nodes); distinct by abstract '
                'action sequence; byte-level malformed proofs are seeded samples counted separately (malformed_samples)')
    ctx.assumptions += ['SHA-256 collision free (hash modelled as injective constructor)',
                        'byte-level malformed proofs are sampled, not decided by the model',
                        'TLC bounds: NK<=5, NV=2, <=3 batches of <=4 writes']
    stage = ctx.stage()
    # ---- 1. the model: completeness and soundness on all bounded histories
    ctx.tlc_mc('StateProof_MC', 'StateProof_MC.cfg', workers=4, timeout=3600, stage=stage, coverage=not q)
    if not q:
        ctx.tlc_mc('StateProof_MC', 'StateProof_MCt.cfg', workers=4, timeout=10800, stage=stage)
    b = vlib.build(DRIVER)
    # ---- 2. exhaustive export of the small configuration, replayed under every tree configuration
    allb = ctx.tlc_genall('StateProof_All', 'StateProof_All.cfg', stage=stage, timeout=7200, workers=2)
    ctx.extra['exhaustive_small_config'] = dict(cfg='StateProof_All.cfg', behaviours=len(allb))
    for i, (cfg, db, par) in enumerate([('plain', 'mem', 8), ('prefix', 'mem', 8), ('prune', 'leveldb', 1), ('nil', 'leveldb', 8)]):
        bs = allb if (not q or cfg in ('plain', 'prefix')) else allb[::6]
        ctx.replay(b, bs, opts=dict(cfg=cfg, db=db, malformed=2 if q else 6), par=par, count=(i == 0), timeout=6000)
    # ---- 3. simulated larger histories (5 keys: rotations, proofs of 2-3 inner nodes)
    n = 120 if q else 1500
    for i, cfg in enumerate(['prefix', 'plain'] + ([] if q else ['prune'])):
        bs = ctx.tlc_sim('StateProof_MC', 'StateProof_Gen.cfg', num=n if i == 0 else n // 3, depth=6, stage=stage,
                         seed=ctx.seed * 10 + i, timeout=7200)
        ctx.replay(b, bs, opts=dict(cfg=cfg, db='mem' if cfg != 'prune' else 'leveldb', malformed=3 if q else 8, salt=i),
                   par=8 if cfg != 'prune' else 1, timeout=6000)
    # binding self-test: one flipped verdict in the predicted table must make the replayer disagree
    bad = json.loads(json.dumps(bs[0]))
    flipped = False
    for st in bad['steps']:
        if st.get('op') == 'Table':
            for per_root in st['chk']:
                for cell in per_root:
                    if cell['rows'] and not flipped:
                        cell['rows'][-1]['ret'] = not cell['rows'][-1]['ret']
                        flipped = True
    n0 = len(ctx.mismatches)
    ctx.replay(b, [bad], opts=dict(cfg='plain', db='mem', malformed=1, salt=1), par=1, count=False)
    if not flipped or len(ctx.mismatches) == n0:
        raise vlib.Broken('binding self-test failed: a corrupted verdict was not detected by the replay')
    del ctx.mismatches[n0:]
    ctx.extra['selftest_corrupted_behaviour_detected'] = True

    # ---- 4. byte-level classes on larger random trees (sampled)
    tot = dict(samples=0, presentations=0, undecodable=0, per_class={})
    for cfg in ('plain', 'prefix') + (() if q else ('prune',)):
        st = fuzz(ctx, b, cfg, trees=3 if q else 12, per=40 if q else 120, keys=40 if q else 300)
        for k in ('samples', 'presentations', 'undecodable'):
            tot[k] += st[k]
        for k, v in st['per_class'].items():
            tot['per_class'][k] = tot['per_class'].get(k, 0) + v
    ctx.extra['malformed_samples'] = tot
    # ---- 5. recorded histories validated by the trace specification
    opts = dict(n=6 if q else 60, keys=8, vals=2, depth=60 if q else 120, trees=6, cfg='prefix', db='mem')

    def flip(ev):
        if ev.get('ev') == 'Verify' and ev.get('ret') in ('true', 'false'):
            ev['ret'] = 'false' if ev['ret'] == 'true' else 'true'
            return True
        return False
    tp, s = ctx.record(b, 'default', opts, name='trace-proof.ndjson', timeout=3000)
    r = ctx.tlc_trace('StateProof_Trace', 'StateProof_Trace.cfg', tp, stage=stage, timeout=7200)
    ctx.states += r['states']
    ctx.extra['recorded'] = dict(traces=s.get('behaviours'), events=r['total'], counters=s.get('counters'))
    if r['accepted']:
        ctx.traces += s.get('behaviours', 0)
        ctx.evaluations += s.get('behaviours', 0)
        ctx.nontrivial += s.get('nontrivial', 0)
        ctx.trace_selftest('StateProof_Trace', 'StateProof_Trace.cfg', tp, mutate=flip)
    else:
        lines = [l for l in open(tp) if l.strip()]
        m = r['matched'] if r['matched'] is not None else 0
        failing = json.loads(lines[m]) if m < len(lines) else {}
        sig = 'trace|%s|m=%s/%s/%s|got=%s' % (failing.get('ev'), failing.get('m'), failing.get('f'), failing.get('x'), failing.get('ret'))
        keep = os.path.join(vlib.REPLAYS, '%s-%s-trace-%d.json' % (ctx.prop, FAMILY, ctx.seed))
        json.dump(dict(property=ctx.prop, family=FAMILY, seed=ctx.seed, tier=ctx.tier, opts=opts, signature=sig,
                       extra=dict(kind='trace', module='StateProof_Trace', matched=m, failing_event=failing,
                                  prefix=[json.loads(l) for l in lines[max(0, m - 30):m + 1]])), open(keep, 'w'), indent=1)
        ctx.mismatches.append(dict(signature=sig, replay=keep, expected='trace accepted by StateProof_Trace',
                                   observed='rejected at event %d: %s' % (m, json.dumps(failing)[:300]), field='trace'))


import vlib  # noqa: E402
