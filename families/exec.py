"""C11, C12, C13 — block execution over script transactions (executor/execenv.go, statedb.go, localdb.go,
allow.go, util/exec.go).  Family Exec: a TLA+ reference semantics of block execution (fee, per-item overlay,
commit / rollback, key-permission rule, local-prefix rule) whose TLC-generated blocks are executed on a real
test node with synthetic script executors registered through the public dapp.Register."""
import json
import os
import re

FAMILY = 'Exec'
DRIVER = 'exec'
HOOK_COMMITS = []   # none: dapp.Register and types.AllowUserExec are exported

PROPS = {
    'C11': dict(
        text='TLC exhaustively checks the Exec reference semantics on a small script menu: between items the block view '
             'equals the prior state plus the writes of the successful items only (NoLeak), every read returns what it '
             'would return had failed items only paid their fee (ReadsAsIfFeeOnly, an operational overlay semantics checked '
             'against a denotational fold), a failed item changes nothing and all its receipts are fee-only. TLC-generated '
             'blocks (state / local writes in every reporting mode, reads, lists, failures by error, panic, uncovered key, '
             'ExecLocal error, groups of up to 3) are executed on a real test node (store, blockchain local DB, executor) through '
             'EventExecTxList / PreExecBlock / ProcAddBlockMsg / EventAddBlock with synthetic script executors; receipt types, '
             'echoed reads, fee charged, state write set, local write set and the final value of every model key are compared.',
        note='Synthetic executors registered from the harness (dapp.Register + types.AllowUserExec); height after every fork '
             '(title "local"); one fee payer with sufficient balance; transient API errors (IsAPIEnvError) not modelled; '
             'TLC bounds: exhaustive 1-2 state + 1 local key, 2 items, groups <= 2; simulation 2+2 keys, <= 4 items per block, groups <= 3, '
             '<= 3+2 operations per transaction, 2 blocks, and a larger alphabet (2 executor names, 4+3 keys, <= 6 items, groups <= 4, 3 blocks).',
    ),
    'C12': dict(
        text='The key-permission rule Allowed(key, executor) (own namespace after removing the own para title; own deposit area '
             'inside any executor; area approved by the owning executor) and the local-prefix rule are written down in the Exec '
             'specification from the documented rule; TLC checks that a transaction ends ExecOk only if its receipt covers every '
             'key it Set and every reported key is allowed, and that nothing else reaches the state or the local data. Every row '
             'of key class x executor name x reporting mode, every group of 2-3 members in which a later member re-writes (reported, '
             'unreported, as a foreign key) what an earlier member wrote under the same Begin (exhaustive exports), and random '
             'multi-transaction blocks are executed '
             'on the real node (main chain and para chain "user.p.para."), with hostile concretisations of each class '
             '(look-alike names, malformed prefixes, deposit areas of other addresses).',
        note='IsFriend of the synthetic executors approves keys carrying a mark; real executors (coins) are assumed to approve '
             'nothing for them; pre-ForkExecKey exceptions (manage/token) are outside the configured heights; a local key without '
             'the prefix may refuse the whole block (what the code does) or fail the transaction - both accepted.',
    ),
    'C13': dict(
        text='Block execution as a function of (block, prior chain): TLC generates blocks together with a schedule of '
             'process-local activity (side blocks, CheckTx, queries, GC, another chain instance started in the same process) and '
             're-executions under conditions '
             '{long-running process, fresh child process} x GOMAXPROCS {1,2,16}, >= 5 repetitions each, and 5 concurrent '
             'EventExecTxList requests in the long-running process; a binding table requires '
             'byte-identical digests of receipts (EventExecTxList and PreExecBlock), state write set, state root, local add set '
             '(EventAddBlock) and local del set (EventDelBlock) for every execution of the same term - and of the local data left by '
             'the genesis block on an empty database (plugin flag records included) for every chain instance -, and equality with the '
             "reference semantics' prediction. Recorded runs are validated by the trace specification Exec_Trace (same "
             '(block, prior) => same digest).',
        note='Index plugins stat and addrfeeindex additionally enabled in half of the runs (the executor-side MVCC stays off: with it the genesis version record is stored as an empty value and block 1 cannot be executed at all); goroutine schedules are varied only '
             'through GOMAXPROCS, repetitions and prior activity (no scheduler control); the parallel signature '
             'verification of types/block.go runs for the connected blocks of the peer-delivery legs only.',
    ),
}


def _mc(ctx, cfg, **kw):
    """Exhaustive TLC run that must have completed (a killed or crashed TLC is a machinery failure)."""
    res = ctx.tlc_mc('Exec_MC', cfg, **kw)
    if res.get('rc') != 0 or 'Model checking completed' not in res.get('out', ''):
        raise vlib.Broken('TLC did not complete %s (rc=%s)' % (cfg, res.get('rc')))
    return res


def _coverage_ok(ctx, res, allow=()):
    """-coverage 1: an action of Next that was never taken makes the run vacuous (except the actions the
    configuration switches off on purpose). TLC names a disjunct of Next by its source location."""
    src = open(os.path.join(vlib.SPEC, 'Exec', 'Exec.tla')).read().splitlines()
    zeros = []
    for z in res.get('zero_actions', []):
        m = re.search(r'\((\d+) \d+ (\d+) \d+\)', z)
        text = z
        if m:
            text += ' ' + ' '.join(src[int(m.group(1)) - 1:int(m.group(2))])
        if not any(a in text for a in allow):
            zeros.append(text.strip()[:160])
    if zeros:
        raise vlib.Broken('vacuous exhaustive run, actions never taken: %s' % zeros[:5])
    ctx.extra['coverage_all_enabled_actions_taken'] = True


def _replay_selftest(ctx, b, bs, opts, field='tys'):
    """Binding self-test (anti-vacuity): a behaviour whose predicted receipt types are corrupted must be refused."""
    for beh in bs:
        steps = json.loads(json.dumps(beh['steps']))
        ends = [s for s in steps if s.get('op') == 'EndBlock' and not s['ret'].get('rej') and s['ret'].get('tys')]
        if not ends:
            continue
        e = ends[0]
        e['ret']['tys'][0] = 'pack' if e['ret']['tys'][0] == 'ok' else 'ok'
        e.pop('alt', None)
        bad = dict(beh, id=beh['id'] + '-selftest', steps=steps)
        saved = list(ctx.mismatches)
        ctx.replay(b, [bad], opts=opts, par=1, count=False, name='selftest-%d.ndjson' % len(os.listdir(ctx.scratch)))
        new = ctx.mismatches[len(saved):]
        ctx.mismatches = saved
        for m in new:
            try:
                os.remove(m.get('replay', ''))
            except OSError:
                pass
        if not new:
            raise vlib.Broken('binding self-test failed: a behaviour with a corrupted prediction was accepted')
        ctx.extra['selftest_corrupted_behaviour_refused'] = True
        return
    ctx.notes.append('replay self-test: no behaviour with a connected block')


def _c11(ctx, b, q):
    ctx.rule = ('behaviours = TLC simulation of Exec.tla (1-2 blocks of <=4 items; every step is one script operation); one '
                'comparison per block of receipt types, echoed reads, fee, write sets and all key values; non-trivial = an item '
                'that wrote state/local keys and then failed, followed in the same block by a transaction reading (or listing) '
                'one of those keys; distinct by abstract action sequence')
    ctx.assumptions += ['synthetic executors registered through dapp.Register', 'height after all forks (title local)',
                        'TLC bounds: 2+2 keys, <=4 items, groups <=3, 2 blocks']
    if q:
        _mc(ctx, 'Exec_MC.cfg', workers=4, timeout=3600)
    else:
        res = _mc(ctx, 'Exec_MCt.cfg', workers=6, timeout=14400, coverage=True)
        _coverage_ok(ctx, res, allow=('Run', 'Activity', 'TxReject'))
    n = 300 if q else 2000
    bs = ctx.tlc_sim('Exec_MC', 'Exec_C11_Gen.cfg', num=n, depth=70, keep_init=True, timeout=7200)
    third = len(bs) // 3
    ctx.replay(b, bs[third:], opts=dict(plugins='default'), par=6, timeout=14400)
    ctx.replay(b, bs[:third], opts=dict(plugins='all', salt=3), par=6, timeout=14400)
    if not q:
        for sd in range(1, 4):
            bs2 = ctx.tlc_sim('Exec_MC', 'Exec_C11_Gen.cfg', num=n // 2, depth=70, keep_init=True, timeout=7200, seed=ctx.seed * 100 + sd)
            ctx.replay(b, bs2, opts=dict(plugins='default' if sd % 2 else 'all', salt=sd), par=6, timeout=14400)
        # a fresh node for every behaviour (no state shared with earlier behaviours)
        ctx.replay(b, bs[:60], opts=dict(plugins='default', fresh=1), par=4, timeout=14400, count=False)
    # larger alphabet (simulation only): 2 executor names sharing a local prefix, 4 state + 3 local keys,
    # <= 6 items, groups <= 4, <= 5+3 operations, 3 blocks
    bl = ctx.tlc_sim('Exec_MC', 'Exec_C11_GenL.cfg', num=60 if q else 600, depth=140, keep_init=True, timeout=7200)
    ctx.replay(b, bl, opts=dict(plugins='default', salt=1, peer=1), par=6, timeout=14400)
    _replay_selftest(ctx, b, bs[:40], dict(plugins='default'))


def _c12(ctx, b, q):
    ctx.rule = ('behaviours = (a) every row executor name x key (namespace x deposit area x friend mark, malformed) x reporting mode '
                'as a one-transaction block, and every group of 2 (4 keys x 3 names) and of 3 (1 key x 2 names) members writing one key each, '
                'exhaustively exported by TLC, on the main chain and (single rows) on the para chain; (b) TLC simulation '
                'of 1-2 blocks of <=3 items over the same keys; non-trivial = a transaction writing a key that is not a plain key of its '
                'own namespace / own local prefix; distinct by abstract action sequence')
    ctx.assumptions += ['IsFriend of the synthetic executors approves marked keys only; real executors approve nothing for them',
                        'height after ForkExecKey', 'TLC bounds: 7 namespaces x 5 deposit areas x friend mark + malformed keys, 5 names']
    if q:
        _mc(ctx, 'Exec_C12_MC.cfg', workers=4, timeout=3600)
    else:
        res = _mc(ctx, 'Exec_C12_MCt.cfg', workers=6, timeout=14400, coverage=True)
        _coverage_ok(ctx, res, allow=('Run', 'Activity', 'TxRead("L"', 'TxList', 'TxFail', 'TxLocalFail', 'TxNext'))
    # groups: a member re-writing (unreported / as a foreign key) what an earlier member wrote under the same Begin
    _mc(ctx, 'Exec_C12_MCg.cfg', workers=4, timeout=3600)
    rows, oks = 0, 0
    first = None

    def same_key_group(x):
        ks = [s['k'] for s in x['steps'] if s.get('op') == 'W']
        return len(ks) != len(set(ks))

    for cfg, para in (('Exec_C12_AllS.cfg', 0), ('Exec_C12_AllSp.cfg', 1), ('Exec_C12_AllL.cfg', 0), ('Exec_C12_AllLp.cfg', 1),
                      ('Exec_C12_AllG.cfg', 0), ('Exec_C12_AllG3.cfg', 0)):
        allb = ctx.tlc_genall('Exec_All', cfg, timeout=7200)
        first = first or allb
        rows += len(allb)
        oks += sum(1 for x in allb if set(x['steps'][-1]['ret'].get('tys') or ['-']) == {'ok'})
        if q and 'AllG' in cfg:
            # quick tier: every group row in which two members write the same key, every third other row
            allb = [x for i, x in enumerate(allb) if same_key_group(x) or i % 3 == ctx.seed % 3]
        elif q:
            # quick tier: every second row of each table (offset by the seed); thorough: every row under 4 spellings
            allb = [x for i, x in enumerate(allb) if i % 2 == ctx.seed % 2]
        for salt in range(0, 1 if q else 4):
            ctx.replay(b, allb, opts=dict(para=para, salt=salt + ctx.seed % 7), par=6, timeout=14400, count=(salt == 0))
    ctx.extra['exhaustive_tables'] = dict(rows=rows, rows_predicted_ExecOk=oks, cfgs='Exec_C12_All{S,Sp,L,Lp,G,G3}.cfg',
                                          note='thorough: every abstract row; quick: every second row; the byte spelling of each class is sampled per salt')
    n = 150 if q else 1200
    for cfg in ('Exec_C12_Gen.cfg', 'Exec_C12_Genp.cfg'):
        bs = ctx.tlc_sim('Exec_MC', cfg, num=n, depth=60, keep_init=True, timeout=7200)
        ctx.replay(b, bs, opts=dict(salt=ctx.seed % 5), par=6, timeout=14400)
    _replay_selftest(ctx, b, first[:40], dict(para=0))


def _validate_det(ctx, b, opts):
    """record -> Exec_Trace; a rejected trace is a disagreement; then the binding self-test: one digest of a
    repeated execution is altered and TLC must reject the trace."""
    tp, s = ctx.record(b, 'det', opts, timeout=14400)
    r = ctx.tlc_trace('Exec_Trace', 'Exec_Trace.cfg', tp, timeout=3600)
    ctx.states += r['states']
    if r['accepted']:
        ctx.traces += s.get('behaviours', 1)
        ctx.evaluations += s.get('behaviours', 1)
        ctx.nontrivial += s.get('nontrivial', 0)
        for x in (s.get('samples') or [])[:1]:
            ctx.samples.append(x)
        ctx.extra['recorded_executions'] = (ctx.extra.get('recorded_executions', 0) + (s.get('counters') or {}).get('executions', 0))
    else:
        lines = [l for l in open(tp) if l.strip()]
        m = r['matched'] or 0
        failing = json.loads(lines[m]) if m < len(lines) else None
        keep = os.path.join(vlib.REPLAYS, '%s-Exec-trace-%d.json' % (ctx.prop, ctx.seed))
        sig = 'trace|det|event=%s|proc=%s|gmp=%s' % ((failing or {}).get('ev'), (failing or {}).get('proc'), (failing or {}).get('gmp'))
        json.dump(dict(property=ctx.prop, family='Exec', seed=ctx.seed, tier=ctx.tier, opts=opts,
                       extra=dict(kind='trace', recorder='det', module='Exec_Trace', cfg='Exec_Trace.cfg', matched=m, failing_event=failing,
                                  prefix=[json.loads(l) for l in lines[max(0, m - 40):m + 1]]), signature=sig), open(keep, 'w'), indent=1)
        ctx.mismatches.append(dict(signature=sig, replay=keep, expected='same (prior, block) => same digest',
                                   observed='rejected at event %d: %s' % (m, json.dumps(failing)[:300]), field='trace'))
        return
    seen = set()

    def mutate(ev):
        return False
    lines = [json.loads(l) for l in open(tp) if l.strip()]
    idx = None
    for i, ev in enumerate(lines):
        if ev.get('ev') == 'Reset':
            seen = set()
        if ev.get('ev') == 'Run':
            k = (ev['prior'], ev['blk'])
            if k in seen:
                idx = i
            seen.add(k)
    if idx is None:
        raise vlib.Broken('recorded trace has no repeated execution to corrupt')
    lines[idx]['dig'] = lines[idx]['dig'] + 1000
    bad = tp + '.bad'
    with open(bad, 'w') as f:
        for l in lines:
            f.write(json.dumps(l) + '\n')
    r2 = ctx.tlc_trace('Exec_Trace', 'Exec_Trace.cfg', bad, timeout=3600)
    if r2['accepted']:
        raise vlib.Broken('binding self-test failed: a trace with a differing digest was accepted by Exec_Trace')
    ctx.extra['selftest_corrupted_trace_rejected'] = True


def _c13(ctx, b, q):
    ctx.rule = ('behaviours = TLC simulation of Exec.tla with Run / Activity steps: every block is executed under several '
                'conditions (process fresh|long-running x GOMAXPROCS 1|2|16, 5 repetitions each; 5 concurrent requests in the long-running '
                'process) interleaved with process-local '
                'activity (including another chain instance started in the same process), then connected; the genesis block on an empty '
                'database is a focal block too (its local data in this chain, in a second chain of the long-running process, in fresh '
                'processes); non-trivial = the same (prior chain, block) term executed under >= 2 differing conditions; '
                'recorded random scenarios (larger blocks, coins / none / user.* transactions, plugins on and off, blocks delivered as peer '
                'blocks so that the parallel signature verification runs) validated by Exec_Trace')
    ctx.assumptions += ['goroutine schedules varied only through GOMAXPROCS, repetition and prior activity',
                        'blocks are rebuilt byte-identically in every process (fixed nonces, deterministic signatures)',
                        'executor-side MVCC plugin off (it cannot execute block 1 at all)']
    if q:
        _mc(ctx, 'Exec_C13_MC.cfg', workers=4, timeout=3600)
    else:
        res = _mc(ctx, 'Exec_C13_MCt.cfg', workers=6, timeout=14400, coverage=True)
        _coverage_ok(ctx, res, allow=('TxReject', 'TxList', 'TxLocalFail'))
    n = 16 if q else 100
    bs = ctx.tlc_sim('Exec_MC', 'Exec_C13_Gen.cfg', num=n, depth=45, keep_init=True, timeout=7200)
    half = len(bs) // 2
    ctx.replay(b, bs[:half], opts=dict(plugins='all', fresh=1, reps=5, peer=1), par=4, timeout=28800)
    ctx.replay(b, bs[half:], opts=dict(plugins='default', fresh=1, reps=5), par=4, timeout=28800)
    _validate_det(ctx, b, dict(n=3 if q else 14, reps=5, salt=ctx.seed % 97))
    _replay_selftest(ctx, b, bs[:10], dict(plugins='default', fresh=1, reps=2))


def run(ctx):
    q = ctx.tier == 'quick'
    b = vlib.build(DRIVER)
    if ctx.prop == 'C11':
        _c11(ctx, b, q)
    elif ctx.prop == 'C12':
        _c12(ctx, b, q)
    elif ctx.prop == 'C13':
        _c13(ctx, b, q)


import vlib  # noqa: E402
