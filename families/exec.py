"""C11, C12, C13 — block execution over script transactions (executor/execenv.go, statedb.go, localdb.go,
allow.go, util/exec.go).  Family Exec: a TLA+ reference semantics of block execution (fee, per-item overlay,
commit / rollback, key-permission rule, local-prefix rule) whose TLC-generated blocks are executed on a real
test node with synthetic script executors registered through the public dapp.Register."""
import json
import os

FAMILY = 'Exec'
DRIVER = 'exec'
HOOK_COMMITS = []   # none: dapp.Register and types.AllowUserExec are exported

PROPS = {
    'C11': dict(
        text='TLC exhaustively checks the Exec reference semantics on a small script menu: between items the block view '
             'equals the prior state plus the writes of the successful items only (NoLeak), every read returns what it '
             'would return had failed items only paid their fee (ReadsAsIfFeeOnly, an operational overlay semantics checked '
             'against a denotational fold), a failed item changes nothing and all its receipts are fee-only. TLC-generated '
             'blocks (state / local writes in every reporting mode, reads, lists, failures by error, panic, uncovered key, '
             'ExecLocal error, groups of up to 3) are executed on a real test node (store, blockchain local DB, executor) through '
             'EventExecTxList / PreExecBlock / ProcAddBlockMsg / EventAddBlock with synthetic script executors; receipt types, '
             'echoed reads, fee charged, state write set, local write set and the final value of every model key are compared.',
        note='Synthetic executors registered from the harness (dapp.Register + types.AllowUserExec); height after every fork '
             '(title "local"); one fee payer with sufficient balance; transient API errors (IsAPIEnvError) not modelled; '
             'TLC bounds: 2 state + 2 local keys, <= 4 items per block, groups <= 3, <= 3+2 operations per transaction, 2 blocks.',
    ),
    'C12': dict(
        text='The key-permission rule Allowed(key, executor) (own namespace after removing the own para title; own deposit area '
             'inside any executor; area approved by the owning executor) and the local-prefix rule are written down in the Exec '
             'specification from the documented rule; TLC checks that a transaction ends ExecOk only if its receipt covers every '
             'key it Set and every reported key is allowed, and that nothing else reaches the state or the local data. Every row '
             'of key class x executor name x reporting mode (exhaustive export) and random multi-transaction blocks are executed '
             'on the real node (main chain and para chain "user.p.para."), with hostile concretisations of each class '
             '(look-alike names, malformed prefixes, deposit areas of other addresses).',
        note='IsFriend of the synthetic executors approves keys carrying a mark; real executors (coins) are assumed to approve '
             'nothing for them; pre-ForkExecKey exceptions (manage/token) are outside the configured heights; a local key without '
             'the prefix may refuse the whole block (what the code does) or fail the transaction - both accepted.',
    ),
    'C13': dict(
        text='Block execution as a function of (block, prior chain): TLC generates blocks together with a schedule of '
             'process-local activity (side blocks, CheckTx, queries, GC) and re-executions under conditions '
             '{long-running process, fresh child process} x GOMAXPROCS {1,2,16}, >= 5 repetitions each; a binding table requires '
             'byte-identical digests of receipts (EventExecTxList and PreExecBlock), state write set, state root, local add set '
             '(EventAddBlock) and local del set (EventDelBlock) for every execution of the same term, and equality with the '
             "reference semantics' prediction. Recorded runs are validated by the trace specification Exec_Trace (same "
             '(block, prior) => same digest).',
        note='All index plugins enabled in half of the runs (stat, mvcc, addrfeeindex); goroutine schedules are varied only '
             'through GOMAXPROCS, repetitions and prior activity (no scheduler control); signature verification of '
             'types/block.go is exercised by the connected blocks only (self-produced blocks skip it).',
    ),
}


def _c11(ctx, b, q):
    ctx.rule = ('behaviours = TLC simulation of Exec.tla (1-2 blocks of <=4 items; every step is one script operation); one '
                'comparison per block of receipt types, echoed reads, fee, write sets and all key values; non-trivial = an item '
                'that wrote state/local keys and then failed, followed in the same block by a transaction reading (or listing) '
                'one of those keys; distinct by abstract action sequence')
    ctx.assumptions += ['synthetic executors registered through dapp.Register', 'height after all forks (title local)',
                        'TLC bounds: 2+2 keys, <=4 items, groups <=3, 2 blocks']
    ctx.tlc_mc('Exec_MC', 'Exec_MC.cfg', workers=4, timeout=3600)
    n = 300 if q else 2500
    bs = ctx.tlc_sim('Exec_MC', 'Exec_C11_Gen.cfg', num=n, depth=70, keep_init=True, timeout=3600)
    ctx.replay(b, bs, opts=dict(plugins='default'), par=6, timeout=7200)


def run(ctx):
    q = ctx.tier == 'quick'
    b = vlib.build(DRIVER)
    if ctx.prop == 'C11':
        _c11(ctx, b, q)


import vlib  # noqa: E402
