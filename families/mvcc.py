"""C09 — versioned reads (common/db/mvcc.go). Family MVCC, reference model."""
FAMILY = 'MVCC'
HOOK_COMMITS = ['fdec1bc']  # executor/verif_statedb_hook.go
DRIVER = 'mvcc'
PROPS = {
    'C09': dict(
        text='TLC exhaustively checks the MVCC reference model (read soundness, Trash keeps newest/above-cut records, '
             'DelTop restores reads) on small constants; TLC-generated histories are replayed into the real '
             'common/db MVCC helper (memdb and LevelDB) with prefix-related key concretisation, comparing the whole '
             'read table after every step; seeded random recordings of the real helper over a larger alphabet are '
             'validated against the trace specification.',
        note='Assumes values are non-empty (an empty value is the delete marker of the list helper); versions are added '
             'consecutively and removed from the top as the kvmvcc plugin does; TLC bounds: 3-4 keys, 4 versions.',
    ),
}


def run(ctx):
    q = ctx.tier == 'quick'
    ctx.rule = ('behaviours = TLC simulation of MVCC.tla (AddVersion/DelTop/Trash) with the full read table compared after '
                'every step; non-trivial = two keys first written at different versions (prefix-related after concretisation) '
                'or a Trash after some key has >=2 records; distinct by abstract action sequence')
    ctx.assumptions += ['values non-empty', 'hash function / LevelDB trusted', 'TLC bounds: Keys<=4, MaxVer=4']
    ctx.tlc_mc('MVCC_MC', 'MVCC_MC.cfg' if not q else 'MVCC_MCq.cfg', workers=8, timeout=1200)
    b = vlib.build(DRIVER)
    n = 400 if q else 4000
    bs = ctx.tlc_sim('MVCC_MC', 'MVCC_Gen.cfg', num=n, depth=9)
    # exhaustive leg: every history of 5 operations over 2 keys / 3 versions, under several key pairings
    allb = ctx.tlc_genall('MVCC_All', 'MVCC_All.cfg')
    for salt in range(1, 3 if q else 9):
        ctx.replay(b, allb, opts=dict(db='mem', salt=salt), par=8, count=(salt == 1))
    ctx.exhaustive = False  # exhaustive over the abstract histories of the small config, sampled concretisation
    ctx.extra['exhaustive_small_config'] = dict(cfg='MVCC_All.cfg', behaviours=len(allb))
    for db in ('mem', 'leveldb'):
        ctx.replay(b, bs if db == 'mem' else bs[:len(bs) // 4], opts=dict(db=db), par=8, count=(db == 'mem'))
    # the iterating variant (MVCCIter: Add/Del keep a last-value index, compared with the model's newest
    # live record per key) and the executor's versioned state reader (executor.StateDB, hook VerifEnableMVCC)
    ctx.replay(b, bs, opts=dict(db='mem', iter=1), par=8, count=False)
    ctx.replay(b, allb, opts=dict(db='mem', iter=1, salt=3), par=8, count=False)
    ctx.replay(b, bs, opts=dict(db='mem', statedb=1), par=8, count=False)
    ctx.replay(b, allb, opts=dict(db='mem', statedb=1, salt=4), par=8, count=False)
    if not q:
        for sd in range(1, 4):
            bs2 = ctx.tlc_sim('MVCC_MC', 'MVCC_Gen.cfg', num=n, depth=9, seed=ctx.seed * 100 + sd)
            ctx.replay(b, bs2, opts=dict(db='mem', salt=sd), par=8)
    ctx.validate_recording(b, 'MVCC_Trace', 'MVCC_Trace.cfg', opts=dict(n=20 if q else 200, keys=8, maxver=8, depth=40),
                           selftest=True)


import vlib  # noqa: E402
