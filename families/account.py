"""C15 — assets are conserved and balances never go negative (account.DB). Family Account, reference model."""
import os

FAMILY = 'Account'
DRIVER = 'account'
PROPS = {
    'C15': dict(
        text='TLC exhaustively checks the ledger reference model Account.tla (3 users, 2 executors, amounts at 0 / 1 / '
             'per-operation limit-1 / limit, initial ledgers at the balance limit and near the int64 range): invariants '
             'NonNeg, NoOverflow, SupplyOK (supply = initial + minted/issued/granted - burned), ExecIdentity (executor '
             'address balance = sum of balance+frozen held under it, modulo explicit raw deposits) and the action '
             'properties SupplyRule, DepRule, ErrNoChange, Separation. TLC-generated behaviours (simulation plus an '
             'exhaustive export of every operation x spelling combination x amount from every initial ledger) are '
             'replayed into the real account.DB (coins and token ledger) over a memdb KV; after every operation the '
             'balance/frozen of every account is read back under every letter-case spelling (LoadAccount / '
             'LoadExecAccount), the raw store is checked for records under non-canonical keys and for changes made by '
             'a failed call. Seeded random recordings (6 users, 3 executors, 50 operations, finer amount unit) are '
             'validated by the trace specification with all invariants evaluated at every step.',
        note='Amounts are scaled (unit 1e16 in TLC runs, 1e14 in recordings) so that MaxCoin*precision, MaxTokenBalance '
             'and MaxInt64 fit TLC integers; off-by-less-than-a-unit amounts are not explored. Only ok/err is compared, '
             'not error codes or receipts. Assumed: genesis amounts >= 0 and GenesisInitExec amounts within the '
             'per-operation rule (the code panics otherwise); executor addresses are passed in canonical spelling; '
             'users never coincide with executor addresses. Sub-ledger values between MaxTokenBalance and MaxInt64 are '
             'accepted as the code does. TLC bounds: all operations to depth 3 (3 users/2 executors) and depth 6 (2 users/1 '
             'executor); the conserving operations (transfers, freeze/activate) to depth 6 on 3 users/2 executors.',
    ),
}

# defect repairs in /repo found by this check (see known_findings.json, status=fixed)
FIX_COMMITS = ['f83a938', '3fbc944', '436f599']
HOOK_COMMITS = []


def _selftest_replay(ctx, binary, bs):
    """Anti-vacuity of binding A: a behaviour with one flipped predicted result must be rejected by the replayer."""
    import copy
    for b in bs:
        for i, s in enumerate(b['steps'][1:], 1):
            if s.get('ret') == 'ok' and s.get('op') in ('Transfer', 'ExecTransfer', 'TransferToExec', 'ExecDeposit', 'Mint'):
                bad = copy.deepcopy(b)
                bad['id'] = 'selftest-' + b['id']
                bad['steps'][i]['ret'] = 'err'
                n0 = len(ctx.mismatches)
                ctx.replay(binary, [bad], opts=dict(ledger='coins'), par=1, count=False, name='selftest.ndjson')
                new = ctx.mismatches[n0:]
                del ctx.mismatches[n0:]
                for m in new:
                    try:
                        os.remove(m.get('replay') or '')
                    except OSError:
                        pass
                if not new:
                    raise vlib.Broken('binding self-test failed: a behaviour with a flipped result was accepted by the replayer')
                ctx.extra['selftest_flipped_result_rejected'] = True
                return
    ctx.notes.append('replay selftest: no suitable step found')


def run(ctx):
    q = ctx.tier == 'quick'
    ctx.rule = ('behaviours = TLC simulation of Account.tla from 5 initial ledgers (empty, main ledger at the balance limit, '
                'executor at the balance limit, moderately funded, sub-ledger near the int64 range) with every address '
                'argument carrying a spelling (hex users: lower/upper/mixed), plus the exhaustive export of every single '
                'operation (thorough: every pair) over 2 users/1 executor; whole ledger compared under every spelling '
                'after every step. non-trivial = one operation naming one account under two spellings, or one account '
                'addressed under >= 2 spellings across successful operations, or an error caused by a limit / missing '
                'funds with a valid amount; distinct by abstract action sequence')
    ctx.assumptions += ['amounts are multiples of the model unit (1e16 / 1e14 base units)',
                        'genesis amounts >= 0; GenesisInitExec amounts within the per-operation rule',
                        'executor addresses in canonical spelling; users are not executor addresses',
                        'only ok/err compared (no error codes, receipts)',
                        'TLC bounds: 3 users x 2 executors depth 3 (all operations) / depth 6 (conserving operations); 2 users x 1 executor depth 6']
    # 1. the property on the model
    if q:
        ctx.tlc_mc('Account_MC', 'Account_MCq.cfg', workers=4, timeout=3600)
    else:
        r = ctx.tlc_mc('Account_MC', 'Account_MCq.cfg', workers=4, timeout=7200, coverage=True, count=False)
        if r.get('zero_actions'):
            raise vlib.Broken('vacuous model: actions never taken: %s' % r['zero_actions'][:5])
        ctx.tlc_mc('Account_MC', 'Account_MC.cfg', workers=4, timeout=14400)
        ctx.tlc_mc('Account_MC', 'Account_MCd.cfg', workers=4, timeout=14400)
        ctx.tlc_mc('Account_MC', 'Account_MCt.cfg', workers=4, timeout=14400)
    b = vlib.build(DRIVER)
    # 2. exhaustive export: every operation x spelling combination x amount from every initial ledger
    all1 = ctx.tlc_genall('Account_All', 'Account_All1.cfg', timeout=3600)
    ctx.replay(b, all1, opts=dict(ledger='coins'), par=8, timeout=3600)
    ctx.replay(b, all1, opts=dict(ledger='token', salt=1), par=8, timeout=3600, count=False)
    ctx.extra['exhaustive_small_config'] = dict(cfg='Account_All1.cfg', behaviours=len(all1))
    if not q:
        all2 = ctx.tlc_genall('Account_All', 'Account_All2.cfg', timeout=14400)
        ctx.replay(b, all2, opts=dict(ledger='coins'), par=8, timeout=7200)
        ctx.extra['exhaustive_pairs_config'] = dict(cfg='Account_All2.cfg', behaviours=len(all2))
    ctx.exhaustive = False  # exhaustive over the abstract histories of the small configs, sampled concretisation
    # 3. simulated behaviours of the full configuration
    n = 500 if q else 1500
    bs = ctx.tlc_sim('Account_MC', 'Account_Gen.cfg', num=n, depth=9, timeout=3600)
    ctx.replay(b, bs, opts=dict(ledger='coins'), par=8, timeout=3600)
    ctx.replay(b, bs[:len(bs) // 2], opts=dict(ledger='token', salt=2), par=8, timeout=3600, count=False)
    if not q:
        for sd in range(1, 4):
            bs2 = ctx.tlc_sim('Account_MC', 'Account_Gen.cfg', num=n, depth=9, seed=ctx.seed * 100 + sd, timeout=3600)
            ctx.replay(b, bs2, opts=dict(ledger='coins' if sd % 2 else 'token', salt=sd), par=8, timeout=3600)
        _selftest_replay(ctx, b, bs)
    # 4. recorded random histories of the real ledger validated by the trace specification
    ctx.validate_recording(b, 'Account_Trace', 'Account_Trace.cfg',
                           opts=dict(n=20 if q else 300, users=6, execs=3, depth=50, unit='1e14'),
                           selftest=True, timeout=7200)
    if not q:
        ctx.validate_recording(b, 'Account_Trace', 'Account_Trace.cfg',
                               opts=dict(n=200, users=6, execs=3, depth=50, unit='1e14', ledger='token', rsalt=1),
                               selftest=False, timeout=7200)


import vlib  # noqa: E402
